"""C13 — every event loop honours the alarm / watch / idle / exception contract.
Spec: spec/EventLoop.tla (scenario generator + abstract loop) over spec/EventLoopOps.tla (contract
monitor); trace spec: spec/EventLoopTrace.tla; environment doubles: vf/loops.py."""
from __future__ import annotations

import concurrent.futures as cf
import contextlib
import io
import json

from .. import loops, tlc

EXIT_DELAY_MS = 100
MAXA = 8
MAXI = 5        # MaxI of EventLoopOps.tla: enter_idle() calls per scenario
BUSY_MS = 15    # BusyD of EventLoop.tla: a busy start-up period / a slow callback


def run_scenario(loop_name, scn, max_waits=400):
    """Run one scenario on one real event loop under the virtual clock; return the trace."""
    import urwid

    na, nf, ni = len(scn["alarms"]), len(scn["watches"]), len(scn["idles"])
    env = loops.Env({f + 1: w["at"] for f, w in enumerate(scn["watches"]) if w["at"] < 9000}, max_waits=max_waits)
    env.fd0 = bool(scn.get("fd0"))      # present watched descriptor 1 as file descriptor 0 (where the loop's double allows it)
    ad = loops.ADAPTERS[loop_name](env)
    state = {"nextid": na + 2, "nextidle": ni + 1, "alarm_h": {}, "watch_h": {}, "idle_h": {}, "wgen": {}, "watched": set()}
    outcome = {"t": "run_end", "outcome": "return", "exc": ""}
    running = [False]
    try:
        loop = ad.make()

        def sync():
            if hasattr(ad, "sync"):
                ad.sync()

        def tgt_of(kind, me, own, n):
            """Tgt of EventLoop.tla: a callback of the same kind aims at its successor, the k-th call before run() at the k-th, others at the first."""
            if n == 0:
                return 0
            return (me % n) + 1 if kind == own else ((me - 1) % n) + 1 if kind == "pre" else 1

        def call(name, fn, *a):
            """A call of the loop's API made by the program outside any callback: if the call itself raises, that is what is recorded."""
            if running[0]:
                return True, fn(*a)
            try:
                return True, fn(*a)
            except Exception as ex:  # noqa: BLE001
                env.log(t="call_failed", call=name, exc=type(ex).__name__)
                return False, None

        def remove_idle(tgt):
            if tgt in state["idle_h"]:
                ok, ret = call("remove_idle", loop.remove_enter_idle, state["idle_h"][tgt])
                if ok:
                    env.log(t="remove_idle", id=tgt, ret=bool(ret))

        def add_idle():
            if state["nextidle"] <= MAXI:
                i = state["nextidle"]
                state["nextidle"] += 1
                reg_idle(i, "noop")

        def remove_watch(tgt):
            ok, ret = call("remove_watch", loop.remove_watch_file, state["watch_h"][tgt])
            if ok:
                state["watched"].discard(tgt)
                env.log(t="remove_watch", fd=tgt, ret=bool(ret))
            return ok

        def do(beh, kind, me):
            if beh in ("addAlarm", "addAlarm0"):
                if state["nextid"] <= MAXA:
                    i = state["nextid"]
                    state["nextid"] += 1
                    reg_alarm(i, 0 if beh == "addAlarm0" else 10, "noop")
            elif beh == "slowAddAlarm0":     # a slow callback (alarms due meanwhile are overdue now) that then asks for a zero-delay alarm
                ad.slow(BUSY_MS)
                if state["nextid"] <= MAXA:
                    i = state["nextid"]
                    state["nextid"] += 1
                    reg_alarm(i, 0, "noop")
            elif beh == "addIdle":      # enter_idle() from within a callback (or before run(), after removals)
                add_idle()
            elif beh == "replaceIdle":  # one idle callback is dropped and a new one registered in its place
                remove_idle(tgt_of(kind, me, "idle", ni))
                add_idle()
            elif beh.startswith(("removeIdle:", "replaceIdle:")):      # one particular idle callback (directed scenarios)
                remove_idle(int(beh.split(":")[1]))
                if beh.startswith("replaceIdle:"):
                    add_idle()
            elif beh == "rewatch":      # the descriptor is watched again (a new watch with a callback of its own) after its watch, if any, was removed
                tgt = tgt_of(kind, me, "watch", nf)
                if tgt:
                    if tgt not in state["watched"] or remove_watch(tgt):
                        reg_watch(tgt, "noop")
            elif beh.startswith("removeAlarm:"):      # remove one particular alarm (directed scenarios)
                tgt = int(beh.split(":")[1])
                ok, ret = call("remove_alarm", loop.remove_alarm, state["alarm_h"][tgt])
                if ok:
                    env.log(t="remove_alarm", id=tgt, ret=bool(ret))
            elif beh in ("removeAlarm", "removeAlarmTwice"):
                tgt = tgt_of(kind, me, "alarm", na)
                for _ in range(2 if beh == "removeAlarmTwice" else 1):
                    ok, ret = call("remove_alarm", loop.remove_alarm, state["alarm_h"][tgt])
                    if ok:
                        env.log(t="remove_alarm", id=tgt, ret=bool(ret))
            elif beh == "removeWatch":
                tgt = tgt_of(kind, me, "watch", nf)
                if tgt in state["watch_h"]:
                    remove_watch(tgt)
            elif beh == "removeSelfWatch" and kind == "watch":
                remove_watch(me)
            elif beh == "removeIdle":
                remove_idle(tgt_of(kind, me, "idle", ni))
            elif beh == "slow":
                ad.slow(BUSY_MS)
            elif beh == "exit":
                env.log(t="raise", kind="exit")
                raise urwid.ExitMainLoop()
            elif beh == "error":
                env.log(t="raise", kind="error")
                raise loops.VfError("scripted")
            elif beh == "base":         # a BaseException that is not an Exception (what KeyboardInterrupt, SystemExit, CancelledError are)
                env.log(t="raise", kind="base")
                raise loops.VfBase("scripted")

        def reg_alarm(i, delay_ms, beh):
            def cb():
                sync()
                env.log(t="alarm_cb", id=i, now=env.us())
                do(beh, "alarm", i)

            env.log(t="reg_alarm", id=i, delay=delay_ms * 1000)
            _, state["alarm_h"][i] = call("alarm", loop.alarm, delay_ms / 1000.0, cb)

        def reg_watch(f, beh):
            gen = state["wgen"][f] = state["wgen"].get(f, 0) + 1      # each watch_file() call is a watch of its own

            def cb():
                sync()
                env.log(t="watch_cb", fd=f, gen=gen, now=env.us())
                env.readable.discard(f)
                env.log(t="drain", fd=f)
                do(beh, "watch", f)

            env.log(t="reg_watch", fd=f, gen=gen)
            ok, h = call("watch_file", loop.watch_file, ad.fd(f), cb)
            if ok:
                state["watch_h"][f] = h
                state["watched"].add(f)

        def reg_idle(i, beh):
            def cb():
                sync()
                env.log(t="idle_cb", id=i, now=env.us())
                do(beh, "idle", i)

            env.log(t="reg_idle", id=i)
            _, state["idle_h"][i] = call("enter_idle", loop.enter_idle, cb)

        for i, a in enumerate(scn["alarms"], 1):
            reg_alarm(i, a["delay"], a["beh"])
            if scn.get("busy", 0) == i:      # busy start-up before run(): the alarms registered so far may be overdue when the next ones come
                ad.slow(BUSY_MS)
        reg_alarm(na + 1, scn.get("exit_ms", EXIT_DELAY_MS), "exit")
        for f, w in enumerate(scn["watches"], 1):
            reg_watch(f, w["beh"])
        for i, b in enumerate(scn["idles"], 1):
            reg_idle(i, b)
        for k, b in enumerate(scn.get("pre", ()), 1):      # the program goes on calling the API before run()
            do(b, "pre", k)
        running[0] = True
        try:
            with contextlib.redirect_stdout(io.StringIO()):  # TwistedEventLoop prints sys.exc_info() on errors
                loop.run()
            if getattr(ad, "stuck", False):
                outcome["outcome"] = "stuck"
        except loops.Stuck:
            outcome["outcome"] = "stuck"
        except BaseException as ex:  # noqa: BLE001
            outcome["outcome"] = "raise"
            outcome["exc"] = type(ex).__name__
            if scn.get("rerun") and isinstance(ex, (loops.VfError, loops.VfBase)) and loop_name in ("select", "asyncio", "zmq", "tornado") and state["nextid"] <= MAXA:
                # the same loop object is run again: the error of the first run must not come back
                env.log(t="run_end", outcome="raise", exc=type(ex).__name__)
                env.log(t="rerun")
                running[0] = False
                reg_alarm(state["nextid"], 10, "exit")      # an identifier of its own (callbacks of the second run may add alarms too)
                running[0] = True
                state["nextid"] += 1
                outcome = {"t": "run_end", "outcome": "return", "exc": ""}
                try:
                    with contextlib.redirect_stdout(io.StringIO()):
                        loop.run()
                except loops.Stuck:
                    outcome["outcome"] = "stuck"
                except BaseException as ex2:  # noqa: BLE001
                    outcome["outcome"] = "raise"
                    outcome["exc"] = type(ex2).__name__
                ex = None
            if isinstance(ex, BaseExceptionGroup):
                leaves = []

                def flat(g):
                    for x in g.exceptions:
                        flat(x) if isinstance(x, BaseExceptionGroup) else leaves.append(x)

                flat(ex)
                if leaves and all(isinstance(x, (loops.VfError, loops.VfBase)) for x in leaves):
                    outcome["exc"] = type(leaves[0]).__name__  # several callbacks raised in one tick: a group of exactly what they raised
            outcome["msg"] = str(ex)[:120]
    finally:
        ad.close()
    env.log(**outcome)
    return {"loop": loop_name, "scn": scn, "ev": env.ev}


def scn_from_state(st):
    sc = st["scn"]
    return {"alarms": [{"delay": a["delay"], "beh": a["beh"]} for a in sc["alarms"]],
            "watches": [{"at": w["at"], "beh": w["beh"]} for w in sc["watches"]],
            "idles": list(sc["idles"]), "busy": int(sc["busy"]), "pre": list(sc["pre"]), "fd0": (len(sc["alarms"]) + len(sc["watches"])) % 2 == 0}


ABEH = ["noop", "addAlarm", "addAlarm0", "slowAddAlarm0", "addIdle", "replaceIdle", "removeAlarm", "removeAlarmTwice", "removeWatch", "rewatch",
        "removeIdle", "slow", "exit", "error", "base"]
WBEH = ["noop", "addAlarm0", "slowAddAlarm0", "addIdle", "replaceIdle", "removeWatch", "removeSelfWatch", "rewatch", "removeAlarm", "slow", "error", "base"]
IBEH = ["noop", "removeIdle", "error", "base"]
PRE = ["removeIdle", "addIdle", "replaceIdle", "rewatch", "removeWatch", "removeAlarm"]


def random_scn(rng):
    na, nf, ni = rng.randint(1, 5), rng.randint(0, 3), rng.choice([0, 0, 1, 2, 3])
    return {"alarms": [{"delay": rng.choice([0, 0, 10, 10, 20, 30, 50]), "beh": rng.choice(ABEH + ["noop", "slow"])} for _ in range(na)],
            "watches": [{"at": rng.choice([9999, 0, 0, 10, 15, 25]), "beh": rng.choice(WBEH + ["noop", "exit"])} for _ in range(nf)],
            "idles": [rng.choice(IBEH + ["noop", "noop", "exit", "slow"]) for _ in range(ni)], "fd0": rng.random() < 0.5,
            "rerun": rng.random() < 0.4, "busy": rng.choice([0, 0] + list(range(1, na + 1))),
            "pre": [rng.choice(PRE) for _ in range(rng.choice([0, 0, 0, 1, 2]))]}


def heap_scns(rng, n):
    """Alarm heaps: six alarms with distinct due times in a random registration order plus the run-ending alarm due in the MIDDLE
    of them (seven entries), and a descriptor readable at once whose callback removes one particular alarm while all are pending:
    a loop that keeps its own alarm heap has to keep it a heap, one that delegates has to cancel the right timer."""
    out = []
    for _ in range(n):
        delays = rng.sample(range(10, 100, 10), 6)
        tgt = rng.randint(1, 6)
        out.append({"alarms": [{"delay": d, "beh": "noop"} for d in delays], "watches": [{"at": 0, "beh": f"removeAlarm:{tgt}"}], "idles": [],
                    "fd0": False, "rerun": False, "exit_ms": rng.choice([35, 35, 55])})
    return out


def overdue_scns(rng, n):
    """Zero-delay alarms registered while an alarm with a positive delay is already overdue (and control cases where it is not quite):
    the program was busy for BUSY_MS before run() between two registrations, or a callback (alarm or descriptor) took BUSY_MS and then
    asked for a zero-delay alarm.  The new alarm is due *now*, i.e. after everything that is overdue; a loop that hands zero-delay
    alarms to a ready queue instead of its timers serves it first.  Other alarms, idle callbacks and removals are mixed in."""
    out = []
    for _ in range(n):
        mode = rng.choice(["startup", "alarm", "watch"])
        extra = [{"delay": rng.choice([0, 10, 20, 30, 40]), "beh": rng.choice(["noop", "noop", "slow", "addAlarm0", "removeAlarm"])}
                 for _ in range(rng.randint(0, 2))]
        sc = {"watches": [], "idles": [rng.choice(["noop", "removeIdle"]) for _ in range(rng.choice([0, 1, 2]))], "fd0": rng.random() < 0.5,
              "rerun": False, "busy": 0}
        if mode == "startup":
            early = [{"delay": rng.choice([5, 10, 15, 20]), "beh": "noop"} for _ in range(rng.randint(1, 2))]
            late = [{"delay": rng.choice([0, 0, 5]), "beh": rng.choice(["noop", "addAlarm0"])} for _ in range(rng.randint(1, 2))]
            sc["alarms"] = early + late + extra
            sc["busy"] = len(early)
        else:
            t = rng.choice([0, 10, 20])
            over = [{"delay": t + rng.choice([0, 5, 10, 15, 20]), "beh": "noop"} for _ in range(rng.randint(1, 2))]
            if mode == "alarm":
                sc["alarms"] = [{"delay": t, "beh": "slowAddAlarm0"}] + over + extra
            else:
                sc["alarms"] = over + extra
                sc["watches"] = [{"at": t, "beh": "slowAddAlarm0"}]
            rng.shuffle(sc["alarms"])
        out.append(sc)
    return out


def late_idle_scns(rng, n):
    """Idle callbacks that appear late: the loop starts with no idle callback (or its only one removes itself at the first pass), has
    been through idle passes with nothing to call, and then a callback calls enter_idle(); after the callbacks that follow, the new
    idle callback must run before the loop sleeps."""
    out = []
    for _ in range(n):
        t = rng.choice([0, 10, 20])
        later = [{"delay": t + rng.choice([10, 20, 30]), "beh": rng.choice(["noop", "noop", "slow", "addAlarm0"])} for _ in range(rng.randint(1, 2))]
        sc = {"alarms": [{"delay": rng.choice([0, t]), "beh": "noop"}] if t else [], "watches": [], "idles": rng.choice([[], [], ["removeIdle"]]),
              "fd0": rng.random() < 0.5, "rerun": False, "busy": 0}
        if rng.random() < 0.5:
            sc["alarms"] += [{"delay": t, "beh": "addIdle"}] + later
        else:
            sc["alarms"] += later
            sc["watches"] = [{"at": t, "beh": "addIdle"}]
        if rng.random() < 0.4:
            sc["watches"].append({"at": t + rng.choice([5, 15, 25]), "beh": "noop"})
        out.append(sc)
    return out


def removed_watch_scns(rng, n):
    """A watch removed (by an alarm, by another descriptor's callback, by itself) before its descriptor becomes readable (again): the
    callback must not run any more.  Half of the scenarios present watched descriptor 1 as file descriptor 0 (stdin, what urwid's
    screens watch) on the loops whose double allows it."""
    out = []
    for _ in range(n):
        at = rng.choice([10, 15, 25])
        sc = {"alarms": [{"delay": rng.choice([0, 0, 10]) if at > 10 else 0, "beh": "removeWatch"}], "watches": [{"at": at, "beh": rng.choice(["noop", "slow"])}],
              "idles": ["noop"] * rng.randint(0, 1), "fd0": rng.random() < 0.5, "rerun": False, "busy": 0}
        if rng.random() < 0.5:      # a second descriptor, readable earlier, whose callback removes the first watch (removeWatch from watch 2 targets watch 1)
            sc["alarms"][0]["beh"] = rng.choice(["noop", "removeWatch"])
            sc["watches"].append({"at": rng.choice([0, 0, 10]) if at > 10 else 0, "beh": "removeWatch"})
        for _ in range(rng.randint(0, 2)):
            sc["alarms"].append({"delay": rng.choice([0, 10, 20, 30]), "beh": rng.choice(["noop", "slow", "removeWatch"])})
        out.append(sc)
    return out


def rewatch_scns(rng, n):
    """Two or three descriptors that become readable at the SAME moment (one loop iteration is told about all of them); a callback that
    runs takes another descriptor over: removes its watch and watches it again (a new watch with a callback of its own).  The callback
    of the removed watch must not run any more, the new one has to.  Alarms due at that moment (which may do the same), plain
    removals, idle callbacks and a re-watch before run() around it."""
    out = []
    for _ in range(n):
        at = rng.choice([0, 0, 10, 15])
        nf = rng.choice([2, 2, 3])
        ws = [{"at": at, "beh": rng.choice(["rewatch", "rewatch", "noop", "removeWatch", "slow"])} for _ in range(nf)]
        ws[rng.randrange(nf)]["beh"] = "rewatch"
        if rng.random() < 0.3:
            ws[-1]["at"] = rng.choice([9999, at + 10])
        alarms = [{"delay": rng.choice([0, at, at, at + 10, 30]), "beh": rng.choice(["noop", "noop", "rewatch", "removeWatch", "slow"])}
                  for _ in range(rng.randint(0, 2))]
        out.append({"alarms": alarms, "watches": ws, "idles": ["noop"] * rng.randint(0, 1), "fd0": rng.random() < 0.5, "rerun": False, "busy": 0,
                    "pre": rng.choice([[], [], [], ["rewatch"], ["removeWatch", "rewatch"]])})
    return out


def raise_scns(rng, n):
    """One callback (alarm, descriptor, idle) raises -- an Exception, or a BaseException that is not one -- while the session has more
    to come (later alarms, a descriptor that becomes readable later): the loop must stop there and run() must raise that exception."""
    out = []
    for _ in range(n):
        kind = rng.choice(["base", "base", "error"])
        where = rng.choice(["alarm", "watch", "idle"])
        t = rng.choice([0, 10, 20])
        alarms = [{"delay": t + rng.choice([10, 20, 30]), "beh": rng.choice(["noop", "slow", "addAlarm0"])} for _ in range(rng.randint(1, 2))]
        watches, idles = [], ["noop"] * rng.randint(0, 1)
        if where == "alarm":
            alarms.append({"delay": t, "beh": kind})
        elif where == "watch":
            watches.append({"at": t, "beh": kind})
        else:
            idles.insert(rng.randint(0, len(idles)), kind)
            alarms.append({"delay": t, "beh": "noop"})
        if rng.random() < 0.5:
            watches.append({"at": t + rng.choice([5, 15]), "beh": "noop"})
        rng.shuffle(alarms)
        out.append({"alarms": alarms, "watches": watches, "idles": idles, "fd0": rng.random() < 0.5, "rerun": rng.random() < 0.3, "busy": 0, "pre": []})
    return out


def idle_churn_scns(rng, n):
    """Idle callbacks come and go: two or three at the start, then some are removed and new ones registered -- before run() and from
    alarm / descriptor callbacks, as two calls or in one callback, any of the registered ones being the one removed -- with callbacks
    after every change: each registered idle callback has to run after them, no removed one may."""
    out = []
    for _ in range(n):
        ni = rng.choice([2, 2, 3])

        def change():
            return rng.choice(["removeIdle", "addIdle", "replaceIdle", f"removeIdle:{rng.randint(1, ni)}", f"replaceIdle:{rng.randint(1, ni + 1)}"])

        pre = [change() for _ in range(rng.choice([0, 0, 1, 2, 3]))]
        times = sorted(rng.sample([0, 10, 20, 30, 40, 50, 60], rng.randint(2, 5)))
        alarms, watches = [], []
        for t in times:
            b = rng.choice([change(), change(), "noop"])
            if rng.random() < 0.3 and len(watches) < 3:
                watches.append({"at": t, "beh": b})
            else:
                alarms.append({"delay": t, "beh": b})
        if not alarms:
            alarms.append({"delay": 70, "beh": "noop"})
        out.append({"alarms": alarms, "watches": watches, "idles": [rng.choice(["noop", "noop", "noop", "removeIdle"]) for _ in range(ni)],
                    "fd0": rng.random() < 0.5, "rerun": False, "busy": 0, "pre": pre})
    return out


def overdue_count(tr):
    """Vacuity counter (not a verdict): registrations of a zero-delay alarm while an alarm with a positive delay and an EARLIER due time is pending, i.e. overdue."""
    now, pend, n, running = 0, {}, {"startup": 0, "callback": 0}, False
    for e in tr["ev"]:
        t = e["t"]
        running = running or t in ("wait", "alarm_cb", "watch_cb", "idle_cb")
        if t == "slow":
            now += e["d"]
        elif t == "advance":
            now = max(now, e["to"])
        elif t in ("alarm_cb", "watch_cb", "idle_cb"):
            now = max(now, e["now"])
            if t == "alarm_cb":
                pend.pop(e["id"], None)
        elif t == "remove_alarm":
            pend.pop(e["id"], None)
        elif t == "reg_alarm":
            if e["delay"] == 0 and any(due < now and delay > 0 for due, delay in pend.values()):
                n["callback" if running else "startup"] += 1
            pend[e["id"]] = (now + e["delay"], e["delay"])
    return n


def family_counts(tr):
    """Vacuity counters (not a verdict): enter_idle() from a callback while no idle callback is registered; a watch removed before its
    descriptor became readable, which then does become readable (on descriptor 0 / another descriptor)."""
    n = {"idle_registered_late_with_none_active": 0, "watch_removed_then_readable": 0, "watch_removed_then_readable.fd0": 0,
         "ready_descriptor_rewatched_by_another_ready_one": 0, "rewatched_descriptor_callback": 0,
         "idle_registered_after_removal.startup": 0, "idle_registered_after_removal.callback": 0, "idle_callback_after_churn": 0,
         "raise.base.alarm_cb": 0, "raise.base.watch_cb": 0, "raise.base.idle_cb": 0}
    active, removed, running = set(), set(), False
    told, readable, cur, idle_gone, churned = set(), set(), None, False, False
    fd0 = bool(tr["scn"].get("fd0")) and loops.ADAPTERS[tr["loop"]].zero_ok
    for e in tr["ev"]:
        t = e["t"]
        running = running or t in ("wait", "alarm_cb", "watch_cb", "idle_cb")
        if t in ("alarm_cb", "watch_cb", "idle_cb"):
            cur = e
        if t in ("wait", "woke") and e["ready"]:
            told = set(e["ready"])      # the descriptors the loop was told are ready, all at once
        elif t == "env_readable":
            readable.add(e["fd"])
        elif t == "drain":
            readable.discard(e["fd"])
        if t == "reg_watch" and e["gen"] > 1 and cur and cur["t"] == "watch_cb" and cur["fd"] != e["fd"] and {cur["fd"], e["fd"]} <= told and e["fd"] in readable:
            n["ready_descriptor_rewatched_by_another_ready_one"] += 1
        elif t == "watch_cb" and e["gen"] > 1:
            n["rewatched_descriptor_callback"] += 1
        elif t == "raise" and e["kind"] == "base" and cur:
            n["raise.base." + cur["t"]] += 1
        elif t == "idle_cb" and churned:
            n["idle_callback_after_churn"] += 1
        if t == "reg_idle":
            if running and not active:
                n["idle_registered_late_with_none_active"] += 1
            if idle_gone and active:      # an earlier idle callback was removed, others are still registered: a new handle among live ones
                n["idle_registered_after_removal." + ("callback" if running else "startup")] += 1
                churned = True
            active.add(e["id"])
        elif t == "remove_idle":
            idle_gone = idle_gone or e["id"] in active
            active.discard(e["id"])
        elif t == "remove_watch":
            removed.add(e["fd"])
        elif t == "env_readable" and e["fd"] in removed:
            n["watch_removed_then_readable" + (".fd0" if fd0 and e["fd"] == 1 else "")] += 1
    return n


def _q(xs):
    return "{" + ", ".join(f'"{x}"' if isinstance(x, str) else str(x) for x in xs) + "}"


MC_CFG = """CONSTANTS NA = {na} NF = {nf} NI = {ni} Bad = "{bad}"
Delays = {delays}
Ats = {ats}
ABeh = {abeh}
WBeh = {wbeh}
IBeh = {ibeh}
Busy = {busy}
Pre = {pre} MaxPre = {maxpre}
SPECIFICATION Spec
INVARIANT ContractHolds
INVARIANT Terminates
CHECK_DEADLOCK FALSE
"""

LOOPS = ["select", "asyncio", "tornado", "twisted", "zmq", "trio"]


def sig_of(tr, l):
    e = tr["ev"][l - 1]
    behs = sorted({a["beh"] for a in tr["scn"]["alarms"]} | {w["beh"] for w in tr["scn"]["watches"]} | set(tr["scn"]["idles"]))
    in_cb = None
    for x in reversed(tr["ev"][:l - 1]):
        if x["t"] in ("alarm_cb", "watch_cb", "idle_cb"):
            in_cb = x["t"]
            break
    return {"loop": tr["loop"], "event": e["t"], "outcome": e.get("outcome", ""), "exc": e.get("exc", ""), "last_callback": in_cb,
            "idle_raises": any(b in ("error", "exit") for b in tr["scn"]["idles"]), "idle_removes_idle": "removeIdle" in tr["scn"]["idles"],
            "behaviours": behs}


def _handle(chk, traces, res, label):
    for ti, l, why in res.rejects:
        tr = traces[ti]
        chk.reject(f"C13.{why}", sig_of(tr, l), {"driver": label, "loop": tr["loop"], "scn": tr["scn"], "events_up_to_rejection": tr["ev"][:l]})


def directed_traces(chk, names, quick):
    """The scenarios that do not come from TLC: seeded random ones and the directed families, run on the real loops."""
    rng = chk.rng
    n_rand = 60 if quick else 1500
    scns = [random_scn(rng) for _ in range(n_rand)]
    traces = []
    for sc in scns:
        for name in names:
            traces.append(run_scenario(name, sc))
    hs = heap_scns(rng, 100 if quick else 1500)
    for k, sc in enumerate(hs):
        for name in names:
            if name in ("select", "zmq") or k % 10 == 0:      # these two keep their own heap; the others delegate to their library's timers
                traces.append(run_scenario(name, sc))
    chk.cov["heap_scenarios"] = len(hs)
    ods = overdue_scns(rng, 40 if quick else 1500)
    for sc in ods:
        for name in names:
            traces.append(run_scenario(name, sc))
    chk.cov["overdue_scenarios"] = len(ods)
    lis, rws = late_idle_scns(rng, 20 if quick else 600), removed_watch_scns(rng, 20 if quick else 600)
    for sc in lis + rws:
        for name in names:
            traces.append(run_scenario(name, sc))
    chk.cov["late_idle_scenarios"], chk.cov["removed_watch_scenarios"] = len(lis), len(rws)
    fams = {"rewatch_scenarios": rewatch_scns(rng, 30 if quick else 800), "raise_scenarios": raise_scns(rng, 24 if quick else 600),
            "idle_churn_scenarios": idle_churn_scns(rng, 30 if quick else 800)}
    for fam, scs in fams.items():
        for sc in scs:
            for name in names:
                traces.append(run_scenario(name, sc))
        chk.cov[fam] = len(scs)
    chk.cov["random_scenarios"] = n_rand
    return traces


def run(chk, loops_to_run=None):
    quick = chk.tier == "quick"
    rng = chk.rng
    names = loops_to_run or LOOPS
    # ---- MC: the contract is satisfiable by a correct loop for every scenario; bad loops are refuted ----
    if quick:
        cfg = MC_CFG.format(na=2, nf=1, ni=2, bad="", delays=_q([0, 10]), ats=_q([9999, 0, 15]),
                            abeh=_q(["noop", "addAlarm", "addIdle", "removeAlarmTwice", "removeWatch", "removeIdle", "slow", "error"]),
                            wbeh=_q(["noop", "removeSelfWatch", "removeAlarm", "slow", "error"]), ibeh=_q(["noop", "removeIdle", "error"]), busy=_q([0]), pre=_q([]), maxpre=0)
        # zero-delay alarms against overdue alarms: busy start-up after any alarm, slow callbacks that register a zero-delay alarm
        cfg0 = MC_CFG.format(na=2, nf=1, ni=1, bad="", delays=_q([0, 10, 20]), ats=_q([0, 10]), abeh=_q(["noop", "addAlarm0", "slowAddAlarm0", "removeAlarm"]),
                             wbeh=_q(["noop", "slowAddAlarm0"]), ibeh=_q(["noop"]), busy=_q([0, 1, 2]), pre=_q([]), maxpre=0)
        # watches replaced while ready, idle callbacks replaced (before run() and from callbacks), both kinds of exception
        cfg1 = MC_CFG.format(na=1, nf=2, ni=2, bad="", delays=_q([10]), ats=_q([0, 15]), abeh=_q(["noop", "replaceIdle", "rewatch", "base"]),
                             wbeh=_q(["noop", "rewatch", "base"]), ibeh=_q(["noop", "base"]), busy=_q([0]),
                             pre=_q(["removeIdle", "addIdle", "rewatch"]), maxpre=2)
    else:
        zero = ("addAlarm0", "slowAddAlarm0", "replaceIdle", "rewatch", "base")     # these have their own exhaustive runs (cfg0, cfg1): the scenario spaces add up instead of multiplying
        # (two delays: before and after the descriptors' time; three delays with three alarms are in cfg0; 53 M states took 35 min on the loaded machine)
        cfg = MC_CFG.format(na=2, nf=2, ni=2, bad="", delays=_q([0, 20]), ats=_q([9999, 0, 15]), abeh=_q([b for b in ABEH if b not in zero]),
                            wbeh=_q([b for b in WBEH if b not in zero]), ibeh=_q(["noop", "removeIdle", "error"]), busy=_q([0]), pre=_q([]), maxpre=0)
        cfg0 = MC_CFG.format(na=3, nf=1, ni=1, bad="", delays=_q([0, 10, 20]), ats=_q([0, 10]),
                             abeh=_q(["noop", "addAlarm0", "slowAddAlarm0", "removeAlarm"]),
                             wbeh=_q(["noop", "slowAddAlarm0"]), ibeh=_q(["noop"]), busy=_q([0, 1, 2, 3]), pre=_q([]), maxpre=0)
        cfg1 = MC_CFG.format(na=2, nf=2, ni=2, bad="", delays=_q([0, 10]), ats=_q([0, 15]), abeh=_q(["noop", "replaceIdle", "rewatch", "base"]),
                             wbeh=_q(["noop", "rewatch", "base"]), ibeh=_q(["noop", "base"]), busy=_q([0]),
                             pre=_q(["removeIdle", "addIdle", "rewatch"]), maxpre=2)
    with cf.ThreadPoolExecutor(3) as ex:      # the exhaustive runs overlap (JVM start dominates on a loaded machine) ...
        f = ex.submit(tlc.mc, "EventLoop", cfg, workers=4 if quick else 6, timeout=3000, heap="12g")
        if quick:
            f0 = ex.submit(tlc.mc, "EventLoop", cfg0, workers=1, timeout=3000, heap="8g")
            f1 = ex.submit(tlc.mc, "EventLoop", cfg1, workers=1, timeout=3000, heap="8g")
        traces = directed_traces(chk, names, quick)      # ... and meanwhile the scenarios that need no TLC run on the real loops
        r = f.result()
        if not quick:      # the big run has had the machine's share to itself
            f0 = ex.submit(tlc.mc, "EventLoop", cfg0, workers=3, timeout=3000, heap="8g")
            f1 = ex.submit(tlc.mc, "EventLoop", cfg1, workers=3, timeout=3000, heap="8g")
        r0, r1 = f0.result(), f1.result()
    chk.add_mc("MC_EventLoop_contract_satisfiable", r)
    chk.add_mc("MC_EventLoop_zero_delay_vs_overdue_satisfiable", r0)
    chk.add_mc("MC_EventLoop_rewatch_idle_churn_base_exception_satisfiable", r1)
    for rr in (r, r0, r1):
        if not rr.ok:
            chk.reject("C13.model." + str(rr.violated), {"model": "EventLoop"}, {"tlc_trace": rr.trace[-5:]})
    refuted = {}

    def refute(bad):
        if bad == "zeroDelayFirst":
            cfgb = MC_CFG.format(na=2, nf=1, ni=1, bad=bad, delays=_q([0, 10]), ats=_q([9999, 0]), abeh=_q(["noop", "slowAddAlarm0"]),
                                 wbeh=_q(["noop", "slowAddAlarm0"]), ibeh=_q(["noop"]), busy=_q([0, 1]), pre=_q([]), maxpre=0)
        elif bad == "staleWatch":
            cfgb = MC_CFG.format(na=1, nf=2, ni=1, bad=bad, delays=_q([10]), ats=_q([0, 15]), abeh=_q(["noop"]), wbeh=_q(["noop", "rewatch", "removeWatch"]),
                                 ibeh=_q(["noop"]), busy=_q([0]), pre=_q([]), maxpre=0)
        elif bad == "swallowBase":
            cfgb = MC_CFG.format(na=1, nf=1, ni=1, bad=bad, delays=_q([0, 10]), ats=_q([9999, 0]), abeh=_q(["noop", "base"]), wbeh=_q(["noop", "base"]),
                                 ibeh=_q(["noop", "base"]), busy=_q([0]), pre=_q([]), maxpre=0)
        elif bad == "idleHandleReuse":
            cfgb = MC_CFG.format(na=2, nf=1, ni=2, bad=bad, delays=_q([0, 10]), ats=_q([9999]), abeh=_q(["noop", "removeIdle", "addIdle", "replaceIdle"]),
                                 wbeh=_q(["noop"]), ibeh=_q(["noop"]), busy=_q([0]), pre=_q(["removeIdle", "addIdle"]), maxpre=2)
        else:
            cfgb = MC_CFG.format(na=2, nf=2, ni=1, bad=bad, delays=_q([0, 10]), ats=_q([9999, 0]), abeh=_q(["noop", "slow", "removeWatch"]),
                                 wbeh=_q(["noop", "removeWatch", "slow"]), ibeh=_q(["noop"]), busy=_q([0]), pre=_q([]), maxpre=0)
        return bad, tlc.mc("EventLoop", cfgb, workers=1, timeout=900)

    pool = cf.ThreadPoolExecutor(4)      # small state spaces, one worker each; the simulation below runs next to them
    bad_futs = [pool.submit(refute, bad) for bad in ("blockDirty", "alarmOrder", "removedWatch", "zeroDelayFirst", "staleWatch", "swallowBase", "idleHandleReuse")]
    # ---- spec -> code: TLC scenarios on every loop -----------------------------------------------------
    simcfg = MC_CFG.format(na=3, nf=2, ni=2, bad="", delays=_q([0, 10, 20]), ats=_q([9999, 0, 15]), abeh=_q(ABEH), wbeh=_q(WBEH), ibeh=_q(IBEH),
                           busy=_q([0, 0, 1, 2, 3]), pre=_q(PRE), maxpre=2)
    simcfg = simcfg.replace("SPECIFICATION Spec", "SPECIFICATION SimSpec")
    behs = tlc.simulate("EventLoop", simcfg, num=60 if quick else 1500, depth=3, seed=chk.seed, jobs=2 if quick else 8, timeout=1500)
    for sc in [scn_from_state(b[1]) for b in behs if len(b) > 1]:
        for name in names:
            traces.append(run_scenario(name, sc))
    bad_runs = [bf.result() for bf in bad_futs]
    pool.shutdown()
    for bad, rb in bad_runs:
        refuted[bad] = rb.violated == "ContractHolds"
        chk.cov["tlc_runs"].append({"run": f"MC_EventLoop_bad_{bad}_must_fail", "violated": rb.violated, "generated": rb.generated})
    chk.cov["contract_refutes_bad_loops"] = refuted
    if not all(refuted.values()):
        raise tlc.MachineryError(f"the C13 contract no longer refutes a deliberately wrong loop: {refuted}")

    res = tlc.validate("EventLoopTrace", traces, batch_events=20000, timeout=1500)
    chk.add_tv("TV_EventLoopTrace", res)
    _handle(chk, traces, res, "c13")
    kinds = {}
    nontriv = set()
    for t in traces:
        for e in t["ev"]:
            k = f"{t['loop']}.{e['t']}"
            kinds[k] = kinds.get(k, 0) + 1
        for where, cnt in overdue_count(t).items():
            k = f"{t['loop']}.zero_delay_alarm_while_overdue.{where}"
            kinds[k] = kinds.get(k, 0) + cnt
        for fam, cnt in family_counts(t).items():
            k = f"{t['loop']}.{fam}"
            kinds[k] = kinds.get(k, 0) + cnt
        nontriv.add(json.dumps(t["scn"], sort_keys=True))
    chk.cov["clause_counts"] = kinds
    chk.cov["distinct_nontrivial"] = len(nontriv)
    chk.cov["rule"] = ("scenario = alarms (delay, behaviour) + watched descriptors (time readable, behaviour) + idle callbacks (behaviour) + final exit "
                       "alarm; scenarios from TLC -simulate of EventLoop.tla and seeded random; each run on the six real loops under virtual time; "
                       "distinct = distinct scenarios")
    chk.cov["bounds"] = {"tlc_scenarios": len(behs), "random_scenarios": chk.cov["random_scenarios"], "loops": names}
    for name in names:
        for v in ("alarm_cb", "watch_cb", "idle_cb", "wait", "remove_alarm", "zero_delay_alarm_while_overdue.startup",
                  "zero_delay_alarm_while_overdue.callback", "idle_registered_late_with_none_active", "watch_removed_then_readable",
                  "watch_removed_then_readable.fd0", "ready_descriptor_rewatched_by_another_ready_one", "rewatched_descriptor_callback",
                  "idle_registered_after_removal.startup", "idle_registered_after_removal.callback", "idle_callback_after_churn",
                  "raise.base.alarm_cb", "raise.base.watch_cb", "raise.base.idle_cb"):
            if v.endswith(".fd0") and not loops.ADAPTERS[name].zero_ok:
                continue
            if v == "ready_descriptor_rewatched_by_another_ready_one" and name == "trio":
                continue      # one trio task per watch: the loop is never told about several ready descriptors at once
            if not kinds.get(f"{name}.{v}"):
                chk.vacuity.append(f"driver.{name}.{v}")
    chk.sample({"loop": traces[0]["loop"], "scn": traces[0]["scn"], "events": traces[0]["ev"][:40]})
    chk.cov["trusted_base"] = ["TLC", "vf/loops.py virtual clock + selector/poller doubles", "scenario runner in vf/props/c13.py"]
    chk.assumptions += ["glib loop cannot be imported here", "real-time starvation is not modelled", "descriptor callbacks drain their descriptor"]


def replay(chk, path):
    with open(path) as f:
        rp = json.load(f)["replay"]
    tr = run_scenario(rp["loop"], rp["scn"])
    res = tlc.validate("EventLoopTrace", [tr])
    chk.add_tv("replay", res)
    _handle(chk, [tr], res, "replay")
    chk.sample(tr)
    return chk.finish()
