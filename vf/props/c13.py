"""C13 — every event loop honours the alarm / watch / idle / exception contract.
Spec: spec/EventLoop.tla (scenario generator + abstract loop) over spec/EventLoopOps.tla (contract
monitor); trace spec: spec/EventLoopTrace.tla; environment doubles: vf/loops.py."""
from __future__ import annotations

import concurrent.futures as cf
import contextlib
import io
import json

from .. import loops, tlc

EXIT_DELAY_MS = 100
MAXA = 8
BUSY_MS = 15    # BusyD of EventLoop.tla: a busy start-up period / a slow callback


def run_scenario(loop_name, scn, max_waits=400):
    """Run one scenario on one real event loop under the virtual clock; return the trace."""
    import urwid

    na, nf, ni = len(scn["alarms"]), len(scn["watches"]), len(scn["idles"])
    env = loops.Env({f + 1: w["at"] for f, w in enumerate(scn["watches"]) if w["at"] < 9000}, max_waits=max_waits)
    env.fd0 = bool(scn.get("fd0"))      # present watched descriptor 1 as file descriptor 0 (where the loop's double allows it)
    ad = loops.ADAPTERS[loop_name](env)
    state = {"nextid": na + 2, "nextidle": ni + 1, "alarm_h": {}, "watch_h": {}, "idle_h": {}}
    outcome = {"t": "run_end", "outcome": "return", "exc": ""}
    try:
        loop = ad.make()

        def sync():
            if hasattr(ad, "sync"):
                ad.sync()

        def do(beh, kind, me):
            if beh in ("addAlarm", "addAlarm0"):
                if state["nextid"] <= MAXA:
                    i = state["nextid"]
                    state["nextid"] += 1
                    reg_alarm(i, 0 if beh == "addAlarm0" else 10, "noop")
            elif beh == "slowAddAlarm0":     # a slow callback (alarms due meanwhile are overdue now) that then asks for a zero-delay alarm
                ad.slow(BUSY_MS)
                if state["nextid"] <= MAXA:
                    i = state["nextid"]
                    state["nextid"] += 1
                    reg_alarm(i, 0, "noop")
            elif beh == "addIdle":      # enter_idle() from within a callback
                if state["nextidle"] <= 3:
                    i = state["nextidle"]
                    state["nextidle"] += 1
                    reg_idle(i, "noop")
            elif beh.startswith("removeAlarm:"):      # remove one particular alarm (directed scenarios)
                tgt = int(beh.split(":")[1])
                ret = loop.remove_alarm(state["alarm_h"][tgt])
                env.log(t="remove_alarm", id=tgt, ret=bool(ret))
            elif beh in ("removeAlarm", "removeAlarmTwice"):
                tgt = (me % na) + 1 if kind == "alarm" else 1
                for _ in range(2 if beh == "removeAlarmTwice" else 1):
                    ret = loop.remove_alarm(state["alarm_h"][tgt])
                    env.log(t="remove_alarm", id=tgt, ret=bool(ret))
            elif beh == "removeWatch":
                tgt = (me % nf) + 1 if kind == "watch" else 1
                if tgt in state["watch_h"]:
                    ret = loop.remove_watch_file(state["watch_h"][tgt])
                    env.log(t="remove_watch", fd=tgt, ret=bool(ret))
            elif beh == "removeSelfWatch" and kind == "watch":
                ret = loop.remove_watch_file(state["watch_h"][me])
                env.log(t="remove_watch", fd=me, ret=bool(ret))
            elif beh == "removeIdle":
                tgt = (me % ni) + 1 if kind == "idle" else 1
                if tgt in state["idle_h"]:
                    ret = loop.remove_enter_idle(state["idle_h"][tgt])
                    env.log(t="remove_idle", id=tgt, ret=bool(ret))
            elif beh == "slow":
                ad.slow(BUSY_MS)
            elif beh == "exit":
                env.log(t="raise", kind="exit")
                raise urwid.ExitMainLoop()
            elif beh == "error":
                env.log(t="raise", kind="error")
                raise loops.VfError("scripted")

        def reg_alarm(i, delay_ms, beh):
            def cb():
                sync()
                env.log(t="alarm_cb", id=i, now=env.us())
                do(beh, "alarm", i)

            env.log(t="reg_alarm", id=i, delay=delay_ms * 1000)
            state["alarm_h"][i] = loop.alarm(delay_ms / 1000.0, cb)

        def reg_watch(f, beh):
            def cb():
                sync()
                env.log(t="watch_cb", fd=f, now=env.us())
                env.readable.discard(f)
                env.log(t="drain", fd=f)
                do(beh, "watch", f)

            env.log(t="reg_watch", fd=f)
            state["watch_h"][f] = loop.watch_file(ad.fd(f), cb)

        def reg_idle(i, beh):
            def cb():
                sync()
                env.log(t="idle_cb", id=i, now=env.us())
                do(beh, "idle", i)

            env.log(t="reg_idle", id=i)
            state["idle_h"][i] = loop.enter_idle(cb)

        for i, a in enumerate(scn["alarms"], 1):
            reg_alarm(i, a["delay"], a["beh"])
            if scn.get("busy", 0) == i:      # busy start-up before run(): the alarms registered so far may be overdue when the next ones come
                ad.slow(BUSY_MS)
        reg_alarm(na + 1, scn.get("exit_ms", EXIT_DELAY_MS), "exit")
        for f, w in enumerate(scn["watches"], 1):
            reg_watch(f, w["beh"])
        for i, b in enumerate(scn["idles"], 1):
            reg_idle(i, b)
        try:
            with contextlib.redirect_stdout(io.StringIO()):  # TwistedEventLoop prints sys.exc_info() on errors
                loop.run()
            if getattr(ad, "stuck", False):
                outcome["outcome"] = "stuck"
        except loops.Stuck:
            outcome["outcome"] = "stuck"
        except BaseException as ex:  # noqa: BLE001
            outcome["outcome"] = "raise"
            outcome["exc"] = type(ex).__name__
            if scn.get("rerun") and isinstance(ex, loops.VfError) and loop_name in ("select", "asyncio", "zmq", "tornado") and state["nextid"] <= MAXA:
                # the same loop object is run again: the error of the first run must not come back
                env.log(t="run_end", outcome="raise", exc="VfError")
                env.log(t="rerun")
                reg_alarm(state["nextid"], 10, "exit")      # an identifier of its own (callbacks of the second run may add alarms too)
                state["nextid"] += 1
                outcome = {"t": "run_end", "outcome": "return", "exc": ""}
                try:
                    with contextlib.redirect_stdout(io.StringIO()):
                        loop.run()
                except loops.Stuck:
                    outcome["outcome"] = "stuck"
                except BaseException as ex2:  # noqa: BLE001
                    outcome["outcome"] = "raise"
                    outcome["exc"] = type(ex2).__name__
                ex = None
            if isinstance(ex, BaseExceptionGroup):
                leaves = []

                def flat(g):
                    for x in g.exceptions:
                        flat(x) if isinstance(x, BaseExceptionGroup) else leaves.append(x)

                flat(ex)
                if leaves and all(isinstance(x, loops.VfError) for x in leaves):
                    outcome["exc"] = "VfError"  # several callbacks raised in one tick
            outcome["msg"] = str(ex)[:120]
    finally:
        ad.close()
    env.log(**outcome)
    return {"loop": loop_name, "scn": scn, "ev": env.ev}


def scn_from_state(st):
    sc = st["scn"]
    return {"alarms": [{"delay": a["delay"], "beh": a["beh"]} for a in sc["alarms"]],
            "watches": [{"at": w["at"], "beh": w["beh"]} for w in sc["watches"]],
            "idles": list(sc["idles"]), "busy": int(sc["busy"]), "fd0": (len(sc["alarms"]) + len(sc["watches"])) % 2 == 0}


ABEH = ["noop", "addAlarm", "addAlarm0", "slowAddAlarm0", "addIdle", "removeAlarm", "removeAlarmTwice", "removeWatch", "removeIdle", "slow", "exit", "error"]
WBEH = ["noop", "addAlarm0", "slowAddAlarm0", "addIdle", "removeWatch", "removeSelfWatch", "removeAlarm", "slow", "error"]
IBEH = ["noop", "removeIdle", "error"]


def random_scn(rng):
    na, nf, ni = rng.randint(1, 5), rng.randint(0, 3), rng.choice([0, 0, 1, 2, 3])
    return {"alarms": [{"delay": rng.choice([0, 0, 10, 10, 20, 30, 50]), "beh": rng.choice(ABEH + ["noop", "slow"])} for _ in range(na)],
            "watches": [{"at": rng.choice([9999, 0, 0, 10, 15, 25]), "beh": rng.choice(WBEH + ["noop", "exit"])} for _ in range(nf)],
            "idles": [rng.choice(IBEH + ["noop", "noop", "exit", "slow"]) for _ in range(ni)], "fd0": rng.random() < 0.5,
            "rerun": rng.random() < 0.4, "busy": rng.choice([0, 0] + list(range(1, na + 1)))}


def heap_scns(rng, n):
    """Alarm heaps: six alarms with distinct due times in a random registration order plus the run-ending alarm due in the MIDDLE
    of them (seven entries), and a descriptor readable at once whose callback removes one particular alarm while all are pending:
    a loop that keeps its own alarm heap has to keep it a heap, one that delegates has to cancel the right timer."""
    out = []
    for _ in range(n):
        delays = rng.sample(range(10, 100, 10), 6)
        tgt = rng.randint(1, 6)
        out.append({"alarms": [{"delay": d, "beh": "noop"} for d in delays], "watches": [{"at": 0, "beh": f"removeAlarm:{tgt}"}], "idles": [],
                    "fd0": False, "rerun": False, "exit_ms": rng.choice([35, 35, 55])})
    return out


def overdue_scns(rng, n):
    """Zero-delay alarms registered while an alarm with a positive delay is already overdue (and control cases where it is not quite):
    the program was busy for BUSY_MS before run() between two registrations, or a callback (alarm or descriptor) took BUSY_MS and then
    asked for a zero-delay alarm.  The new alarm is due *now*, i.e. after everything that is overdue; a loop that hands zero-delay
    alarms to a ready queue instead of its timers serves it first.  Other alarms, idle callbacks and removals are mixed in."""
    out = []
    for _ in range(n):
        mode = rng.choice(["startup", "alarm", "watch"])
        extra = [{"delay": rng.choice([0, 10, 20, 30, 40]), "beh": rng.choice(["noop", "noop", "slow", "addAlarm0", "removeAlarm"])}
                 for _ in range(rng.randint(0, 2))]
        sc = {"watches": [], "idles": [rng.choice(["noop", "removeIdle"]) for _ in range(rng.choice([0, 1, 2]))], "fd0": rng.random() < 0.5,
              "rerun": False, "busy": 0}
        if mode == "startup":
            early = [{"delay": rng.choice([5, 10, 15, 20]), "beh": "noop"} for _ in range(rng.randint(1, 2))]
            late = [{"delay": rng.choice([0, 0, 5]), "beh": rng.choice(["noop", "addAlarm0"])} for _ in range(rng.randint(1, 2))]
            sc["alarms"] = early + late + extra
            sc["busy"] = len(early)
        else:
            t = rng.choice([0, 10, 20])
            over = [{"delay": t + rng.choice([0, 5, 10, 15, 20]), "beh": "noop"} for _ in range(rng.randint(1, 2))]
            if mode == "alarm":
                sc["alarms"] = [{"delay": t, "beh": "slowAddAlarm0"}] + over + extra
            else:
                sc["alarms"] = over + extra
                sc["watches"] = [{"at": t, "beh": "slowAddAlarm0"}]
            rng.shuffle(sc["alarms"])
        out.append(sc)
    return out


def late_idle_scns(rng, n):
    """Idle callbacks that appear late: the loop starts with no idle callback (or its only one removes itself at the first pass), has
    been through idle passes with nothing to call, and then a callback calls enter_idle(); after the callbacks that follow, the new
    idle callback must run before the loop sleeps."""
    out = []
    for _ in range(n):
        t = rng.choice([0, 10, 20])
        later = [{"delay": t + rng.choice([10, 20, 30]), "beh": rng.choice(["noop", "noop", "slow", "addAlarm0"])} for _ in range(rng.randint(1, 2))]
        sc = {"alarms": [{"delay": rng.choice([0, t]), "beh": "noop"}] if t else [], "watches": [], "idles": rng.choice([[], [], ["removeIdle"]]),
              "fd0": rng.random() < 0.5, "rerun": False, "busy": 0}
        if rng.random() < 0.5:
            sc["alarms"] += [{"delay": t, "beh": "addIdle"}] + later
        else:
            sc["alarms"] += later
            sc["watches"] = [{"at": t, "beh": "addIdle"}]
        if rng.random() < 0.4:
            sc["watches"].append({"at": t + rng.choice([5, 15, 25]), "beh": "noop"})
        out.append(sc)
    return out


def removed_watch_scns(rng, n):
    """A watch removed (by an alarm, by another descriptor's callback, by itself) before its descriptor becomes readable (again): the
    callback must not run any more.  Half of the scenarios present watched descriptor 1 as file descriptor 0 (stdin, what urwid's
    screens watch) on the loops whose double allows it."""
    out = []
    for _ in range(n):
        at = rng.choice([10, 15, 25])
        sc = {"alarms": [{"delay": rng.choice([0, 0, 10]) if at > 10 else 0, "beh": "removeWatch"}], "watches": [{"at": at, "beh": rng.choice(["noop", "slow"])}],
              "idles": ["noop"] * rng.randint(0, 1), "fd0": rng.random() < 0.5, "rerun": False, "busy": 0}
        if rng.random() < 0.5:      # a second descriptor, readable earlier, whose callback removes the first watch (removeWatch from watch 2 targets watch 1)
            sc["alarms"][0]["beh"] = rng.choice(["noop", "removeWatch"])
            sc["watches"].append({"at": rng.choice([0, 0, 10]) if at > 10 else 0, "beh": "removeWatch"})
        for _ in range(rng.randint(0, 2)):
            sc["alarms"].append({"delay": rng.choice([0, 10, 20, 30]), "beh": rng.choice(["noop", "slow", "removeWatch"])})
        out.append(sc)
    return out


def overdue_count(tr):
    """Vacuity counter (not a verdict): registrations of a zero-delay alarm while an alarm with a positive delay and an EARLIER due time is pending, i.e. overdue."""
    now, pend, n, running = 0, {}, {"startup": 0, "callback": 0}, False
    for e in tr["ev"]:
        t = e["t"]
        running = running or t in ("wait", "alarm_cb", "watch_cb", "idle_cb")
        if t == "slow":
            now += e["d"]
        elif t == "advance":
            now = max(now, e["to"])
        elif t in ("alarm_cb", "watch_cb", "idle_cb"):
            now = max(now, e["now"])
            if t == "alarm_cb":
                pend.pop(e["id"], None)
        elif t == "remove_alarm":
            pend.pop(e["id"], None)
        elif t == "reg_alarm":
            if e["delay"] == 0 and any(due < now and delay > 0 for due, delay in pend.values()):
                n["callback" if running else "startup"] += 1
            pend[e["id"]] = (now + e["delay"], e["delay"])
    return n


def family_counts(tr):
    """Vacuity counters (not a verdict): enter_idle() from a callback while no idle callback is registered; a watch removed before its
    descriptor became readable, which then does become readable (on descriptor 0 / another descriptor)."""
    n = {"idle_registered_late_with_none_active": 0, "watch_removed_then_readable": 0, "watch_removed_then_readable.fd0": 0}
    active, removed, running = set(), set(), False
    fd0 = bool(tr["scn"].get("fd0")) and loops.ADAPTERS[tr["loop"]].zero_ok
    for e in tr["ev"]:
        t = e["t"]
        running = running or t in ("wait", "alarm_cb", "watch_cb", "idle_cb")
        if t == "reg_idle":
            if running and not active:
                n["idle_registered_late_with_none_active"] += 1
            active.add(e["id"])
        elif t == "remove_idle":
            active.discard(e["id"])
        elif t == "remove_watch":
            removed.add(e["fd"])
        elif t == "env_readable" and e["fd"] in removed:
            n["watch_removed_then_readable" + (".fd0" if fd0 and e["fd"] == 1 else "")] += 1
    return n


def _q(xs):
    return "{" + ", ".join(f'"{x}"' if isinstance(x, str) else str(x) for x in xs) + "}"


MC_CFG = """CONSTANTS NA = {na} NF = {nf} NI = {ni} Bad = "{bad}"
Delays = {delays}
Ats = {ats}
ABeh = {abeh}
WBeh = {wbeh}
IBeh = {ibeh}
Busy = {busy}
SPECIFICATION Spec
INVARIANT ContractHolds
INVARIANT Terminates
CHECK_DEADLOCK FALSE
"""

LOOPS = ["select", "asyncio", "tornado", "twisted", "zmq", "trio"]


def sig_of(tr, l):
    e = tr["ev"][l - 1]
    behs = sorted({a["beh"] for a in tr["scn"]["alarms"]} | {w["beh"] for w in tr["scn"]["watches"]} | set(tr["scn"]["idles"]))
    in_cb = None
    for x in reversed(tr["ev"][:l - 1]):
        if x["t"] in ("alarm_cb", "watch_cb", "idle_cb"):
            in_cb = x["t"]
            break
    return {"loop": tr["loop"], "event": e["t"], "outcome": e.get("outcome", ""), "exc": e.get("exc", ""), "last_callback": in_cb,
            "idle_raises": any(b in ("error", "exit") for b in tr["scn"]["idles"]), "idle_removes_idle": "removeIdle" in tr["scn"]["idles"],
            "behaviours": behs}


def _handle(chk, traces, res, label):
    for ti, l, why in res.rejects:
        tr = traces[ti]
        chk.reject(f"C13.{why}", sig_of(tr, l), {"driver": label, "loop": tr["loop"], "scn": tr["scn"], "events_up_to_rejection": tr["ev"][:l]})


def run(chk, loops_to_run=None):
    quick = chk.tier == "quick"
    rng = chk.rng
    names = loops_to_run or LOOPS
    # ---- MC: the contract is satisfiable by a correct loop for every scenario; bad loops are refuted ----
    if quick:
        cfg = MC_CFG.format(na=2, nf=1, ni=2, bad="", delays=_q([0, 10]), ats=_q([9999, 0, 15]),
                            abeh=_q(["noop", "addAlarm", "addIdle", "removeAlarmTwice", "removeWatch", "removeIdle", "slow", "error"]),
                            wbeh=_q(["noop", "removeSelfWatch", "removeAlarm", "slow", "error"]), ibeh=_q(IBEH), busy=_q([0]))
        # zero-delay alarms against overdue alarms: busy start-up after any alarm, slow callbacks that register a zero-delay alarm
        cfg0 = MC_CFG.format(na=2, nf=1, ni=1, bad="", delays=_q([0, 10, 20]), ats=_q([0, 10]), abeh=_q(["noop", "addAlarm0", "slowAddAlarm0", "removeAlarm"]),
                             wbeh=_q(["noop", "slowAddAlarm0"]), ibeh=_q(["noop"]), busy=_q([0, 1, 2]))
    else:
        zero = ("addAlarm0", "slowAddAlarm0")     # these have their own exhaustive run (cfg0): the two scenario spaces add up instead of multiplying
        cfg = MC_CFG.format(na=2, nf=2, ni=2, bad="", delays=_q([0, 10, 20]), ats=_q([9999, 0, 15]), abeh=_q([b for b in ABEH if b not in zero]),
                            wbeh=_q([b for b in WBEH if b not in zero]), ibeh=_q(IBEH), busy=_q([0]))
        cfg0 = MC_CFG.format(na=3, nf=1, ni=1, bad="", delays=_q([0, 10, 20]), ats=_q([0, 10]),
                             abeh=_q(["noop", "addAlarm0", "slowAddAlarm0", "removeAlarm"]),
                             wbeh=_q(["noop", "slowAddAlarm0"]), ibeh=_q(["noop"]), busy=_q([0, 1, 2, 3]))
    with cf.ThreadPoolExecutor(2) as ex:      # the two exhaustive runs overlap (JVM start dominates on a loaded machine)
        f0 = ex.submit(tlc.mc, "EventLoop", cfg0, workers=3 if quick else 6, timeout=3000, heap="8g")
        r = tlc.mc("EventLoop", cfg, workers=6, timeout=3000, heap="12g")
        r0 = f0.result()
    chk.add_mc("MC_EventLoop_contract_satisfiable", r)
    chk.add_mc("MC_EventLoop_zero_delay_vs_overdue_satisfiable", r0)
    for rr in (r, r0):
        if not rr.ok:
            chk.reject("C13.model." + str(rr.violated), {"model": "EventLoop"}, {"tlc_trace": rr.trace[-5:]})
    refuted = {}

    def refute(bad):
        if bad == "zeroDelayFirst":
            cfgb = MC_CFG.format(na=2, nf=1, ni=1, bad=bad, delays=_q([0, 10]), ats=_q([9999, 0]), abeh=_q(["noop", "slowAddAlarm0"]),
                                 wbeh=_q(["noop", "slowAddAlarm0"]), ibeh=_q(["noop"]), busy=_q([0, 1]))
        else:
            cfgb = MC_CFG.format(na=2, nf=2, ni=1, bad=bad, delays=_q([0, 10]), ats=_q([9999, 0]), abeh=_q(["noop", "slow", "removeWatch"]),
                                 wbeh=_q(["noop", "removeWatch", "slow"]), ibeh=_q(["noop"]), busy=_q([0]))
        return bad, tlc.mc("EventLoop", cfgb, workers=2, timeout=900)

    with cf.ThreadPoolExecutor(2) as ex:
        bad_runs = list(ex.map(refute, ("blockDirty", "alarmOrder", "removedWatch", "zeroDelayFirst")))
    for bad, rb in bad_runs:
        refuted[bad] = rb.violated == "ContractHolds"
        chk.cov["tlc_runs"].append({"run": f"MC_EventLoop_bad_{bad}_must_fail", "violated": rb.violated, "generated": rb.generated})
    chk.cov["contract_refutes_bad_loops"] = refuted
    if not all(refuted.values()):
        raise tlc.MachineryError(f"the C13 contract no longer refutes a deliberately wrong loop: {refuted}")

    # ---- spec -> code: TLC scenarios on every loop -----------------------------------------------------
    simcfg = MC_CFG.format(na=3, nf=2, ni=2, bad="", delays=_q([0, 10, 20]), ats=_q([9999, 0, 15]), abeh=_q(ABEH), wbeh=_q(WBEH), ibeh=_q(IBEH),
                           busy=_q([0, 0, 1, 2, 3]))
    simcfg = simcfg.replace("SPECIFICATION Spec", "SPECIFICATION SimSpec")
    behs = tlc.simulate("EventLoop", simcfg, num=60 if quick else 1500, depth=3, seed=chk.seed, jobs=2 if quick else 8, timeout=1500)
    scns = [scn_from_state(b[1]) for b in behs if len(b) > 1]
    n_rand = 60 if quick else 1500
    scns += [random_scn(rng) for _ in range(n_rand)]
    traces = []
    for sc in scns:
        for name in names:
            traces.append(run_scenario(name, sc))
    hs = heap_scns(rng, 100 if quick else 1500)
    for k, sc in enumerate(hs):
        for name in names:
            if name in ("select", "zmq") or k % 10 == 0:      # these two keep their own heap; the others delegate to their library's timers
                traces.append(run_scenario(name, sc))
    chk.cov["heap_scenarios"] = len(hs)
    ods = overdue_scns(rng, 40 if quick else 1500)
    for sc in ods:
        for name in names:
            traces.append(run_scenario(name, sc))
    chk.cov["overdue_scenarios"] = len(ods)
    lis, rws = late_idle_scns(rng, 20 if quick else 600), removed_watch_scns(rng, 20 if quick else 600)
    for sc in lis + rws:
        for name in names:
            traces.append(run_scenario(name, sc))
    chk.cov["late_idle_scenarios"], chk.cov["removed_watch_scenarios"] = len(lis), len(rws)
    res = tlc.validate("EventLoopTrace", traces, batch_events=20000, timeout=1500)
    chk.add_tv("TV_EventLoopTrace", res)
    _handle(chk, traces, res, "c13")
    kinds = {}
    nontriv = set()
    for t in traces:
        for e in t["ev"]:
            k = f"{t['loop']}.{e['t']}"
            kinds[k] = kinds.get(k, 0) + 1
        for where, cnt in overdue_count(t).items():
            k = f"{t['loop']}.zero_delay_alarm_while_overdue.{where}"
            kinds[k] = kinds.get(k, 0) + cnt
        for fam, cnt in family_counts(t).items():
            k = f"{t['loop']}.{fam}"
            kinds[k] = kinds.get(k, 0) + cnt
        nontriv.add(json.dumps(t["scn"], sort_keys=True))
    chk.cov["clause_counts"] = kinds
    chk.cov["distinct_nontrivial"] = len(nontriv)
    chk.cov["rule"] = ("scenario = alarms (delay, behaviour) + watched descriptors (time readable, behaviour) + idle callbacks (behaviour) + final exit "
                       "alarm; scenarios from TLC -simulate of EventLoop.tla and seeded random; each run on the six real loops under virtual time; "
                       "distinct = distinct scenarios")
    chk.cov["bounds"] = {"tlc_scenarios": len(behs), "random_scenarios": n_rand, "loops": names}
    for name in names:
        for v in ("alarm_cb", "watch_cb", "idle_cb", "wait", "remove_alarm", "zero_delay_alarm_while_overdue.startup",
                  "zero_delay_alarm_while_overdue.callback", "idle_registered_late_with_none_active", "watch_removed_then_readable",
                  "watch_removed_then_readable.fd0"):
            if v.endswith(".fd0") and not loops.ADAPTERS[name].zero_ok:
                continue
            if not kinds.get(f"{name}.{v}"):
                chk.vacuity.append(f"driver.{name}.{v}")
    chk.sample({"loop": traces[0]["loop"], "scn": traces[0]["scn"], "events": traces[0]["ev"][:40]})
    chk.cov["trusted_base"] = ["TLC", "vf/loops.py virtual clock + selector/poller doubles", "scenario runner in vf/props/c13.py"]
    chk.assumptions += ["glib loop cannot be imported here", "real-time starvation is not modelled", "descriptor callbacks drain their descriptor"]


def replay(chk, path):
    with open(path) as f:
        rp = json.load(f)["replay"]
    tr = run_scenario(rp["loop"], rp["scn"])
    res = tlc.validate("EventLoopTrace", [tr])
    chk.add_tv("replay", res)
    _handle(chk, [tr], res, "replay")
    chk.sample(tr)
    return chk.finish()
