"""C18 — colour specifications round-trip and degrade to the nearest colour.
Contract: spec/AttrSpecOps.tla (xterm tables by formula, Nearest, ColourSet = Parse, Describe, ColourRGB, SemDepth);
model: spec/AttrSpec.tla (laws over the whole finite domain at the five depths, wrong variants refuted);
trace spec: spec/AttrSpecTrace.tla.  This module only renders structured descriptions to text, constructs the real
urwid.display.common.AttrSpec, records what the object reports, and hands the records to TLC."""
from __future__ import annotations

import concurrent.futures as cf
import itertools
import json
import re

from .. import tlc

TRUEC = 2 ** 24
DEPTHS = [1, 16, 88, 256, TRUEC]
# documented names (AttrSpec docstring), written out here so that the harness does not read urwid's own tables
BASIC = ["black", "dark red", "dark green", "brown", "dark blue", "dark magenta", "dark cyan", "light gray",
         "dark gray", "light red", "light green", "yellow", "light blue", "light magenta", "light cyan", "white"]
STYLES = ["bold", "italics", "underline", "blink", "standout", "strikethrough"]  # ids 1..6
WORDS = ["red", "green", "blue", "purple", "grey", "gray", "dark grey", "light grey", "orange", "pink", "magenta", "cyan",
         "Dark Red", "BLACK", "White", "darkred", "dark  red", "dark_red", "bright red", "light black", "dark white",
         "dark yellow", "light brown", "none", "transparent", "inherit", "bolder", "underlined", "italic", "blinking",
         "strike", "reverse", "dim", "normal", "foo", "x", "g", "h", "hh", "gg", "high", "ghost", "hello world",
         "goblins", "magenta", "harvest", "defaults", "Default", "fg", "bg"]
GARBAGE = ["#12345g", "#12g", "#-12345", "#-12", "#+12345", "# 12345", "#1_2345", "#", "##", "#1", "#12", "#1234", "#12345",
           "#1234567", "#ggg", "#gggggg", "#12 ", " #123", "#FFF", "#ABCDEF", "#AbC", "g#", "g#1", "g#123", "g#-1", "g#1g", "g#gg",
           "g# 1", "g#FF", "g-1", "g101", "g1000", "g 5", "g+5", "g1.5", "g0x1", "h-1", "h256", "h1000", "h 5", "h+5", "h1.5", "h0x1",
           "h1e1", "h٣", "g٣", "#٣٣٣", "#٣٣٣٣٣٣", "h0000", "h001", "g001", "g#0f0", "G5", "H5", "#\x00\x00\x00", "#\n12", "h\n",
           "\x00", "\n", "\t", " ", ",", ",,", ";", "bold;underline", "dark red;", "dark red bold", "bold dark red",
           "é", "字", "\U0001f600", "#字字字", "h" * 50, "#" * 7, "g#" + "1" * 5, "g#12345", "h012345", "1", "0", "-1", "255",
           "0x10", "rgb(1,2,3)", "#fff0", "#ffffff0", "g100%", "50%", "%", "h%d", "{}", "None", "True"]


NOT_NUMBERS = ["#+12", "#-12", "#1_2", "# 12", "#+1", "#-1", "#+12345", "#-12345", "#1_2345", "#12_345", "#1234_5", "# 12345", "#+f", "#f_f",
               "g+5", "g-5", "g1_0", "g 5", "g+10", "g+99", "g#+5", "g#-5", "g#1_", "g#_1", "g# 5", "h+5", "h-5", "h1_0", "h 5", "h+25",
               "h2_5", "h\u0663", "g\u0663", "h\uff15", "g\uff15", "h1\u0663", "g#\uff11\uff12", "#\uff11\uff12\uff13",
               "#\u0661\u0662\u0663", "#\uff11\uff12\uff13\uff14\uff15\uff16", "#12\uff13", "#1234\uff15\uff16", "g#1\uff12", "h25\uff15"]


def D(k, a=0, b=0, c=0):
    return {"k": k, "a": a, "b": b, "c": c}


def render(d):
    k = d["k"]
    if k == "none":
        return ""
    if k == "default":
        return "default"
    if k == "basic":
        return BASIC[d["a"]]
    if k == "h":
        return f"h{d['a']}"
    if k == "rgb3":
        return f"#{d['a']:x}{d['b']:x}{d['c']:x}"
    if k == "gray":
        return f"g{d['a']}"
    if k == "grayhex":
        return f"g#{d['a']:02x}"
    if k == "rgb6":
        return f"#{d['a']:02x}{d['b']:02x}{d['c']:02x}"
    raise ValueError(k)


def render_fg(colour_texts, st, cpos, pad=("", "")):
    """Foreground text: the style words in the given order with the colour texts inserted at positions cpos."""
    parts = [STYLES[s - 1] for s in st]
    for pos, txt in sorted(zip(cpos, colour_texts), reverse=True):
        parts.insert(min(pos, len(parts)), txt)
    if callable(pad):   # every part gets its own surrounding blanks
        return ",".join(q[0] + p + q[1] for p, q in ((p, pad()) for p in parts))
    return ",".join(pad[0] + p + pad[1] for p in parts) if (pad[0] or pad[1]) else ",".join(parts)


_H = re.compile(r"^h(\d{1,9})$")
_G = re.compile(r"^g(\d{1,9})$")
_GH = re.compile(r"^g#([0-9a-f]{2})$")
_R3 = re.compile(r"^#([0-9a-f])([0-9a-f])([0-9a-f])$")
_R6 = re.compile(r"^#([0-9a-f]{2})([0-9a-f]{2})([0-9a-f]{2})$")


def read_colour(text):
    """Projection of a reported colour text into a structured description (documented grammar); 'raw' otherwise."""
    if text == "default":
        return D("default")
    if text in BASIC:
        return D("basic", BASIC.index(text))
    for rx, k, base in ((_H, "h", 10), (_G, "gray", 10), (_GH, "grayhex", 16)):
        m = rx.match(text)
        if m:
            return D(k, int(m.group(1), base))
    m = _R3.match(text) or _R6.match(text)
    if m:
        return D("rgb3" if len(text) == 4 else "rgb6", *(int(x, 16) for x in m.groups()))
    return D("raw")


def read_fg(text):
    parts = text.split(",")
    return read_colour(parts[0]), [STYLES.index(p) + 1 if p in STYLES else 0 for p in parts[1:]]


def cps(s):
    return [ord(ch) for ch in s]


def _name(ex):
    return type(ex).__name__


def _colour(basic, high, true, num):
    if basic:
        return {"k": "basic", "n": num, "r": 0, "g": 0, "b": 0}
    if high:
        return {"k": "high", "n": num, "r": 0, "g": 0, "b": 0}
    if true:
        return {"k": "true", "n": 0, "r": (num >> 16) & 255, "g": (num >> 8) & 255, "b": num & 255}
    return {"k": "default", "n": 0, "r": 0, "g": 0, "b": 0}


def _hash16(o):
    h = hash(o) & 0xFFFFFFFFFFFFFFFF
    return [(h >> s) & 0xFFFF for s in (48, 32, 16, 0)]


def look(s):
    """What the object itself reports about its stored colours and settings (no text involved)."""
    return {
        "f": _colour(s.foreground_basic, s.foreground_high, s.foreground_true, s.foreground_number),
        "g": _colour(s.background_basic, s.background_high, s.background_true, s.background_number),
        "ss": [i + 1 for i, w in enumerate(STYLES) if getattr(s, w)],
        "hs": _hash16(s),
    }


def construct(d, fg, bg):
    from urwid.display.common import AttrSpec

    try:
        return AttrSpec(fg, bg, d), ""
    except Exception as ex:  # noqa: BLE001
        return None, _name(ex)


def spec_event(d, fc, st, bg, fg_text, bg_text, cat="valid"):
    """Construct AttrSpec(fg_text, bg_text, d) and record everything the property talks about."""
    e = {"t": "spec", "d": d, "fc": fc, "st": st, "bg": bg, "skip": [], "fi": fg_text, "bi": bg_text, "cat": cat}
    s, e["exc"] = construct(d, fg_text, bg_text)
    if s is None:
        return e
    e.update(look(s))
    fgt = bgt = ""
    try:
        fgt, e["fx"] = s.foreground, ""
    except Exception as ex:  # noqa: BLE001
        e["fx"] = _name(ex)
    try:
        bgt, e["bx"] = s.background, ""
    except Exception as ex:  # noqa: BLE001
        e["bx"] = _name(ex)
    try:
        e["col"], e["cx"] = s.colors, ""
    except Exception as ex:  # noqa: BLE001
        e["col"], e["cx"] = 0, _name(ex)
    try:
        v = s.get_rgb_values()
        e["rf"] = [] if v[0] is None else list(v[0:3])
        e["rb"] = [] if v[3] is None else list(v[3:6])
        e["rx"] = ""
    except Exception as ex:  # noqa: BLE001
        e["rf"], e["rb"], e["rx"] = [], [], _name(ex)
    e["fs"], e["bs"] = cps(fgt), cps(bgt)
    e["fo"], e["fos"] = read_fg(fgt)
    e["bo"] = read_colour(bgt)
    e["fot"], e["bot"] = fgt, bgt
    blank = {"qx": "", "qeq": 0, "qne": 1, "qf": e["f"], "qg": e["g"], "qss": [], "qfs": [], "qbs": [], "qhs": [], "cme": 1}
    e.update(blank)
    if e["fx"] == "" and e["bx"] == "":
        q, e["qx"] = construct(d, fgt, bgt)
        if q is not None:
            o = look(q)
            e.update({"qeq": int(q == s), "qne": int(q != s), "qf": o["f"], "qg": o["g"], "qss": o["ss"], "qhs": o["hs"]})
            try:
                e["qfs"], e["qbs"] = cps(q.foreground), cps(q.background)
            except Exception as ex:  # noqa: BLE001
                e["qx"] = _name(ex)
        try:
            e["cme"] = int(s.copy_modified() == s)
        except Exception:  # noqa: BLE001
            e["cme"] = 0
    return e


def pair_event(d, fa, ba, fb, bb, d2=None):
    """Two objects compared with == / != / hash.  d2: the second object is built at another depth; whether such objects are
    equal is not fixed by the property, only that equal objects hash alike (the depth-dependent clause is skipped)."""
    a, xa = construct(d, fa, ba)
    b, xb = construct(d if d2 is None else d2, fb, bb)
    if a is None or b is None:
        return None
    return {"t": "pair", "d": d, "d2": d if d2 is None else d2, "skip": [] if d2 is None else ["equal_means_same_colours_and_settings"],
            "a": look(a), "b": look(b), "eq": int(a == b), "ne": int(a != b), "fi": fa, "bi": ba, "fi2": fb, "bi2": bb}


# ---------------------------------------------------------------------------------------------------------------
# the quantified domain

def colour_domain():
    dom = [D("default"), D("none")] + [D("basic", i) for i in range(16)] + [D("h", n) for n in range(256)]
    dom += [D("rgb3", r, g, b) for r in range(16) for g in range(16) for b in range(16)]
    dom += [D("gray", p) for p in range(101)] + [D("grayhex", v) for v in range(256)]
    return dom


def ordered_style_subsets():
    out = []
    for k in range(7):
        out += [list(p) for p in itertools.permutations(range(1, 7), k)]
    return out


EDGE = [0, 1, 15, 16, 17, 46, 47, 48, 69, 70, 94, 95, 96, 112, 114, 115, 116, 134, 135, 136, 138, 139, 140, 154, 155, 156,
        171, 172, 173, 174, 175, 176, 194, 195, 196, 204, 205, 206, 214, 215, 216, 224, 229, 230, 231, 234, 235, 236, 254, 255]


def partner(rng, d, rich=True):
    """A valid description for the other side of a specification at depth d."""
    if d == 1:
        return rng.choice([D("default"), D("none")])
    r = rng.random()
    if d == 16 or r < 0.45 or not rich:
        return rng.choice([D("default"), D("none")] + [D("basic", i) for i in range(16)])
    if r < 0.6:
        return D("h", rng.randrange(88 if d == 88 else 256))
    if r < 0.75:
        return D("rgb3", rng.randrange(16), rng.randrange(16), rng.randrange(16))
    if r < 0.85:
        return D("grayhex", rng.randrange(256))
    return D("rgb6", rng.randrange(256), rng.randrange(256), rng.randrange(256))


def some_styles(rng):
    return rng.sample(range(1, 7), rng.choice([0, 0, 1, 1, 2, 3, 6]))


def valid_event(rng, d, fdesc, st, bdesc, spaces=False):
    fc = [] if (fdesc["k"] == "none" and rng.random() < 0.5) else [fdesc]
    pad = rng.choice([("", ""), (" ", ""), ("", " "), (" ", " "), ("  ", "\t")]) if spaces else ("", "")
    fg = render_fg([render(x) for x in fc], st, [rng.randint(0, len(st))] if fc else [], pad)
    return spec_event(d, fc, st, bdesc, fg, render(bdesc))


def rand_word(rng):
    while True:
        w = "".join(rng.choice("abcdefghijklmnopqrstuvwxyz ") for _ in range(rng.randint(1, 12))).strip()
        w = re.sub(r" +", " ", w)
        if w and w not in BASIC and w not in STYLES and w != "default" and not re.match(r"^[gh]", w):
            return w


def mutate(rng, s):
    pool = "0123456789abcdefgh#, -+_xXG%.\x00é字"
    s = list(s)
    for _ in range(rng.randint(1, 2)):
        op = rng.randrange(3)
        if op == 0 or not s:
            s.insert(rng.randint(0, len(s)), rng.choice(pool))
        elif op == 1:
            del s[rng.randrange(len(s))]
        else:
            s[rng.randrange(len(s))] = rng.choice(pool)
    return "".join(s)


def junk(rng):
    k = rng.randrange(5)
    al = "0123456789abcdefg -+_x"
    if k == 0:
        return "#" + "".join(rng.choice(al) for _ in range(6))
    if k == 1:
        return "#" + "".join(rng.choice(al) for _ in range(3))
    if k == 2:
        return "g#" + "".join(rng.choice(al) for _ in range(rng.randint(0, 5)))
    if k == 3:
        return rng.choice("gh") + "".join(rng.choice("0123456789 -+_.e") for _ in range(rng.randint(0, 6)))
    return "".join(chr(rng.choice([rng.randrange(32, 127), rng.randrange(0, 0x3000)])) for _ in range(rng.randint(1, 9)))


def build_events(chk, d, quick):
    rng = chk.rng
    ev = []
    dom = colour_domain()
    # A. the whole finite colour domain: every description once in the foreground and once in the background.
    #    The pairing is a seeded permutation inside each class of descriptions, so that a description that the depth
    #    rejects is paired with another one of its class and never hides a description of the other side.
    classes = {}
    for i, x in enumerate(dom):
        cls = "lo" if x["k"] in ("default", "none", "basic") else ("h88" if x["k"] == "h" and x["a"] >= 88 else "hi")
        classes.setdefault(cls, []).append(i)
    perm = {}
    for idx in classes.values():
        sh = list(idx)
        rng.shuffle(sh)
        perm.update(zip(idx, sh))
    alone = set(classes.get("h88", [])) if d == 88 else (set(classes["hi"]) | set(classes["h88"]) if d <= 16 else set())
    for i, x in enumerate(dom):
        if i in alone:   # classes a depth has no room for: each description alone on either side, the other side plain
            ev.append(valid_event(rng, d, x, [], partner(rng, d, rich=False)))
            ev.append(valid_event(rng, d, partner(rng, d, rich=False), [], x))
        else:
            ev.append(valid_event(rng, d, x, some_styles(rng) if rng.random() < 0.3 else [], dom[perm[i]]))
    # ... and against a cheap partner (mixes basic / default / palette / 24-bit kinds in one specification)
    for x in (dom if not quick else dom[:274] + rng.sample(dom[274:], 250)):
        if rng.random() < 0.5:
            ev.append(valid_event(rng, d, x, some_styles(rng), partner(rng, d), spaces=True))
        else:
            ev.append(valid_event(rng, d, partner(rng, d), some_styles(rng), x, spaces=True))
    # B. every subset and order of the six settings
    for st in ordered_style_subsets():
        ev.append(valid_event(rng, d, partner(rng, d), st, partner(rng, d, rich=False), spaces=rng.random() < 0.3))
    # C. sampled 24-bit colours (edges of every table boundary over-represented)
    for i in range(600 if quick else 40000):
        ch = [rng.choice(EDGE) if rng.random() < 0.35 else rng.randrange(256) for _ in range(3)]
        if rng.random() < 0.1:
            ch = [ch[0]] * 3
        x = D("rgb6", *ch)
        if i % 2:
            ev.append(valid_event(rng, d, x, some_styles(rng) if rng.random() < 0.2 else [], partner(rng, d)))
        else:
            ev.append(valid_event(rng, d, partner(rng, d), [], x))
    # C2. 24-bit colours at the palette depths: every leading hex digit of every channel (the channel is cut to it before the cube
    #     is looked up), with arbitrary low digits; quick: every digit per channel beside two random channels, thorough: all 16^3
    if d in (88, 256):
        if quick:
            highs = [[h if c == k else rng.randrange(16) for k in range(3)] for c in range(3) for h in range(16) for _ in range(2)]
        else:
            highs = [[r, g, b] for r in range(16) for g in range(16) for b in range(16)]
        for i, hs in enumerate(highs):
            x = D("rgb6", *(16 * h + rng.randrange(16) for h in hs))
            if (i + sum(hs)) % 2:
                ev.append(valid_event(rng, d, x, [], partner(rng, d, rich=False)))
            else:
                ev.append(valid_event(rng, d, partner(rng, d, rich=False), [], x))
    # D. the rejections the property names
    words = WORDS + [rand_word(rng) for _ in range(60 if quick else 1500)]
    for i, w in enumerate(words):
        if w in BASIC or w in STYLES or w in ("default", ""):
            continue
        st = some_styles(rng)
        if i % 3 == 2:   # in the background (there a setting word is no colour either)
            p = partner(rng, d)
            ev.append(spec_event(d, [p], st, D("word"), render_fg([render(p)], st, [0]), w, cat="unknown_name"))
        else:
            ev.append(spec_event(d, [D("word")], st, D("default"), render_fg([w], st, [rng.randint(0, len(st))]), "default", cat="unknown_name"))
    for s in STYLES:
        ev.append(spec_event(d, [], [], D("word"), "", s, cat="unknown_name"))
    # numbers that only a lenient integer parser would read: a sign, an underscore, a blank or a non-ASCII digit is in none of the
    # documented forms ('h0'..'h255', 'g0'..'g100', 'g#00'..'g#ff', '#000'..'#fff', '#000000'..'#ffffff'), so these are names of no colour
    for i, w in enumerate(NOT_NUMBERS):
        if i % 2:
            p = partner(rng, d)
            ev.append(spec_event(d, [p], [], D("word"), render(p), w, cat="not_a_number"))
        else:
            st = some_styles(rng)
            ev.append(spec_event(d, [D("word")], st, D("default"), render_fg([w], st, [rng.randint(0, len(st))]), "default", cat="not_a_number"))
    for i in range(1, 7):
        ev.append(spec_event(d, [], [i, i], D("none"), render_fg([], [i, i], []), "", cat="dup_setting"))
    for _ in range(80 if quick else 2000):
        st = some_styles(rng) or [rng.randint(1, 6)]
        st.insert(rng.randint(0, len(st)), rng.choice(st))
        p = partner(rng, d)
        blanks = ["", "", " ", "  ", "\t"]
        pad = rng.choice([("", ""), (" ", " "), lambda: (rng.choice(blanks), rng.choice(blanks)), lambda: (rng.choice(blanks), rng.choice(blanks))])
        ev.append(spec_event(d, [p], st, D("default"), render_fg([render(p)], st, [rng.randint(0, len(st))], pad), "default", cat="dup_setting"))
    for i in range(1, 7):   # the two occurrences of one setting differ only in their surrounding blanks
        for a, b in ((STYLES[i - 1], " " + STYLES[i - 1]), (STYLES[i - 1] + " ", STYLES[i - 1]), (" " + STYLES[i - 1], STYLES[i - 1] + "\t")):
            ev.append(spec_event(d, [], [i, i], D("none"), a + "," + b, "", cat="dup_setting"))
    for _ in range(120 if quick else 3000):
        p, q = partner(rng, d), partner(rng, d)
        if p["k"] == "none" or q["k"] == "none":
            continue   # an empty part next to a colour: not a documented form, see malformed
        st = some_styles(rng)
        pos = sorted([rng.randint(0, len(st)), rng.randint(0, len(st))])
        ev.append(spec_event(d, [p, q], st, D("default"), render_fg([render(p), render(q)], st, pos), "default", cat="two_colours"))
    # E. malformed text: only "AttrSpecError or accepted, never another exception"
    bad = list(GARBAGE)
    valid_texts = [render(x) for x in rng.sample(dom, 40)] + BASIC + STYLES + ["#123456", "#ffffff", "g#80", "h200", "default"]
    bad += [mutate(rng, rng.choice(valid_texts)) for _ in range(250 if quick else 25000)]
    bad += [junk(rng) for _ in range(250 if quick else 25000)]
    for i, b in enumerate(bad):
        if i % 2:
            st = some_styles(rng)
            ev.append(spec_event(d, [D("raw")], st, D("default"), render_fg([b], st, [rng.randint(0, len(st))]), "default", cat="malformed"))
        else:
            ev.append(spec_event(d, [], [], D("raw"), "", b, cat="malformed"))
    return ev


def build_pairs(chk, d, events, quick):
    """Pairs of accepted specifications of one depth: synonyms (same stored colour from different texts) and strangers."""
    rng = chk.rng
    groups = {}
    for e in events:
        if e["t"] == "spec" and e["exc"] == "" and e["cat"] == "valid":
            groups.setdefault(json.dumps([e["f"], e["g"], sorted(e["ss"])], sort_keys=True), []).append(e)
    keys = list(groups)
    out = []
    multi = [k for k in keys if len({(x["fi"], x["bi"]) for x in groups[k]}) > 1]
    for _ in range(300 if quick else 6000):
        if multi and rng.random() < 0.5:
            a, b = rng.sample(groups[rng.choice(multi)], 2)
        else:
            a, b = rng.choice(groups[rng.choice(keys)]), rng.choice(groups[rng.choice(keys)])
        p = pair_event(d, a["fi"], a["bi"], b["fi"], b["bi"])
        if p:
            out.append(p)
    # the same texts at another depth: equal or not, but equal objects must hash alike
    for _ in range(200 if quick else 4000):
        a = rng.choice(groups[rng.choice(keys)])
        p = pair_event(d, a["fi"], a["bi"], a["fi"], a["bi"], d2=rng.choice([x for x in (1, 16, 88, 256, 2 ** 24) if x != d]))
        if p:
            out.append(p)
            chk.count("pair.cross_depth." + ("equal" if p["eq"] else "unequal"))
    # same colour, different texts, same settings in another order
    for _ in range(150 if quick else 3000):
        a = rng.choice(groups[rng.choice(keys)])
        st = list(a["st"])
        rng.shuffle(st)
        fc = a["fc"]
        fg2 = render_fg([render(x) for x in fc], st, [rng.randint(0, len(st))] if fc else [], (" ", ""))
        p = pair_event(d, a["fi"], a["bi"], fg2, a["bi"] if rng.random() < 0.7 else ("default" if a["bi"] == "" else a["bi"]))
        if p:
            out.append(p)
    return out


# ---------------------------------------------------------------------------------------------------------------
# validation: TLC judges; a rejected event is reported and re-submitted with the clause skipped

_TEXT = ("fi", "bi", "fi2", "bi2", "fot", "bot", "cat")


def _wire(e):
    return {k: v for k, v in e.items() if k not in _TEXT}


def _shape(s):
    if s.startswith("#"):
        return f"#{len(s)}"
    if s.startswith("g#"):
        return "g#"
    if s[:1] in ("g", "h"):
        return s[:1]
    return "other"


def _sig(e, why):
    clause, _, side = why.partition("/")
    sig = {"event": e["t"], "depth": e["d"], "side": side, "exc": e.get("exc", ""), "cat": e.get("cat", "")}
    if e["t"] != "spec":
        return clause, sig
    if e["exc"] not in ("", "AttrSpecError"):
        raws = [p.strip() for p in e["fi"].split(",")] + [e["bi"]]   # the parts as the constructor sees them
        hashy = [p for p in raws if p.startswith("#")]
        sig["shape"] = _shape(hashy[0]) if len(hashy) == 1 else ("other" if not hashy else "many")
        return clause, sig
    if e["exc"] == "":
        if side in ("fg", "bg"):
            x = (e["fc"][0] if e["fc"] else D("none")) if side == "fg" else e["bg"]
            c = e["f"] if side == "fg" else e["g"]
            o = e["g"] if side == "fg" else e["f"]
            sig.update({"in_k": x["k"], "in_v": (x["a"] * 255 * 2 + 100) // 200 if x["k"] == "gray" else x["a"],
                        "out_k": c["k"], "out_n": c["n"], "out_rgb": "%02x%02x%02x" % (c["r"], c["g"], c["b"]),
                        "other_k": o["k"], "oexc": e["fx"] if side == "fg" else e["bx"], "rgb_exc": e["rx"]})
        else:
            sig.update({"fg_k": e["f"]["k"], "bg_k": e["g"]["k"], "colors": e["col"], "qx": e["qx"]})
    return clause, sig


def _replay_of(e):
    keep = {k: e[k] for k in ("t", "d", "fi", "bi") if k in e}
    for k in ("fc", "st", "bg", "cat", "fi2", "bi2", "d2"):
        if k in e:
            keep[k] = e[k]
    keep["observed"] = {k: v for k, v in e.items() if k not in keep and k not in ("fs", "bs", "qfs", "qbs")}
    return keep


def judge(chk, events, name, chunk=1):
    """Validate all events; returns the number of TLC rounds."""
    pending = list(events)
    rounds = 0
    while pending:
        rounds += 1
        if rounds > 40:
            raise tlc.MachineryError("C18: rejected events do not converge")
        traces = [{"ev": [_wire(e) for e in pending[i:i + chunk]]} for i in range(0, len(pending), chunk)]
        per = max(4000, (2 * len(traces)) // 4 + 2) if len(traces) <= 80000 else 40000
        res = tlc.validate("AttrSpecTrace", traces, batch_events=per, jobs=4, timeout=1800)
        chk.add_tv(f"{name}_round{rounds}", res)
        nxt = []
        for ti, l, why in res.rejects:
            e = pending[ti * chunk + l - 1]
            if why.startswith("div+"):   # every property clause passed; nothing left to judge on this event
                for w in why.split("+")[1:]:
                    chk.divergence(w, {"d": e["d"], "fg": e["fi"], "bg": e["bi"], "colors": e.get("col"), "foreground": e.get("fot"),
                                       "background": e.get("bot")})
                nxt += pending[ti * chunk + l:(ti + 1) * chunk]
                continue
            clause, sig = _sig(e, why)
            chk.reject(f"C18.{clause}", sig, _replay_of(e))
            e["skip"] = e["skip"] + [why]
            nxt += pending[ti * chunk + l - 1:(ti + 1) * chunk]
        pending = nxt
    return rounds


MC_CFG = """CONSTANTS Variant = "{v}" Rgb6Vals = {{{vals}}}
SPECIFICATION Spec
{invs}
CHECK_DEADLOCK FALSE
"""
INVS = ["Idempotent", "ExactPreserved", "EuclidNearest", "GrayNearest", "RefSatisfies", "MinDepthMinimal", "MidpointLookupOK", "Rgb6ReductionOK"]


def run_models(quick):
    """The three model-checking runs; returns (result of the laws run, [(variant, invariant, result)])."""
    vals = [0, 48, 95, 112, 139, 224, 255] if quick else sorted(set(EDGE[::2] + [255] + [16 * h + 9 for h in range(16)]))
    cfg = MC_CFG.format(v="ref", vals=", ".join(map(str, vals)), invs="\n".join("INVARIANT " + i for i in INVS))
    r = tlc.mc("AttrSpec", cfg, workers=6, timeout=3000)
    bads = (("desc88_uses_256_steps", "Idempotent"), ("gray245_typo", "MidpointLookupOK"), ("rgb6_snapped_twice", "Rgb6ReductionOK"))
    with cf.ThreadPoolExecutor(3) as ex:   # three short runs, 2 workers each
        runs = list(ex.map(lambda bi: tlc.mc("AttrSpec", MC_CFG.format(v=bi[0], vals="0, 48, 255", invs="INVARIANT " + bi[1]), workers=2,
                                             timeout=1200), bads))
    return r, [(b, i, rb) for (b, i), rb in zip(bads, runs)]


def book_models(chk, res):
    r, bad = res
    chk.add_mc("MC_AttrSpec_laws", r)
    if not r.ok:
        chk.reject("C18.model." + str(r.violated), {"model": "AttrSpec"}, {"tlc_trace": r.trace[-3:]})
    refuted = {}
    for name, inv, rb in bad:
        refuted[name] = rb.violated == inv
        chk.cov["tlc_runs"].append({"run": f"MC_AttrSpec_bad_{name}_must_fail", "violated": rb.violated, "generated": rb.generated,
                                    "wall_s": round(rb.wall_s, 1)})
        if rb.violated != inv:
            chk.vacuity.append(f"model.{inv}_does_not_refute_{name}")
    chk.cov["wrong_variants_refuted"] = refuted


def run(chk):
    quick = chk.tier == "quick"
    pool = cf.ThreadPoolExecutor(1)
    models = pool.submit(run_models, quick)   # the model is checked while the real code is driven and its records validated
    counts = {}
    nontriv = set()
    total_rounds = 0
    allev = []
    total_rounds = 0
    for d in DEPTHS:
        ev = build_events(chk, d, quick)
        if d > 1:
            ev += build_pairs(chk, d, ev, quick)
        if not quick:   # judged depth by depth, and only what the coverage counts need is kept
            total_rounds += judge(chk, ev, f"TV_AttrSpecTrace_{d}")
            keep = ("t", "d", "cat", "exc", "eq", "fc", "bg", "f", "g", "ss", "st", "fi", "bi", "fot", "bot", "col", "rf", "rb", "qeq")
            ev = [{k: e[k] for k in keep if k in e} for e in ev]
        allev += ev
    if quick:
        total_rounds = judge(chk, allev, "TV_AttrSpecTrace")
    for e in allev:
        d = e["d"]
        if e["t"] == "pair":
            k = f"{d}.pair.{'equal' if e['eq'] else 'unequal'}"
            counts[k] = counts.get(k, 0) + 1
            continue
        if e["cat"] != "valid":
            k = f"{d}.{e['cat']}.{e['exc'] or 'accepted'}"
        elif e["exc"]:
            k = f"{d}.beyond_depth.{e['exc']}"
        else:
            k = f"{d}.accepted"
            for side, x, c in (("fg", e["fc"][0] if e["fc"] else D("none"), e["f"]), ("bg", e["bg"], e["g"])):
                kk = f"{d}.accepted.{side}.{x['k']}"
                counts[kk] = counts.get(kk, 0) + 1
            if e["f"]["k"] != "default" or e["g"]["k"] != "default" or e["ss"]:
                nontriv.add((d, e["fi"], e["bi"]))
            if len(e["st"]) >= 1:
                counts[f"{d}.accepted.with_settings"] = counts.get(f"{d}.accepted.with_settings", 0) + 1
        counts[k] = counts.get(k, 0) + 1
    acc = [e for e in allev if e["t"] == "spec" and e["d"] == 256 and e["exc"] == "" and e["cat"] == "valid" and e["f"]["k"] == "high"]
    for e in acc[1000:1002]:
        chk.sample({"depth": e["d"], "fg": e["fi"], "bg": e["bi"], "stored_fg": e["f"], "stored_bg": e["g"], "settings": e["ss"],
                    "foreground": e["fot"], "background": e["bot"], "colors": e["col"], "rgb": e["rf"] + e["rb"],
                    "rebuilt_equal": e["qeq"]})
    # the exhaustive part of the quantifier, measured: distinct descriptions of each kind accepted on each side
    seen = {}
    for e in allev:
        if e["t"] == "spec" and e["exc"] == "" and e["cat"] == "valid":
            for side, x in (("fg", e["fc"][0] if e["fc"] else D("none")), ("bg", e["bg"])):
                seen.setdefault((e["d"], side, x["k"]), set()).add((x["a"], x["b"], x["c"]))
    covered = {}
    for d in DEPTHS:
        for side in ("fg", "bg"):
            want = {"basic": 16 if d >= 16 else 0, "h": 0 if d <= 16 else (88 if d == 88 else 256), "rgb3": 4096 if d > 16 else 0,
                    "gray": 101 if d > 16 else 0, "grayhex": 256 if d > 16 else 0}
            for k, n in want.items():
                got = len(seen.get((d, side, k), ()))
                covered[f"{d}.{side}.{k}"] = got
                if got != n:
                    chk.vacuity.append(f"driver.domain.{d}.{side}.{k}={got}/{n}")
    chk.cov["exhaustive_domain_accepted"] = covered
    orders = {d: len({tuple(e["st"]) for e in allev if e["t"] == "spec" and e["d"] == d and e["exc"] == "" and e["cat"] == "valid"})
              for d in DEPTHS}
    chk.cov["setting_orders_accepted"] = orders
    for d, n in orders.items():
        if n < 1957:
            chk.vacuity.append(f"driver.setting_orders.{d}={n}/1957")
    for pick in ([e for e in allev if e["t"] == "spec" and e["d"] == 88 and e["exc"] == "" and e["cat"] == "valid"
                  and e["fc"] and e["fc"][0]["k"] == "grayhex"][100:101]
                 + [e for e in allev if e["t"] == "spec" and e["cat"] == "two_colours" and e["d"] == 256][:1]):
        chk.sample({k: pick[k] for k in ("d", "fi", "bi", "exc", "f", "g", "fot", "bot", "col", "rf", "rb", "qeq") if k in pick})
    book_models(chk, models.result())
    pool.shutdown()
    chk.cov["clause_counts"] = counts
    chk.cov["distinct_nontrivial"] = len(nontriv)
    chk.cov["tv_rounds"] = total_rounds
    chk.cov["exhaustive"] = True
    chk.cov["rule"] = ("per depth in {1,16,88,256,2^24}: default, '', 16 basic names, h0..h255, #000..#fff, g0..g100, g#00..g#ff each once as "
                       "foreground and once as background (thorough: also a seeded pairing of the whole domain with itself); all 1957 ordered "
                       "subsets of the six settings; seeded #rrggbb samples with table-boundary values over-represented; unknown names, "
                       "duplicated settings, two colours, colours beyond the depth; mutated / junk text; pairs of specifications for ==/hash; "
                       "non-trivial = distinct accepted (depth, fg text, bg text) with a colour or a setting")
    need = ["256.accepted.fg.rgb3", "256.accepted.bg.rgb3", "88.accepted.fg.gray", "88.accepted.bg.grayhex", "16777216.accepted.fg.rgb6",
            "256.accepted.fg.rgb6", "16.accepted.fg.basic", "1.accepted.with_settings", "256.unknown_name.AttrSpecError", "256.not_a_number.AttrSpecError", "88.not_a_number.AttrSpecError",
            "16777216.not_a_number.AttrSpecError",
            "256.dup_setting.AttrSpecError", "256.two_colours.AttrSpecError", "16.beyond_depth.AttrSpecError", "1.beyond_depth.AttrSpecError",
            "88.beyond_depth.AttrSpecError", "256.malformed.AttrSpecError", "256.malformed.accepted", "256.pair.equal", "256.pair.unequal",
            "16777216.pair.equal"]
    # the families added for blank-padded duplicates and for the leading digits of 24-bit colours at the palette depths
    for d in DEPTHS:
        n = 0
        for e in allev:
            if e["t"] == "spec" and e["d"] == d and e["cat"] == "dup_setting":
                parts = e["fi"].split(",")
                n += any(a != b and a.strip() == b.strip() and a.strip() in STYLES for a, b in itertools.combinations(parts, 2))
        counts[f"{d}.dup_setting.differently_padded"] = n
        need.append(f"{d}.dup_setting.differently_padded")
    for d in (88, 256):
        for side, key in (("fg", "fc"), ("bg", "bg")):
            seen = set()
            for e in allev:
                if e["t"] == "spec" and e["d"] == d and e["cat"] == "valid" and e["exc"] == "":
                    x = (e["fc"][0] if e["fc"] else D("none")) if side == "fg" else e["bg"]
                    if x["k"] == "rgb6":
                        seen |= {(c, x[c] >> 4) for c in "abc"}
            counts[f"{d}.accepted.{side}.rgb6.leading_digits"] = len(seen)
            if len(seen) < 48:
                chk.vacuity.append(f"driver.{d}.accepted.{side}.rgb6.leading_digits={len(seen)}/48")
    for k in need:
        if not counts.get(k):
            chk.vacuity.append("driver." + k)
    chk.cov["trusted_base"] = ["TLC", "AttrSpecOps.tla (xterm tables by formula, documented grammar)",
                               "vf/props/c18.py: render() of structured descriptions to text, read_colour() projection of reported text, "
                               "look() reading the public properties of AttrSpec"]
    chk.assumptions += [
        "gray values ('gN', 'g#NN') go to the nearest of cube black, the gray ramp and cube white (as documented), not to gray entries inside the cube",
        "a per-cent gray is p*255/100 rounded either way; ties between two equally near entries may go either way",
        "a 24-bit '#rrggbb' at 88/256 colours: per channel an exact cube step is kept, otherwise the nearest cube step of the 8-bit value "
        "or of its leading hex digit (read as '#rgb') is demanded (clause nearest_cube); results that are nearest only for the leading "
        "digit are reported as DIVERGENCE rgb6_not_nearest_cube",
        "min_depth accepts either reading of 'smallest depth that can express the specification' (by colour kinds, or the depth at which an "
        "equal object can be built); results matching only one reading are reported as DIVERGENCE",
        "the rebuilt specification is AttrSpec(spec.foreground, spec.background, same depth)",
        "malformed text and accepted junk: only the exception class of the constructor is judged",
    ]


def replay(chk, path):
    with open(path) as f:
        rp = json.load(f)["replay"]
    if rp.get("tlc_trace") is not None:
        book_models(chk, run_models(True))
        return chk.finish()
    if rp["t"] == "pair":
        e = pair_event(rp["d"], rp["fi"], rp["bi"], rp["fi2"], rp["bi2"], d2=rp.get("d2") if rp.get("d2") != rp["d"] else None)
    else:
        e = spec_event(rp["d"], rp["fc"], rp["st"], rp["bg"], rp["fi"], rp["bi"], cat=rp.get("cat", "valid"))
    judge(chk, [e], "replay")
    chk.sample({k: v for k, v in e.items() if k in ("d", "fi", "bi", "exc", "f", "g", "fot", "bot", "col", "rf", "rb", "qeq")})
    return chk.finish()
