"""C17 — display attributes travel from markup to the terminal unchanged.
Contract: spec/AttrFlowOps.tla; consistency model: spec/AttrFlow.tla; trace spec: spec/AttrFlowTrace.tla (which runs the
emitted bytes on spec/Terminal.tla through spec/RawDisplayTrace.tla's token interpretation).

Three stages, all judged by TLC:
 1. markup -> Text canvas: generated nested markup over position-unique characters (wide, multi-byte, DEC line drawing, zero
    width; str and bytes; utf-8 / euc-jp / iso8859-1) x widths x wrap x align; every character of every rendered row is
    recorded with its attribute and traced back to its source position.
 1b. the rendered rows clipped on the left / right at every column (Canvas.content(trim_left, cols), pad_trim_left_right with
    negative amounts, an Overlay window, Padding(width='clip')): every column keeps its attribute, the blank that remains of
    a double-width character cut by an edge carries that character's attribute.
 2. chains of AttrMap / AttrWrap / fill_attr / fill_attr_apply at three nesting levels (around the text, around its
    Padding, around the Filler) x focus on/off; cells before and after.
 2b. histories: one widget stack (optionally with a one-child Pile / Columns inside) lives through renderings (of the whole
    and of inner widgets on their own), map changes through every setter, re-reading of canvases that are still held and
    maps applied to copies of held canvases; the chain of maps is state of the trace specification.
 3. real raw_display.Screen with palettes of every entry form at colours {1,16,88,256,2^24} x bright-is-bold, hexadecimal
    '#rrggbb' / '#rgb' high colours with arbitrary digits, AttrSpec objects as attributes; the bytes it writes are tokenised
    (vf/term.py) and decoded by the TLA+ terminal; TLC resolves the palette (and the hexadecimal colours per depth) itself.
Nothing is decided here: the Python side renders, records and reports what TLC rejected."""
from __future__ import annotations

import concurrent.futures as cf
import io
import json
import multiprocessing
import time
import warnings

from .. import term, tlc

MODES = {"utf8": "utf-8", "wide": "euc-jp", "narrow": "iso8859-1"}
WRAPS = ["any", "space", "clip", "ellipsis"]
ALIGNS = ["left", "center", "right"]

# attribute names (arbitrary hashables) <-> small integers; None = 0
NAMES = [None, "a1", 7, ("t", 1)]
# further names used on the display stage only
N_ALIAS, N_ALIAS2, N_UNDEF = "like-a1", ("alias", 2), "nope"
# two cells attributes that are AttrSpec objects (given directly in the markup, not through the palette) when the trace has them
N_SPEC1, N_SPEC2 = "<AttrSpec 1>", "<AttrSpec 2>"
ALL_NAMES = [*NAMES, N_ALIAS, N_ALIAS2, N_UNDEF, N_SPEC1, N_SPEC2]
NAME_ID = {n: i for i, n in enumerate(ALL_NAMES)}

# position-unique characters per encoding mode (spaces and newlines may repeat: they are traced through the layout)
UNIQ = {
    "utf8": list("abcdefgh") + ["é", "ü", "ñ", "字", "界", "語", "\U0001f600", "€"],
    "wide": list("abcdefgh") + ["字", "界", "語", "漢"],
    "narrow": list("abcdefgh") + ["é", "ü", "ñ"],
}
ZERO = "́"
DECCH = "┼"      # shown through the line-drawing character set in non-UTF-8 encodings (one byte for a str character)


class Enc:
    """urwid's encoding mode is process-global: set it explicitly, restore what was there."""

    def __init__(self, mode):
        self.mode = mode

    def __enter__(self):
        import urwid
        from urwid import str_util, util

        self.old = (util._target_encoding, util._use_dec_special, str_util.get_byte_encoding())
        urwid.set_encoding(MODES[self.mode])
        return self

    def __exit__(self, *a):
        from urwid import str_util, util

        util._target_encoding, util._use_dec_special = self.old[0], self.old[1]
        str_util.set_byte_encoding(self.old[2])


def aid(a):
    """attribute object -> small integer (an attribute that is none of ours is reported as 99: TLC rejects it)."""
    try:
        return NAME_ID.get(a, 99)
    except TypeError:
        return 99


# ---- markup trees -----------------------------------------------------------------------------------------------
def leaf(chars):
    return {"k": "s", "tag": 0, "cs": [ord(c) for c in chars], "items": []}


def tagn(t, child):
    return {"k": "t", "tag": t, "cs": [], "items": [child]}


def listn(items):
    return {"k": "l", "tag": 0, "cs": [], "items": list(items)}


def to_python(node, chars_of, as_bytes, enc):
    """node -> the object handed to urwid.Text; chars come from the node's code points."""
    if node["k"] == "s":
        s = "".join(chr(c) for c in node["cs"])
        return s.encode(enc) if as_bytes else s
    if node["k"] == "t":
        return (NAMES[node["tag"]], to_python(node["items"][0], chars_of, as_bytes, enc))
    return [to_python(m, chars_of, as_bytes, enc) for m in node["items"]]


def all_trees(d, chars, tags):
    """Every markup tree of nesting depth <= d over the character sequence (same enumeration as AttrFlow.tla)."""
    out = [leaf(chars)]
    if d == 0:
        return out
    sub = all_trees(d - 1, chars, tags)
    out += [tagn(t, c) for t in tags for c in sub]
    out += [listn(ms) for ms in all_lists(d - 1, chars, tags)]
    return out


def all_lists(d, chars, tags):
    out = [[c] for c in all_trees(d, chars, tags)]
    for cut in range(1, len(chars)):
        heads = all_trees(d, chars[:cut], tags)
        for rest in all_lists(d, chars[cut:], tags):
            out += [[h, *rest] for h in heads]
    return out


def rand_tree(rng, d, chars, allow_empty=True):
    r = rng.random()
    if d == 0 or r < 0.2 or (not chars and r < 0.7):
        return leaf(chars)
    if r < 0.55:
        return tagn(rng.randrange(len(NAMES)), rand_tree(rng, d - 1, chars))
    k = rng.randint(1, 4)
    cuts = sorted(rng.randint(0, len(chars)) for _ in range(k - 1))
    if not allow_empty:
        cuts = sorted(set(c for c in cuts if 0 < c < len(chars)))
    b = [0, *cuts, len(chars)]
    return listn([rand_tree(rng, d - 1, chars[b[i]:b[i + 1]]) for i in range(len(b) - 1)])


def depth_of(node):
    return 0 if node["k"] == "s" else 1 + max(depth_of(m) for m in node["items"])


def rand_text(rng, mode, as_bytes, n, zero_ok=True):
    pool = list(UNIQ[mode])
    rng.shuffle(pool)
    wide_first = [c for c in pool if term.char_width(c) == 2 or len(c.encode(MODES[mode])) > 1]
    chars = []
    for _ in range(n):
        r = rng.random()
        if r < 0.18:
            chars.append(" ")
        elif r < 0.22:
            chars.append("\n")
        elif r < 0.27 and mode == "utf8" and zero_ok and chars and chars[-1] not in " \n" and ZERO not in chars:
            chars.append(ZERO)
        elif r < 0.32 and mode != "utf8" and not as_bytes and DECCH not in chars:
            chars.append(DECCH)
        elif r < 0.65 and wide_first:
            c = wide_first.pop()
            pool.remove(c)
            chars.append(c)
        elif pool:
            c = pool.pop()
            if c in wide_first:
                wide_first.remove(c)
            chars.append(c)
    return chars


# ---- stage 1: markup -> Text canvas -------------------------------------------------------------------------------
SPLIT = 98     # pseudo attribute: the bytes of one character lie in runs with different attributes


def content_chars(row, enc, widths=False):
    """one canvas content row -> [(code point, attribute id)] per character (not per column); with widths=True
    [(code point, attribute id, screen columns)].
    The row's bytes are decoded as a whole, so a glyph never depends on where the runs are cut; a character whose
    bytes carry different attributes is reported with the pseudo attribute SPLIT."""
    data, attrs, css = b"", [], []
    for a, cs, bs in row:
        data += bs
        attrs += [aid(a)] * len(bs)
        css += [cs] * len(bs)
    out = []
    o = 0
    for ch in data.decode(enc, "replace"):
        n = len(ch.encode(enc, "replace")) if ch != "\ufffd" else 1
        if ch == "\ufffd":      # undecodable byte(s): resynchronise on the next decodable position is the codec's business
            n = max(1, _bad_len(data, o, enc))
        mine = set(attrs[o:o + n])
        wdt = 1 if css[o] == "0" else term.char_width(ch) if enc == "utf-8" else n
        if css[o] == "0" and n == 1:
            ch = term.DEC_OF_ALT.get(ch, ch)
        out.append((ord(ch), attrs[o] if len(mine) == 1 else SPLIT, wdt) if widths else (ord(ch), attrs[o] if len(mine) == 1 else SPLIT))
        o += n
    return out


def content_cols(row, enc):
    """one canvas content row -> [[code point, attribute id, part]] per screen column (part: 0 narrow, 1 / 2 the halves of
    a double-width character); characters without a column of their own are left out."""
    out = []
    for g, a, wdt in content_chars(row, enc, True):
        out += [[g, a, 0]] if wdt == 1 else [[g, a, 1], [g, a, 2]] if wdt == 2 else []
    return out


def _bad_len(data, o, enc):
    """length of the undecodable sequence at offset o, as the codec reports it"""
    try:
        data[o:].decode(enc)
    except UnicodeDecodeError as ex:
        if ex.start == 0:
            return ex.end
    return 1


def line_hints(line, text, maxcol, enc, pos_of):
    """The layout of one line, as the widget reports it -> [(kind, source position)] per displayed character.
    The layout contract itself is C03's subject; here it only says where each character came from, and TLC re-checks
    every hint against the (position-unique) glyph that was actually displayed."""
    from urwid.text_layout import LayoutSegment, trim_line

    hints = []
    cols = 0
    for seg in trim_line(line, text, 0, maxcol):
        s = LayoutSegment(seg)
        cols += s.sc
        if s.end:
            o = s.offs
            part = text[s.offs:s.end]
            if isinstance(part, bytes):
                for ch in part.decode(enc, "replace"):
                    hints.append(("c", pos_of(o)))
                    o += len(ch.encode(enc, "replace"))
            else:
                for ch in part:
                    hints.append(("c", pos_of(o)))
                    o += 1
        elif s.text:
            for ch in s.text.decode(enc, "replace"):
                hints.append(("h" if ch == " " else "m", pos_of(s.offs, False)))
        elif s.offs is not None:
            # "the attribute used will be the same as the attribute at that text offset": any unit of a character names it
            hints += [("h", pos_of(s.offs, False))] * s.sc
        else:
            hints += [("p", 0)] * s.sc
    if cols < maxcol:      # a line shorter than the canvas is completed with blanks
        hints += [("p", 0)] * (maxcol - cols)
    return hints


def text_trace(mode, as_bytes, node, variants):
    """One markup, rendered for each (width, wrap, align) of variants.  Returns a trace."""
    import urwid

    enc = MODES[mode]
    chars = [chr(c) for c in _text_of(node)]
    ev = []
    with Enc(mode), warnings.catch_warnings():
        warnings.simplefilter("ignore")
        py = to_python(node, None, as_bytes, enc)
        ulen = [len(c.encode(enc)) if as_bytes else 1 for c in chars]
        starts, inside = {}, {}
        o = 0
        for i, u in enumerate(ulen):
            starts[o] = i + 1
            for q in range(o, o + u):
                inside[q] = i + 1
            o += u
        starts[o] = inside[o] = len(chars) + 1

        def pos_of(off, exact=True):
            """unit offset (character index of a str, byte offset of bytes) -> 1-based character position; 0 = not traceable"""
            return (starts if exact else inside).get(off, 0)

        try:
            w = urwid.Text(py)
            text, runs = w.get_text()
            got = text.decode(enc, "replace") if isinstance(text, bytes) else text
            ev.append({"t": "decomp", "gottext": [ord(c) for c in got], "runs": [[aid(a), int(n)] for a, n in runs]})
        except Exception as ex:  # noqa: BLE001
            ev.append({"t": "exc", "where": "Text()", "exc": type(ex).__name__, "msg": str(ex)[:120]})
            w = None
        for width, wrap, align in variants if w is not None else ():
            try:
                w.set_wrap_mode(wrap)
                w.set_align_mode(align)
                canv = w.render((width,))
                trans = w.get_line_translation(width)
                rows = []
                for line, row in zip(trans, canv.content()):
                    cc = content_chars(row, enc)
                    hh = line_hints(line, text, width, enc, pos_of)
                    if len(hh) < len(cc):
                        hh += [("?", 0)] * (len(cc) - len(hh))
                    rows.append([[g, a, hh[i][0], hh[i][1]] for i, (g, a) in enumerate(cc)])
                ev.append({"t": "render", "width": width, "wrap": wrap, "align": align, "rows": rows})
            except Exception as ex:  # noqa: BLE001
                ev.append({"t": "rexc", "width": width, "wrap": wrap, "align": align, "exc": type(ex).__name__,
                           "msg": str(ex)[:120]})
    return {"w": 1, "h": 1, "stage": "text", "mode": mode, "bytes": bool(as_bytes), "markup": node, "ulen": ulen, "ev": ev}


# ---- stage 1b: rendered text clipped on the left / right at every column -------------------------------------------------
def _positions(chars, as_bytes, enc):
    ulen = [len(c.encode(enc)) if as_bytes else 1 for c in chars]
    starts, inside = {}, {}
    o = 0
    for i, u in enumerate(ulen):
        starts[o] = i + 1
        for q in range(o, o + u):
            inside[q] = i + 1
        o += u
    starts[o] = inside[o] = len(chars) + 1
    return ulen, lambda off, exact=True: (starts if exact else inside).get(off, 0)


def trim_cuts(urwid, w, canv, width, nrows, enc, pick):
    """Every way this harness knows to show columns [left, left+cols) of a rendered Text: -> list of cuts
    {how, y, left, cols, cells}.  `pick(left, cols, how)` thins the (left, cols) pairs out."""
    from urwid.canvas import CompositeCanvas

    cuts = []

    def add(how, left, cols, rows):
        for y, r in enumerate(rows):
            cuts.append({"how": how, "y": y + 1, "left": left, "cols": cols, "cells": r})

    for left in range(width):
        for cols in range(1, width - left + 1):
            if (left, cols) == (0, width):
                continue
            if pick(left, cols, "content"):
                # 1. Canvas.content(trim_left, cols) of the Text canvas itself
                add("content", left, cols, [content_cols(r, enc) for r in canv.content(trim_left=left, cols=cols)])
            if pick(left, cols, "pad_trim"):
                # 2. CompositeCanvas.pad_trim_left_right with negative amounts
                cc = CompositeCanvas(canv)
                cc.pad_trim_left_right(-left, -(width - left - cols))
                add("pad_trim_left_right", left, cols, [content_cols(r, enc) for r in cc.content()])
            if 0 < cols < width and pick(left, cols, "overlay"):
                # 3. a window over columns [left, left+cols): what stays visible to its left and to its right
                ov = urwid.Overlay(urwid.SolidFill("T"), urwid.Filler(w, "top"), ("fixed left", left), cols, ("fixed top", 0), nrows)
                rows = [content_cols(r, enc) for r in ov.render((width, nrows)).content()]
                if left > 0:
                    add("overlay_left_of_window", 0, left, [r[:left] for r in rows])
                if left + cols < width:
                    add("overlay_right_of_window", left + cols, width - left - cols, [r[left + cols:] for r in rows])
    return cuts


def trim_trace(mode, as_bytes, node, variants, thin):
    """One markup; for each (width, wrap, align): the rendered rows (every column traced back to its source character, as in
    text_trace) and the same rows clipped on the left and on the right at every column by the real clipping paths.
    width 0 = the width the text packs to (then Padding(width='clip') is one of the paths)."""
    import urwid

    enc = MODES[mode]
    chars = [chr(c) for c in _text_of(node)]
    ev = []
    with Enc(mode), warnings.catch_warnings():
        warnings.simplefilter("ignore")
        py = to_python(node, None, as_bytes, enc)
        ulen, pos_of = _positions(chars, as_bytes, enc)
        for width, wrap, align in variants:
            try:
                w = urwid.Text(py, wrap=wrap, align=align)
                text = w.get_text()[0]
                packed = width == 0
                if packed:
                    width = w.pack(())[0]
                    if width < 2:
                        continue
                canv = w.render((width,))
                trans = w.get_line_translation(width)
            except Exception as ex:  # noqa: BLE001     (raised by the layout: C03's subject, as in text_trace)
                ev.append({"t": "rexc", "width": width, "wrap": wrap, "align": align, "exc": type(ex).__name__, "msg": str(ex)[:120]})
                continue
            try:
                base = []
                for line, row in zip(trans, canv.content()):
                    cc = content_chars(row, enc, True)
                    hh = line_hints(line, text, width, enc, pos_of)
                    if len(hh) < len(cc):
                        hh += [("?", 0)] * (len(cc) - len(hh))
                    cols = []
                    for i, (g, a, wdt) in enumerate(cc):
                        cols += [[g, a, hh[i][0], hh[i][1], part] for part in ((0,) if wdt == 1 else (1, 2) if wdt == 2 else ())]
                    base.append(cols)
                k = thin + len(ev)
                cuts = trim_cuts(urwid, w, canv, width, len(base), enc,
                                 (lambda l, c, how: True) if thin < 0 else
                                 (lambda l, c, how, k=k: how == "content" or (l + c + k + (how == "overlay")) % 2 == 0))
                if packed:
                    # 4. Padding(width='clip'): the text at its own width, clipped to the columns available
                    for cols in range(1, width):
                        for al in ALIGNS:
                            pad = urwid.Padding(w, align=al, width="clip")
                            left = -pad.padding_values((cols,), False)[0]
                            if left >= 0:
                                for y, r in enumerate(pad.render((cols,)).content()):
                                    cuts.append({"how": "padding_clip", "y": y + 1, "left": left, "cols": cols, "cells": content_cols(r, enc)})
                ev.append({"t": "trim", "width": width, "wrap": wrap, "align": align, "packed": packed, "base": base, "cuts": cuts})
            except Exception as ex:  # noqa: BLE001
                ev.append({"t": "exc", "where": "trim", "width": width, "wrap": wrap, "align": align, "exc": type(ex).__name__,
                           "msg": str(ex)[:120]})
    return {"w": 1, "h": 1, "stage": "trim", "mode": mode, "bytes": bool(as_bytes), "markup": node, "ulen": ulen, "ev": ev}


def _text_of(node):
    if node["k"] == "s":
        return list(node["cs"])
    return [c for m in node["items"] for c in _text_of(m)]


def variants_for(rng, mode, chars, full, thin=-1):
    cols = sum(term.char_width(c) if c not in "\n" else 0 for c in chars)
    widths = list(range(1, min(cols, 8) + 2)) if full else sorted(rng.sample(range(1, min(cols, 8) + 3), k=min(3, min(cols, 8) + 2)))
    wraps = list(WRAPS)
    out = []
    for wd in widths:
        for wr in wraps:
            if wr == "ellipsis" and mode == "wide":
                continue          # the mark is mis-measured in double-byte encodings: C03's finding, not this property's subject
            for ai, al in enumerate(ALIGNS):
                if wr == "ellipsis" and mode == "narrow" and al != "left":
                    continue      # '...' mark overflows with center/right: C03's finding
                if thin >= 0 and wr not in ("clip", "ellipsis") and (wd + thin) % 3 != ai:
                    continue      # quick tier: one alignment per (width, wrap) where alignment only moves the padding
                out.append((wd, wr, al))
    return out


# ---- stage 2: attribute map chains -------------------------------------------------------------------------------
def rand_map(rng, small=False):
    keys = [k for k in range(len(NAMES)) if rng.random() < (0.35 if small else 0.5)]
    return [[k, rng.randrange(len(NAMES))] for k in keys]


def py_map(pairs):
    return {NAMES[k]: NAMES[v] for k, v in pairs}


def rand_element(rng, lvl, canvas_level=False):
    """A chain element: description for TLC + how to apply it."""
    if canvas_level:
        if rng.random() < 0.4:
            a = rng.randrange(len(NAMES))
            return {"kind": "fill_attr", "amap": [[0, a]], "hasf": False, "fmap": [], "lvl": lvl}
        return {"kind": "fill_attr_apply", "amap": rand_map(rng), "hasf": False, "fmap": [], "lvl": lvl}
    r = rng.random()
    if r < 0.2:
        a = rng.randrange(len(NAMES))
        f = rng.randrange(len(NAMES)) if rng.random() < 0.6 else 0     # focus_attr None = "use attr"
        return {"kind": "AttrWrap", "amap": [[0, a]], "hasf": f != 0, "fmap": [[0, f]] if f else [], "lvl": lvl}
    if r < 0.35:
        a = rng.randrange(len(NAMES))
        f = rng.randrange(len(NAMES)) if rng.random() < 0.6 else 0
        return {"kind": "AttrMap1", "amap": [[0, a]], "hasf": f != 0, "fmap": [[0, f]] if f else [], "lvl": lvl}
    hasf = rng.random() < 0.6
    return {"kind": "AttrMap", "amap": rand_map(rng), "hasf": hasf, "fmap": rand_map(rng, small=rng.random() < 0.3) if hasf else [],
            "lvl": lvl}


def wrap_widget(urwid, w, el):
    if el["kind"] == "AttrWrap":
        return urwid.AttrWrap(w, NAMES[el["amap"][0][1]], NAMES[el["fmap"][0][1]] if el["hasf"] else None)
    if el["kind"] == "AttrMap1":
        return urwid.AttrMap(w, NAMES[el["amap"][0][1]], NAMES[el["fmap"][0][1]] if el["hasf"] else None)
    return urwid.AttrMap(w, py_map(el["amap"]), py_map(el["fmap"]) if el["hasf"] else None)


def column_cells(canv, enc):
    """canvas -> rows of [glyph, attribute id] per screen column (a wide glyph fills two columns)."""
    rows = []
    for row in canv.content():
        cells = []
        for a, cs, bs in row:
            for ch in bs.decode(enc, "replace"):
                if cs == "0":
                    ch = term.DEC_OF_ALT.get(ch, ch)
                wdt = term.char_width(ch) if enc == "utf-8" else len(ch.encode(enc, "replace")) if cs != "0" else 1
                cells += [[ord(ch), aid(a)]] * wdt
        rows.append(cells)
    return rows


def build_stack(urwid, py, wrap, align, geom, chain):
    """Text -> (level 0 maps) -> Padding -> (level 1 maps) -> Filler -> (level 2 maps)."""
    left, right, top, bottom = geom
    w = urwid.Text(py, align=align, wrap=wrap)
    for el in chain:
        if el["lvl"] == 0 and not el["kind"].startswith("fill"):
            w = wrap_widget(urwid, w, el)
    w = urwid.Padding(w, align="left", width=("relative", 100), left=left, right=right)
    for el in chain:
        if el["lvl"] == 1:
            w = wrap_widget(urwid, w, el)
    w = urwid.Filler(w, valign="top", height="pack", top=top, bottom=bottom)
    for el in chain:
        if el["lvl"] == 2 and not el["kind"].startswith("fill"):
            w = wrap_widget(urwid, w, el)
    return w


def maps_trace(mode, node, wrap, align, tw, geom, cases):
    """cases: list of (chain, focus).  One event per case."""
    import urwid
    from urwid.canvas import CompositeCanvas

    enc = MODES[mode]
    left, right, top, bottom = geom
    ev = []
    with Enc(mode), warnings.catch_warnings():
        warnings.simplefilter("ignore")
        py = to_python(node, None, False, enc)
        inner_rows = urwid.Text(py, align=align, wrap=wrap).rows((tw,))
        size = (left + tw + right, top + inner_rows + bottom + 1)
        for chain, focus in cases:
            try:
                before = column_cells(build_stack(urwid, py, wrap, align, geom, []).render(size, focus), enc)
                canv = CompositeCanvas(build_stack(urwid, py, wrap, align, geom, chain).render(size, focus))
                for el in chain:
                    if el["kind"] == "fill_attr":
                        canv.fill_attr(NAMES[el["amap"][0][1]])
                    elif el["kind"] == "fill_attr_apply":
                        canv.fill_attr_apply(py_map(el["amap"]))
                after = column_cells(canv, enc)
                cells = []
                for y, (rb, ra) in enumerate(zip(before, after)):
                    for x, (cb, ca) in enumerate(zip(rb, ra)):
                        lvl = 2 if (y < top or y >= top + inner_rows) else 1 if (x < left or x >= left + tw) else 0
                        cells.append([cb[0], cb[1], lvl, ca[0], ca[1]])
                shape_ok = len(before) == len(after) == size[1] and all(len(r) == size[0] for r in before + after)
                if not shape_ok:
                    cells.append([0, 0, 0, 1, 0])     # shapes differ: TLC rejects (maps_leave_the_text_alone)
                ev.append({"t": "maps", "focus": bool(focus), "cells": cells,
                           "chain": [{"amap": e["amap"], "hasf": e["hasf"], "fmap": e["fmap"], "lvl": e["lvl"]} for e in chain],
                           "kinds": [e["kind"] for e in chain]})
            except Exception as ex:  # noqa: BLE001
                ev.append({"t": "exc", "where": "maps", "exc": type(ex).__name__, "msg": str(ex)[:120],
                           "kinds": [e["kind"] for e in chain], "focus": bool(focus)})
    return {"w": 1, "h": 1, "stage": "maps", "mode": mode, "markup": node, "wrap": wrap, "align": align, "tw": tw,
            "geom": list(geom), "ev": ev}


# ---- stage 2b: histories: maps changed between renderings while earlier canvases are still held ----------------------------
WRAPPERS = ["none", "pile", "columns"]
SET_OPS = {"AttrMap": ["set_attr_map", "attr_map=", "set_focus_map", "focus_map=", "set_focus_map(None)"],
           "AttrWrap": ["set_attr", "attr=", "set_focus_attr", "focus_attr=", "set_attr_map", "set_focus_map", "set_focus_attr(None)"]}
SET_OPS["AttrMap1"] = SET_OPS["AttrMap"]


def build_hist_stack(urwid, py, wrap, align, geom, chain, wrapper):
    """As build_stack, with an optional one-child Pile / Columns between the Padding and the maps around it (same geometry,
    another kind of composite canvas).  -> (top widget, [the map widget of each chain element], [text, padding level, filler])"""
    left, right, top, bottom = geom
    elems = []
    w = text = urwid.Text(py, align=align, wrap=wrap)
    for el in chain:
        if el["lvl"] == 0:
            w = wrap_widget(urwid, w, el)
            elems.append(w)
    w = urwid.Padding(w, align="left", width=("relative", 100), left=left, right=right)
    if wrapper == "pile":
        w = urwid.Pile([w])
    elif wrapper == "columns":
        w = urwid.Columns([w])
    mid = w
    for el in chain:
        if el["lvl"] == 1:
            w = wrap_widget(urwid, w, el)
            elems.append(w)
    w = fill = urwid.Filler(w, valign="top", height="pack", top=top, bottom=bottom)
    for el in chain:
        if el["lvl"] == 2:
            w = wrap_widget(urwid, w, el)
            elems.append(w)
    return w, elems, [text, mid, fill]


def apply_set(el, w, how, arg):
    """Change the map widget w (chain element el) through its public API; el is updated to what the documentation says the
    widget now does.  arg: list of pairs (a map), an attribute id, or None."""
    if how in ("set_attr_map", "attr_map="):
        if how == "set_attr_map":
            w.set_attr_map(py_map(arg))
        else:
            w.attr_map = py_map(arg)
        el["amap"] = [list(p) for p in arg]
        return "amap"
    if how in ("set_focus_map", "focus_map="):
        if how == "set_focus_map":
            w.set_focus_map(py_map(arg))
        else:
            w.focus_map = py_map(arg)
        el["hasf"], el["fmap"] = True, [list(p) for p in arg]
        return "fmap"
    if how == "set_focus_map(None)":          # "If None this widget will use the attr mapping instead (no change when in focus)"
        w.set_focus_map(None)
        el["hasf"], el["fmap"] = False, []
        return "fmap"
    if how in ("set_attr", "attr="):
        if how == "set_attr":
            w.set_attr(NAMES[arg])
        else:
            w.attr = NAMES[arg]
        el["amap"] = [[0, arg]]
        return "amap"
    if how in ("set_focus_attr", "focus_attr="):
        if how == "set_focus_attr":
            w.set_focus_attr(NAMES[arg])
        else:
            w.focus_attr = NAMES[arg]
        el["hasf"], el["fmap"] = True, [[0, arg]]
        return "fmap"
    if how == "set_focus_attr(None)":         # "If None this widget will use the attr instead (no change when in focus)"
        w.set_focus_attr(None)
        el["hasf"], el["fmap"] = False, []
        return "fmap"
    raise ValueError(how)


def hist_trace(mode, node, wrap, align, tw, geom, wrapper, chain0, ops):
    """One widget stack that lives through a sequence of operations:
      hrender  render it (or, upto < len(chain): the widget inside chain element upto+1, on its own) and KEEP the canvas
      set      change the maps of one element through the public API
      reread   read a kept canvas again
      apply    CompositeCanvas(kept canvas).fill_attr_apply(map) / .fill_attr(a): a new canvas, kept as well
      forget   drop the kept canvases (the canvas cache lets go of them)
    TLC keeps the chain and what each kept canvas must show (AttrFlowTrace.tla: hist)."""
    import urwid
    from urwid.canvas import CompositeCanvas

    enc = MODES[mode]
    left, right, top, bottom = geom
    ev = []
    chain = [dict(e, amap=[list(p) for p in e["amap"]], fmap=[list(p) for p in e["fmap"]]) for e in chain0]
    with Enc(mode), warnings.catch_warnings():
        warnings.simplefilter("ignore")
        py = to_python(node, None, False, enc)
        inner_rows = urwid.Text(py, align=align, wrap=wrap).rows((tw,))
        cols = left + tw + right
        sizes = [(tw,), (cols,), (cols, top + inner_rows + bottom + 1)]
        plain = build_hist_stack(urwid, py, wrap, align, geom, [], wrapper)[2]
        before = [column_cells(plain[g].render(sizes[g], False), enc) for g in range(3)]
        topw, elems, _ = build_hist_stack(urwid, py, wrap, align, geom, chain, wrapper)
        held = []           # (canvas, geometry level): kept alive like the canvas a screen is still showing
        alive = []

        def cells_of(canv, g):
            after = column_cells(canv, enc)
            cells = []
            for y, (rb, ra) in enumerate(zip(before[g], after)):
                for x, (cb, ca) in enumerate(zip(rb, ra)):
                    if g == 0:
                        lvl = 0
                    elif g == 1:
                        lvl = 1 if (x < left or x >= left + tw) else 0
                    else:
                        lvl = 2 if (y < top or y >= top + inner_rows) else 1 if (x < left or x >= left + tw) else 0
                    cells.append([cb[0], cb[1], lvl, ca[0], ca[1]])
            if not (len(before[g]) == len(after) and all(len(a) == len(b) for a, b in zip(before[g], after))):
                cells.append([0, 0, 0, 1, 0])     # shapes differ: TLC rejects (maps_leave_the_text_alone)
            return cells

        for op in ops:
            try:
                if op["op"] == "hrender":
                    u = min(op["upto"], len(chain))
                    if u == len(chain):
                        wdg, g = topw, 2
                    else:
                        wdg, g = elems[u].original_widget, chain[u]["lvl"]
                    canv = wdg.render(sizes[g], op["focus"])
                    held.append((canv, g))
                    alive.append(len(held) - 1)
                    ev.append({"t": "hrender", "focus": bool(op["focus"]), "upto": u, "cells": cells_of(canv, g),
                               "kinds": [e["kind"] for e in chain[:u]]})
                elif op["op"] == "set":
                    j = op["j"] % len(chain)
                    which = apply_set(chain[j], elems[j], op["how"], op["arg"])
                    el = chain[j]
                    ev.append({"t": "set", "j": j + 1, "which": which, "hasf": bool(el["hasf"]),
                               "map": el["amap"] if which == "amap" else el["fmap"], "how": f"{el['kind'].rstrip('1')}.{op['how']}"})
                elif op["op"] == "reread" and alive:
                    i = alive[op["i"] % len(alive)]
                    ev.append({"t": "reread", "i": i + 1, "cells": cells_of(*held[i])})
                elif op["op"] == "apply" and alive:
                    i = alive[op["i"] % len(alive)]
                    canv = CompositeCanvas(held[i][0])
                    if op["how"] == "fill_attr":
                        canv.fill_attr(NAMES[op["arg"][0][1]])
                    else:
                        canv.fill_attr_apply(py_map(op["arg"]))
                    held.append((canv, held[i][1]))
                    alive.append(len(held) - 1)
                    ev.append({"t": "apply", "i": i + 1, "amap": [list(p) for p in op["arg"]], "how": op["how"],
                               "cells": cells_of(canv, held[i][1])})
                elif op["op"] == "forget":
                    for i in alive:
                        held[i] = (None, held[i][1])
                    alive = []
            except Exception as ex:  # noqa: BLE001
                ev.append({"t": "exc", "where": "hist:" + op["op"], "exc": type(ex).__name__, "msg": str(ex)[:120]})
                break
    return {"w": 1, "h": 1, "stage": "maps", "hist": True, "mode": mode, "markup": node, "wrap": wrap, "align": align, "tw": tw,
            "geom": list(geom), "wrapper": wrapper, "kinds0": [e["kind"] for e in chain0],
            "chain0": [{"amap": e["amap"], "hasf": e["hasf"], "fmap": e["fmap"], "lvl": e["lvl"]} for e in chain0],
            "chain0k": chain0, "ops": ops, "ev": ev}


def rand_hist_ops(rng, chain, n):
    ops = [{"op": "hrender", "focus": rng.random() < 0.4, "upto": len(chain)}]
    for _ in range(n - 1):
        r = rng.random()
        if r < 0.4:
            top = rng.random() < 0.65
            ops.append({"op": "hrender", "focus": rng.random() < 0.4, "upto": len(chain) if top else rng.randrange(len(chain))})
        elif r < 0.72:
            j = rng.randrange(len(chain))
            how = rng.choice(SET_OPS[chain[j]["kind"]])
            if how.endswith("(None)") and rng.random() < 0.5:
                how = SET_OPS[chain[j]["kind"]][0]
            arg = None if how.endswith("(None)") else rng.randrange(len(NAMES)) if how in ("set_attr", "attr=", "set_focus_attr", "focus_attr=") \
                else rand_map(rng, small=rng.random() < 0.3)
            if how in ("set_focus_attr", "focus_attr=") and arg == 0:
                arg = 1                      # focus_attr None means "no focus attribute": that is the (None) operation
            ops.append({"op": "set", "j": j, "how": how, "arg": arg})
            if rng.random() < 0.5:           # ... and look at the result (in focus, when it was the focus map that changed)
                ops.append({"op": "hrender", "focus": rng.random() < (0.85 if "focus" in how else 0.3),
                            "upto": len(chain) if rng.random() < 0.8 else rng.randrange(j, len(chain))})
        elif r < 0.87:
            ops.append({"op": "reread", "i": rng.randrange(8)})
        elif r < 0.97:
            fa = rng.random() < 0.3
            ops.append({"op": "apply", "i": rng.randrange(8), "how": "fill_attr" if fa else "fill_attr_apply",
                        "arg": [[0, rng.randrange(len(NAMES))]] if fa else rand_map(rng)})
        else:
            ops.append({"op": "forget"})
    return ops


def rand_widget_chain(rng):
    n = rng.choice([1, 2, 2, 2, 3, 3])
    return [rand_element(rng, lv) for lv in sorted(rng.randrange(3) for _ in range(n))]


def rand_chain(rng):
    n = rng.choice([1, 1, 2, 2, 2, 3, 3, 3])
    lvls = sorted(rng.randrange(3) for _ in range(n))
    chain = [rand_element(rng, lv) for lv in lvls]
    # canvas-level operations come last (they act on the finished canvas): turn a suffix of level-2 elements into them
    for i in range(len(chain) - 1, -1, -1):
        if chain[i]["lvl"] == 2 and rng.random() < 0.5:
            chain[i] = rand_element(rng, 2, canvas_level=True)
        else:
            break
    return chain


# ---- stage 3: palette -> SGR -> terminal ---------------------------------------------------------------------------
FG = ["default", "dark red", "light red", "yellow,bold", "white,underline", "light blue,standout", "default,strikethrough",
      "dark cyan,italics", "brown,blink", "light green", "black", "dark gray,bold,underline"]
BG = ["default", "black", "dark blue", "light gray", "dark green", "brown", "dark magenta"]
MONO = [None, "bold", "underline", "standout", "strikethrough,blink", "italics", "bold,underline"]
FGH = [None, None, "#ff0000", "#ff0000,italics", "h100", "h17,bold", "light green", "default,underline", "#ffff00", "h200"]
BGH = [None, None, "#0000ff", "h17", "h200", "dark red", "#ffff00", "default"]
# a high field that is given but names no colour: the empty string (the other spelling of 'default'), or settings only
FGH_NO_COLOUR = ["", "", "", "bold", "underline,italics", " ", "standout"]
BGH_NO_COLOUR = [""]
DEPTHS = [1, 16, 88, 256, 2 ** 24]


def _flags(desc):
    return [p.strip() for p in desc.split(",") if p.strip() in term.FLAG]


def _large_h(desc):
    if desc is None:
        return False
    d = desc.split(",")[0]
    return d.startswith("h") and d[1:].isdigit() and int(d[1:]) > 15


HEXD = "0123456789abcdefABCDEF"


def hex_colour(desc):
    """A colour written as hexadecimal RGB -> its digits as data; which terminal colour that is at a given depth is decided by
    TLC (AttrFlowOps.tla: HexColourAt).  Anything else -> kind "n": a name / colour number looked up in vf/term.py's table."""
    col = (desc or "").split(",")[0].strip()
    if col.startswith("#") and all(c in HEXD for c in col[1:]):
        if len(col) == 7:
            return {"k": "x6", "r": int(col[1:3], 16), "g": int(col[3:5], 16), "b": int(col[5:7], 16)}
        if len(col) == 4:
            return {"k": "x3", "r": int(col[1], 16), "g": int(col[2], 16), "b": int(col[3], 16)}
    return {"k": "n", "r": 0, "g": 0, "b": 0}


def names_no_colour(desc):
    """The field is given (not None) but, read as a comma separated list, holds settings only (or nothing at all)."""
    return desc is not None and not [p for p in desc.split(",") if p.strip() and p.strip() not in term.FLAG]


def entry_record(name_id, fg, bg, mono, fgh, bgh):
    """The palette entry as data for TLC: colour names and numbers parsed into numbers per depth (vf/term.py, as C04),
    hexadecimal RGB colours as their digits; which slot applies at which depth, the None fallbacks, what a high field that is
    given without a colour ('' / settings only) means, aliases, undefined names and the terminal colour of a hexadecimal RGB
    description per depth are decided in AttrFlowOps.tla."""
    f, b, fl = term.spec_to_pen(fg, bg, 16)
    rec = {"name": name_id, "alias": False, "like": 0,
           "mono": term.spec_to_pen(mono or "default", "default", 1)[2],
           "fg": [f, fl], "bg": b, "hasfh": fgh is not None, "hasbh": bgh is not None,
           "fgh": [], "bgh": [], "largeh": _large_h(fgh) or _large_h(bgh),
           "fghc": hex_colour(fgh), "bghc": hex_colour(bgh),
           "fghe": names_no_colour(fgh), "bghe": names_no_colour(bgh)}
    for d in (88, 256, 2 ** 24):
        if rec["fghe"]:            # no colour to look up: the settings as written; the colour is TLC's decision (HighFg)
            rec["fgh"].append([0, sorted(term.FLAG[x] for x in _flags(fgh))])
        elif fgh is not None and not (d == 88 and rec["largeh"]):
            if rec["fghc"]["k"] == "n":
                p = term.spec_to_pen(fgh, "default", d)
                rec["fgh"].append([p[0], p[2]])
            else:
                rec["fgh"].append([0, sorted(term.FLAG[x] for x in _flags(fgh))])
        else:
            rec["fgh"].append([0, []])
        rec["bgh"].append(term.colour_index(bgh, d) if bgh is not None and not rec["bghe"] and rec["bghc"]["k"] == "n"
                          and not (d == 88 and rec["largeh"]) else 0)
    return rec


def rand_hex(rng):
    """'#rrggbb' / '#rgb' with arbitrary digits (the two digits of a component mostly differ)"""
    if rng.random() < 0.7:
        return "#" + "".join(rng.choice("0123456789abcdef") + rng.choice("0123456789abcdefACF") for _ in range(3))
    return "#" + "".join(rng.choice("0123456789abcdefBD") for _ in range(3))


def rand_high(rng, fg):
    """a foreground_high / background_high value: None, one of the fixed forms, or hexadecimal RGB"""
    r = rng.random()
    if r < 0.40:
        return rng.choice(FGH if fg else BGH)
    if r < 0.55:
        return rng.choice(FGH_NO_COLOUR if fg else BGH_NO_COLOUR)
    h = rand_hex(rng)
    if fg and rng.random() < 0.3:
        h += rng.choice([",bold", ",italics", ",underline,standout", ", strikethrough"])
    return h


def alias_record(name_id, like_id):
    r = entry_record(name_id, "default", "default", None, None, None)
    r["alias"], r["like"] = True, like_id
    return r


def rand_palette(rng):
    """-> (list of python palette items in registration order, list of records for TLC)"""
    items, recs = [], []

    def full(nid, form=None):
        fg, bg = rng.choice(FG), rng.choice(BG)
        form = form or rng.choice([3, 4, 6, 6, 6])
        mono = rng.choice(MONO) if form >= 4 else None
        fgh = rand_high(rng, True) if form == 6 else None
        bgh = rand_high(rng, False) if form == 6 else None
        t = (ALL_NAMES[nid], fg, bg, mono, fgh, bgh)[:form]
        items.append(t)
        recs.append(entry_record(nid, fg, bg, mono, fgh, bgh))

    order = [1, 2, 3]
    rng.shuffle(order)
    defined = []
    for nid in order:
        if rng.random() < 0.85:
            full(nid)
            defined.append(nid)
    if rng.random() < 0.3:
        full(0)               # an entry for None: cells without an attribute use it
    if defined and rng.random() < 0.75:
        tgt = rng.choice(defined)
        items.append((N_ALIAS, ALL_NAMES[tgt]))
        recs.append(alias_record(NAME_ID[N_ALIAS], tgt))
        if rng.random() < 0.5:
            items.append((N_ALIAS2, N_ALIAS))
            recs.append(alias_record(NAME_ID[N_ALIAS2], NAME_ID[N_ALIAS]))
        if rng.random() < 0.3:   # the target is registered again afterwards: the alias keeps what it copied
            full(tgt)
    return items, recs


def spelling_palette(rng):
    """Entries with the same kind of basic fields whose high fields are written in every way a field can be written: absent (None),
    the empty string, settings only, the name 'default', a colour - four (foreground_high, background_high) combinations per
    palette, one per name (None included), optionally an alias of one of them."""
    items, recs = [], []
    ways_f = ["none", "empty", "empty", "settings", "default", "colour"]
    ways_b = ["none", "empty", "empty", "default", "colour"]
    order = [1, 2, 3, 0]
    rng.shuffle(order)
    for nid in order:
        fg, bg, mono = rng.choice(FG[1:]), rng.choice(BG[1:]), rng.choice(MONO)
        wf, wb = rng.choice(ways_f), rng.choice(ways_b)
        fgh = {"none": None, "empty": "", "settings": rng.choice(FGH_NO_COLOUR[3:]), "default": rng.choice(["default", "default,underline"]),
               "colour": rng.choice(["h100", "light green", "#ff0000,italics", rand_hex(rng)])}[wf]
        bgh = {"none": None, "empty": "", "default": "default", "colour": rng.choice(["h17", "dark red", rand_hex(rng)])}[wb]
        items.append((ALL_NAMES[nid], fg, bg, mono, fgh, bgh))
        recs.append(entry_record(nid, fg, bg, mono, fgh, bgh))
    if rng.random() < 0.5:
        tgt = rng.choice(order)
        items.append((N_ALIAS, ALL_NAMES[tgt]))
        recs.append(alias_record(NAME_ID[N_ALIAS], tgt))
    return items, recs


def frame_cells(canv, enc, extra=None):
    """extra: {attribute object: name id} for attributes that are not names (AttrSpec objects)"""
    def aid(a):          # noqa: E306
        if extra:
            try:
                if a in extra:
                    return extra[a]
            except TypeError:
                pass
        return globals()["aid"](a)

    rows = []
    for row in canv.content():
        cells = []
        for a, cs, bs in row:
            for ch in bs.decode(enc, "replace"):
                if cs == "0":
                    ch = term.DEC_OF_ALT.get(ch, ch)
                if term.char_width(ch) == 2:
                    cells += [[ord(ch), aid(a), 1], [ord(ch), aid(a), 2]]
                elif term.char_width(ch) == 1:
                    cells.append([ord(ch), aid(a), 0])
        rows.append(cells)
    return rows


def spec_object(urwid, depth, fg, bg, mono, fgh, bgh):
    """The AttrSpec an application writes for a screen of `depth` colours from the same descriptions a palette entry takes."""
    if depth == 1:
        return urwid.AttrSpec(mono or "default", "default", 1)
    if depth == 16:
        return urwid.AttrSpec(fg, bg, 16)
    return urwid.AttrSpec(fgh if fgh is not None else fg, bgh if bgh is not None else bg, depth)


def display_trace(mode, depth, bib, bce, order, items, recs, rows_spec, how, specs=()):
    """rows_spec: list of rows; row = list of (char, name id).  `order`: palette registered before or after
    set_terminal_properties.  `how`: 'list' = register_palette(list), 'entry' = register_palette_entry per item (+list for aliases).
    specs: [name id, fg, bg, mono, fg_high, bg_high]: cells with that name id get an AttrSpec object as their attribute (its
    record is in recs like a palette entry's: TLC resolves both the same way)."""
    import urwid
    from urwid.display import raw

    enc = MODES[mode]
    ev = []
    refreshed = False
    with Enc(mode), warnings.catch_warnings():
        warnings.simplefilter("ignore")
        out = io.StringIO()
        scr = raw.Screen(input=io.StringIO(), output=out)
        scr.bg_bright_is_blink = False
        scr.back_color_erase = bce
        scr.fg_bright_is_bold = True        # fixed starting point, independent of $TERM
        before = (scr.colors, scr.fg_bright_is_bold, scr.has_underline)

        def register():
            if how == "list":
                scr.register_palette(items)
            else:
                for it in items:
                    if len(it) == 2:
                        scr.register_palette([it])
                    else:
                        scr.register_palette_entry(*it)

        try:
            if order == "palette_first":
                register()
                scr.set_terminal_properties(colors=depth, bright_is_bold=bib)
                refreshed = (depth, bib, True) != before      # set_terminal_properties rebuilds its tables only on a change
            else:
                scr.set_terminal_properties(colors=depth, bright_is_bold=bib)
                register()
            scr._started = True
            objs = {sp[0]: spec_object(urwid, depth, *sp[1:]) for sp in specs}
            # the canvas comes from real widgets: one Text per row inside a Pile
            texts = []
            for row in rows_spec:
                mk = [(objs.get(a, ALL_NAMES[a]), ch) for ch, a in row]
                texts.append(urwid.Text(mk, wrap="clip"))
            w = sum(term.char_width(ch) for ch, _ in rows_spec[0])
            canv = urwid.Pile(texts).render((w,))
            scr.draw_screen((w, len(rows_spec)), canv)
            ev += term.tokenize(out.getvalue())
            ev.append({"t": "frame", "cells": frame_cells(canv, enc, {o: nid for nid, o in objs.items()})})
        except Exception as ex:  # noqa: BLE001
            ev.append({"t": "exc", "where": "display", "exc": type(ex).__name__, "msg": str(ex)[:120]})
            w = 1
    return {"w": w, "h": len(rows_spec), "stage": "palette", "mode": mode, "depth": depth, "bib": bool(bib), "bce": bool(bce),
            "order": order, "refreshed": bool(refreshed), "how": how, "pal": recs,
            "items": [list(map(str, it)) for it in items], "specs": [list(sp) for sp in specs], "rows_spec": [[[ch, a] for ch, a in r] for r in rows_spec], "ev": ev}


def rand_rows(rng, mode):
    alpha = {"utf8": ["a", "b", "c", " ", " ", "字", "é", "┼"], "wide": ["a", "b", "c", " ", " ", "字", "┼"],
             "narrow": ["a", "b", "c", " ", " ", "é", "┼"]}[mode]
    w, h = rng.randint(2, 7), rng.randint(1, 2)
    names = list(range(len(ALL_NAMES)))
    rows = []
    for _ in range(h):
        row, col = [], 0
        a = rng.choice(names)
        while col < w:
            if rng.random() < 0.5:
                a = rng.choice(names)
            ch = rng.choice(alpha)
            if col + term.char_width(ch) > w:
                ch = "a"
            row.append((ch, a))
            col += term.char_width(ch)
        rows.append(row)
    return rows


# ---- running --------------------------------------------------------------------------------------------------------
MC_CFG = """CONSTANTS N = {n} D = {d} Tags = {tags} Modes = {mode} U = {u} MaxKeys = {mk}
SPECIFICATION Spec
INVARIANT {inv}
CHECK_DEADLOCK FALSE
"""


def _cfg(mode, inv, n=3, d=3, tags="{1, 2}", u="{0, 1, 2}", mk=2):
    modes = "{" + ", ".join(f'"{x}"' for x in mode.split("+")) + "}"
    return MC_CFG.format(n=n, d=d, tags=tags, mode=modes, u=u, mk=mk, inv=inv)


def model_runs(quick):
    """(name, cfg, must_hold).  The 'wrong' readings must be refuted by TLC: each has a counterexample inside small bounds
    (ASSUME RefutedWithinSmallBounds, evaluated by TLC in every run); the composition order (and in the thorough tier every
    wrong reading) is also refuted by a model-checking run of its own, which must end with a counterexample."""
    if quick:
        return [
            ("MC_all_laws", _cfg("tree+maps+focus+hist", "TreeLaws MapLaws FocusLaws HistLaws", n=3, tags="{1, 2}", mk=2), True),
            ("MC_trees_depth2", _cfg("tree", "TreeLaws", n=4, d=2, tags="{0, 1, 2}"), True),
            ("MC_refute_inner_after_outer", _cfg("maps", "WrongOrder", mk=1), False),
            ("MC_refute_map_written_into_shared_canvas", _cfg("hist", "WrongInPlace", mk=1), False),
        ]
    return [
        ("MC_trees_depth3_n5", _cfg("tree", "TreeLawsLite", n=5), True),
        ("MC_trees_depth3", _cfg("tree", "TreeLaws", n=4, tags="{0, 1, 2}"), True),
        ("MC_trees_depth2", _cfg("tree", "TreeLaws", n=5, d=2, tags="{0, 1, 2}"), True),
        ("MC_maps_focus", _cfg("maps+focus+hist", "MapLaws FocusLaws HistLaws", mk=3), True),
        ("MC_refute_map_written_into_shared_canvas", _cfg("hist", "WrongInPlace", mk=1), False),
        ("MC_refute_outermost_tag_wins", _cfg("tree", "WrongOutermostWins", n=2), False),
        ("MC_refute_enclosing_tag_forgotten", _cfg("tree", "WrongForgetsEnclosing", n=2), False),
        ("MC_refute_runs_shifted_by_one", _cfg("tree", "WrongShiftedRuns", n=2), False),
        ("MC_refute_inner_after_outer", _cfg("maps", "WrongOrder", mk=1), False),
        ("MC_refute_focus_map_ignored", _cfg("focus", "WrongFocusIgnored", mk=1), False),
        ("MC_refute_focus_map_on_top_of_attr_map", _cfg("focus", "WrongFocusAdds", mk=1), False),
    ]


def _sig(tr, e):
    sig = {"stage": tr["stage"], "mode": tr["mode"]}
    if tr["stage"] in ("text", "trim"):
        sig.update(bytes=tr["bytes"], wrap=e.get("wrap", ""), align=e.get("align", ""), event=e["t"])
    elif tr.get("hist"):
        sig.update(history=True, event=e["t"], focus=e.get("focus", False), kinds=",".join(sorted(set(tr["kinds0"]))),
                   chain_len=len(tr["kinds0"]), wrapper=tr["wrapper"])
    elif tr["stage"] == "maps":
        sig.update(focus=e.get("focus", False), kinds=",".join(sorted(set(e.get("kinds", [])))), chain_len=len(e.get("kinds", [])))
    else:
        sig.update(depth=tr["depth"], bib=tr["bib"], order=tr["order"], refreshed=tr["refreshed"], how=tr["how"])
    if e["t"] == "exc":
        sig["exc"] = e["exc"]
    return sig


NOT_THIS_PROPERTY = {
    "cell_traces_to_a_source_character": "a displayed glyph is not the source character the layout names: text, not attributes",
    "terminal_shows_the_canvas_text": "the terminal shows other text than the canvas: C04",
    "frame_size": "C04",
    "clipped_row_has_the_requested_width": "a clipped canvas row has another width than asked for: geometry (C02), not attributes",
    "unknown_control_sequence": "C04",
}


def _handle(chk, traces, res, label):
    for ti, l, why in res.rejects:
        tr = traces[ti]
        e = tr["ev"][l - 1]
        rp = {"driver": label, "stage": tr["stage"], "trace": {k: v for k, v in tr.items() if k != "ev"}, "rejected_event": e}
        if tr["stage"] == "palette":
            rp["tokens"] = tr["ev"][:l - 1][-40:]
        if why in NOT_THIS_PROPERTY:
            # the displayed *text* differs from the source text: the subject of C02/C03/C04, recorded but no alarm here
            dec = tr["stage"] in ("text", "trim") and ord(DECCH) in _text_of(tr["markup"])
            chk.divergence(f"{why}{' [line-drawing character in the text]' if dec else ''} ({NOT_THIS_PROPERTY[why]})",
                           {"sig": _sig(tr, e), "markup": tr.get("markup"), "event": e})
            continue
        chk.reject(f"C17.{why}", _sig(tr, e), rp)


EXTRIM_TEXTS = {"utf8": [["字", "a", "界"], ["é", "語", "b", "界"]], "wide": [["字", "a", "界"], ["a", "漢", "語", "b"]]}
EX_TEXTS = {"utf8": [["a", "字", "é"], ["é", " ", "界"]], "wide": [["字", "a", "界"]], "narrow": [["é", "a", "ü"]]}
DISP_CFGS = [(m, d, b, o) for m in ("utf8", "wide", "narrow") for d in DEPTHS for b in (False, True)
             for o in ("props_first", "palette_first")]


def shard(task):
    """One unit of recording work: (kind, seed, first index, count, quick) -> list of traces.  Self-contained (own rng) so that
    the thorough tier can run shards in worker processes."""
    import random

    kind, seed, first, count, quick = task
    rng = random.Random(seed)
    out = []
    if kind.startswith("ex:"):
        # stage 1, exhaustive: every tree of depth <= 2 over three characters, every width, wrap and align
        mode = kind[3:]
        n_ex = 0
        for ti, chars in enumerate(EX_TEXTS[mode]):
            if quick and ti > 0:
                continue
            trees = all_trees(2, chars, [1, 2] if quick else [0, 1, 2])
            for as_bytes in ((False,) if mode == "narrow" else (False, True)):     # one byte per character either way in iso8859-1
                for node in trees:
                    out.append(text_trace(mode, as_bytes, node, variants_for(rng, mode, chars, True, n_ex if quick else -1)))
                    n_ex += 1
    elif kind == "rand":
        # stage 1, random: depth <= 3, up to 8 characters
        for i in range(first, first + count):
            mode = ["utf8", "utf8", "wide", "narrow"][i % 4]
            as_bytes = rng.random() < 0.4
            chars = rand_text(rng, mode, as_bytes, rng.randint(1, 8))
            node = rand_tree(rng, 3, chars)
            out.append(text_trace(mode, as_bytes, node, variants_for(rng, mode, chars, rng.random() < 0.3)))
    elif kind.startswith("extrim:"):
        # stage 1b, exhaustive: every assignment of {None, a1, 7} to the characters of a text with double-width characters, the
        # text on one row at its own width, every (left, cols) through every clipping path
        import itertools

        mode = kind[7:]
        for ti, chars in enumerate(EXTRIM_TEXTS[mode]):
            if quick and ti > 0:
                continue
            for as_bytes in (False, True):
                for tags in itertools.product((0, 1, 2), repeat=len(chars)):
                    node = listn([tagn(t, leaf([c])) if t or rng.random() < 0.5 else leaf([c]) for t, c in zip(tags, chars)])
                    out.append(trim_trace(mode, as_bytes, node, [(0, "clip", "left")], -1))
    elif kind == "trim":
        # stage 1b, random: markup as in stage 1, a few (width, wrap, align) each, clipped at every column
        for i in range(first, first + count):
            mode = ["utf8", "wide", "utf8", "wide", "narrow"][i % 5]
            as_bytes = rng.random() < 0.4
            chars = rand_text(rng, mode, as_bytes, rng.randint(2, 7), zero_ok=False)
            node = rand_tree(rng, 2, chars)
            cols = sum(term.char_width(c) if c not in "\n" else 0 for c in chars)
            var = []
            for width in {0, rng.randint(2, max(2, min(cols, 9))), rng.randint(2, max(2, min(cols + 2, 9)))}:
                wrap = rng.choice(WRAPS)
                align = rng.choice(ALIGNS)
                if wrap == "ellipsis" and (mode == "wide" or (mode == "narrow" and align != "left")):
                    wrap = "clip"            # see variants_for: the mark's layout is C03's subject
                var.append((width, wrap, align))
            out.append(trim_trace(mode, as_bytes, node, sorted(var), i if quick else -1))
    elif kind == "maps":
        for i in range(first, first + count):
            mode = ["utf8", "wide", "narrow"][i % 3]
            chars = rand_text(rng, mode, False, rng.randint(1, 6), zero_ok=False)
            chars = [c for c in chars if c != "\n"] or ["a"]
            node = rand_tree(rng, 2, chars, allow_empty=False)
            cols = sum(term.char_width(c) for c in chars)
            tw = rng.randint(2, max(2, cols + 1))
            geom = (rng.randint(0, 2), rng.randint(0, 2), rng.randint(0, 1), rng.randint(0, 1))
            wrap = rng.choice(["any", "space", "clip"])
            cases = []
            for _ in range(5):
                ch = rand_chain(rng)
                for focus in (False, True):
                    cases.append((ch, focus))
            out.append(maps_trace(mode, node, wrap, rng.choice(ALIGNS), tw, geom, cases))
    elif kind == "hist":
        # stage 2b: one widget stack per trace, maps changed between renderings, canvases held
        for i in range(first, first + count):
            mode = ["utf8", "wide", "narrow"][i % 3]
            chars = rand_text(rng, mode, False, rng.randint(1, 5), zero_ok=False)
            chars = [c for c in chars if c != "\n"] or ["a"]
            node = rand_tree(rng, 2, chars, allow_empty=False)
            cols = sum(term.char_width(c) for c in chars)
            tw = rng.randint(2, max(2, cols + 1))
            geom = (rng.randint(0, 2), rng.randint(0, 1), rng.randint(0, 1), rng.randint(0, 1))
            chain = rand_widget_chain(rng)
            if i % 20 == 0:
                # setter sweep: every way to change each element's maps, each followed by a rendering in focus and one without
                chain = sorted(chain[:2] + [rand_element(rng, rng.randrange(3)) for _ in range(2)], key=lambda e: e["lvl"])
                chain[rng.randrange(len(chain))]["kind"] = "AttrMap"
                wi = rng.randrange(len(chain))
                chain[wi].update(kind="AttrWrap", amap=[[0, rng.randrange(1, len(NAMES))]], hasf=True, fmap=[[0, rng.randrange(1, len(NAMES))]])
                ops = [{"op": "hrender", "focus": False, "upto": len(chain)}]
                order = list(range(len(chain)))
                rng.shuffle(order)
                for j in order:
                    for how in SET_OPS[chain[j]["kind"]]:
                        arg = None if how.endswith("(None)") else rng.randrange(1, len(NAMES)) if "attr_map" not in how and "focus_map" not in how \
                            else rand_map(rng)
                        ops += [{"op": "set", "j": j, "how": how, "arg": arg}, {"op": "hrender", "focus": True, "upto": len(chain)},
                                {"op": "hrender", "focus": False, "upto": len(chain)}]
                out.append(hist_trace(mode, node, "clip", "left", tw, geom, rng.choice(WRAPPERS), chain, ops))
                continue
            out.append(hist_trace(mode, node, rng.choice(["any", "space", "clip"]), rng.choice(ALIGNS), tw, geom, rng.choice(WRAPPERS),
                                  chain, rand_hist_ops(rng, chain, rng.randint(4, 9) if quick else rng.randint(4, 14))))
    elif kind == "disp":
        for i in range(first, first + count):
            mode, depth, bib, order = DISP_CFGS[i % len(DISP_CFGS)]
            items, recs = spelling_palette(rng) if (i // len(DISP_CFGS)) % 3 == 1 else rand_palette(rng)
            specs = []
            for nid in (NAME_ID[N_SPEC1], NAME_ID[N_SPEC2]):
                if rng.random() < 0.45:
                    fg, bg, mono = rng.choice(FG), rng.choice(BG), rng.choice(MONO)
                    fgh, bgh = rand_high(rng, True), rand_high(rng, False)
                    if _large_h(fgh) or _large_h(bgh):        # colour numbers above 87 cannot be written for 88 colours
                        fgh = bgh = None
                    specs.append([nid, fg, bg, mono, fgh, bgh])
                    recs.append(entry_record(nid, fg, bg, mono, fgh, bgh))
            out.append(display_trace(mode, depth, bib, rng.random() < 0.5, order, items, recs, rand_rows(rng, mode),
                                     rng.choice(["list", "entry"]), specs))
    return out


def tasks_for(seed, quick):
    n_rand, n_trim, n_maps, n_hist, n_disp = (320, 120, 160, 200, 360) if quick else (15000, 4000, 6000, 8000, 9000)
    per = {"rand": 320 if quick else 1000, "trim": 120 if quick else 500, "maps": 160 if quick else 800, "hist": 200 if quick else 1000,
           "disp": 360 if quick else 1500}
    tasks = [(f"ex:{m}", seed * 7919 + j, 0, 0, quick) for j, m in enumerate(EX_TEXTS)]
    tasks += [(f"extrim:{m}", seed * 7919 + 5 + j, 0, 0, quick) for j, m in enumerate(EXTRIM_TEXTS)]
    k = 10
    for kind, n in (("rand", n_rand), ("trim", n_trim), ("maps", n_maps), ("hist", n_hist), ("disp", n_disp)):
        for first in range(0, n, per[kind]):
            tasks.append((kind, seed * 7919 + k, first, min(per[kind], n - first), quick))
            k += 1
    return tasks, {"stage1_random_traces": n_rand, "stage1b_random_clipping_traces": n_trim, "stage2_traces": n_maps,
                   "stage2b_history_traces": n_hist, "stage3_traces": n_disp}


def build_traces(chk, quick, pool=None):
    """Generator: yields the list of all traces so far after each shard (so validation can start while recording goes on)."""
    traces = []
    tasks, bounds = tasks_for(chk.seed, quick)
    results = pool.imap(shard, tasks) if pool is not None else map(shard, tasks)
    n_ex = n_extrim = 0
    for task, part in zip(tasks, results):
        traces += part
        if task[0].startswith("ex:"):
            n_ex += len(part)
        if task[0].startswith("extrim:"):
            n_extrim += len(part)
        if quick and task[0] not in ("ex:narrow", "trim", "hist", "disp"):
            continue          # quick tier: four validation calls (the start of a JVM costs more than the events)
        yield traces
    chk.cov["bounds"] = {"stage1_exhaustive_traces": n_ex, "stage1b_exhaustive_clipping_traces": n_extrim, **bounds}
    yield traces


def coverage(chk, traces):
    cnt = chk.cov["clause_counts"]

    def bump(k, n=1):
        cnt[k] = cnt.get(k, 0) + n

    distinct = set()
    for tr in traces:
        hstate = None
        if tr.get("hist"):
            bump("hist.traces")
            bump("hist.wrapper_" + tr["wrapper"])
        for e in tr["ev"]:
            if e["t"] == "render":
                bump("render")
                bump(f"render.{e['wrap']}")
                kinds = {c[2] for r in e["rows"] for c in r}
                for k in kinds:
                    bump(f"render.rows_with_kind_{k}")
                if tr["bytes"]:
                    bump("render.bytes_text")
                if any(c[0] > 127 and c[2] == "c" for r in e["rows"] for c in r):
                    bump("render.multibyte_or_wide_shown")
                if len(e["rows"]) > 1:
                    bump("render.wrapped_rows")
                if len({c[1] for r in e["rows"] for c in r}) > 2:
                    distinct.add(json.dumps([tr["markup"], tr["mode"], tr["bytes"], e["width"], e["wrap"], e["align"]]))
            elif e["t"] == "trim":
                bump("trim")
                bump("trim.cuts", len(e["cuts"]))
                for how in {c["how"] for c in e["cuts"]}:
                    bump(f"trim.{how}")
                for c in e["cuts"]:
                    b = e["base"][c["y"] - 1]
                    if c["left"] + c["cols"] <= len(b):
                        lo, hi = b[c["left"]], b[c["left"] + c["cols"] - 1]
                        if lo[4] == 2:
                            bump("trim.wide_character_cut_by_left_edge")
                            nxt = b[c["left"] + 1] if c["left"] + 1 < len(b) else None
                            if nxt is not None and nxt[1] != lo[1]:
                                bump("trim.cut_by_left_edge_last_of_its_attribute_run")
                        if hi[4] == 1:
                            bump("trim.wide_character_cut_by_right_edge")
                if len({c[1] for r in e["base"] for c in r}) > 1:
                    distinct.add(json.dumps([tr["markup"], tr["mode"], tr["bytes"], e["width"], e["wrap"], e["align"], "trim"]))
            elif e["t"] in ("hrender", "reread", "apply", "set"):
                bump("hist." + e["t"])
                if e["t"] == "set":
                    bump("hist.set." + e["how"])
                    if hstate:
                        bump("hist.map_changed_after_a_rendering")
                        hstate = "changed"
                if e["t"] == "hrender":
                    if hstate == "changed":
                        bump("hist.rendered_again_after_a_map_change")
                    hstate = "rendered"
                    if e["upto"] < len(tr["chain0"]):
                        bump("hist.inner_widget_rendered_on_its_own")
                    if any(c[1] != c[4] for c in e["cells"]):
                        distinct.add(json.dumps([tr["markup"], tr["chain0"], tr["ops"][:8], tr["geom"]]))
            elif e["t"] == "decomp":
                bump("decomp")
            elif e["t"] == "maps":
                bump("maps")
                bump(f"maps.chain_len_{len(e['chain'])}")
                if e["focus"] and any(x["hasf"] for x in e["chain"]):
                    bump("maps.focus_map_in_force")
                for k in e["kinds"]:
                    bump(f"maps.{k}")
                if any(c[1] != c[4] for c in e["cells"]):
                    distinct.add(json.dumps([tr["markup"], e["chain"], e["focus"], tr["geom"]]))
            elif e["t"] == "frame":
                bump("frame")
                bump(f"frame.depth_{tr['depth']}")
                bump(f"frame.bib_{tr['bib']}")
                names = {c[1] for r in e["cells"] for c in r}
                if NAME_ID[N_ALIAS] in names or NAME_ID[N_ALIAS2] in names:
                    bump("frame.alias_name_shown")
                if NAME_ID[N_UNDEF] in names:
                    bump("frame.undefined_name_shown")
                if {sp[0] for sp in tr["specs"]} & names:
                    bump("frame.attrspec_object_shown")
                    bump(f"frame.attrspec_object_shown_at_depth_{tr['depth']}")
                distinct.add(json.dumps([tr["items"], tr["rows_spec"], tr["depth"], tr["bib"], tr["order"]]))
                if tr["depth"] in (88, 256, 2 ** 24):
                    for rec in tr["pal"]:
                        # a high field given without a colour next to a basic field that says something: inheriting would show
                        if rec["name"] in names and not rec["alias"] and not (tr["depth"] == 88 and rec["largeh"]):
                            if rec["hasfh"] and rec["fghe"] and (rec["fg"][0] != -1 or rec["fg"][1]):
                                bump(f"frame.foreground_high_without_colour_over_basic_foreground_shown_at_depth_{tr['depth']}")
                                if not rec["fgh"][0][1]:
                                    bump(f"frame.empty_foreground_high_over_basic_foreground_shown_at_depth_{tr['depth']}")
                            if rec["hasbh"] and rec["bghe"] and rec["bg"] != -1:
                                bump(f"frame.empty_background_high_over_basic_background_shown_at_depth_{tr['depth']}")
                            if not rec["hasfh"] and not rec["hasbh"] and (rec["fg"][0] != -1 or rec["bg"] != -1):
                                bump(f"frame.absent_high_fields_inherit_shown_at_depth_{tr['depth']}")
                        for c in (rec["fghc"], rec["bghc"]):
                            if rec["name"] in names and not rec["alias"] and not (tr["depth"] == 88 and rec["largeh"]):
                                if c["k"] == "x6" and any(v // 16 != v % 16 for v in (c["r"], c["g"], c["b"])):
                                    bump(f"frame.rrggbb_with_unequal_digits_shown_at_depth_{tr['depth']}")
                                elif c["k"] == "x3":
                                    bump(f"frame.rgb_shown_at_depth_{tr['depth']}")
            elif e["t"] == "sgr":
                bump("sgr")
            elif e["t"] in ("exc", "rexc"):
                bump("exceptions")
    chk.cov["distinct_nontrivial"] = len(distinct)
    for need in ("render.ellipsis", "render.rows_with_kind_m", "render.rows_with_kind_h", "render.rows_with_kind_p", "render.bytes_text",
                 "render.multibyte_or_wide_shown", "render.wrapped_rows", "maps.chain_len_3", "maps.focus_map_in_force", "maps.fill_attr",
                 "maps.fill_attr_apply", "maps.AttrWrap", "frame.alias_name_shown", "frame.undefined_name_shown", "frame.depth_1",
                 "frame.depth_88", "frame.depth_16777216", "frame.bib_True", "sgr",
                 "frame.rrggbb_with_unequal_digits_shown_at_depth_88", "frame.rrggbb_with_unequal_digits_shown_at_depth_256",
                 "frame.rrggbb_with_unequal_digits_shown_at_depth_16777216", "frame.rgb_shown_at_depth_88", "frame.attrspec_object_shown_at_depth_88", "frame.attrspec_object_shown_at_depth_1",
                 *[f"frame.{k}_shown_at_depth_{d}" for d in (88, 256, 2 ** 24)
                   for k in ("empty_foreground_high_over_basic_foreground", "empty_background_high_over_basic_background",
                             "foreground_high_without_colour_over_basic_foreground", "absent_high_fields_inherit")],
                 "trim.content", "trim.pad_trim_left_right", "trim.overlay_right_of_window", "trim.overlay_left_of_window", "trim.padding_clip",
                 "trim.wide_character_cut_by_left_edge", "trim.cut_by_left_edge_last_of_its_attribute_run",
                 "trim.wide_character_cut_by_right_edge", "hist.hrender", "hist.reread", "hist.apply",
                 "hist.rendered_again_after_a_map_change", "hist.inner_widget_rendered_on_its_own", "hist.wrapper_pile", "hist.wrapper_columns",
                 "hist.set.AttrMap.set_attr_map", "hist.set.AttrMap.set_focus_map", "hist.set.AttrWrap.set_attr",
                 "hist.set.AttrWrap.set_focus_attr", "hist.set.AttrWrap.set_focus_attr(None)", "hist.set.AttrMap.set_focus_map(None)"):
        if not cnt.get(need):
            chk.vacuity.append("driver." + need)


def strip_for_tlc(tr):
    """Events that are bookkeeping only (exceptions raised by the layout: C03's subject) are not shown to TLC."""
    return {**tr, "ev": [e for e in tr["ev"] if e["t"] != "rexc"]}


def run(chk):
    quick = chk.tier == "quick"
    # worker processes for recording (thorough tier) are forked before any thread exists
    ppool = None if quick else multiprocessing.get_context("fork").Pool(4)
    runs = model_runs(quick)
    pool = cf.ThreadPoolExecutor(2 if quick else 3)
    futs = [(name, must, pool.submit(tlc.mc, "AttrFlow", cfg, workers=6 if must else 2,
                                     timeout=80 if quick else 900 if name == "MC_trees_depth3_n5" else 700))
            for name, cfg, must in runs]
    t0 = time.time()
    vpool = cf.ThreadPoolExecutor(2)      # two validations at a time, each with half of the TLC jobs
    vjobs = 2 if quick else 4
    vfuts = []
    done = 0
    traces = []
    for traces in build_traces(chk, quick, ppool):
        if len(traces) == done:
            continue
        chunk = [strip_for_tlc(t) for t in traces[done:]]
        vfuts.append((done, chunk, vpool.submit(tlc.validate, "AttrFlowTrace", chunk, batch_events=12000 if quick else 25000, jobs=vjobs,
                                                timeout=85 if quick else 1150)))
        done = len(traces)
    chk.note(f"{len(traces)} traces recorded in {time.time() - t0:.1f}s")
    if ppool is not None:
        ppool.close()
        ppool.join()
    for tr in traces:
        for e in tr["ev"]:
            if e["t"] == "rexc":
                chk.divergence(f"Text.render raised {e['exc']} (layout, not attributes: see C03)",
                               {"mode": tr["mode"], "wrap": e["wrap"], "align": e["align"], "width": e["width"], "msg": e["msg"]})
    for i, (off, chunk, f) in enumerate(vfuts):
        res = f.result()
        chk.add_tv(f"TV_AttrFlowTrace_{i + 1}", res)
        _handle(chk, chunk, res, "c17")
    vpool.shutdown()
    for name, must, f in futs:
        try:
            r = f.result()
        except tlc.MachineryError as ex:
            if "Assumption" in str(ex) and "is false" in str(ex):     # a constant-level law (palette instances, refutations) failed
                chk.reject("C17.model.assumption_false", {"model": name}, {"tlc": str(ex)[-600:]})
                continue
            if name == "MC_trees_depth3_n5" and "timed out" in str(ex):     # the largest bound is best effort on a loaded machine
                chk.vacuity.append("model.MC_trees_depth3_n5_timed_out (depth 3 is covered up to 4 characters by MC_trees_depth3)")
                continue
            raise
        chk.add_mc(name, r)
        if must and not r.ok:
            chk.reject("C17.model." + str(r.violated), {"model": name}, {"tlc_trace": r.trace[-3:]})
        if not must and r.ok:
            chk.reject("C17.model.wrong_reading_not_refuted", {"model": name}, {"run": name})
    pool.shutdown()
    coverage(chk, traces)
    chk.cov["exhaustive"] = True
    chk.cov["rule"] = ("stage 1: every markup tree of depth <= 2 over 3 position-unique characters (str and bytes; utf-8, euc-jp, iso8859-1) x "
                       "every width x wrap x align, plus seeded random trees of depth <= 3 over <= 8 characters; stage 1b: every assignment of 3 "
                       "attributes to the characters of texts with double-width characters x every (left, cols) x 4 clipping paths, plus random "
                       "markup x widths x wrap x align clipped at every column; stage 2: random chains of <= 3 "
                       "AttrMap/AttrWrap/fill_attr/fill_attr_apply at three nesting levels x focus; stage 2b: random histories of <= 9 (quick) / 14 "
                       "operations (render whole / inner widget, 12 setters, re-read, apply to a copy, forget) on stacks of <= 3 maps with held "
                       "canvases, plus setter sweeps; stage 3: random palettes (3/4/6-tuples, "
                       "aliases, alias of alias, re-registration, None entry, '#rrggbb' / '#rgb' with random digits, high fields absent / '' / settings "
                       "only / 'default' / a colour, AttrSpec objects) x 5 depths x "
                       "bright-is-bold x registration order x 3 encodings on a real raw_display.Screen; distinct = distinct (markup, configuration) with >= 2 attributes / a map that changes a cell / "
                       "distinct (palette, frame, depth)")
    s1 = next((t for t in traces if t["stage"] == "text" and len(t["ev"]) > 3 and depth_of(t["markup"]) >= 2), traces[0])
    chk.sample({"stage": "text", "mode": s1["mode"], "bytes": s1["bytes"], "markup": s1["markup"], "event": s1["ev"][min(5, len(s1["ev"]) - 1)]})
    s2 = next((t for t in traces if t["stage"] == "maps"), None)
    if s2:
        chk.sample({"stage": "maps", "markup": s2["markup"], "geom": s2["geom"], "event": s2["ev"][0]})
    s3 = next((t for t in traces if t["stage"] == "palette" and t["depth"] == 256), None)
    if s3:
        chk.sample({"stage": "palette", "items": s3["items"], "depth": s3["depth"], "bib": s3["bib"], "tokens": s3["ev"][:12]})
    chk.cov["trusted_base"] = ["TLC", "Terminal.tla SGR decoding (DESIGN.md Appendix E) via RawDisplayTrace.tla", "vf/term.py tokeniser, char_width, "
                               "colour description -> number table (spec_to_pen / colour_index, as in C04)",
                               "line_hints(): source position of each displayed character read from the widget's own layout (the layout contract "
                               "is C03; every hint is re-checked by TLC against the position-unique glyph)",
                               "the geometry (Padding/Filler sizes) that tells which level produced a cell in stage 2"]
    chk.assumptions += ["attribute names are drawn from a small set of hashables (None, a str, an int, a tuple)",
                        "wrap='ellipsis' is not exercised in euc-jp and only left-aligned in iso8859-1 (layout defects recorded under C03)",
                        "exceptions raised by the layout are DIVERGENCE here (C03's subject)",
                        "colour descriptions: names and hN through vf/term.py's table, '#rrggbb' / '#rgb' with any digits resolved per depth by TLC "
                        "(AttrFlowOps.tla HexColourAt); gN / g#NN grays are not exercised; parsing is C18",
                        "AttrSpec objects are drawn on a screen of the colour depth they were written for (mixed depths: C15/C04)",
                        "stage 2b: a held canvas is compared with the chain of maps at the time it was rendered (kept by TLC), the unmapped "
                        "cells come from a second, map-free stack of the same geometry",
                        "one frame on a fresh screen per palette (incremental redraw is C04)"]


def replay(chk, path):
    with open(path) as f:
        rp = json.load(f)["replay"]
    t = rp["trace"]
    e = rp["rejected_event"]
    if rp["stage"] == "text":
        var = [(e["width"], e["wrap"], e["align"])] if e["t"] == "render" else []
        tr = text_trace(t["mode"], t["bytes"], t["markup"], var)
    elif rp["stage"] == "trim":
        var = [(0 if e.get("packed") else e["width"], e["wrap"], e["align"])] if e["t"] in ("trim", "exc") and "wrap" in e else []
        tr = trim_trace(t["mode"], t["bytes"], t["markup"], var, -1)
    elif rp["stage"] == "maps" and t.get("hist"):
        tr = hist_trace(t["mode"], t["markup"], t["wrap"], t["align"], t["tw"], tuple(t["geom"]), t["wrapper"], t["chain0k"], t["ops"])
    elif rp["stage"] == "maps":
        chain = [dict(c, kind=k) for c, k in zip(e.get("chain", []), e.get("kinds", []))]
        tr = maps_trace(t["mode"], t["markup"], t["wrap"], t["align"], t["tw"], tuple(t["geom"]), [(chain, e.get("focus", False))])
    else:
        items = []
        for it in t["items"]:
            items.append(tuple(_unstr(x) for x in it))
        rows = [[(ch, a) for ch, a in r] for r in t["rows_spec"]]
        tr = display_trace(t["mode"], t["depth"], t["bib"], t["bce"], t["order"], items, t["pal"], rows, t["how"], t.get("specs", []))
    tv = [strip_for_tlc(tr)]
    res = tlc.validate("AttrFlowTrace", tv, jobs=1, timeout=300)
    chk.add_tv("replay", res)
    _handle(chk, tv, res, "replay")
    chk.sample({"replayed": rp["stage"], "events": len(tr["ev"])})
    return chk.finish()


def _unstr(x):
    """items were stored as str(); names that are not strings are restored."""
    for n in ALL_NAMES:
        if str(n) == x and not isinstance(n, str):
            return n
    return None if x == "None" else x
