"""C15 — the embedded terminal emulator (urwid.vterm.TermCanvas) survives any output and tracks a VT100.

Reference terminal: spec/Terminal.tla (shared with C04/C12) through spec/VTermOps.tla (commands, console
dialect, comparison, shape and reply predicates); design model and GENERATOR of command sequences:
spec/VTerm.tla; judge: spec/VTermTrace.tla.

(a) faithfulness: command sequences of the listed subset and of what a VT100 documents next to it (text runs,
    IND / NEL, CHA / VPA / CNL / CPL, ECH, tab stops, origin / insert / autowrap / new-line mode, save / restore
    cursor, charsets, DSR / CPR / DA): TLC -simulate behaviours of VTerm.tla, the exhaustive scrolling-region
    family of VTerm.tla (RegSpec: region x cursor row x command, exported with tlc -dump), seeded random and
    directed sequences, encoded as bytes, fed in random chunks to a real TermCanvas; after every command the
    grid, cursor, scrollback, pen, region, tab stops, modes and replies are recorded and compared by TLC with
    the reference stepped by the same command.
    The main character set (ESC % G: UTF-8, ESC % @: 8-bit characters) is a command ("mcs"), runs of bytes at or above 0x80 go to the
    emulator as they are ("raw") and are decoded by the reference itself; with urwid's encoding "utf8" the terminal is locked to
    UTF-8, with any other encoding ("utf-8", "iso8859-1") the program's selection counts.
    "any chunking of the stream across feeds": after the per-command events every trace feeds its whole stream again to fresh
    emulators under other chunkings (one feed, byte by byte, every single cut for the charset family, random cuts); each final
    screen / cursor / scrollback / pen / region / tab stops / modes / replies is a "refeed" event judged against the same reference state.
(b) robustness: arbitrary / malformed byte streams, any chunking, resizes down to 1x1, under a CPU-time watchdog;
    per feed: exception class, row lengths, cursors, region, replies; then the same operations with the bytes cut differently
    ("rechunk": one feed, byte by byte, random cuts): both outcomes are recorded side by side and compared by TLC.
    No verdict is computed here.
"""
from __future__ import annotations

import json
import multiprocessing as mp
import re
import signal

from .. import term as vt
from .. import tlc

LISTED = ("put", "cr", "lf", "ri", "bs", "cup", "cuu", "cud", "cuf", "cub", "el", "ed", "ich", "dch", "il", "dl", "stbm", "sgr")
EXT = ("txt", "ind", "nel", "cha", "vpa", "cnl", "cpl", "ech", "ht", "hts", "tbc", "decom", "irm", "decawm", "lnm",
       "decsc", "decrc", "scosc", "scorc", "so", "si", "scs", "mcs", "raw", "mal")
QUERY = ("cpr", "dsr", "da")
CMDS = LISTED + EXT + QUERY
# commands after which a VT100 still has its last-column flag (the cursor does not move)
KEEPS_FLAG = ("el", "ed", "ech", "sgr", "ht", "hts", "tbc", "irm", "decawm", "lnm", "decsc", "scosc", "so", "si", "scs", "mcs", "view", "refeed") + QUERY
CPU_BUDGET_S = 4.0     # user CPU seconds of this process for ONE feed (ITIMER_VIRTUAL: machine load cannot trip it)
WALL_BUDGET_S = 90.0   # backstop for a feed that blocks without burning CPU
LOOP_FINALS = b"LM@P"  # insert/delete lines/characters
TEXT_CMDS = ("put", "txt", "raw", "mal")
# urwid encodings of the faithfulness part: "utf8" locks the emulator's decoder to UTF-8; the others leave the choice to ESC % G / ESC % @
UNLOCKED_ENCS = ("utf-8", "iso8859-1")


class _Hang(BaseException):
    pass


class Stub:
    """What TermCanvas uses of its Terminal widget: term_modes, respond(), set_title(), beep(), leds()."""

    def __init__(self, modes):
        self.term_modes = modes
        self.canvas = None
        self.replies = []
        self.all_replies = []
        self.titles = 0

    def respond(self, string):
        x, y = self.canvas.term_cursor
        r = {"s": [ord(c) for c in string], "x": x, "y": y}
        self.replies.append(r)
        self.all_replies.append(r)

    def set_title(self, title):
        self.titles += 1

    def beep(self):
        pass

    def leds(self, which):
        pass


class Emu:
    """A real TermCanvas built the way urwid.vterm.Terminal.touch_term builds it."""

    def __init__(self, w, h, enc="utf8", focus=False):
        import urwid
        from urwid import vterm

        urwid.set_encoding(enc)
        self.enc = enc
        self.stub = Stub(vterm.TermModes())
        self.t = vterm.TermCanvas(w, h, self.stub)
        self.stub.canvas = self.t
        self.w, self.h = w, h
        if focus:  # Terminal.change_focus(True) without touching the controlling tty
            self.t.has_focus = True
            self.t.set_term_cursor()


def guarded(fn):
    """Run fn under the watchdog.  Returns (exception class name or "", hang flag)."""

    def onalarm(signum, frame):
        raise _Hang()

    old_v = signal.signal(signal.SIGVTALRM, onalarm)
    old_r = signal.signal(signal.SIGALRM, onalarm)
    try:
        try:
            signal.setitimer(signal.ITIMER_VIRTUAL, CPU_BUDGET_S)
            signal.setitimer(signal.ITIMER_REAL, WALL_BUDGET_S)
            try:
                fn()
            finally:
                signal.setitimer(signal.ITIMER_VIRTUAL, 0)
                signal.setitimer(signal.ITIMER_REAL, 0)
            return "", 0
        except _Hang:
            return "", 1
        except Exception as ex:  # noqa: BLE001
            return type(ex).__name__, 0
    finally:
        signal.signal(signal.SIGVTALRM, old_v)
        signal.signal(signal.SIGALRM, old_r)


# ---- projection of the emulator's cells (trusted base) --------------------------------------------------
def pen_of(a):
    if a is None:
        return [-1, -1, 0]
    fg = (2 ** 24 + a.foreground_number) if a.foreground_true else (1000 + a.foreground_number) if a.foreground_high \
        else a.foreground_number if a.foreground_basic else -1
    bg = (2 ** 24 + a.background_number) if a.background_true else (1000 + a.background_number) if a.background_high \
        else a.background_number if a.background_basic else -1
    mask = (1 if a.bold else 0) + (2 if a.italics else 0) + (4 if a.underline else 0) + (8 if a.blink else 0) \
        + (16 if a.standout else 0) + (32 if a.strikethrough else 0)
    return [fg, bg, mask]


def cell_of(c, enc="utf8"):
    """a cell holds one ASCII / 8-bit character as its byte, or one assembled character encoded in urwid's encoding"""
    attr, cs, bs = c
    if len(bs) == 1:
        s = bs.decode("latin-1")
    else:
        try:
            s = bs.decode(enc)
        except UnicodeDecodeError:
            try:
                s = bs.decode("utf-8")
            except UnicodeDecodeError:
                s = bs.decode("latin-1")
    if cs == "0" and len(s) == 1:
        s = vt.DEC_OF_ALT.get(s, s)
    cp = ord(s) if len(s) == 1 else -2
    return [cp, *pen_of(attr)]


def observe(t, enc="utf8"):
    m = t.modes
    return {"g": [[cell_of(c, enc) for c in row] for row in t.content()],
            "cur": list(t.term_cursor),
            "sb": [[cell_of(c, enc) for c in row] for row in t.scrollback_buffer],
            "pen": pen_of(t.empty_char()[0]),
            "reg": [t.scrollregion_start, t.scrollregion_end],
            "tabs": [x for x in range(t.width) if t.is_tabstop(x)],
            "md": [int(bool(m.constrain_scrolling)), int(bool(m.insert)), int(bool(m.autowrap)), int(bool(m.lfnl))],
            "cs": int(t.charset.current == "0")}


NO_OBS = {"g": [], "cur": [0, 0], "sb": [], "pen": [-1, -1, 0], "reg": [0, 0], "tabs": [], "md": [0, 0, 1, 0], "cs": 0}


# ---- (a) commands -> bytes ---------------------------------------------------------------------------------
def _n(rng, v, default):
    """a numeric parameter; the default value may be written out, as 0, or omitted"""
    if v == default and rng.random() < 0.5:
        return ""
    if v == default and default == 1 and rng.random() < 0.3:
        return "0"
    return str(v)


def encode(cmd, rng):
    t, a, b, ps = cmd["t"], cmd["a"], cmd["b"], cmd["ps"]
    E = "\x1b["
    if t == "put":
        return chr(a).encode("utf-8")
    if t == "txt":
        return "".join(chr(c) for c in ps).encode("utf-8")
    if t == "cr":
        return b"\r"
    if t == "lf":
        return rng.choice([b"\n", b"\n", b"\x0b", b"\x0c"])
    if t == "ind":
        return b"\x1bD"
    if t == "nel":
        return b"\x1bE"
    if t in ("ht", "so", "si"):
        return {"ht": b"\t", "so": b"\x0e", "si": b"\x0f"}[t]
    if t in ("hts", "decsc", "decrc"):
        return {"hts": b"\x1bH", "decsc": b"\x1b7", "decrc": b"\x1b8"}[t]
    if t in ("scosc", "scorc"):
        return (E + rng.choice(["", "", "0"]) + ("s" if t == "scosc" else "u")).encode()
    if t == "scs":
        return b"\x1b" + (b"(" if a == 0 else b")") + bytes([b])
    if t == "mcs":     # select the main character set: UTF-8 (ESC % G, obsolete ESC % 8) / the default 8-bit set (ESC % @)
        return (b"\x1b%8" if rng.random() < 0.15 else b"\x1b%G") if a else b"\x1b%@"
    if t in ("raw", "mal"):     # the bytes as they are ("mal": not well-formed UTF-8 on their own)
        return bytes(ps)
    if t in ("decom", "irm", "decawm", "lnm"):
        num = {"decom": "?6", "irm": "4", "decawm": "?7", "lnm": "20"}[t]
        if rng.random() < 0.2:       # the same mode named twice in one sequence
            num += ";" + num.lstrip("?")
        return (E + num + ("h" if a else "l")).encode()
    if t == "tbc":
        return (E + _n(rng, a, 0) + "g").encode()
    if t in ("cha", "vpa", "cnl", "cpl", "ech"):
        fin = {"cha": rng.choice("GG`"), "vpa": "d", "cnl": "E", "cpl": "F", "ech": "X"}[t]
        return (E + (_n(rng, a, 1) if a else rng.choice(["0", ""])) + fin).encode()
    if t == "cpr":
        return b"\x1b[6n"
    if t == "dsr":
        return b"\x1b[5n"
    if t == "da":
        return rng.choice([b"\x1b[c", b"\x1b[0c", b"\x1bZ"])
    if t == "ri":
        return b"\x1bM"
    if t == "bs":
        return b"\b"
    if t == "cup":
        row, col = _n(rng, b + 1, 1), _n(rng, a + 1, 1)
        body = row + (";" + col if col or rng.random() < 0.5 else "")
        return (E + body + rng.choice("HHf")).encode()
    if t in ("cuu", "cud", "cuf", "cub", "ich", "dch", "il", "dl"):
        fin = {"cuu": "A", "cud": rng.choice("BBe"), "cuf": rng.choice("CCa"), "cub": "D", "ich": "@", "dch": "P", "il": "L", "dl": "M"}[t]
        return (E + (_n(rng, a, 1) if a else rng.choice(["0", ""])) + fin).encode()
    if t in ("el", "ed"):
        return (E + _n(rng, a, 0) + ("K" if t == "el" else "J")).encode()
    if t == "stbm":
        sa, sb = _n(rng, a, 0), _n(rng, b, 0)
        return (E + (sa + ";" + sb if sa or sb or rng.random() < 0.5 else "") + "r").encode()
    if t == "sgr":
        return (E + ";".join("" if (p == 0 and len(ps) > 1 and rng.random() < 0.2) else str(p) for p in ps) + "m").encode()
    raise ValueError(t)


def chunks(data, rng):
    if len(data) < 2 or rng.random() < 0.5:
        return [data]
    k = rng.randint(1, min(2, len(data) - 1))
    cuts = sorted(rng.sample(range(1, len(data)), k))
    return [data[i:j] for i, j in zip([0, *cuts], [*cuts, len(data)])]


def make_step(cmd, rng):
    return {"t": cmd["t"], "a": cmd["a"], "b": cmd["b"], "ps": list(cmd["ps"]), "pieces": [p.hex() for p in chunks(encode(cmd, rng), rng)]}


class CharsetShadow:
    """Diagnostic only (signature of the charset-table finding): the charset a glyph would be printed in if ESC 7 / ESC 8 saved and
    restored the designations (G1 starts as the graphics set in the emulator)."""

    def __init__(self):
        self.g = ["B", "0"]
        self.active = 0
        self.saved = None

    def apply(self, st):
        k = st["t"]
        if k == "scs":
            self.g[st["a"]] = "0" if st["b"] == 48 else "B"
        elif k in ("so", "si"):
            self.active = 1 if k == "so" else 0
        elif k == "decsc":
            self.saved = (list(self.g), self.active)
        elif k == "decrc" and self.saved is not None:
            self.g, self.active = list(self.saved[0]), self.saved[1]

    def current(self):
        return "0" if self.g[self.active] == "0" else None


class SgrKinds:
    """Diagnostic only (signatures of findings): which kind of colour each half of the pen was last given and by
    how many SGR commands ago."""

    def __init__(self):
        self.k = {"fg": "d", "bg": "d"}
        self.age = {"fg": 0, "bg": 0}
        self.trailing_zero_component = False

    def apply(self, ps):
        for h in self.age:
            self.age[h] += 1
        ps = list(ps) or [0]
        self.trailing_zero_component = False   # the last parameter is a colour index / component that happens to be 0
        i = 0
        while i < len(ps):
            p = ps[i]
            if p == 0:
                self.k = {"fg": "d", "bg": "d"}
            elif 30 <= p <= 37 or 40 <= p <= 47:
                self._set("fg" if p < 40 else "bg", "basic")
            elif 90 <= p <= 97 or 100 <= p <= 107:
                self._set("fg" if p < 100 else "bg", "bright")
            elif p in (39, 49):
                self._set("fg" if p == 39 else "bg", "d")
            elif p in (38, 48) and i + 2 < len(ps) and ps[i + 1] == 5:
                if ps[i + 2] <= 255:      # a selector that names no colour selects nothing
                    self._set("fg" if p == 38 else "bg", "idx")
                i += 2
                self.trailing_zero_component = i == len(ps) - 1 and ps[i] == 0
            elif p in (38, 48) and i + 4 < len(ps) and ps[i + 1] == 2:
                if max(ps[i + 2:i + 5]) <= 255:
                    self._set("fg" if p == 38 else "bg", "true")
                i += 4
                self.trailing_zero_component = i == len(ps) - 1 and ps[i] == 0
            i += 1

    def _set(self, half, kind):
        self.k[half] = kind
        self.age[half] = 0

    def palette(self):
        return any(v in ("basic", "bright", "idx") for v in self.k.values())

    def bright_carried(self):
        return any(self.k[h] == "bright" and self.age[h] >= 1 for h in self.k)


# ---- "any chunking of the stream across feeds" ---------------------------------------------------------------------
def stream_ops(steps):
    """The trace as what reaches the emulator: runs of bytes (consecutive commands joined) and the resizes at their positions."""
    ops = []
    for st in steps:
        if st["t"] == "resize":
            ops.append(("rsz", st["w"], st["h"]))
        elif st["t"] != "view":
            data = b"".join(bytes.fromhex(p) for p in st["pieces"])
            if ops and ops[-1][0] == "bytes":
                ops[-1] = ("bytes", ops[-1][1] + data)
            else:
                ops.append(("bytes", data))
    return ops


def stream_len(steps):
    return sum(len(op[1]) for op in stream_ops(steps) if op[0] == "bytes")


def cut_run(data, off, policy):
    """The pieces the run of bytes at stream offsets off .. off + len(data) is fed in under a chunking policy
    {"mode": "whole" | "bytes" | "cuts", "cuts": [stream offsets]}."""
    if policy["mode"] == "bytes":
        return [data[i:i + 1] for i in range(len(data))]
    cuts = [c - off for c in policy.get("cuts", []) if off < c < off + len(data)] if policy["mode"] == "cuts" else []
    return [data[i:j] for i, j in zip([0, *cuts], [*cuts, len(data)])]


def refeed_policies(steps, rng, singles, n_random):
    """whole stream in one feed (per run between resizes), byte by byte, cut once at each of `singles` positions (-1: at every
    position), and n_random random multi-cut chunkings"""
    n = stream_len(steps)
    out = [{"mode": "whole"}, {"mode": "bytes"}]
    if n >= 2:
        singles = list(range(1, n)) if singles < 0 or singles >= n - 1 else sorted(rng.sample(range(1, n), singles))
        out += [{"mode": "cuts", "cuts": [c]} for c in singles]
        for _ in range(n_random):
            out.append({"mode": "cuts", "cuts": sorted(rng.sample(range(1, n), rng.randint(1, min(4, n - 1))))})
    return out


def light_refeeds(steps, rng):
    """for the families that are not about the character set: the whole stream in one feed and one other chunking"""
    pols = refeed_policies(steps, rng, 0, 1)
    return [pols[0], pols[-1]]


def switch_and_high_bytes_in_one_feed(steps, policy):
    """Diagnostic / vacuity only: how often a selection of the main character set and the first byte >= 0x80 after it reach the
    emulator in the same addstr() call under this chunking."""
    if policy["mode"] == "bytes":
        return 0
    cuts = set(policy.get("cuts", [])) if policy["mode"] == "cuts" else set()
    off, last_mcs_end, n = 0, None, 0
    for st in steps:
        if st["t"] == "resize":
            last_mcs_end = None       # a resize ends the feed
            continue
        if st["t"] == "view":
            continue
        data = b"".join(bytes.fromhex(p) for p in st["pieces"])
        if st["t"] == "mcs":
            last_mcs_end = off + len(data)
        elif last_mcs_end is not None:
            hi = next((i for i, b in enumerate(data) if b >= 0x80), None)
            if hi is not None:
                n += not any(last_mcs_end <= c <= off + hi for c in cuts)
                last_mcs_end = None
        off += len(data)
    return n


def run_refeed(spec, policy, enc):
    """The whole stream of the trace, fed to a fresh emulator under another chunking: what it shows at the end."""
    emu = Emu(spec["w"], spec["h"], enc)
    t = emu.t
    size = [spec["w"], spec["h"]]

    def go():
        off = 0
        for op in stream_ops(spec["steps"]):
            if op[0] == "rsz":
                size[:] = [op[1], op[2]]
                t.resize(op[1], op[2])
            else:
                for piece in cut_run(op[1], off, policy):
                    t.addstr(piece)
                off += len(op[1])

    exc, hang = guarded(go)
    e = {"t": "refeed", "a": 0, "b": 0, "ps": [], "exc": "WatchdogHang" if hang else exc, "w": size[0], "h": size[1], "k": 0, "rot": 0,
         "policy": policy}
    try:
        e.update(observe(t, enc))
    except Exception as ex:  # noqa: BLE001
        e["exc"] = e["exc"] or "observe:" + type(ex).__name__
        e.update(NO_OBS)
    e["reps"] = list(emu.stub.replies)
    e["pend"] = int(bool(t.is_rotten_cursor))
    e["d_switch_and_high_bytes_in_one_feed"] = switch_and_high_bytes_in_one_feed(spec["steps"], policy)
    return e


def run_a(spec):
    """spec = {w, h, steps:[cmd step | {"t":"resize",w,h} | {"t":"view",k}], driver, enc, refeeds:[chunking policy]}.
    Returns a trace for VTermTrace."""
    w, h = spec["w"], spec["h"]
    enc = spec.get("enc", "utf8")
    emu = Emu(w, h, enc)
    t = emu.t
    ev = []
    stale_by = ""   # first command that clears a VT100's last-column flag since the emulator last set its pending-wrap flag
    kinds = SgrKinds()
    scs_since_save = False     # a charset was designated since the last ESC 7 ...
    restored_after_scs = False  # ... and the cursor has been restored since (diagnostic, sticky)
    shadow = CharsetShadow()
    for st in spec["steps"]:
        k = st["t"]
        e = {"t": k, "a": st.get("a", 0), "b": st.get("b", 0), "ps": st.get("ps", []), "exc": "", "w": w, "h": h, "k": st.get("k", 0)}
        rot_in = bool(t.is_rotten_cursor)
        cy = t.term_cursor[1]
        e["rot"] = int(rot_in)
        e["d_pending_in"] = rot_in
        e["d_stale_pending"] = rot_in and bool(stale_by)
        e["d_stale_by"] = stale_by if rot_in else ""
        e["d_row_vs_region"] = "above" if cy < t.scrollregion_start else "below" if cy > t.scrollregion_end else "inside"
        e["d_cx_gt0"] = t.term_cursor[0] > 0
        e["d_cy_in"] = cy
        e["d_om"] = bool(t.modes.constrain_scrolling)
        e["d_charset_stale"] = t.charset.current != shadow.current()
        emu.stub.replies = []
        nothing_to_restore = k in ("decrc", "scorc") and t.saved_cursor is None     # then the command does nothing (console dialect)
        if k == "resize":
            w, h = st["w"], st["h"]
            e["w"], e["h"] = w, h
            try:       # what was there before: "lines scrolled off the top are kept, in order" across the resize
                before = observe(t, enc)
                e["psb"], e["pg"] = before["sb"], before["g"]
            except Exception:  # noqa: BLE001
                e["psb"], e["pg"] = [], []
            exc, hang = guarded(lambda: t.resize(w, h))  # noqa: B023
            stale_by = stale_by or k
        elif k == "view":
            view = []

            def look():
                t.scroll_buffer(up=True, lines=st["k"])  # noqa: B023
                try:
                    view.extend([cell_of(c, enc) for c in row] for row in t.content())  # noqa: B023
                finally:
                    t.scroll_buffer(reset=True)

            pre = observe(t, enc)
            exc, hang = guarded(look)
            e["view"] = view
        else:
            pieces = [bytes.fromhex(p) for p in st["pieces"]]

            def feed():
                for p in pieces:  # noqa: B023
                    t.addstr(p)

            exc, hang = guarded(feed)
            if k == "sgr":
                kinds.apply(st["ps"])
            if k in TEXT_CMDS:
                stale_by = ""
            elif k not in KEEPS_FLAG and not nothing_to_restore:
                stale_by = stale_by or k
            shadow.apply(st)
            if k == "decsc":
                scs_since_save = False
            elif k == "scs":
                scs_since_save = True
            elif k == "decrc" and scs_since_save:
                restored_after_scs = True
        e["exc"] = "WatchdogHang" if hang else exc
        try:
            e.update(pre if k == "view" else observe(t, enc))
        except Exception as ex:  # noqa: BLE001
            e["exc"] = e["exc"] or "observe:" + type(ex).__name__
            e.update(NO_OBS)
        e["reps"] = list(emu.stub.replies)
        e["pend"] = int(bool(t.is_rotten_cursor))
        a = t.attrspec
        e["d_true_palette_mix"] = bool(a is not None and a.colors == 2 ** 24 and kinds.palette())
        e["d_bright_carried"] = kinds.bright_carried()
        e["d_sgr_trailing_zero_component"] = k == "sgr" and kinds.trailing_zero_component
        e["d_restored_after_scs"] = restored_after_scs
        e["d_switch_and_high_bytes_in_one_feed"] = 0
        ev.append(e)
        if e["exc"]:
            break
    else:
        # the same stream under other chunkings, each on a fresh emulator; the diagnostics are those of the last command
        diag = {k: v for k, v in (ev[-1] if ev else {}).items() if k.startswith("d_")}
        for policy in (spec.get("refeeds", []) if ev else []):
            e = run_refeed(spec, policy, enc)
            ev.append({**diag, **e})
    return {"kind": "a", "w": spec["w"], "h": spec["h"], "lock": int(enc == "utf8"), "driver": spec.get("driver", ""), "spec": spec, "ev": ev}


# ---- (b) arbitrary byte streams ----------------------------------------------------------------------------
_CSI_RE = re.compile(rb"(?:\x1b\[|\x9b)\??([0-9;]*)([@-~])")


def stream_features(cum: bytes) -> dict:
    """Diagnostic only (signatures of findings), over all bytes fed so far."""
    f = {"osc_with_non_ascii_byte": False, "sgr_colour_component_gt255": False, "loop_count_ge_1e6": False}
    for m in re.finditer(rb"\x1b\]([^\x07]*)", cum):
        if any(b >= 0x80 for b in m.group(1)):   # the emulator re-encodes assembled UTF-8 into urwid's encoding before parse_osc decodes it
            f["osc_with_non_ascii_byte"] = True
    for m in _CSI_RE.finditer(cum):
        nums = [int(x) if len(x) <= 18 else 10 ** 18 for x in m.group(1).split(b";") if x]
        if m.group(2) == b"m" and (38 in nums or 48 in nums) and nums and max(nums) > 255:
            f["sgr_colour_component_gt255"] = True
        if m.group(2) in (b"L", b"M", b"@", b"P") and nums and max(nums) >= 10 ** 6:
            f["loop_count_ge_1e6"] = True
    return f


class Interner:
    """Cells and pieces of emulator state as small numbers, equal values to equal numbers (TLC compares them)."""

    def __init__(self):
        self.ids = {}

    def __call__(self, x):
        return self.ids.setdefault(repr(x), len(self.ids))


def final_state_b(t, emu, num):
    """What the emulator has made of the stream: everything that later output or a later view can depend on."""
    import dataclasses

    cs = t.charset
    return {"g": [[num(c) for c in row] for row in t.content()],
            "sb": [[num(c) for c in row] for row in t.scrollback_buffer],
            "cur": list(t.term_cursor), "ccur": list(t.cursor) if t.cursor is not None else [],
            "reg": [t.scrollregion_start, t.scrollregion_end],
            "st": [num(x) for x in (dataclasses.astuple(t.modes), t.attrspec, (cs._g, cs.active, cs.current, cs._sgr_mapping), list(t.tabstops),
                                    bool(t.is_rotten_cursor), t.saved_cursor, (t.within_escape, t.parsestate, bytes(t.escbuf)),
                                    (t.utf8_eat_bytes, bytes(t.utf8_buffer) if t.utf8_eat_bytes is not None else b""), emu.stub.titles)],
            "reps": list(emu.stub.all_replies)}


def rechunk_policies(spec, rng_seed):
    """one feed per run of bytes between two resizes, byte by byte, and spec["rechunk_cuts"] random chunkings"""
    import random

    rng = random.Random(rng_seed)
    n = sum(len(op["hex"]) // 2 for op in spec["ops"] if op["t"] == "feed")
    out = [{"mode": "whole"}, {"mode": "bytes"}]
    for _ in range(spec.get("rechunk_cuts", 1) if n >= 2 else 0):
        out.append({"mode": "cuts", "cuts": sorted(rng.sample(range(1, n), rng.randint(1, min(5, n - 1))))})
    return out


def run_rechunk(spec, policy, first, num):
    """The operations of the trace once more on a fresh emulator, the bytes between two resizes cut by another policy."""
    emu = Emu(spec["w"], spec["h"], spec["enc"], spec["focus"])
    t = emu.t
    size = [spec["w"], spec["h"]]
    steps = [{"t": "resize", "w": op["w"], "h": op["h"]} if op["t"] == "rsz" else {"t": "feed", "pieces": [op["hex"]]} for op in spec["ops"]]

    def go():
        off = 0
        for op in stream_ops(steps):
            if op[0] == "rsz":
                size[:] = [op[1], op[2]]
                t.resize(op[1], op[2])
            else:
                for piece in cut_run(op[1], off, policy):
                    t.addstr(piece)
                off += len(op[1])

    exc, hang = guarded(go)
    e = {"t": "rechunk", "exc": exc, "hang": hang, "w": size[0], "h": size[1], "nq": -1, "qk": 0, "hex": "", "policy": policy}
    try:
        e.update(final_state_b(t, emu, num))
    except Exception as ex:  # noqa: BLE001
        e["exc"] = e["exc"] or "observe:" + type(ex).__name__
        e.update({"g": [], "sb": [], "cur": [0, 0], "ccur": [], "reg": [0, 0], "st": [], "reps": []})
    e["lens"] = [len(r) for r in e["g"]]
    e.update({k + "0": v for k, v in first.items()})
    return e


def run_b(spec):
    """spec = {enc, w, h, focus, ops:[{"t":"feed",hex,nq,qk} | {"t":"rsz",w,h}], rechunk: seed}.  Returns a trace for VTermTrace."""
    w, h = spec["w"], spec["h"]
    emu = Emu(w, h, spec["enc"], spec["focus"])
    t = emu.t
    ev = []
    cum = b""
    for op in spec["ops"]:
        emu.stub.replies = []
        if op["t"] == "rsz":
            w, h = op["w"], op["h"]
            exc, hang = guarded(lambda: t.resize(w, h))  # noqa: B023
            data = b""
        else:
            data = bytes.fromhex(op["hex"])
            cum += data
            exc, hang = guarded(lambda: t.addstr(data))  # noqa: B023
        e = {"t": op["t"], "exc": exc, "hang": hang, "w": w, "h": h, "nq": op.get("nq", -1), "qk": op.get("qk", 0),
             "reps": list(emu.stub.replies), "hex": data.hex()}
        try:
            rows = list(t.content())
            e["lens"] = [len(r) for r in rows]
            e["cur"] = list(t.term_cursor)
            e["ccur"] = list(t.cursor) if t.cursor is not None else []
            e["reg"] = [t.scrollregion_start, t.scrollregion_end]
            if spec["enc"] == "utf8":
                cols = []
                for r in rows:
                    n = 0
                    for c in r:
                        try:
                            n += sum(vt.char_width(ch) for ch in c[2].decode("utf-8")) if c[2] >= b" " else 1
                        except UnicodeDecodeError:
                            n += 1
                    cols.append(n)
                e["d_cols"] = cols
        except Exception as ex:  # noqa: BLE001
            e["exc"] = e["exc"] or "observe:" + type(ex).__name__
            e.update({"lens": [], "cur": [0, 0], "ccur": [], "reg": [0, 0]})
        e.update({"d_" + k: v for k, v in stream_features(cum).items()})
        cc = e["ccur"]
        e["d_canvas_cursor_outside"] = bool(cc) and not (0 <= cc[0] < w and 0 <= cc[1] < h)
        ev.append(e)
        if e["exc"] or hang:
            break   # the emulator was interrupted in the middle of an update: nothing further is meaningful
    else:
        if ev and not spec["hangy"] and spec.get("rechunk") is not None:
            num = Interner()
            first = final_state_b(t, emu, num)
            diag = {k: v for k, v in ev[-1].items() if k.startswith("d_") and k != "d_cols"}
            for policy in rechunk_policies(spec, spec["rechunk"]):
                ev.append({**diag, **run_rechunk(spec, policy, first, num)})
    return {"kind": "b", "w": spec["w"], "h": spec["h"], "lock": int(spec["enc"] == "utf8"), "spec": spec, "ev": ev}


HUGE = ["999999999", "2147483647", "2147483648", "4294967296", "1000000000000", "100000000000000000000"]


def _num(rng, w, h, huge_ok):
    r = rng.random()
    if r < 0.12:
        return ""
    if r < 0.24:
        return "0"
    if r < 0.36:
        return "1"
    if r < 0.62:
        return str(rng.choice([2, 3, max(w - 1, 0), w, w + 1, max(h - 1, 0), h, h + 1, 7, 9]))
    if r < 0.80:
        return str(rng.choice([16, 38, 48, 99, 128, 255, 256, 257, 300, 999, 4096, 65535, 65536, 100000]))
    if r < 0.808:
        return "9" * 4400     # longer than Python's int() accepts
    if r < 0.86:
        return "0" * rng.randint(2, 6) + str(rng.randint(0, 9))
    if huge_ok:
        return rng.choice(HUGE)
    return str(rng.choice([2 ** 15, 2 ** 16 + 1, 99999]))


class BGen:
    def __init__(self, rng, hang_budget):
        self.rng = rng
        self.hang_budget = hang_budget
        self.hangy = False

    def csi(self, w, h):
        rng = self.rng
        fin = rng.choice("@ABCDEFGHJKLMPXacdefghlmnqrsu`" + "@LMPHJKrmm" + "bijkoptvwxyz{|}~SITZ")
        loop = fin in "@LMP"
        np_ = rng.choice([0, 1, 1, 1, 1, 2, 2, 2, 3, 3, 5, 5, 30])
        ps = []
        for _ in range(np_):
            huge_ok = (not loop) or self.hang_budget > 0
            v = _num(rng, w, h, huge_ok)
            if loop and v in HUGE:
                self.hang_budget -= 1
                self.hangy = True
            ps.append(v)
        intro = rng.choice(["\x1b[", "\x1b[", "\x1b[", "\x1b[?", "\x9b", "\x1b[>", "\x1b[?;"])
        body = ";".join(ps)
        if rng.random() < 0.05:
            body = body.replace(";", rng.choice([":", ";;", "?", " "]), 1)
        return intro.encode("latin-1") + body.encode() + fin.encode()

    def sgr(self):
        rng = self.rng
        comp = lambda: str(rng.choice([0, 1, 5, 2, 15, 16, 100, 128, 231, 255, 255, 256, 300, 999, 70000, 2 ** 31, 10 ** 12]))  # noqa: E731
        k = rng.random()
        if k < 0.3:
            s = f"{rng.choice([38, 48])};5;{comp()}"
        elif k < 0.6:
            s = f"{rng.choice([38, 48])};2;{comp()};{comp()};{comp()}"
        elif k < 0.7:
            s = rng.choice(["38", "48;5", "38;2;1", "38;2;1;2", "48;2", "38;5;", "38;;5;1", "38;2;;;"])
        else:
            s = ";".join(str(rng.choice([0, 1, 3, 4, 5, 7, 9, 10, 11, 12, 21, 22, 24, 25, 27, 30, 37, 39, 40, 47, 49, 90, 97, 100, 107, 108, 255]))
                         for _ in range(rng.randint(1, 4)))
        if rng.random() < 0.3:
            s += ";" + rng.choice(["1", "0", "31", "38;5;200", "48;2;1;2;3"])
        return f"\x1b[{s}m".encode()

    def atom(self, w, h):
        rng = self.rng
        r = rng.random()
        if r < 0.16:
            return "".join(rng.choice("abcxyzAZ ~#") for _ in range(rng.randint(1, w + 3))).encode()
        if r < 0.24:
            return rng.choice(["é", "字", "界a", "\U0001f600", "é", "​", "ｱ", " ", "€"]).encode("utf-8")
        if r < 0.30:   # truncated / invalid UTF-8
            return rng.choice([b"\xc3", b"\xe5\xad", b"\xf0\x9f\x98", b"\xff", b"\xfe\xff", b"\xc0\x80", b"\x80", b"\xbf\xbf", b"\xed\xa0\x80",
                               b"\xf8\x88\x80\x80\x80", b"\xc3\x28", b"\xe5\x41", b"\xf4\x90\x80\x80", b"\xe5\xad\x1b[A\x97", b"\xc3\xc3\xa9", b"\xa9"])
        if r < 0.40:   # C0 / DEL / C1
            return bytes([rng.choice([0, 5, 7, 8, 8, 9, 9, 10, 10, 11, 12, 13, 13, 14, 15, 17, 19, 24, 26, 27, 127, 0x80, 0x84, 0x85, 0x88, 0x8d, 0x90, 0x9b, 0x9c, 0x9d, 0x9f])])
        if r < 0.62:
            return self.csi(w, h)
        if r < 0.70:
            return self.sgr()
        if r < 0.77:   # modes
            m = rng.choice(["?6", "?7", "4", "20", "3", "?5", "?25", "?1", "?3", "?2004", "?1049", "?6;7", "4;20", "?", "", "?999999999999"])
            return f"\x1b[{m}{rng.choice('hl')}".encode()
        if r < 0.80:   # the main character set selected in the middle of the stream, bytes >= 0x80 right behind it
            return rng.choice([b"\x1b%G", b"\x1b%G", b"\x1b%@", b"\x1b%@", b"\x1b%8"]) + \
                (rng.choice(["é", "字a", "ß€", "Ûx"]).encode("utf-8") if rng.random() < 0.8 else bytes(rng.randrange(0x80, 0x100) for _ in range(3)))
        if r < 0.85:   # OSC
            title = rng.choice([b"t", b"title", "tïtle".encode(), b"\xff", b"a\x80b", b"\xe9t\xe9", b"", b"x" * 40, b"\xc3", b"a;b;c", b"\x1b[31m"])
            head = rng.choice([b"0;", b"2;", b";", b"1;", b"00;", b"P1234567", b"R", b"", b"52;c;", b"4;1;?"])
            tail = rng.choice([b"\x07", b"\x07", b"\x1b\\", b"", b"\x18", b"\x9c"])
            return b"\x1b]" + head + title + tail
        if r < 0.93:   # charsets and other two/three byte sequences
            return rng.choice([b"\x1b(0", b"\x1b)0", b"\x1b(B", b"\x1b(U", b"\x1b)U", b"\x1b(K", b"\x1b(", b"\x1b)", b"\x1b%G", b"\x1b%@", b"\x1b%8", b"\x1b%",
                               b"\x1b#8", b"\x1b#", b"\x1b#3", b"\x0e", b"\x0f", b"\x1bc", b"\x1bD", b"\x1bE", b"\x1bH", b"\x1bM", b"\x1bZ", b"\x1b7", b"\x1b8",
                               b"\x1b=", b"\x1b>", b"\x1bq", b"\x1b\x1b", b"\x1b", b"\x1b[", b"\x1b[12", b"\x1b[1;", b"\x1b[?", b"\x1bN", b"\x1bP1$r\x1b\\",
                               b"\x1b_x\x1b\\", b"\x1b^", b"\x1b[g", b"\x1b[3g", b"\x1b[0g"])
        if r < 0.97:   # queries
            return rng.choice([b"\x1b[5n", b"\x1b[6n", b"\x1b[c", b"\x1b[0c", b"\x1b[?6n", b"\x1b[>c", b"\x1bZ", b"\x1b[n", b"\x1b[7n", b"\x1b[5;6n", b"\x9b6n"])
        return bytes(rng.randrange(256) for _ in range(rng.randint(1, 6)))

    def trace_spec(self):
        rng = self.rng
        self.hangy = False
        w, h = rng.choice([1, 1, 2, 3, 4, 5, 6, 8, 9, 17]), rng.choice([1, 1, 2, 3, 4, 5])
        spec = {"enc": rng.choice(["utf8", "utf8", "utf8", "utf-8", "iso8859-1", "euc-jp"]), "w": w, "h": h,
                "focus": rng.random() < 0.25, "ops": []}
        stream = b"".join(self.atom(w, h) for _ in range(rng.randint(3, 12)))
        ncut = rng.randint(0, min(5, max(0, len(stream) - 1)))
        cuts = sorted(rng.sample(range(1, len(stream)), ncut)) if len(stream) > 1 else []
        for i, j in zip([0, *cuts], [*cuts, len(stream)]):
            spec["ops"].append({"t": "feed", "hex": stream[i:j].hex(), "nq": -1, "qk": 0})
            r = rng.random()
            if r < 0.25:
                w, h = rng.choice([1, 1, 2, 3, 4, 6, 9, 12]), rng.choice([1, 1, 2, 3, 4, 6])
                spec["ops"].append({"t": "rsz", "w": w, "h": h})
            elif r < 0.40:   # BEL ends an operating system command, CAN any other sequence: then a query that must be answered
                qk = rng.choice([5, 6])
                spec["ops"].append({"t": "feed", "hex": (b"\x07\x18\x1b[%dn" % qk).hex(), "nq": 1, "qk": qk})
        spec["hangy"] = self.hangy
        spec["rechunk"] = rng.randrange(2 ** 30)
        return spec


# ---- (a) generators -----------------------------------------------------------------------------------------
SGRS = [[48, 5, 0], [38, 2, 0, 0, 0], [0], [], [31], [42], [1], [4], [7], [5], [24], [27], [1, 33, 44], [38, 5, 100], [48, 5, 200], [38, 5, 3], [39], [49], [39, 49], [32, 0], [0, 45],
        [91], [102], [1, 94], [38, 2, 1, 2, 3], [48, 2, 250, 128, 0], [38, 2, 9, 8, 7, 48, 2, 1, 1, 1], [36, 47], [4, 35], [38, 5, 255, 48, 5, 16], [97, 100],
        # selectors that name no colour: consumed as a whole, the rest of the list still applies
        [31, 38, 2, 300, 0, 0], [42, 48, 2, 1, 300, 0], [34, 38, 5, 300], [38, 5, 256, 32], [48, 2, 0, 0, 999, 41], [35, 48, 5, 1000, 39]]


def random_ext_cmd(rng, w, h, i, g1d):
    """one command outside the literally listed subset (VTermOps: Ext, Query)"""
    if rng.random() < 0.06:      # the main character set, and characters beyond ASCII as the bytes on the wire (this terminal is locked to UTF-8)
        if rng.random() < 0.5:
            return _c("mcs", rng.randint(0, 1))
        return raw_cmd(rng, True, "utf8", rng.randint(1, w + 1))
    r = rng.random() * 100
    if r < 14:
        return _c("txt", ps=[97 + (i + j) % 26 for j in range(rng.randint(2, w + 2))])
    if r < 20:
        return _c(rng.choice(["ind", "nel", "nel"]))
    if r < 30:
        return _c(rng.choice(["cha", "vpa"]), rng.randint(0, max(w, h) + 1))
    if r < 36:
        return _c(rng.choice(["cnl", "cpl"]), rng.randint(0, h))
    if r < 41:
        return _c("ech", rng.randint(0, w + 1))
    if r < 47:
        return _c("ht")
    if r < 51:
        return _c("hts")
    if r < 54:
        return _c("tbc", rng.choice([0, 0, 3]))
    if r < 73:
        return _c(rng.choice(["decom", "decom", "irm", "decawm", "lnm"]), rng.randint(0, 1))
    if r < 77:
        return _c("decsc")
    if r < 82:
        return _c("decrc")
    if r < 84:
        return _c("scosc")
    if r < 87:
        return _c("scorc")
    if r < 93:
        return _c("scs", rng.randint(0, 1), rng.choice([48, 48, 66])) if not g1d or rng.random() < 0.5 else _c(rng.choice(["so", "si"]))
    if r < 98:
        return _c("cpr")
    return _c(rng.choice(["dsr", "da"]))


def random_a_spec(rng, ext=0.0):
    w, h = rng.choice([2, 3, 3, 4, 4, 5]), rng.choice([1, 2, 3, 3, 4])
    if ext:
        w, h = rng.choice([1, 2, 3, 4, 5, 9, 10, 17]), rng.choice([1, 2, 3, 4, 4, 5])
    spec = {"w": w, "h": h, "steps": [], "driver": "random-ext" if ext else "random"}
    g1d = False    # G1 is invoked only after it has been designated (console default: graphics, VT100 default: ASCII)
    mcs = False    # ... and designated it is only while the 8-bit set is selected (the console ignores designations in UTF-8)
    for i in range(rng.randint(8, 18)):
        r = rng.random() * 100
        cnt = lambda: rng.randint(0, w + 1)  # noqa: E731
        if ext and rng.random() < ext:
            c = random_ext_cmd(rng, w, h, i, g1d)
            g1d = g1d or (c["t"] == "scs" and c["a"] == 1 and not mcs)
            mcs = bool(c["a"]) if c["t"] == "mcs" else mcs
        elif r < 26:
            c = {"t": "put", "a": rng.choice([97 + i % 26, 65 + i % 26, 233, 126]), "b": 0, "ps": []}
        elif r < 30:
            c = {"t": "cr", "a": 0, "b": 0, "ps": []}
        elif r < 37:
            c = {"t": "lf", "a": 0, "b": 0, "ps": []}
        elif r < 42:
            c = {"t": "ri", "a": 0, "b": 0, "ps": []}
        elif r < 45:
            c = {"t": "bs", "a": 0, "b": 0, "ps": []}
        elif r < 52:
            c = {"t": "cup", "a": rng.randint(0, w + 1), "b": rng.randint(0, h + 1), "ps": []}
        elif r < 60:
            c = {"t": rng.choice(["cuu", "cud", "cuf", "cub"]), "a": cnt(), "b": 0, "ps": []}
        elif r < 65:
            c = {"t": "el", "a": rng.randint(0, 2), "b": 0, "ps": []}
        elif r < 69:
            c = {"t": "ed", "a": rng.randint(0, 2), "b": 0, "ps": []}
        elif r < 76:
            c = {"t": rng.choice(["ich", "dch"]), "a": cnt(), "b": 0, "ps": []}
        elif r < 83:
            c = {"t": rng.choice(["il", "dl"]), "a": rng.randint(0, h + 1), "b": 0, "ps": []}
        elif r < 87:
            c = {"t": "stbm", "a": rng.randint(0, h), "b": rng.randint(0, h + 1), "ps": []}
        elif r < 93:
            c = {"t": "sgr", "a": 0, "b": 0, "ps": rng.choice(SGRS)}
        elif r < 96:
            w, h = rng.choice([1, 2, 3, 4, 5, 6]), rng.choice([1, 2, 3, 4])
            spec["steps"].append({"t": "resize", "w": w, "h": h})
            continue
        else:
            spec["steps"].append({"t": "view", "k": rng.randint(1, 2 * h + 2)})
            continue
        spec["steps"].append(make_step(c, rng))
    return spec


def _c(t, a=0, b=0, ps=()):
    return {"t": t, "a": a, "b": b, "ps": list(ps)}


# width-1 characters beyond ASCII; the Latin-1 ones can be shown in every encoding of the faithfulness part
LATIN1_CPS = list(range(0xA0, 0x100))
WIDER_CPS = [0x100, 0x153, 0x17F, 0x3B1, 0x3C9, 0x416, 0x5D0, 0x20AC, 0x2190, 0x2500, 0x253C, 0x2592, 0x2800, 0x28FF, 0x2603, 0xFB01]


def raw_cmd(rng, utf8_on, enc, k):
    """k characters beyond ASCII as the bytes that are on the wire in the main character set in force: UTF-8 sequences, or single
    bytes 0xA0..0xFF (0x80..0x9F are C1 controls on an 8-bit terminal)."""
    if utf8_on:
        cps = [rng.choice(LATIN1_CPS if enc.startswith("iso") or rng.random() < 0.6 else WIDER_CPS) for _ in range(k)]
        return _c("raw", k, 0, list("".join(map(chr, cps)).encode("utf-8")))
    return _c("raw", k, 0, [rng.randrange(0xA0, 0x100) for _ in range(k)])


def random_charset_spec(rng, singles=-1, n_random_refeeds=2):
    """The program selects the main character set in the middle of its output (urwid's encoding is not "utf8": the selection counts,
    or "utf8": it must not), characters beyond ASCII follow as UTF-8 sequences / single bytes, mixed with the plain commands around
    text; the stream is then fed again whole, byte by byte, cut at every single position and at random positions."""
    enc = rng.choice(["utf-8", "utf-8", "iso8859-1", "iso8859-1", "utf8"])
    w, h = rng.choice([2, 3, 4, 5, 7, 12]), rng.choice([1, 2, 3, 4])
    spec = {"w": w, "h": h, "enc": enc, "steps": [], "driver": "random-charset"}
    mcs = False
    for i in range(rng.randint(4, 9)):
        r = rng.random() * 100
        if r < 24:
            mcs = rng.random() < 0.6 if i else True
            c = _c("mcs", int(mcs))
        elif r < 58:
            c = raw_cmd(rng, mcs or enc == "utf8", enc, rng.randint(1, w + 1))
        elif r < 66:
            c = _c("txt", ps=[97 + (i + j) % 26 for j in range(rng.randint(1, w + 1))])
        elif r < 70:
            c = _c("put", 65 + i % 26)
        elif r < 78:
            c = _c(rng.choice(["cr", "lf", "nel", "bs", "ri"]))
        elif r < 83:
            c = _c("cup", rng.randint(0, w), rng.randint(0, h))
        elif r < 88:
            c = _c(rng.choice(["cuf", "cub", "ech", "ich", "dch"]), rng.randint(0, w))
        elif r < 91:
            c = _c("el", rng.randint(0, 2))
        elif r < 94:
            c = _c("sgr", ps=rng.choice([[31], [42], [1], [0], [4, 35], [38, 5, 100], []]))
        elif r < 96:
            c = _c(rng.choice(["decsc", "decrc", "cpr", "irm", "decawm"]), rng.randint(0, 1))
        elif r < 98:
            w, h = rng.choice([1, 2, 3, 5, 6]), rng.choice([1, 2, 3])
            spec["steps"].append({"t": "resize", "w": w, "h": h})
            continue
        else:
            spec["steps"].append({"t": "view", "k": rng.randint(1, h + 1)})
            continue
        spec["steps"].append(make_step(c, rng))
    spec["refeeds"] = refeed_policies(spec["steps"], rng, singles, n_random_refeeds)
    return spec


def directed_charset_specs(rng):
    """The plain cases: select UTF-8, a character, back to the 8-bit set, the same bytes again - in every encoding; a switch that
    changes nothing; a sequence cut by every chunking."""
    out = []
    for enc in ("utf-8", "iso8859-1", "utf8"):
        lock = enc == "utf8"
        for w, h, cmds in [
            (12, 2, [_c("mcs", 1), _c("raw", 1, 0, [0xC3, 0xA9]), _c("put", 90), _c("mcs", 0), _c("raw", 1 if lock else 2, 0, [0xC3, 0xA9]), _c("put", 33)]),
            (4, 3, [_c("raw", 1 if lock else 2, 0, [0xC3, 0xBF]), _c("mcs", 1), _c("raw", 3, 0, [0xC3, 0x9B, 0xC2, 0xA0, 0xC3, 0xBF]), _c("cpr"), _c("mcs", 1),
                    _c("raw", 2, 0, [0xC3, 0xA0, 0xC3, 0xA1]), _c("mcs", 0), _c("txt", ps=[97, 98, 99])]),
            (3, 2, [_c("mcs", 0), _c("mcs", 1), _c("mcs", 0), _c("raw", 1 if lock else 2, 0, [0xC2, 0xB5]), _c("nel"), _c("mcs", 1), _c("raw", 2, 0, [0xC2, 0xB5, 0xC3, 0x9F])]),
        ]:
            steps = [make_step(c, rng) for c in cmds]
            spec = {"w": w, "h": h, "enc": enc, "steps": steps, "driver": "directed-charset"}
            spec["refeeds"] = refeed_policies(steps, rng, -1, 2)
            out.append(spec)
    return out


def directed_a_specs(rng):
    """Hand-written sequences: the situations of DESIGN.md Appendix B / findings/C15.json and the plain cases next to them."""
    txt = lambda s: [_c("put", ord(ch)) for ch in s]  # noqa: E731
    nl = [_c("cr"), _c("lf")]
    fill3 = txt("aaa") + nl + txt("bbb") + nl + txt("ccc")
    seqs = [
        (4, 3, txt("abcd") + [_c("cuf", 1)] + txt("e")),                                  # pending wrap, then a cursor move
        (4, 3, txt("abcd") + txt("e")),                                                   # plain autowrap
        (4, 3, txt("abcd") + nl + txt("efgh") + nl + txt("ijkl") + nl + txt("mn")),       # scrolling into the scrollback
        (3, 3, fill3 + [_c("cup", 0, 0), _c("il", 1)]),
        (3, 3, fill3 + [_c("cup", 0, 0), _c("dl", 1)]),
        (3, 3, fill3 + [_c("cup", 1, 1), _c("ed", 1)]),
        (3, 3, fill3 + [_c("cup", 1, 1), _c("ed", 0)]),
        (3, 3, fill3 + [_c("cup", 1, 1), _c("el", 1), _c("cup", 1, 2), _c("el", 0), _c("cup", 1, 0), _c("el", 2)]),
        (3, 3, fill3 + [_c("cup", 0, 1), _c("ich", 1), _c("cup", 0, 2), _c("dch", 2)]),
        (3, 3, fill3 + [_c("stbm", 1, 2), _c("cup", 0, 1), _c("lf"), _c("lf"), _c("cup", 0, 0), _c("ri"), _c("ri")]),
        (3, 3, fill3 + [_c("stbm", 1, 2), _c("cup", 0, 2)] + txt("xyz") + txt("w")),      # autowrap below the region
        (3, 3, fill3 + [_c("stbm", 1, 2), _c("cup", 0, 2), _c("dl", 1)]),
        (3, 3, fill3 + [_c("stbm", 2, 3), _c("cup", 0, 0), _c("il", 1), _c("dl", 1)]),    # above the region
        (3, 3, [_c("sgr", ps=[31])] + txt("a") + [_c("sgr", ps=[48, 2, 1, 2, 3])] + txt("b")),
        (3, 3, [_c("sgr", ps=[91])] + txt("a") + [_c("sgr", ps=[44])] + txt("b")),
        (3, 3, [_c("sgr", ps=[31])] + txt("a") + [_c("sgr", ps=[48, 5, 0])] + txt("b")),
        (3, 3, [_c("sgr", ps=[1, 31])] + txt("a") + [_c("sgr", ps=[32])] + txt("b") + [_c("sgr", ps=[38, 5, 100, 48, 5, 200])] + txt("c")
               + [_c("sgr", ps=[0])] + txt("d") + [_c("sgr", ps=[42]), _c("el", 0), _c("ed", 2)]),
        (1, 2, txt("~IJ")),
        # next to the listed subset: text runs, tab stops, modes, save / restore, charsets, queries (plain cases)
        (4, 4, [_c("txt", ps=[65 + i for i in range(16)]), _c("stbm", 1, 2), _c("cup", 0, 2), _c("txt", ps=[97 + i for i in range(6)]), _c("cpr")]),
        (4, 4, [_c("txt", ps=[65 + i for i in range(16)]), _c("stbm", 2, 3), _c("decom", 1), _c("cup", 1, 0), _c("cpr"), _c("cup", 0, 9), _c("cpr"),
                _c("cuu", 9), _c("vpa", 2), _c("txt", ps=[97, 98, 99, 100, 101, 102]), _c("decom", 0), _c("cpr")]),
        (20, 2, txt("ab") + [_c("ht")] + txt("c") + [_c("ht"), _c("ht"), _c("ht")] + txt("d") + [_c("cup", 3, 1), _c("hts"), _c("cr"), _c("ht"), _c("cpr"),
                                                                                                 _c("tbc", 0), _c("cr"), _c("ht"), _c("tbc", 3), _c("cr"), _c("ht")]
                + txt("e") + [_c("cr"), _c("ht")]),                                               # the last tab starts on a glyph
        (5, 2, txt("abcde") + [_c("cup", 1, 0), _c("irm", 1)] + txt("XY") + [_c("irm", 0)] + txt("Z")),
        (4, 2, [_c("decawm", 0)] + txt("abcdef") + [_c("decawm", 1)] + txt("gh")),
        (4, 3, [_c("lnm", 1)] + txt("ab") + [_c("lf")] + txt("c") + [_c("ind")] + txt("d") + [_c("lnm", 0), _c("lf")] + txt("e")),
        (4, 3, [_c("sgr", ps=[31]), _c("cup", 2, 1), _c("decsc"), _c("sgr", ps=[0, 42]), _c("cup", 0, 0)] + txt("a") + [_c("decrc")] + txt("b")
               + [_c("scosc"), _c("cup", 0, 2), _c("scorc")] + txt("c")),
        (6, 2, [_c("scs", 0, 48)] + txt("lqk") + [_c("scs", 0, 66)] + txt("q") + [_c("scs", 1, 48), _c("so")] + txt("x") + [_c("si")] + txt("x")),
        (4, 2, [_c("dsr"), _c("da"), _c("cpr")] + txt("abcd") + [_c("cpr")] + txt("e") + [_c("cpr")]),
        (6, 2, [_c("decsc"), _c("scs", 0, 48), _c("decrc")] + txt("q") + [_c("si")] + txt("q")),   # a designation between save and restore
        (4, 4, [_c("txt", ps=[65 + i for i in range(16)]), _c("stbm", 2, 3), _c("decom", 1), _c("ed", 0)]),
        (1, 3, txt("a") + [_c("decom", 1)] + txt("b")),
        (4, 3, [_c("cup", 3, 0), _c("scosc"), _c("cup", 0, 1)] + txt("abcd") + [_c("scorc")] + txt("e") + [_c("cup", 3, 2), _c("decsc"), _c("cup", 0, 1)]
               + txt("fghi") + [_c("decrc")] + txt("j")),                                        # restoring the cursor while a wrap is pending
        (9, 2, txt("abcdefghi") + [_c("ht")] + txt("j")),                                         # a tab while a wrap is pending
    ]
    out = []
    for w, h, cmds in seqs:
        steps = [make_step(c, rng) for c in cmds]
        steps.append({"t": "view", "k": 1})
        out.append({"w": w, "h": h, "steps": steps, "driver": "directed"})
    return out


def scrollback_view_specs(rng, heights):
    """n lines scrolled off the top of an h-line screen (less than one, one to two, more than two screens), then the view scrolled
    back by every k from one line to beyond the top of the scrollback."""
    out = []
    for h in heights:
        for n in sorted({1, h, h + 1, 2 * h - 1, 2 * h, 2 * h + 1, 3 * h}):
            cmds = []
            for i in range(n + h):
                cmds += [_c("txt", ps=[65 + i % 26, 97 + i % 26])] + ([_c("nel")] if i < n + h - 1 else [])
            steps = [make_step(c, rng) for c in cmds] + [{"t": "view", "k": k} for k in range(1, n + 3)]
            out.append({"w": 3, "h": h, "steps": steps, "driver": "scrollback-views"})
    return out


def resize_lines_specs(rng, n):
    """"Lines scrolled off the top are kept, in order" x "any interleaving of resizes": numbered lines, more than the screen holds, then
    resizes of every kind (taller by one / by several rows at once, shorter, wider, narrower), more lines and scrolled-back views in
    between; every resize is judged against what scrollback and screen held before it."""
    out = []
    for i in range(n):
        w, h = rng.choice([2, 3, 4, 6]), rng.choice([1, 2, 3, 4])
        w0, h0 = w, h
        steps = []
        ln = 0

        def lines(k, first=False):
            nonlocal ln
            for j in range(k):
                if not (first and j == 0):
                    steps.append(make_step(_c("nel"), rng))
                steps.append(make_step(_c("txt", ps=[65 + ln % 26] + [48 + (ln // 26) % 10, 97 + ln % 26][:rng.randint(0, 2)]), rng))
                ln += 1

        lines(h + rng.randint(2, 5), True)
        for _ in range(rng.randint(2, 5)):
            r = rng.random()
            if r < 0.45:
                h2 = h + rng.randint(2, 4)        # several rows taller at once
            elif r < 0.6:
                h2 = h + 1
            elif r < 0.85:
                h2 = rng.randint(1, max(1, h - 1))
            else:
                h2 = h
            w = rng.choice([w, w, w, rng.choice([1, 2, 3, 5, 7])])
            h = h2
            steps.append({"t": "resize", "w": w, "h": h})
            r = rng.random()
            if r < 0.35:
                steps.append({"t": "view", "k": rng.randint(1, h + 3)})
            elif r < 0.7:
                steps.append(make_step(_c("cup", 0, h - 1), rng))
                lines(rng.randint(1, 3))
        steps.append({"t": "view", "k": rng.randint(1, h + 2)})
        out.append({"w": w0, "h": h0, "steps": steps, "driver": "resize-lines"})
    return out


# SGR parameter lists of the split-rendition family: one attribute or one colour per sequence
SGR_FLAGS = [[1], [1], [4], [7], [5], [24], [27], [25]]


def sgr_split_specs(rng, n):
    """The rendition built up over several SGR sequences (state carried from one CSI m to the next): bold with the eight basic, the
    eight bright and the palette colours 0..15 selected by index (38;5;n) or, in a family of their own, 24-bit colours with small
    components; a glyph after each, so pen and cell are compared after every sequence."""
    out = []
    for true, seq in [(True, [[1], [38, 2, 0, 0, 12], [4], [48, 2, 0, 0, 9], [7]]), (True, [[38, 2, 0, 0, 8], [1], [5], [24]]),
                      (False, [[1], [38, 5, 12], [4], [48, 5, 9], [7]]), (False, [[38, 5, 15], [1], [44], [27]])]:     # the plain cases
        steps = []
        for j, ps in enumerate(seq):
            steps += [make_step(_c("sgr", ps=ps), rng), make_step(_c("put", 97 + j), rng)]
        out.append({"w": 10, "h": 2, "steps": steps, "driver": "sgr-split-true" if true else "sgr-split"})
    for i in range(n):
        true = i % 3 == 2      # 24-bit colours are not mixed with palette colours (findings/C15.json: C15-sgr-truecolour-palette-mix)
        steps = []
        for j in range(rng.randint(4, 9)):
            r = rng.random()
            if j == 0 and r < 0.5:
                ps = [1]
            elif r < 0.4:
                ps = rng.choice(SGR_FLAGS)
            elif true:
                half = rng.choice([38, 38, 48])
                ps = [half, 2, rng.choice([0, 0, 0, 1, 200]), rng.choice([0, 0, 0, 128]), rng.randint(0, 17)]
            elif r < 0.75:
                ps = [rng.choice([38, 38, 48]), 5, rng.choice([rng.randint(0, 15), rng.randint(0, 15), rng.randint(16, 255)])]
            elif r < 0.9:
                ps = [rng.choice([30, 90]) + rng.randint(0, 7)] if rng.random() < 0.6 else [rng.choice([40, 100]) + rng.randint(0, 7)]
            elif r < 0.95:
                ps = rng.choice([[39], [49], [0], []])
            else:
                ps = [1, 38, 5, rng.randint(8, 15)]
            steps.append(make_step(_c("sgr", ps=ps), rng))
            steps.append(make_step(_c("put", 97 + j), rng))
        out.append({"w": 10, "h": 2, "steps": steps, "driver": "sgr-split-true" if true else "sgr-split"})
    return out


INTERRUPTS = [lambda rng, w, h: _c("put", rng.choice([120, 121, 65])), lambda rng, w, h: _c("txt", ps=[120, 121][:rng.randint(1, 2)]),
              lambda rng, w, h: _c("cr"), lambda rng, w, h: _c("lf"), lambda rng, w, h: _c("nel"), lambda rng, w, h: _c("bs"),
              lambda rng, w, h: _c("cup", rng.randint(0, w - 1), rng.randint(0, h - 1)), lambda rng, w, h: _c("cuf", 1),
              lambda rng, w, h: _c("sgr", ps=rng.choice([[31], [4], [0]])), lambda rng, w, h: _c("el", 0), lambda rng, w, h: _c("cpr"),
              lambda rng, w, h: _c("ht"), lambda rng, w, h: _c("decsc")]


def utf8_interrupted_specs(rng, n, singles=-1):
    """Truncated and invalid UTF-8 next to the commands: a sequence that is cut short (its first byte and fewer continuation bytes than
    it announces), then ordinary output (text, C0 controls, escape sequences), then a continuation byte that continues nothing -
    among well-formed characters; the terminal decodes UTF-8 by configuration (urwid "utf8") or by the program's selection (ESC % G).
    Every stream is fed again under every single cut."""
    out = []
    for i in range(n):
        enc = rng.choice(["utf8", "utf8", "utf-8", "iso8859-1"])
        w, h = rng.choice([4, 6, 12]), rng.choice([1, 2, 3])
        cmds = [] if enc == "utf8" else [_c("mcs", 1)]
        for _ in range(rng.randint(1, 3)):
            if rng.random() < 0.6:
                cmds.append(rng.choice(INTERRUPTS[:2])(rng, w, h))
            if rng.random() < 0.4:
                cmds.append(raw_cmd(rng, True, enc, rng.randint(1, 2)))
            whole = chr(rng.choice(LATIN1_CPS + ([] if enc.startswith("iso") else WIDER_CPS + [0x1F600, 0x10348]))).encode("utf-8")
            if rng.random() < 0.8:      # a sequence cut short by what follows
                cmds.append(_c("mal", 0, 0, list(whole[:rng.randint(1, len(whole) - 1)])))
                for _ in range(rng.randint(1, 3)):
                    cmds.append(rng.choice(INTERRUPTS)(rng, w, h))
            if rng.random() < 0.85:     # continuation bytes that continue nothing (0x80..0x9F are left to part (b): C1 controls on 8-bit terminals)
                tail = [whole[-1]] if whole[-1] >= 0xA0 and rng.random() < 0.5 else [rng.randrange(0xA0, 0xC0)]
                cmds.append(_c("mal", len(tail), 0, tail + ([rng.randrange(0xA0, 0xC0)] if rng.random() < 0.2 else [])))
                cmds.append(rng.choice(INTERRUPTS[:2])(rng, w, h))
        steps = [make_step(c, rng) for c in cmds]
        spec = {"w": w, "h": h, "enc": enc, "steps": steps, "driver": "utf8-interrupted"}
        spec["refeeds"] = refeed_policies(steps, rng, singles, 2)
        out.append(spec)
    return out


def directed_b_specs():
    out = _directed_b_specs()
    for i, sp in enumerate(out):
        sp["rechunk"] = 1000 + i
    return out


def _directed_b_specs():
    f = lambda b, nq=-1, qk=0: {"t": "feed", "hex": b.hex(), "nq": nq, "qk": qk}  # noqa: E731
    out = []
    for enc, data in [("utf-8", b"\x1b]0;\xff\x07"), ("iso8859-1", b"\x1b]2;caf\xe9\x07"), ("utf8", b"\x1b]0;a\x80b\x1b\\"), ("utf8", "\x1b]0;tïtle\x07".encode())]:
        out.append({"enc": enc, "w": 4, "h": 3, "focus": False, "ops": [f(data), f(b"\x07\x18\x1b[5n", 1, 5)], "hangy": False})
    for enc in ("euc-jp", "iso8859-1"):   # the program selects UTF-8 itself (ESC % G); the title is valid UTF-8
        out.append({"enc": enc, "w": 4, "h": 3, "focus": False, "ops": [f(b"\x1b%G\x1b]2;t\xc3\xaftle\x07"), f(b"ok")], "hangy": False})
    for fin in b"LM@P":
        out.append({"enc": "utf8", "w": 4, "h": 3, "focus": False, "ops": [f(b"ab\x1b[99"),f(b"9999999" + bytes([fin])), f(b"x")], "hangy": True})
        out.append({"enc": "utf8", "w": 4, "h": 3, "focus": False, "ops": [f(b"ab\x1b[100000" + bytes([fin])), f(b"\x07\x18\x1b[6n", 1, 6)], "hangy": False})
    for data in [b"\x1b[48;2;300;1;1m", b"\x1b[38;5;256mX", b"\x1b[38;2;255;255;255;48;2;0;0;0mX", b"\x1b[38;5;99999999999mX"]:
        out.append({"enc": "utf8", "w": 4, "h": 3, "focus": False, "ops": [f(data), f(b"y")], "hangy": False})
    for data in [b"\x1b[1;99H", b"\x1b[99D", b"\x1b[99;1H", b"\x1b[3;4H\x1b[s"]:
        out.append({"enc": "utf8", "w": 4, "h": 3, "focus": True, "ops": [f(data), {"t": "rsz", "w": 2, "h": 2}, f(b"\x1b[u"), f(b"\x1b[6n", 1, 6)], "hangy": False})
    for w, h in [(1, 1), (2, 1), (1, 3), (80, 24)]:
        out.append({"enc": "utf8", "w": w, "h": h, "focus": False,
                    "ops": [f("a字b\r\n\tc\x1b[2;2r\x1b[?6h\x1b[5;5Hd\x1bM\x1bM\x1b[L\x1b[M\x1b[@\x1b[P\x1b#8\x1b[?5h".encode()), f(b"\x1b[6n", 1, 6),
                            {"t": "rsz", "w": 1, "h": 1}, f(b"xyz\n\x1bM\x1b[6n", 1, 6), {"t": "rsz", "w": w + 3, "h": h + 2}, f(b"\x1b[5n", 1, 5)], "hangy": False})
    return out


LAWS = """INVARIANT Shape
INVARIANT ExtShape
INVARIANT SelfAccepted
INVARIANT RepliesWellFormed
PROPERTY ScrollbackGrowsInOrder
PROPERTY ScrollbackFedFromTheTop
PROPERTY RegionScrollIsLocal
PROPERTY WrapOutsideRegion
PROPERTY TextBelowRegion
PROPERTY QueriesChangeNothing
PROPERTY CharsetSwitchShowsNothing
PROPERTY RawIsTextOfItsCharacters
CHECK_DEADLOCK FALSE
"""
SIM_CFG = """CONSTANTS W = {w} H = {h} Depth = {d} Clean = {clean} ExtPct = {ext} RegDepth = 1 Lock = {lock}
SPECIFICATION SimSpec
INVARIANT Shape
INVARIANT ExtShape
CHECK_DEADLOCK FALSE
"""
MC_CFG = """CONSTANTS W = {w} H = {h} Depth = {d} Clean = FALSE ExtPct = {ext} RegDepth = 1 Lock = {lock}
SPECIFICATION Spec
INVARIANT DialectWellFormed
INVARIANT ViewLaw
""" + LAWS
REG_CFG = """CONSTANTS W = {w} H = {h} Depth = 0 Clean = FALSE ExtPct = 0 RegDepth = {rd} Lock = TRUE
SPECIFICATION RegSpec
""" + LAWS
REFUTE_CFG = """CONSTANTS W = {w} H = {h} Depth = 3 Clean = FALSE ExtPct = 0 RegDepth = 1 Lock = FALSE
SPECIFICATION Spec
INVARIANT {inv}
CHECK_DEADLOCK FALSE
"""
# (wrong variant the comparator must refute, W, H)
REFUTE = [("ExclusiveEraseIsAccepted", 3, 2), ("MarginBoundWrapIsAccepted", 2, 4), ("FrozenDecoderIsAccepted", 4, 2)]


def sim_behaviours(chk, w, h, depth, clean, ext, lock, num, jobs):
    return tlc.simulate("VTerm", SIM_CFG.format(w=w, h=h, d=depth, clean="TRUE" if clean else "FALSE", ext=ext, lock="TRUE" if lock else "FALSE"),
                        num=num, depth=depth + 1, seed=chk.seed + (7 if clean else 0) + 13 * w + 101 * h + 3 * ext + (0 if lock else 5), jobs=jobs,
                        timeout=900)


def sim_specs(plan, behs, rng):
    w, h, depth, clean, ext, lock = plan
    out = []
    for bi, b in enumerate(behs):
        steps = []
        for st in b[1:]:
            c = st["last"]
            steps.append(make_step({"t": c["t"], "a": c["a"], "b": c["b"], "ps": list(c["ps"])}, rng))
        if rng.random() < 0.5:
            steps.append({"t": "view", "k": rng.randint(1, 2 * h + 2)})
        spec = {"w": w, "h": h, "steps": steps, "driver": ("tlc-simulate-clean" if clean else "tlc-simulate") + ("-ext" if ext else "")
                + ("" if lock else "-charset"), "enc": "utf8" if lock else UNLOCKED_ENCS[bi % len(UNLOCKED_ENCS)]}
        spec["refeeds"] = refeed_policies(steps, rng, 8, 1) if not lock else light_refeeds(steps, rng)
        out.append((spec, b))
    return out


def region_family(w, h, rd, workers):
    """Every history of VTerm.tla's RegSpec (screen filled, mode prelude, every scrolling region, cursor on every row at both
    edges, every command of RegActs, rd - 1 further text runs), model-checked against the laws of the model on the way."""
    states, r = tlc.dump_states("VTerm", REG_CFG.format(w=w, h=h, rd=rd), workers=workers, timeout=3000)
    leaves = [st for st in states if st["n"] == 4 + rd]
    leaves.sort(key=lambda st: json.dumps(st["hist"]))     # the order of a multi-worker dump is not fixed
    return leaves, r


def region_specs(w, h, leaves, rng):
    out = []
    for st in leaves:
        steps = [make_step({"t": c["t"], "a": c["a"], "b": c["b"], "ps": list(c["ps"])}, rng) for c in st["hist"][1:]]
        out.append(({"w": w, "h": h, "steps": steps, "driver": "tlc-region-family", "refeeds": [{"mode": "whole"}]}, st))
    return out


# ---- verdict handling ---------------------------------------------------------------------------------------
def _sig_a(tr, l, why):
    e = tr["ev"][l - 1]
    clause, _, detail = why.partition(".")
    as_coded = detail.endswith("as_coded")     # TLC: the observation is exactly what a transcribed known defect computes
    detail = detail[:-len("as_coded")].rstrip(".") if as_coded else detail
    sig = {"part": "faithfulness", "op": e["t"], "detail": detail, "as_coded": as_coded, "exc": e["exc"]}
    if e["t"] == "refeed":
        sig["chunking"] = e["policy"]["mode"]
        sig["enc"] = tr["spec"].get("enc", "utf8")
    if e["t"] in ("el", "ed"):
        sig["mode"] = e["a"]
    sig["width_1"] = e["w"] == 1
    for k in ("d_stale_pending", "d_stale_by", "d_pending_in", "d_row_vs_region", "d_cx_gt0", "d_om", "d_true_palette_mix", "d_bright_carried",
              "d_sgr_trailing_zero_component", "d_restored_after_scs", "d_charset_stale", "d_switch_and_high_bytes_in_one_feed"):
        sig[k[2:]] = e[k]
    return clause, sig


def _sig_b(tr, l, why):
    e = tr["ev"][l - 1]
    sp = tr["spec"]
    sig = {"part": "robustness", "op": e["t"], "exc": e["exc"], "focus": sp["focus"], "enc": sp["enc"]}
    for k in e:
        if k.startswith("d_") and k != "d_cols":
            sig[k[2:]] = e[k]
    clause, _, detail = why.partition(".")
    if detail:
        sig["detail"] = detail
    if e["t"] == "rechunk":
        sig["chunking"] = e["policy"]["mode"]
    return clause, sig


def _handle(chk, traces, res, label):
    for ti, l, why in res.rejects:
        tr = traces[ti]
        clause, sig = (_sig_a if tr["kind"] == "a" else _sig_b)(tr, l, why)
        e = {k: v for k, v in tr["ev"][l - 1].items() if k not in ("g", "sb", "g0", "sb0")}
        chk.reject(f"C15.{clause}", sig, {"driver": label, "kind": tr["kind"], "spec": tr["spec"], "rejected_event_index": l,
                                          "why": why, "observed": e})


_EV_KEYS = ("t", "a", "b", "ps", "exc", "w", "h", "k", "rot", "pend", "g", "cur", "sb", "pen", "reg", "tabs", "md", "cs", "reps", "view", "psb", "pg",     # (a)
            "hang", "nq", "qk", "lens", "ccur",                                                                                      # (b)
            "st", "g0", "sb0", "cur0", "ccur0", "reg0", "st0", "reps0")                                                              # (b) rechunk


def _validate(chk, name, traces, strict, jobs, batch=6000):
    # TLC reads the whole JSON: only what VTermTrace.tla looks at is written (no replay spec, no diagnostics)
    slim = [{"kind": tr["kind"], "w": tr["w"], "h": tr["h"], "lock": tr["lock"], "ev": [{k: e[k] for k in _EV_KEYS if k in e} for e in tr["ev"]]} for tr in traces]
    return tlc.validate("VTermTrace", slim, env={"C15_STRICT": "1" if strict else "0"}, jobs=jobs, batch_events=batch, timeout=3000)


REGION_OPS = ("put", "txt", "lf", "ind", "nel", "ri", "il", "dl", "cuu", "cud", "cnl", "cpl", "vpa", "cup", "ed", "cpr")


def run(chk):
    import concurrent.futures as cf
    import random

    quick = chk.tier == "quick"
    rng = random.Random(chk.seed * 7919 + 1)     # (a): encodings, chunkings, random sequences
    rng_b = random.Random(chk.seed * 7919 + 2)   # (b): streams
    jobs = 4 if quick else 8
    # ---- (b) robustness: the streams run in forked workers while TLC works on the model and on (a) -------------
    gen = BGen(rng_b, 6 if quick else 60)
    b_specs = directed_b_specs() + [gen.trace_spec() for _ in range(1500 if quick else 50000)]
    for i, sp in enumerate(b_specs):       # quick tier: the two extreme chunkings for every stream, a random one for every fourth
        sp["rechunk_cuts"] = (i % 4 == 0) if quick else 2
    hangy = [s for s in b_specs if s["hangy"]]
    calm = [s for s in b_specs if not s["hangy"]]
    pool = mp.get_context("fork").Pool(6)        # forked before any thread exists in this process
    fut_hangy = pool.map_async(run_b, hangy, chunksize=1)
    fut_calm = pool.map_async(run_b, calm, chunksize=64)
    try:
        # ---- TLC on the model: laws of the reference under all bounded command sequences, refutations, and the two generators
        #      (random behaviours, exhaustive region family); the runs overlap (JVM start dominates each of them) ------------------
        n_sim = 100 if quick else 800
        # (W, H, depth, clean profile, percent of commands outside the listed subset, terminal locked to UTF-8)
        plan = [(4, 3, 16, True, 0, True), (3, 3, 14, False, 0, True), (4, 4, 18, True, 40, True), (9, 2, 14, True, 50, True),
                (5, 3, 12, True, 70, False)]
        if not quick:
            plan += [(3, 4, 20, True, 0, True), (2, 2, 12, False, 0, True), (5, 2, 16, True, 0, True), (3, 5, 24, True, 30, True),
                     (17, 3, 20, True, 50, True), (1, 3, 12, True, 40, True), (4, 4, 16, False, 30, True), (3, 2, 16, True, 80, False),
                     (9, 4, 20, False, 60, False), (1, 2, 10, True, 70, False)]
        # the extended alphabet is explored on the terminal whose main character set the program selects (Lock = FALSE)
        mcs = [("MC_VTerm_3x3", dict(w=3, h=3, d=3 if quick else 4, ext=0, lock="TRUE")),
               ("MC_VTerm_ext_3x3", dict(w=3, h=3, d=2 if quick else 3, ext=1, lock="FALSE"))]
        if not quick:
            mcs += [("MC_VTerm_4x3", dict(w=4, h=3, d=3, ext=0, lock="TRUE")), ("MC_VTerm_2x4", dict(w=2, h=4, d=4, ext=0, lock="TRUE")),
                    ("MC_VTerm_ext_locked_3x2", dict(w=3, h=2, d=2, ext=1, lock="TRUE"))]
        regs = [(3, 4, 2)] if quick else [(3, 4, 2), (2, 5, 3), (4, 5, 2), (3, 3, 3), (2, 2, 3)]
        with cf.ThreadPoolExecutor(3) as ex:
            f_reg = [ex.submit(region_family, w, h, rd, 4) for w, h, rd in regs]
            f_mc = [ex.submit(tlc.mc, "VTerm", MC_CFG.format(**kw), workers=4 if quick else 6, timeout=3000) for _, kw in mcs]
            f_sim = [ex.submit(sim_behaviours, chk, *p, n_sim, 1 if quick else 6) for p in plan]
            f_ref = [ex.submit(tlc.mc, "VTerm", REFUTE_CFG.format(w=w, h=h, inv=inv), workers=2, timeout=600) for inv, w, h in REFUTE]
            for (name, _), f in zip(mcs, f_mc):
                r = f.result()
                chk.add_mc(name, r)
                if not r.ok:
                    chk.reject("C15.model." + str(r.violated), {"model": "VTerm", "inv": r.violated}, {"tlc_trace": r.trace[-6:]})
            for (inv, _, _), f in zip(REFUTE, f_ref):
                r = f.result()
                chk.cov["comparator_refutes_" + inv] = (r.violated == inv)
                chk.cov["tlc_runs"].append({"run": "MC_VTerm_wrong_variant_must_fail:" + inv, "violated": r.violated, "generated": r.generated,
                                            "wall_s": round(r.wall_s, 1)})
                if r.violated != inv:
                    chk.vacuity.append("refutation." + inv)
            raw = [f.result() for f in f_sim]
            reg_raw = [f.result() for f in f_reg]

        # ---- (a) faithfulness ---------------------------------------------------------------------------------
        sims = []                                # the encodings are drawn here, in plan order: deterministic
        for p, behs in zip(plan, raw):
            sims += sim_specs(p, behs, rng)
        n_region = 0
        for (w, h, rd), (leaves, r) in zip(regs, reg_raw):
            chk.add_mc(f"MC_VTerm_region_family_{w}x{h}_depth{rd}", r)
            sims += region_specs(w, h, leaves, rng)
            n_region += len(leaves)
        a_specs = [s for s, _ in sims]
        n_rand = 450 if quick else 8000
        n_rand_ext = 250 if quick else 4000
        n_charset = 90 if quick else 4000
        a_specs += [random_a_spec(rng) for _ in range(n_rand)]
        a_specs += [random_a_spec(rng, ext=0.45) for _ in range(n_rand_ext)]
        a_specs += directed_a_specs(rng)
        a_specs += scrollback_view_specs(rng, (1, 2, 3) if quick else (1, 2, 3, 4, 5, 6))
        n_resize_lines = 60 if quick else 3000
        n_sgr_split = 90 if quick else 4000
        n_utf8_interrupted = 70 if quick else 3000
        a_specs += resize_lines_specs(rng, n_resize_lines)      # the lines kept across resizes of every kind
        a_specs += sgr_split_specs(rng, n_sgr_split)            # the rendition carried from one SGR sequence to the next
        for sp in a_specs:          # every stream once more in one feed and under one other chunking
            if "refeeds" not in sp:
                sp["refeeds"] = light_refeeds(sp["steps"], rng)
        # the main character set selected in mid-stream: cut at every single position
        a_specs += [random_charset_spec(rng, -1, 2 if quick else 5) for _ in range(n_charset)]
        a_specs += directed_charset_specs(rng)
        a_specs += utf8_interrupted_specs(rng, n_utf8_interrupted, -1)      # truncated / stray UTF-8 between ordinary output, every cut
        # in the forked workers: a collection of this process's large heap in the middle of a feed would trip the CPU-time watchdog
        a_traces = pool.map(run_a, a_specs, chunksize=32)
        # spec -> code: how far each TLC behaviour's states agree with the emulator (informational)
        agree = total = 0
        for (s, b), tr in zip(sims, a_traces):
            if isinstance(b, dict):              # region family: the final state of the history
                total += 1
                e = tr["ev"][-1]
                agree += len(tr["ev"]) == len(s["steps"]) and [b["t"]["cx"], b["t"]["cy"]] == e["cur"] and \
                    [[c["c"] for c in row] for row in b["t"]["grid"]] == [[c[0] for c in row] for row in e["g"]]
                continue
            for st, e in zip(b[1:], tr["ev"]):
                total += 1
                if e["t"] in CMDS and [st["t"]["cx"], st["t"]["cy"]] == e["cur"] and \
                        [[c["c"] for c in row] for row in st["t"]["grid"]] == [[c[0] for c in row] for row in e["g"]]:
                    agree += 1
                else:
                    break
        chk.cov["spec_to_code_steps"] = total
        chk.cov["spec_to_code_steps_agreeing_text_and_cursor"] = agree
        # strict pass (xterm only, flags compared) over a sample of every driver: what only this pass rejects is a DIVERGENCE
        by_driver = {}
        for i, tr in enumerate(a_traces):
            by_driver.setdefault(tr["driver"], []).append(i)
        sub_idx = []
        for drv, idx in by_driver.items():
            k = (30 if quick else 600) if drv != "tlc-region-family" else (80 if quick else 1500)
            sub_idx += idx[:: max(1, len(idx) // k)][:k]
        # (the re-fed streams come after the commands of a trace and are left to the tolerant pass)
        sub = [{**a_traces[i], "ev": [e for e in a_traces[i]["ev"] if e["t"] != "refeed"]} for i in sub_idx]
        b_traces = fut_hangy.get(timeout=3000) + fut_calm.get(timeout=3000)
    finally:
        pool.terminate()
        pool.join()

    def balanced(traces, j):      # as many batches as validation jobs
        return max(2000, (sum(len(t["ev"]) + 1 for t in traces) + j - 1) // j)

    ja = 3 if quick else 6        # the tolerant pass of (a); the strict pass and (b) share the remaining job(s)
    jo = jobs - ja
    with cf.ThreadPoolExecutor(2) as ex:
        f_a = ex.submit(_validate, chk, "a", a_traces, False, ja, balanced(a_traces, ja))
        f_o = ex.submit(lambda: (_validate(chk, "a-strict", sub, True, jo, balanced(sub, jo)), _validate(chk, "b", b_traces, False, jo, balanced(b_traces, jo))))
        res = f_a.result()
        sres, bres = f_o.result()
    chk.add_tv("TV_VTermTrace_faithfulness", res)
    _handle(chk, a_traces, res, "c15-a")
    rejected = {ti for ti, _, _ in res.rejects}
    chk.cov["tlc_runs"].append({"run": "TV_VTermTrace_strict_xterm(divergence only)", "traces": sres.traces, "events": sres.events,
                                "rejected": len(sres.rejects), "wall_s": round(sres.wall_s, 1)})
    for ti, l, why in sres.rejects:
        if sub_idx[ti] in rejected:       # rejected by the tolerant pass too: reported there
            continue
        e = sub[ti]["ev"][l - 1]
        why = why[:-len(".as_coded")] if why.endswith(".as_coded") else why
        what = {"cursor_equals_reference": "cursor", "screen_equals_reference.colour": "colour_or_flags", "screen_equals_reference.text": "text",
                "screen_equals_reference.region": "region", "screen_equals_reference.pen": "pen_flags",
                "replies_well_formed": "reply"}.get(why, why)
        chk.divergence(f"xterm_strict.{what}.after_{e['t']}", {"cmd": [e["t"], e["a"], e["b"], e["ps"]], "row_vs_region": e["d_row_vs_region"],
                                                                 "origin_mode": e["d_om"]})
    chk.add_tv("TV_VTermTrace_robustness", bres)
    _handle(chk, b_traces, bres, "c15-b")
    for tr in b_traces:
        for e in tr["ev"]:
            if e.get("d_cols") and e["lens"] == [e["w"]] * e["h"] and any(c != e["w"] for c in e["d_cols"]) and not e["exc"]:
                chk.divergence("wide_or_zero_width_glyph_kept_in_one_cell(row_columns_differ_from_width)", {"hex": e["hex"][:60], "cols": e["d_cols"], "w": e["w"]})
                break

    # outside the property: the Terminal docstring asks for urwid.set_encoding("utf8"); with the spelling "utf-8" (what locale detection
    # yields) multi-byte characters are not assembled unless the program sends ESC % G
    probe = Emu(4, 1, "utf-8")
    probe.t.addstr("é".encode("utf-8"))
    if probe.t.term_cursor[0] != 1:
        chk.divergence("utf8_not_assembled_when_encoding_is_spelled_utf-8", {"cells": [c[2].hex() for c in probe.t.term[0]]})

    # ---- bookkeeping --------------------------------------------------------------------------------------------
    kinds = {}
    nontriv = set()

    def cnt(key):
        kinds[key] = kinds.get(key, 0) + 1

    FG_CODES = set(range(30, 40)) | set(range(90, 98)) | {0}
    for tr in a_traces:
        u8 = tr["lock"] == 1      # the decoder in force, followed along the commands (counters only)
        cut_short = False         # a sequence was cut short and no well-formed character or stray byte has been shown since
        prev_pen = [-1, -1, 0]
        for e in tr["ev"]:
            cnt("a." + e["t"])
            if e["t"] == "resize" and not e["exc"]:
                dh = e["h"] - len(e["pg"])
                cnt("a.resize." + ("taller" if dh > 0 else "shorter" if dh < 0 else "same_height"))
                if dh >= 2 and len(e["psb"]) >= 2:
                    cnt("a.resize.taller_by_2_or_more_rows_with_2_or_more_lines_scrolled_off")
                if e["psb"] and e["pg"] and e["w"] != len(e["pg"][0]):
                    cnt("a.resize.width_changes_with_lines_scrolled_off")
            if e["t"] == "sgr" and (prev_pen[2] & 1) and not (set(e["ps"] or [0]) & FG_CODES):
                if 1008 <= prev_pen[0] <= 1015:
                    cnt("a.sgr.bold_palette_index_8_to_15_carried_into_a_later_sgr")
                if 2 ** 24 + 8 <= prev_pen[0] <= 2 ** 24 + 15:
                    cnt("a.sgr.bold_24bit_colour_numbered_8_to_15_carried_into_a_later_sgr")
            if e["t"] in CMDS:
                prev_pen = e["pen"]
            if e["t"] == "mal":
                if e["ps"][0] >= 0xC0:
                    cnt("a.mal.sequence_cut_short_by_other_output")
                    cut_short = True
                else:
                    cnt("a.mal.continuation_byte_that_continues_nothing")
                    if cut_short:
                        cnt("a.mal.continuation_byte_after_a_sequence_cut_short")
                    cut_short = False
            elif e["t"] == "raw":
                cut_short = False
            if e["t"] == "mcs" and not tr["lock"]:
                u8 = e["a"] == 1
                cnt("a.charset.selected_" + ("utf8" if u8 else "8bit") + "_by_the_program")
            if e["t"] == "raw" and not e["exc"]:
                cnt("a.charset.raw_bytes_decoded_as_" + ("utf8" if u8 else "8bit") + ("" if tr["lock"] else "_by_selection"))
            if e["t"] == "refeed":
                cnt("a.refeed." + ("single_cut" if len(e["policy"].get("cuts", [])) == 1 else "random_cuts" if e["policy"]["mode"] == "cuts" else e["policy"]["mode"]))
                if e["d_switch_and_high_bytes_in_one_feed"] and not tr["lock"]:
                    cnt("a.refeed.charset_selected_and_bytes_above_0x7f_in_the_same_feed")
                    nontriv.add(json.dumps(["refeed", tr["spec"].get("enc"), [st.get("pieces") for st in tr["spec"]["steps"]], e["policy"]]))
            if e["t"] in CMDS:
                nontriv.add(json.dumps([e["t"], e["a"], e["b"], e["ps"], e["g"], e["cur"], e["md"], e["reps"]]))
            if e["t"] in CMDS and e["reg"] != [0, e["h"] - 1]:
                cnt("a.inside_a_scrolling_region")
            if e["sb"]:
                cnt("a.with_scrollback")
            if e["t"] == "view" and e["sb"]:
                k = min(e["k"], len(e["sb"]))
                cnt("a.view.scrolled_back_" + ("up_to_one_screen" if k <= e["h"] else "one_to_two_screens" if k < 2 * e["h"] else "two_screens_or_more"))
                if e["k"] > len(e["sb"]):
                    cnt("a.view.beyond_the_top_of_the_scrollback")
            if e["t"] in CMDS and not e["exc"]:
                dy = e["cur"][1] - e["d_cy_in"]
                rel = e["d_row_vs_region"]
                if e["t"] in REGION_OPS and e["reg"] != [0, e["h"] - 1]:
                    cnt(f"a.region.{rel}.{e['t']}")
                if e["t"] in ("put", "txt") and e["md"][2] and dy > 0 and e["reg"] != [0, e["h"] - 1]:
                    cnt(f"a.region.{rel}.text_wraps_to_the_next_row")       # the cursor row advanced: no scroll, not the last row
                if e["t"] in ("put", "txt") and e["md"][2] and dy == 0 and rel == "inside" and e["d_cy_in"] == e["reg"][1] and \
                        e["reg"][1] < e["h"] - 1 and (e["d_pending_in"] or len(e["ps"]) > e["w"] - e["cur"][0]):
                    cnt("a.region.inside.text_wrap_scrolls_a_region_above_the_last_row")
                if e["d_om"]:
                    cnt("a.origin_mode." + e["t"])
                if e["md"][1] and e["t"] in TEXT_CMDS:
                    cnt("a.insert_mode.text")
                if not e["md"][2] and e["t"] in TEXT_CMDS:
                    cnt("a.autowrap_off.text")
                if e["md"][3] and e["t"] == "lf":
                    cnt("a.newline_mode.lf")
                if e["t"] in QUERY and e["reps"]:
                    cnt("a.reply." + e["t"])
                if e["t"] == "cpr" and e["reps"]:
                    nontriv.add(json.dumps(["cpr-at", e["w"], e["h"], e["cur"], e["reg"], e["d_om"]]))
                    cnt("a.reply.cpr." + rel)
    for tr in b_traces:
        sw = re.search(rb"\x1b%[G8@][^\x1b]*[\x80-\xff]", b"".join(bytes.fromhex(op["hex"]) for op in tr["spec"]["ops"] if op["t"] == "feed"))
        for e in tr["ev"]:
            cnt("b." + e["t"])
            if e["t"] == "rechunk":
                cnt("b.rechunk." + e["policy"]["mode"])
                if sw and tr["spec"]["enc"] != "utf8" and e["policy"]["mode"] != "bytes":
                    cnt("b.rechunk.charset_selected_then_bytes_above_0x7f")
                continue
            if e["reps"]:
                kinds["b.replies"] = kinds.get("b.replies", 0) + len(e["reps"])
            if e["nq"] == 1:
                cnt("b.query_probe")
            if e["hang"]:
                cnt("b.watchdog")
            if e["exc"]:
                cnt("b.exception")
            if (e["w"], e["h"]) == (1, 1):
                cnt("b.at_1x1")
    chk.cov["clause_counts"] = dict(sorted(kinds.items()))
    chk.cov["distinct_nontrivial"] = len(nontriv)
    need = ["a." + k for k in CMDS] + ["a.resize", "a.view", "a.inside_a_scrolling_region", "a.with_scrollback", "b.feed", "b.rsz", "b.replies",
                                       "b.query_probe", "b.at_1x1"]
    need += ["a.refeed.whole", "a.refeed.bytes", "a.refeed.single_cut", "a.refeed.random_cuts", "a.refeed.charset_selected_and_bytes_above_0x7f_in_the_same_feed",
             "a.charset.selected_utf8_by_the_program", "a.charset.selected_8bit_by_the_program", "a.charset.raw_bytes_decoded_as_utf8_by_selection",
             "a.charset.raw_bytes_decoded_as_8bit_by_selection", "a.charset.raw_bytes_decoded_as_utf8",
             "b.rechunk.whole", "b.rechunk.bytes", "b.rechunk.cuts", "b.rechunk.charset_selected_then_bytes_above_0x7f"]
    need += ["a.resize.taller", "a.resize.shorter", "a.resize.taller_by_2_or_more_rows_with_2_or_more_lines_scrolled_off",
             "a.resize.width_changes_with_lines_scrolled_off", "a.sgr.bold_palette_index_8_to_15_carried_into_a_later_sgr",
             "a.sgr.bold_24bit_colour_numbered_8_to_15_carried_into_a_later_sgr", "a.mal.sequence_cut_short_by_other_output",
             "a.mal.continuation_byte_that_continues_nothing", "a.mal.continuation_byte_after_a_sequence_cut_short"]
    need += [f"a.region.{rel}.{op}" for rel in ("above", "inside", "below") for op in REGION_OPS]
    need += [f"a.region.{rel}.text_wraps_to_the_next_row" for rel in ("above", "inside", "below")]
    need += ["a.view.scrolled_back_up_to_one_screen", "a.view.scrolled_back_one_to_two_screens", "a.view.scrolled_back_two_screens_or_more",
             "a.view.beyond_the_top_of_the_scrollback"]
    need += ["a.region.inside.text_wrap_scrolls_a_region_above_the_last_row", "a.origin_mode.cup", "a.origin_mode.cpr", "a.origin_mode.txt", "a.origin_mode.stbm",
             "a.insert_mode.text", "a.autowrap_off.text", "a.newline_mode.lf", "a.reply.cpr", "a.reply.dsr", "a.reply.da",
             "a.reply.cpr.above", "a.reply.cpr.inside", "a.reply.cpr.below"]
    for v in need:
        if not kinds.get(v):
            chk.vacuity.append("driver." + v)
    if not n_region:
        chk.vacuity.append("driver.tlc_region_family")
    chk.cov["rule"] = ("(a) command sequences over put/CR/LF/BS/RI/CUP/CUU/CUD/CUF/CUB/EL/ED/ICH/DCH/IL/DL/DECSTBM/SGR and, next to the listed subset, text runs/"
                       "IND/NEL/CHA/VPA/CNL/CPL/ECH/HT/HTS/TBC/DECOM/IRM/DECAWM/LNM/DECSC/DECRC/CSI s/CSI u/SO/SI/SCS/ESC % G/ESC % @/raw bytes >= 0x80 (UTF-8 "
                       "sequences or 8-bit characters, decoded by the reference)/CPR/DSR/DA: TLC -simulate behaviours of "
                       "VTerm.tla (clean and full profile, with and without the extended commands), the exhaustive scrolling-region family of VTerm.tla "
                       "(screen filled x mode prelude x every region x cursor on every row at both edges x every region-sensitive command x a further "
                       "text run; tlc -dump) and seeded random sequences with resizes and scrolled-back views, fed as bytes in random chunks "
                       "to a real TermCanvas, one event per command, then every stream fed again to fresh emulators in one feed and under another "
                       "chunking (the charset families, urwid encodings utf-8 / iso8859-1 / utf8: in one feed, byte by byte, cut at every single "
                       "position, random cuts) and judged against the same reference state; (b) random streams of well-formed and malformed CSI/OSC/charset sequences, valid / "
                       "truncated / invalid UTF-8, C0/C1 controls, huge / zero / missing parameters, cut at random positions into feeds, with resizes "
                       "down to 1x1 and query probes, four encodings, with and without focus, each stream fed again in one feed / byte by byte / "
                       "with other cuts and both outcomes compared; distinct = distinct (command, resulting grid, cursor, modes, replies)")
    chk.cov["exhaustive"] = True
    chk.cov["bounds"] = {"mc_grid": "3x3 depth %d (listed subset), depth %d (with extended commands)" % ((3, 2) if quick else (4, 3)),
                         "region_family": [f"{w}x{h} depth {rd}" for w, h, rd in regs], "region_family_histories": n_region,
                         "tlc_simulated_sequences": len(sims) - n_region, "random_sequences": n_rand, "random_sequences_extended": n_rand_ext,
                         "random_sequences_charset_every_cut": n_charset,
                         "resize_lines_sequences": n_resize_lines, "sgr_split_sequences": n_sgr_split,
                         "utf8_interrupted_sequences_every_cut": n_utf8_interrupted,
                         "robustness_streams": len(b_specs), "hang_candidates": len(hangy), "watchdog_cpu_seconds": CPU_BUDGET_S}
    chk.sample({"faithfulness_steps": [{k: v for k, v in s.items()} for s in a_specs[0]["steps"][:6]], "grid_after_last": a_traces[0]["ev"][-1]["g"]})
    chk.sample({"robustness_ops": b_specs[1]["ops"][:4], "events": [{k: v for k, v in e.items() if not k.startswith("d_")} for e in b_traces[1]["ev"][:3]]})
    chk.cov["trusted_base"] = ["TLC", "Terminal.tla (xterm / VT100 semantics, DESIGN.md Appendix E) and the console dialect of VTermOps.tla",
                               "vf/props/c15.py: Stub widget, command encoder, cell projection pen_of/cell_of (AttrSpec accessors), CPU-time watchdog",
                               "vf/term.char_width (only for the wide-glyph DIVERGENCE)"]
    chk.assumptions += ["faithfulness uses width-1 glyphs in utf8 mode; wide glyphs only in (b)",
                        "raw bytes of part (a) are well-formed for the character set in force (UTF-8 sequences of characters the urwid encoding can "
                        "show; 0xA0..0xFF as 8-bit characters: 0x80..0x9F are C1 controls); malformed UTF-8 in (a) ('mal'): sequences cut short "
                        "by other output and stray continuation bytes 0xA0..0xBF, accepted as U+FFFD per byte (xterm) or as nothing / the 8-bit "
                        "character (lenient reading, VTermOps LenientFrom); all other malformed input only in (b)",
                        "while UTF-8 is selected by ESC % G the console does not designate G0 / G1 (ESC ( 0 is ignored): accepted as console dialect",
                        "a re-fed stream is judged at its end only (final screen, cursor, scrollback, pen, region, tab stops, modes, all replies)",
                        "G1 is invoked (SO) only after it has been designated: the console's default G1 is the graphics set, a VT100's is ASCII",
                        "CSI s / CSI u save and restore the cursor position only (SCO); ESC 7 / ESC 8 also the rendition and the charsets, not the modes",
                        "autowrap off: the last-column flag is never set; HT leaves it alone on a VT100 and clears it on the console (both accepted)",
                        "after a resize the reference adopts the emulator's screen and tab stops (a VT100 has no resize); the shape is judged there, and that scrollback "
                        "and screen read from top to bottom hold the same lines as before (VTermOps ResizeKeepsLines)",
                        "the emulator may keep more lines in its scrollback than the reference (lines leaving a region below the top); order is judged",
                        "SGR flags (bold, underline, ...) are compared only in the strict pass (DIVERGENCE); colours are compared by meaning "
                        "(palette 0-15 = basic colours, bold basic colour = bright)",
                        "CPR in origin mode: the row relative to the top margin (VT100) and the screen row (console) are both accepted",
                        "a feed is a hang when it burns more than %.0f s of CPU (ITIMER_VIRTUAL), parameters between 1e6 and 1e9 are not generated for "
                        "insert/delete commands" % CPU_BUDGET_S]


def replay(chk, path):
    with open(path) as f:
        rp = json.load(f)["replay"]
    if rp.get("kind") == "b":
        tr = run_b(rp["spec"])
    elif rp.get("kind") == "a":
        tr = run_a(rp["spec"])
    else:
        chk.note("model-level replay: re-running the TLC model")
        r = tlc.mc("VTerm", MC_CFG.format(w=3, h=3, d=3, ext=0), workers=6, timeout=3000)
        chk.add_mc("replay_MC_VTerm", r)
        if not r.ok:
            chk.reject("C15.model." + str(r.violated), {"model": "VTerm", "inv": r.violated}, {"tlc_trace": r.trace[-6:]})
        return chk.finish()
    res = _validate(chk, "replay", [tr], False, 1)
    chk.add_tv("replay", res)
    _handle(chk, [tr], res, "replay")
    chk.sample({"spec": rp["spec"]})
    return chk.finish()
