"""C20 — Scrollable views show the right slice and scrollbars reflect the position.
Spec: spec/Scrollable.tla over spec/ScrollableOps.tla; trace spec: spec/ScrollableTrace.tla."""
from __future__ import annotations

import json
import re

from .. import tlc

KEYS = ["up", "down", "page up", "page down", "home", "end"]
THUMB = "█"
def _label(i):
    return chr(65 + i % 26)  # one column per row label: A, B, C, ...


def _mk(urwid):
    class Probe(urwid.Widget):
        """Flow widget of `total` rows labelled r0, r1, ...; optionally consumes chosen keys / wheel events."""

        _sizing = frozenset(["flow"])
        _selectable = True

        def __init__(self, total, eat=()):
            super().__init__()
            self.total = total
            self.eat = set(eat)
            self.seen_cols = None
            self.last_ret = "?"

        def rows(self, size, focus=False):
            return self.total

        def render(self, size, focus=False):
            (cols,) = size
            self.seen_cols = cols
            return urwid.TextCanvas([_label(i).ljust(cols)[:cols].encode() for i in range(self.total)], maxcol=cols)

        def keypress(self, size, key):
            self.last_ret = None if key in self.eat else key
            return self.last_ret

        def mouse_event(self, size, event, button, col, row, focus):
            self.last_ret = True if ("wheel" in self.eat and button in (4, 5)) else False
            return self.last_ret

    class Fixed(urwid.Widget):
        _sizing = frozenset(["fixed"])

        def __init__(self, total, cols):
            super().__init__()
            self.total = total
            self.cols = cols
            self.seen_cols = cols

        def pack(self, size=(), focus=False):
            return (self.cols, self.total)

        def render(self, size, focus=False):
            return urwid.TextCanvas([_label(i).ljust(self.cols)[:self.cols].encode() for i in range(self.total)], maxcol=self.cols)

    return Probe, Fixed


def project(canv, cw, barw, side):
    """Canvas -> (row numbers, bar parts or None).  Bar = columns outside the child's cw columns."""
    rows = []
    bar = []
    for line in canv.text:
        t = line.decode("utf-8")
        if barw:
            body, b = (t[:cw], t[cw:]) if side == "right" else (t[barw:], t[:barw])
            bar.append(b)
        else:
            body = t
        rows.append(ord(body[0]) - 65 if body and "A" <= body[0] <= "Z" else -1)
    parts = None
    if barw:
        kinds = ["T" if set(b) == {THUMB} else ("t" if set(b) == {" "} else "?") for b in bar]
        s = "".join(kinds)
        m = re.fullmatch(r"(t*)(T+)(t*)", s)
        parts = (len(m.group(1)), len(m.group(2)), len(m.group(3))) if m else (-1, -1, -1)
    return rows, parts


def run_history(kind, total, w, h, ops, bar=None, eat=(), sweep=False):
    """ops: ('key', k) | ('setpos', n) | ('h', n) | ('w', n) | ('total', n) | ('wheel', 4|5) | ('render',)"""
    import urwid

    urwid.set_encoding("utf-8")
    Probe, Fixed = _mk(urwid)
    if kind == "fixed":
        child = Fixed(total, max(1, w - 2))
    else:
        child = Probe(total, eat)
    sc = urwid.Scrollable(child)
    top = sc
    barw = 0
    side = "right"
    if bar:
        barw, side = bar
        top = urwid.ScrollBar(sc, side=side, width=barw)
    ev = []
    state = {"w": w, "h": h}

    def render():
        e = {"t": "render", "exc": "", "total": child.total, "h": state["h"], "w": state["w"], "hasbar": 1 if bar else 0, "barw": barw,
             "bar": 0, "top": 0, "thumb": 0, "bottom": 0, "cw": state["w"], "rows": [], "p": 0, "sweep": 1 if sweep else 0, "judge_top": 1}
        try:
            child.seen_cols = None
            canv = top.render((state["w"], state["h"]), True)
            cw = child.seen_cols if child.seen_cols is not None else state["w"]
            drawn = bool(bar) and canv.cols() == state["w"] and cw < state["w"] and kind != "fixed"
            if bar and kind == "fixed":
                # a fixed child does not see a width: the bar is drawn iff the body is narrower than the view
                drawn = child.total > state["h"]
                cw = state["w"] - barw if drawn else state["w"]
            rows, parts = project(canv, cw if drawn else state["w"], barw if drawn else 0, side)
            e["rows"] = rows
            e["cw"] = cw
            e["bar"] = 1 if drawn else 0
            if drawn and parts:
                e["top"], e["thumb"], e["bottom"] = parts
            e["p"] = sc.get_scrollpos()
            if canv.rows() != state["h"] or canv.cols() != state["w"]:
                e["exc"] = f"size{canv.cols()}x{canv.rows()}"
        except Exception as ex:  # noqa: BLE001
            e["exc"] = type(ex).__name__
        ev.append(e)
        return e

    last = render()
    for op in ops:
        size = (state["w"], state["h"])
        try:
            if op[0] == "key":
                child.last_ret = "?"
                before = last["p"]
                top.keypress(size, op[1])
                if getattr(child, "last_ret", "?") is None:
                    after = render()
                    ev.insert(len(ev) - 1, {"t": "consumed", "exc": "", "before": before, "after": after["p"], "key": op[1]})
                    last = after
                    continue
                ev.append({"t": "key", "exc": "", "key": op[1]})
            elif op[0] == "wheel":
                child.last_ret = "?"
                before = last["p"]
                top.mouse_event(size, "mouse press", op[1], 0, 0, True)
                if getattr(child, "last_ret", "?") is True:
                    after = render()
                    ev.insert(len(ev) - 1, {"t": "consumed", "exc": "", "before": before, "after": after["p"], "key": f"wheel{op[1]}"})
                    last = after
                    continue
                ev.append({"t": "key", "exc": "", "key": f"wheel{op[1]}"})
            elif op[0] == "setpos":
                sc.set_scrollpos(op[1])
            elif op[0] == "h":
                state["h"] = op[1]
            elif op[0] == "w":
                state["w"] = op[1]
            elif op[0] == "total":
                child.total = op[1]
                child._invalidate()
        except Exception as ex:  # noqa: BLE001
            ev.append({"t": "key", "exc": type(ex).__name__, "key": str(op)})
        last = render()
    return {"kind": kind, "total": total, "w": w, "h": h, "ops": [list(o) for o in ops], "bar": list(bar) if bar else [], "eat": sorted(eat), "ev": ev}


def random_ops(rng, n, maxtotal, maxh, wheel):
    ops = []
    for _ in range(n):
        r = rng.random()
        if r < 0.45:
            ops.append(("key", rng.choice(KEYS + ["a"])))
        elif r < 0.6:
            ops.append(("setpos", rng.randint(-maxtotal - 3, maxtotal + 3)))
        elif r < 0.7:
            ops.append(("h", rng.randint(1, maxh)))
        elif r < 0.78:
            ops.append(("w", rng.randint(3, 8)))
        elif r < 0.9:
            ops.append(("total", rng.randint(0, maxtotal)))
        elif wheel:
            ops.append(("wheel", rng.choice([4, 5])))
        else:
            ops.append(("render",))
    return ops


def listbox_bar_history(rng, n_items, h, ops):
    """ListBox under ScrollBar: only the bar geometry clauses apply (relative scrolling API)."""
    import urwid

    lb = urwid.ListBox(urwid.SimpleFocusListWalker([urwid.Text(f"r{i}") if i % 3 else urwid.Edit(f"r{i} ") for i in range(n_items)]))
    sb = urwid.ScrollBar(lb)
    ev = []
    w = 8
    for op in [("render",), *ops]:
        exc = ""
        try:
            if op[0] == "key":
                sb.keypress((w, h), op[1])
            canv = sb.render((w, h), True)
            t = [ln.decode("utf-8") for ln in canv.text]
            drawn = all(set(x[-1:]) <= {THUMB, " "} for x in t) and any(x.endswith(THUMB) for x in t)
            top = thumb = bottom = 0
            if drawn:
                s = "".join("T" if x.endswith(THUMB) else "t" for x in t)
                m = re.fullmatch(r"(t*)(T+)(t*)", s)
                top, thumb, bottom = (len(m.group(1)), len(m.group(2)), len(m.group(3))) if m else (-1, -1, -1)
        except Exception as ex:  # noqa: BLE001
            exc = type(ex).__name__
            drawn = False
            top = thumb = bottom = 0
        # rows/p are not judged for a ListBox: present them as a consistent view so only the bar clauses decide
        ev.append({"t": "render", "exc": exc, "total": h, "h": h, "w": w, "hasbar": 0, "barw": 1, "bar": 1 if drawn else 0,
                   "top": top, "thumb": thumb, "bottom": bottom, "cw": w, "rows": list(range(h)), "p": 0, "sweep": 0,
                   "judge_top": 0})
    # 'thumb leaves the top' needs the real position: use the list box's own first visible position
    return {"kind": "listbox", "total": n_items, "w": w, "h": h, "ops": [list(o) for o in ops], "bar": [1, "right"], "eat": [], "ev": ev}


MC_CFG = """CONSTANTS MaxTotal = {t} MaxH = {h} Depth = {d}
SPECIFICATION Spec
INVARIANT AfterRender
INVARIANT GeometrySatisfiable
CHECK_DEADLOCK FALSE
"""


def _handle(chk, traces, res):
    for ti, l, why in res.rejects:
        tr = traces[ti]
        e = tr["ev"][l - 1]
        sig = {"kind": tr["kind"], "event": e["t"], "exc": e.get("exc", ""), "h": e.get("h", 0), "bar": e.get("bar", 0),
               "fits": int(e.get("total", 0) <= e.get("h", 0)) if e["t"] == "render" else -1}
        chk.reject(f"C20.{why}", sig, {"kind": tr["kind"], "total": tr["total"], "w": tr["w"], "h": tr["h"], "ops": tr["ops"][:l],
                                       "bar": tr["bar"], "eat": tr["eat"], "observed": e})


def run(chk):
    quick = chk.tier == "quick"
    rng = chk.rng
    r = tlc.mc("Scrollable", MC_CFG.format(t=6 if quick else 8, h=4 if quick else 5, d=5 if quick else 6), timeout=2400, workers=8)
    chk.add_mc("MC_Scrollable", r)
    if not r.ok:
        chk.reject("C20.model." + str(r.violated), {"model": "Scrollable"}, {"tlc_trace": r.trace[-5:]})
    # ---- unbounded: Apalache discharges an inductive invariant of the position state machine for ALL integers (ScrollableInd.tla) ----
    import concurrent.futures as cf

    obligations = [("base", "Init", "IndInv", 0, "NoError"), ("step", "IndInit", "IndInv", 1, "NoError"), ("implies_safe", "IndInit", "Safe", 0, "NoError")]
    if not quick:
        obligations.append(("step_refutes_too_strong", "IndInit", "NeverAtEnd", 1, "Error"))
    with cf.ThreadPoolExecutor(len(obligations)) as ex:
        futs = [(ob, ex.submit(tlc.apalache, "ScrollableInd", ob[1], ob[2], ob[3], 240)) for ob in obligations]
        apa = []
        for ob, f in futs:
            res = f.result()
            res["obligation"], res["expected"] = ob[0], ob[4]
            apa.append(res)
            if res["outcome"] == "unavailable":
                chk.vacuity.append("apalache." + ob[0] + " did not run")
            elif res["outcome"] != ob[4]:
                chk.reject("C20.model.apalache." + ob[0], {"model": "ScrollableInd", "outcome": res["outcome"]}, {"apalache": res})
    chk.cov["apalache_inductive"] = apa
    traces = []
    # ---- spec -> code: every (total, h, p) for the thumb geometry (sweep p upwards: monotonicity) ----
    maxt, maxh = (9, 6) if quick else (14, 9)
    for total in range(0, maxt + 1):
        for h in range(1, maxh + 1):
            for bar in ((1, "right"), (2, "left")):
                ops = [("setpos", p) for p in range(0, max(0, total - h) + 2)]
                traces.append(run_history("probe", total, 7, h, ops, bar=bar, sweep=True))
    # ---- exhaustive short histories from every (total, h) without a bar ----
    basic = [("key", k) for k in KEYS] + [("setpos", v) for v in (-3, -1, 0, 2, 50)] + [("total", 0), ("total", 7), ("h", 1), ("h", 5)]
    for total in (0, 1, 3, 6):
        for h in (1, 2, 4):
            for a in basic:
                for b in basic:
                    traces.append(run_history("probe", total, 6, h, [a, b]))
    # ---- seeded random histories: kinds x bar x consumption ----
    n_rand = 1500 if quick else 60000
    for i in range(n_rand):
        kind = ["probe", "probe", "fixed"][i % 3]
        bar = [None, (1, "right"), (2, "left"), (1, "left")][(i // 3) % 4]
        eat = rng.choice([(), (), ("down", "page down"), ("up", "wheel"), ("home", "end", "wheel")]) if kind == "probe" else ()
        traces.append(run_history(kind, rng.randint(0, 12), rng.randint(3, 8), rng.randint(1, 6),
                                  random_ops(rng, rng.randint(3, 12), 12, 6, wheel=bar is not None), bar=bar, eat=eat))
    for i in range(100 if quick else 3000):
        traces.append(listbox_bar_history(rng, rng.randint(0, 12), rng.randint(1, 6),
                                          [("key", rng.choice(["down", "up", "page down", "page up", "home", "end"])) for _ in range(rng.randint(0, 8))]))
    res = tlc.validate("ScrollableTrace", traces, batch_events=20000, timeout=2400)
    chk.add_tv("TV_ScrollableTrace", res)
    _handle(chk, traces, res)
    kinds = {}
    nontriv = set()
    for t in traces:
        for e in t["ev"]:
            k = f"{t['kind']}.{e['t']}" + (".bar" if e.get("bar") else "")
            kinds[k] = kinds.get(k, 0) + 1
            if e["t"] == "render" and e.get("p", 0) > 0:
                nontriv.add((t["kind"], e["total"], e["h"], e["p"], e.get("bar", 0)))
    chk.cov["clause_counts"] = kinds
    chk.cov["distinct_nontrivial"] = len(nontriv)
    chk.cov["rule"] = ("histories of keys / set_scrollpos / wheel / resize / content change on real Scrollable and ScrollBar objects around a row-labelled "
                       "flow probe, a fixed widget and a ListBox; every (total, h, p) swept for the bar geometry; non-trivial = distinct "
                       "(kind, total, h, p>0, bar) rendered")
    chk.cov["exhaustive"] = True
    for v in ("probe.consumed", "probe.render.bar", "fixed.render", "listbox.render.bar"):
        if not kinds.get(v):
            chk.vacuity.append("driver." + v)
    chk.sample({k: traces[len(traces) // 2][k] for k in ("kind", "total", "w", "h", "ops", "bar", "eat")})
    chk.sample(traces[len(traces) // 2]["ev"][:3])
    chk.cov["trusted_base"] = ["TLC", "row-labelled probe widgets and canvas projection in vf/props/c20.py"]
    chk.assumptions += ["exact scroll amounts per key are not judged on the real code (the property fixes bounds and the slice, not the step); ScrollableOps!Nav documents them for the model",
                        "ListBox under ScrollBar: only the bar-part clauses (relative scrolling API)"]


def replay(chk, path):
    with open(path) as f:
        rp = json.load(f)["replay"]
    if rp["kind"] == "listbox":
        import random
        tr = listbox_bar_history(random.Random(1), rp["total"], rp["h"], [tuple(o) for o in rp["ops"]])
    else:
        tr = run_history(rp["kind"], rp["total"], rp["w"], rp["h"], [tuple(o) for o in rp["ops"]], bar=tuple(rp["bar"]) if rp["bar"] else None,
                         eat=rp["eat"])
    res = tlc.validate("ScrollableTrace", [tr])
    chk.add_tv("replay", res)
    _handle(chk, [tr], res)
    chk.sample(tr["ev"][:3])
    return chk.finish()
