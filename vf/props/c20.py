"""C20 — Scrollable views show the right slice and scrollbars reflect the position.
Spec: spec/Scrollable.tla over spec/ScrollableOps.tla; trace spec: spec/ScrollableTrace.tla.

Driver families (all judged by TLC through ScrollableTrace):
  * sweep: every (total, h, p) for the bar geometry;
  * exhaustive two-step histories on a bare Scrollable;
  * "fits, then stops fitting": keys while the content fits, renderings, then the view shrinks / the content grows;
  * input widths: content that fits / does not fit under every bar option, every key and mouse event, sizes recorded
    at the wrapped widget (render, keypress, mouse_event);
  * seeded random histories over probe / fixed / Text / wrapped Text / multi-line Edit / Pile, with and without a bar,
    eager (render after every step) and lazy (several keys / positions between renderings);
  * ListBox under ScrollBar: walker changes and items that change their height in place, the model's own content height;
  * ListBox walks: short lists of items of several rows (up to taller than the view) walked to the end and back with line / page keys,
    wheel events; the row on the top line of the view is read off the canvas and TLC computes the position from the item heights
    (ScrollableListOps!RowsAbove): get_scrollpos / get_first_visible_pos and the thumb are judged against that position;
  * held canvases: every canvas of a history stays referenced (urwid's canvas cache may answer), sizes / focus flags A, B, A where B's
    rendering clamps the position (or does not); the model counterpart is Frames = "held" / "lazy" in Scrollable.tla.
"""
from __future__ import annotations

import json
import re

from .. import tlc

KEYS = ["up", "down", "page up", "page down", "home", "end"]
THUMB = "█"
TROUGH = "|"
CHARS = "ABCDEFGHIJKLMNOPQRSTUVWXYZabcdefghijklmnopqrstuvwxyz0123456789"
EXACT_KINDS = ("probe", "fixed", "text", "wtext", "cols")   # no cursor in the wrapped widget: the history fixes the position


def _label(i):
    return chr(65 + i % 26)  # one column per row label: A, B, C, ...


def _mk(urwid):
    class Probe(urwid.Widget):
        """Flow widget of `total` rows labelled A, B, ...; optionally consumes chosen keys / wheel events."""

        _sizing = frozenset(["flow"])
        _selectable = True

        def __init__(self, total, eat=()):
            super().__init__()
            self.total = total
            self.eat = set(eat)

        def rows(self, size, focus=False):
            return self.total

        def render(self, size, focus=False):
            (cols,) = size
            return urwid.TextCanvas([_label(i).ljust(cols)[:cols].encode() for i in range(self.total)], maxcol=cols)

        def keypress(self, size, key):
            return None if key in self.eat else key

        def mouse_event(self, size, event, button, col, row, focus):
            return bool("wheel" in self.eat and button in (4, 5))

    class Fixed(urwid.Widget):
        _sizing = frozenset(["fixed"])

        def __init__(self, total, cols):
            super().__init__()
            self.total = total
            self.cols = cols

        def pack(self, size=(), focus=False):
            return (self.cols, self.total)

        def render(self, size, focus=False):
            return urwid.TextCanvas([_label(i).ljust(self.cols)[:self.cols].encode() for i in range(self.total)], maxcol=self.cols)

    return Probe, Fixed


def _spy(widget, log, level):
    """Record the size argument (and the result) of every render / keypress / mouse_event call the widget receives."""
    for name in ("render", "keypress", "mouse_event"):
        if hasattr(widget, name):
            orig = getattr(widget, name)

            def wrap(size, *a, _o=orig, _n=name, **k):
                rec = {"fn": _n, "level": level, "size": [int(x) for x in size], "ret": "?"}
                if _n == "mouse_event":
                    rec["pos"] = [int(a[2]), int(a[3])]      # (event, button, col, row, focus)
                log.append(rec)
                rec["ret"] = _o(size, *a, **k)
                return rec["ret"]

            setattr(widget, name, wrap)


def _calls(log, fn):
    box = [[c["size"][0], c["size"][1]] for c in log if c["level"] == "box" and c["fn"] == fn and len(c["size"]) == 2]
    inner = [c["size"][0] for c in log if c["level"] == "inner" and c["fn"] == fn and len(c["size"]) == 1]
    rets = [c["ret"] for c in log if c["level"] == "inner" and c["fn"] == fn]
    return box, inner, rets


def _positions(log):
    """(col, row) the wrapped widgets received with mouse events: ScrollBar's wrapped widget, Scrollable's wrapped widget."""
    return ([c["pos"] for c in log if c["level"] == "box" and c["fn"] == "mouse_event"],
            [c["pos"] for c in log if c["level"] == "inner" and c["fn"] == "mouse_event"])


def split_bar(canv, w, barw, side):
    """Canvas -> (content part of each line, bar drawn?, (top, thumb, bottom)).  Content never contains THUMB / TROUGH."""
    lines = [ln.decode("utf-8") for ln in canv.text]
    if not barw:
        return lines, False, (0, 0, 0)
    pairs = [(t[:w - barw], t[w - barw:]) if side == "right" else (t[barw:], t[:barw]) for t in lines]
    isbar = [len(b) == barw and all(c in (THUMB, TROUGH) for c in b) for _, b in pairs]
    if not any(isbar):
        return lines, False, (0, 0, 0)
    s = "".join("T" if set(b) == {THUMB} else ("t" if set(b) == {TROUGH} else "?") for _, b in pairs)
    m = re.fullmatch(r"(t*)(T+)(t*)", s)
    return [a for a, _ in pairs], True, ((len(m.group(1)), len(m.group(2)), len(m.group(3))) if m else (-1, -1, -1))


def match_rows(view, full):
    """Row numbers (in the wrapped widget's own full rendering) of the rows shown; -1 = blank padding."""
    out = []
    prev = None
    for s in view:
        s = s.rstrip()
        if prev is not None and prev >= 0 and prev + 1 < len(full) and full[prev + 1] == s:
            j = prev + 1
        elif prev is not None and s == "":
            j = -1
        else:
            cand = [i for i, f in enumerate(full) if f == s]
            j = cand[0] if cand else (-1 if s == "" else -2)
        out.append(j)
        prev = j
    return out


class Subject:
    """The wrapped widget of one history: how it is built, changed in place and read back."""

    def __init__(self, urwid, kind, total, w, eat, cseed):
        Probe, Fixed = _mk(urwid)
        self.urwid = urwid
        self.kind = kind
        self.cseed = cseed
        self.total = total
        if kind == "probe":
            self.widget = Probe(total, eat)
        elif kind == "fixed":
            self.widget = Fixed(total, max(1, w - 2))
        elif kind == "text":
            self.total = max(1, total)
            self.widget = urwid.Text(self._lines(self.total))
        elif kind == "wtext":
            self.widget = urwid.Text(self._cells(total), wrap="any")
        elif kind == "edit":
            self.widget = urwid.Edit("", self._edit_text(total), multiline=True, wrap=("any", "space")[cseed % 2])
            if cseed % 3 == 0:
                self.widget.set_edit_pos(0)
        elif kind == "pile":
            self.head = urwid.Text(self._lines(max(1, total)))
            self.widget = urwid.Pile([
                self.head, urwid.Edit("", CHARS[14:14 + 6 + cseed % 7], wrap="any"), urwid.Text(CHARS[30:33].replace("", "\n").strip()),
                urwid.Edit("", CHARS[36:36 + 4 + cseed % 5]), urwid.Text(CHARS[50:52])])
            if cseed % 2:
                self.widget.focus_position = 3
        elif kind == "cols":
            # a Pile holding Columns whose cells have unequal heights and are built differently: a Pile of one-row Texts beside one
            # Text of several rows beside a Pile of two Texts -- in the canvas the tall cells continue across several row groups
            k = max(2, total)
            self.head = urwid.Text(self._lines(1 + cseed % 3))
            left = urwid.Pile([urwid.Text(CHARS[26 + i]) for i in range(k)])
            mid = urwid.Text("\n".join(DIGITS[i] for i in range(max(1, k - 1 + cseed % 3))))
            right = urwid.Pile([urwid.Text("\n".join(CHARS[10 + i] for i in range(k // 2 + 1))), urwid.Text("\n".join(CHARS[18 + i] for i in range(k // 2)) or "z")])
            cells = [left, mid, right] if cseed % 2 else [mid, left, right]
            self.widget = urwid.Pile([self.head, urwid.Columns(cells), urwid.Text("-\n=\n+"[: 1 + 2 * (cseed % 3)])])
        else:
            raise ValueError(kind)

    @staticmethod
    def _lines(n):
        return "\n".join(_label(i) for i in range(n))

    def _cells(self, n):
        return CHARS[:max(0, min(n * 3, len(CHARS)))]

    def _edit_text(self, n):
        # distinct characters; single blanks / line breaks at positions fixed by cseed; no empty lines
        out = []
        for i, c in enumerate(CHARS[:max(1, min(n * 4, len(CHARS)))]):
            out.append(c)
            r = (i * 7 + self.cseed) % 11
            if r == 0 and i:
                out.append("\n")
            elif r in (3, 4) and i:
                out.append(" ")
        return "".join(out).strip()

    def set_total(self, n):
        k = self.kind
        if k in ("probe", "fixed"):
            self.widget.total = n
            self.widget._invalidate()
        elif k == "text":
            self.total = max(1, n)
            self.widget.set_text(self._lines(self.total))       # in place
        elif k == "wtext":
            self.widget.set_text(self._cells(n))
        elif k == "edit":
            self.widget.set_edit_text(self._edit_text(n))
        elif k in ("pile", "cols"):
            self.head.set_text(self._lines(max(1, min(n, 14))))

    def observe(self, body, cw, focus=True):
        """(total rows of the wrapped widget's own full rendering - same focus flag as the view -, row numbers shown)."""
        if self.kind in ("probe", "fixed", "text"):
            total = self.widget.total if self.kind != "text" else self.total
            return total, [ord(b[0]) - 65 if b and "A" <= b[0] <= "Z" else -1 for b in body]
        full = [ln.decode("utf-8").rstrip() for ln in type(self.widget).render(self.widget, (cw,), focus).text]
        return len(full), match_rows(body, full)


def run_history(kind, total, w, h, ops, bar=None, eat=(), sweep=False, lazy=False, cseed=0, held=False):
    """ops: ('key', k) | ('setpos', n) | ('h', n) | ('w', n) | ('total', n) | ('wheel', 4|5) | ('click', col, row) | ('render',)
         | ('focus', 0|1) (the focus flag of the renderings that follow)
    lazy: keys and positions are not followed by a rendering of their own (several may be pending at the next one).
    held: every canvas rendered in the history stays referenced (as a screen or a parent canvas holds it), so urwid's canvas
          cache may answer a later rendering of the same (size, focus)."""
    import urwid

    urwid.set_encoding("utf-8")
    subj = Subject(urwid, kind, total, w, eat, cseed)
    child = subj.widget
    sc = urwid.Scrollable(child)
    log = []
    _spy(child, log, "inner")
    top = sc
    barw = 0
    side = "right"
    if bar:
        barw, side = bar
        top = urwid.ScrollBar(sc, thumb_char=THUMB, trough_char=TROUGH, side=side, width=barw)
        _spy(sc, log, "box")
    exact = 1 if kind in EXACT_KINDS else 0
    common = {"hasbar": 1 if bar else 0, "barw": barw, "left": 1 if side == "left" else 0}
    ev = []
    keep = []
    state = {"w": w, "h": h, "dirty": True, "focus": True}

    def render():
        e = {"t": "render", "exc": "", "total": 0, "totalfull": 0, "h": state["h"], "w": state["w"], **common, "bar": 0, "top": 0, "thumb": 0,
             "bottom": 0, "rows": [], "p": 0, "sweep": 1 if sweep else 0, "judge_top": 1, "exact": exact, "calls": [], "inner": [],
             "focus": 1 if state["focus"] else 0, "cached": 0}
        del log[:]
        try:
            canv = top.render((state["w"], state["h"]), state["focus"])
            if held:
                keep.append(canv)
            e["cached"] = 0 if any(c["fn"] == "render" for c in log) else 1       # the outermost widget's render was not run
            if canv.rows() != state["h"] or canv.cols() != state["w"]:
                e["exc"] = f"size{canv.cols()}x{canv.rows()}"
            else:
                body, drawn, parts = split_bar(canv, state["w"], barw, side)
                e["bar"] = 1 if drawn else 0
                e["top"], e["thumb"], e["bottom"] = parts
                e["calls"], e["inner"], _ = _calls(log, "render")
                e["total"], e["rows"] = subj.observe(body, state["w"] - barw if drawn else state["w"], state["focus"])
                e["totalfull"] = subj.observe([], state["w"], state["focus"])[0] if drawn else e["total"]
                e["p"] = sc.get_scrollpos()
        except Exception as ex:  # noqa: BLE001
            e["exc"] = type(ex).__name__
        ev.append(e)
        state["dirty"] = False
        return e

    last = render()
    for i, op in enumerate(ops):
        size = (state["w"], state["h"])
        if op[0] in ("key", "wheel", "click"):
            eaten = kind == "probe" and (op[1] in eat if op[0] == "key" else (op[0] == "wheel" and "wheel" in eat))
            if (op[0] != "key" or eaten) and state["dirty"]:
                # a mouse event is an event on the screen the user sees; input the wrapped widget is configured to handle is judged
                # against the rendering just before it
                last = render()
            fn = "keypress" if op[0] == "key" else "mouse_event"
            button = 0 if op[0] == "key" else (op[1] if op[0] == "wheel" else 1)
            name = op[1] if op[0] == "key" else f"{op[0]}{op[1]}"
            del log[:]
            exc = ""
            pos = (min(op[1], size[0] - 1), min(op[2], size[1] - 1)) if op[0] == "click" else (0, 0)    # always inside the view
            try:
                if op[0] == "key":
                    top.keypress(size, op[1])
                elif op[0] == "wheel":
                    top.mouse_event(size, "mouse press", op[1], 0, 0, True)
                else:
                    top.mouse_event(size, "mouse press", 1, pos[0], pos[1], True)
            except Exception as ex:  # noqa: BLE001
                exc = type(ex).__name__
            box, inner, rets = _calls(log, fn)
            handled = bool(rets) and (rets[-1] is None if op[0] == "key" else bool(rets[-1]))
            e = {"t": "key" if op[0] == "key" else "mouse", "exc": exc, "key": name, "button": button, "reached": 0 if handled else 1,
                 "fn": fn, **common, "calls": box, "inner": inner}
            if op[0] != "key":
                e["col"], e["row"] = pos
                e["boxpos"], e["innerpos"] = _positions(log)
            if handled and exact and not exc:
                # the wrapped widget handled it: the rendering that follows must show the same position
                before = last["p"]
                e["t"] = "consumed"
                ev.append(e)
                last = render()
                e["before"], e["after"] = before, last["p"]
                continue
            ev.append(e)
            state["dirty"] = True
            if lazy and op[0] == "key" and i + 1 < len(ops):
                continue
        elif op[0] == "setpos":
            sc.set_scrollpos(op[1])
            ev.append({"t": "setpos", "exc": "", "v": op[1]})
            state["dirty"] = True
            if lazy and i + 1 < len(ops):
                continue
        elif op[0] == "h":
            state["h"] = op[1]
        elif op[0] == "w":
            state["w"] = op[1]
        elif op[0] == "total":
            subj.set_total(op[1])
        elif op[0] == "focus":
            state["focus"] = bool(op[1])
        last = render()
    del keep[:]
    return {"kind": kind, "total": total, "w": w, "h": h, "ops": [list(o) for o in ops], "bar": list(bar) if bar else [], "eat": sorted(eat),
            "lazy": 1 if lazy else 0, "cseed": cseed, "held": 1 if held else 0, "ev": ev}


def random_ops(rng, n, maxtotal, maxh, mouse, focus=False):
    ops = []
    for _ in range(n):
        r = rng.random()
        if focus and r < 0.06:
            ops.append(("focus", rng.randint(0, 1)))
        elif focus and r < 0.2:
            ops.append(("h", rng.randint(1, maxh)))      # held canvases: more resizes, so sizes come back
        elif r < 0.42:
            ops.append(("key", rng.choice(KEYS + ["a", "left", "right"])))
        elif r < 0.56:
            ops.append(("setpos", rng.randint(-maxtotal - 3, maxtotal + 3)))
        elif r < 0.66:
            ops.append(("h", rng.randint(1, maxh)))
        elif r < 0.73:
            ops.append(("w", rng.randint(4, 9)))
        elif r < 0.84:
            ops.append(("total", rng.randint(0, maxtotal)))
        elif r < 0.93 and mouse:
            ops.append(("wheel", rng.choice([4, 5])) if rng.random() < 0.6 else ("click", rng.randint(0, 3), rng.randint(0, maxh - 1)))
        else:
            ops.append(("render",))
    return ops


# ---------------------------------------------------------------------------------------------------------------------
# ListBox under ScrollBar: the content is a list of items <<wrap, n>>; the model (ScrollableTrace!SumRows) owns its height
# ---------------------------------------------------------------------------------------------------------------------
DIGITS = "0123456789abcdefghijklmnopqrstuvwxyz"


def first_row(urwid, walker, body, cw):
    """Which row of the list is on the top line of the view: [item number (1-based), row inside that item]; [0, 0] when the list is
    empty or several runs of rows look the same, [-1, -1] when the lines shown are not a run of consecutive rows of the items
    (each item rendered on its own at the width the ListBox was given) followed by blank lines."""
    flat = []
    for i, wd in enumerate(walker):
        for r, ln in enumerate(wd.render((cw,), False).text):
            flat.append((i + 1, r, ln.decode("utf-8").rstrip()))
    if not flat:
        return [0, 0]
    view = [b.rstrip() for b in body]
    cands = [g for g in range(len(flat))
             if all((flat[g + k][2] if g + k < len(flat) else "") == view[k] for k in range(len(view)))]
    if len(cands) == 1:
        return [flat[cands[0]][0], flat[cands[0]][1]]
    return [0, 0] if cands else [-1, -1]


def _lazy_walker(urwid, widgets, hint):
    """A list walker over `widgets` that does not know its length: no __len__, only an ESTIMATE (__length_hint__) that may be
    lower than the real length (lazily generated lists)."""

    class LazyWalker(urwid.ListWalker):
        def __init__(self):
            self.focus = 0

        def __length_hint__(self):
            return hint

        def _get(self, pos):
            if pos is None or not 0 <= pos < len(widgets):
                return None, None
            return widgets[pos], pos

        def get_focus(self):
            return self._get(self.focus)

        def set_focus(self, position):
            if not 0 <= position < len(widgets):
                raise IndexError(position)
            self.focus = position
            self._modified()

        def get_next(self, position):
            return self._get(position + 1)

        def get_prev(self, position):
            return self._get(position - 1)

    return LazyWalker()


def listbox_history(items, w, h, ops, bar=(1, "right"), held=False, hint=None):
    """items: [typ, n]: typ 0 = Text of n lines, 1 = Text of n cells wrapped anywhere, 2 = multi-line Edit of n lines.
    ops: ('key', k) | ('set', idx, n) (height changed IN PLACE, the walker is not told) | ('append', typ, n) | ('pop', idx)
         | ('h', n) | ('w', n) | ('wheel', b) | ('click', col, row) | ('render',)
    held: every canvas rendered in the history stays referenced.
    hint: None = a sized walker (SimpleFocusListWalker); a number = a walker without __len__ whose __length_hint__ answers that
          number whatever the real length is (ops 'append' / 'pop' are not used there)."""
    import urwid

    urwid.set_encoding("utf-8")
    barw, side = bar

    def text_for(typ, n, i):
        if typ == 1:
            return "".join(CHARS[(i * 5 + j) % len(CHARS)] for j in range(n))
        return "\n".join(f"{_label(i)}{DIGITS[j % len(DIGITS)]}" for j in range(max(1, n)))

    def build(typ, n, i):
        if typ == 1:
            return urwid.Text(text_for(1, n, i), wrap="any")
        if typ == 2:
            return urwid.Edit("", text_for(2, n, i), multiline=True)
        return urwid.Text(text_for(0, n, i))

    widgets = [build(t, n, i) for i, (t, n) in enumerate(items)]
    if hint is None:
        walker = content = urwid.SimpleFocusListWalker(list(widgets))
    else:
        content = list(widgets)
        walker = _lazy_walker(urwid, content, hint)
    lb = urwid.ListBox(walker)
    log = []
    _spy(lb, log, "box")
    sb = urwid.ScrollBar(lb, thumb_char=THUMB, trough_char=TROUGH, side=side, width=barw)
    common = {"hasbar": 1, "barw": barw, "left": 1 if side == "left" else 0}
    ev = []
    keep = []
    state = {"w": w, "h": h}

    def model_items():
        out = []
        for wd in content:
            if isinstance(wd, urwid.Edit):
                out.append([0, wd.edit_text.count("\n") + 1])
            elif wd.wrap == "any":
                out.append([1, len(wd.text)])
            else:
                out.append([0, wd.text.count("\n") + 1])
        return out

    def render(after="init"):
        e = {"t": "lbrender", "exc": "", "after": after, "items": model_items(), "w": state["w"], "h": state["h"], **common, "bar": 0, "top": 0, "thumb": 0,
             "bottom": 0, "calls": [], "cw": state["w"], "p": 0, "rmax": 0, "fvp": 0, "first": [0, 0], "cached": 0, "fitem": 0,
             "hint": len(content) if hint is None else hint, "sized": 1 if hint is None else 0}
        del log[:]
        try:
            canv = sb.render((state["w"], state["h"]), True)
            if held:
                keep.append(canv)
            e["cached"] = 0 if any(c["fn"] == "render" for c in log) else 1
            if canv.rows() != state["h"] or canv.cols() != state["w"]:
                e["exc"] = f"size{canv.cols()}x{canv.rows()}"
            else:
                body, drawn, parts = split_bar(canv, state["w"], barw, side)
                e["bar"] = 1 if drawn else 0
                e["top"], e["thumb"], e["bottom"] = parts
                e["calls"], _, _ = _calls(log, "render")
                e["cw"] = state["w"] - barw if drawn else state["w"]
                e["p"] = lb.get_scrollpos((e["cw"], state["h"]), True)
                e["rmax"] = lb.rows_max((e["cw"], state["h"]), True)
                e["fvp"] = lb.get_first_visible_pos((e["cw"], state["h"]), True)
                e["first"] = first_row(urwid, content, body, e["cw"])
                e["fitem"] = (walker.focus + 1) if len(content) and walker.focus is not None else 0      # counted for vacuity only
        except Exception as ex:  # noqa: BLE001
            e["exc"] = type(ex).__name__
        ev.append(e)

    render()
    for op in ops:
        size = (state["w"], state["h"])
        if op[0] in ("key", "wheel", "click"):
            fn = "keypress" if op[0] == "key" else "mouse_event"
            del log[:]
            exc = ""
            pos = (min(op[1], size[0] - 1), min(op[2], size[1] - 1)) if op[0] == "click" else (0, 0)
            try:
                if op[0] == "key":
                    sb.keypress(size, op[1])
                elif op[0] == "wheel":
                    sb.mouse_event(size, "mouse press", op[1], 0, 0, True)
                else:
                    sb.mouse_event(size, "mouse press", 1, pos[0], pos[1], True)
            except Exception as ex:  # noqa: BLE001
                exc = type(ex).__name__
            box, _, _ = _calls(log, fn)
            e = {"t": "key" if op[0] == "key" else "mouse", "exc": exc, "key": str(op[1]) if op[0] == "key" else f"{op[0]}{op[1]}", "button": 0, "reached": 0, "fn": fn,
                 **common, "calls": box, "inner": []}
            if op[0] != "key":
                e["col"], e["row"] = pos
                e["boxpos"], e["innerpos"] = _positions(log)[0], []
            ev.append(e)
        elif op[0] == "set" and len(content):
            wd = content[op[1] % len(content)]
            if isinstance(wd, urwid.Edit):
                wd.set_edit_text(text_for(2, op[2], op[1]))
            elif wd.wrap == "any":
                wd.set_text(text_for(1, op[2], op[1]))
            else:
                wd.set_text(text_for(0, op[2], op[1]))
        elif op[0] == "append" and hint is None:
            walker.append(build(op[1], op[2], len(walker) + 7))
        elif op[0] == "pop" and len(walker) and hint is None:
            del walker[op[1] % len(walker)]
        elif op[0] == "h":
            state["h"] = op[1]
        elif op[0] == "w":
            state["w"] = op[1]
        render(op[0])
    del keep[:]
    return {"kind": "listbox", "total": 0, "items": [list(i) for i in items], "w": w, "h": h, "ops": [list(o) for o in ops], "bar": list(bar),
            "eat": [], "lazy": 0, "cseed": 0, "held": 1 if held else 0, "hint": -1 if hint is None else hint, "ev": ev}


def lazy_lb_histories(rng, quick):
    """ListBox over a walker that only ESTIMATES its length (no __len__, a __length_hint__ below the real length), long enough for the
    ScrollBar's item-based (relative) protocol, walked through EVERY position to the end and back: past the estimate the first
    visible item exceeds the estimated maximum."""
    out = []
    for h, n, hint in ((5, 40, 18), (3, 24, 10), (2, 15, 7), (4, 30, 29), (1, 9, 4)) if quick else \
            [(h, n, hint) for h in (1, 2, 3, 4, 5, 6) for n in (3 * h + 3, 6 * h + 5, 10 * h) for hint in (3 * h + 1, (3 * h + 1 + n) // 2, n - 1)]:
        items = [[0, 1] for _ in range(n)]
        ops = [("key", "down")] * (n + 1) + [("key", "up")] * 3 + [("key", "page up")] * 2 + [("key", "page down")] * 3
        out.append(listbox_history(items, 8, h, ops, bar=(1, "right"), hint=hint))
    for _ in range(6 if quick else 200):
        h = rng.randint(1, 6)
        n = rng.randint(3 * h + 4, 8 * h + 6)
        hint = rng.randint(3 * h + 1, n - 1)
        items = [[rng.choice([0, 0, 1, 2]), rng.randint(1, 3)] for _ in range(n)]
        ops = []
        for _k in range(rng.randint(3, 8)):
            r = rng.random()
            if r < 0.75:
                ops += [("key", rng.choice(["down", "down", "page down", "page down", "up", "page up"]))] * rng.randint(1, n)
            elif r < 0.85:
                ops += [("wheel", rng.choice([4, 5]))] * rng.randint(1, 3)
            elif r < 0.92:
                ops.append(("h", rng.randint(1, min(6, (hint - 1) // 3))))
            else:
                ops.append(("set", rng.randint(0, n - 1), rng.choice([1, 2, 3])))
        out.append(listbox_history(items, rng.randint(6, 10), h, ops, bar=rng.choice([(1, "right"), (2, "left")]), held=rng.random() < 0.3, hint=hint))
    return out


def random_lb(rng, quick, held=False):
    h = rng.randint(1, 6)
    w = rng.randint(6, 10)       # at least 3 columns beside the widest bar: the two-cell lines (plus the Edit cursor) never wrap
    relative = rng.random() < 0.2
    n_items = rng.randint(3 * h + 1, 3 * h + 6) if relative else rng.randint(0, min(3 * h, 7))
    items = []
    for _ in range(n_items):
        typ = rng.choice([0, 0, 1, 2])
        items.append([typ, rng.randint(0, 14) if typ == 1 else rng.randint(1, 3)])
    ops = []
    for _ in range(rng.randint(2, 9 if quick else 14)):
        r = rng.random()
        if r < 0.3:
            ops.append(("key", rng.choice(["down", "up", "page down", "page up", "home", "end", "enter"])))     # "enter" splits a line of a multi-line Edit: one more row, in place
        elif r < 0.62:
            typn = rng.choice([1, 1, 2, 3, 5, 8, 12, 20])
            ops.append(("set", rng.randint(0, 9), typn))
        elif r < 0.7:
            ops.append(("append", rng.choice([0, 1, 2]), rng.randint(1, 6)))
        elif r < 0.76:
            ops.append(("pop", rng.randint(0, 9)))
        elif r < 0.82:
            ops.append(("h", rng.randint(1, 6)))
        elif r < 0.86:
            ops.append(("w", rng.randint(6, 10)))
        elif r < 0.92:
            ops.append(("wheel", rng.choice([4, 5])) if rng.random() < 0.5 else ("click", rng.randint(0, 3), rng.randint(0, h - 1)))
        else:
            ops.append(("render",))
    return listbox_history(items, w, h, ops, bar=rng.choice([(1, "right"), (1, "right"), (2, "left"), (3, "right")]), held=held)


def lb_scroll_ops(rng, n_rows, h, quick):
    """Key histories that walk a list: runs of one key, there and back again."""
    if rng is None:      # the plain walk: to the end line by line, back line by line, then by pages
        return [("key", "down")] * (n_rows + 1) + [("key", "up")] * (n_rows + 1) + [("key", "page down")] * 3 + [("key", "page up")] * 3
    ops = []
    for _ in range(rng.randint(2, 5 if quick else 8)):
        r = rng.random()
        if r < 0.8:
            k = rng.choice(["down", "down", "up", "up", "page down", "page up", "home", "end"])
            ops += [("key", k)] * rng.randint(1, 1 if k in ("home", "end") else max(2, min(n_rows, 7)))
        elif r < 0.9:
            ops += [("wheel", rng.choice([4, 5]))] * rng.randint(1, 3)
        elif r < 0.95:
            ops.append(("h", rng.randint(1, 6)))
        else:
            ops.append(("click", rng.randint(0, 3), rng.randint(0, h - 1)))
    return ops


def random_lb_scroll(rng, quick):
    """A short list (rows are counted, not items) of items of one to h + 3 rows, walked with keys."""
    h = rng.randint(1, 6)
    w = rng.randint(6, 10)
    items = []
    for _ in range(rng.randint(1, min(3 * h, 6))):
        typ = rng.choice([0, 0, 0, 1, 2])
        rows = rng.choice([1, 2, 2, 3, 3, 4, h + 1, h + 3])
        items.append([typ, rows * 3 - rng.randint(0, 2) if typ == 1 else rows])     # wrapped: that many cells (rows at 3 columns; fewer when wider)
    n_rows = sum(max(1, n) for _t, n in items)
    return listbox_history(items, w, h, lb_scroll_ops(rng, n_rows, h, quick), bar=rng.choice([(1, "right"), (1, "right"), (2, "left"), (3, "right")]),
                           held=rng.random() < 0.3)


def held_histories(quick):
    """A view rendered at size (or focus) A, then at B, then at A again while every canvas stays referenced: B shows fewer /
    more rows or columns, so the position is clamped by B's rendering without any key - or is not, and the frame held for A is
    still good."""
    out = []
    starts = [[("setpos", -1)], [("key", "end")], [("setpos", 50)], [("key", "page down"), ("key", "page down")], [("setpos", 2)], []]
    kinds = ("probe", "text", "fixed", "wtext", "edit") if quick else ("probe", "text", "fixed", "wtext", "edit", "pile")
    n = 0
    for kind in kinds:
        for total in (4, 7, 12) if quick else (3, 4, 7, 9, 12):
            for ha in (1, 2, 4) if quick else (1, 2, 3, 4):
                for hb in (ha + 1, ha + 3, total - 1, total + 2):
                    if hb <= ha:
                        continue
                    for start in starts:
                        n += 1
                        if quick and n % 3:
                            continue
                        bar = (None, (1, "right"), (2, "left"))[n % 3 if not quick else (n // 3) % 3]
                        tail = [[], [("key", "up")], [("h", hb), ("h", ha)], [("wheel", 4)], [("key", "down"), ("h", hb)]][n % 5]
                        t = total * 3 if kind == "wtext" else total
                        out.append(run_history(kind, t, 7, ha, [*start, ("h", hb), ("h", ha), *tail], bar=bar, held=True, cseed=n))
                        if n % 4 == 0:     # the same with the focus flag as the other key of the cache
                            out.append(run_history(kind, t, 7, ha, [("focus", 0), *start, ("focus", 1), ("h", hb), ("focus", 0), ("h", ha), *tail],
                                                   bar=bar, held=True, cseed=n))
                        if n % 4 == 1:     # ... and with the width: wrapped content has more rows in a narrower view
                            out.append(run_history(kind, t, 8, ha, [*start, ("w", 5), ("w", 8), ("h", hb), ("w", 5), ("h", ha), ("w", 8), *tail],
                                                   bar=bar, held=True, cseed=n))
    return out


MC_CFG = """CONSTANTS MaxTotal = {t} MaxH = {h} Depth = {d} W = 6 Sticky = {s} Frames = "{f}"
SPECIFICATION Spec
INVARIANT AfterRender
INVARIANT ClampOnly
INVARIANT HeldFramesFresh
INVARIANT BarState
INVARIANT DeliveredWidth
INVARIANT OrdersAgreeInRange
INVARIANT GeometrySatisfiable
CHECK_DEADLOCK FALSE
"""


SOFT = "mouse_position_relative_to_wrapped_widget"   # beyond the sentences of C20: DIVERGENCE, and the rest of the history is still judged


# clause -> trace flag that switches it off for a second pass, so that the rest of the history is still judged: the soft clause, and
# the clause of a known finding (findings/C20.json) where TLC's rejection matched its signature
SECOND_PASS = {SOFT: "nopos", "child_gets_width_minus_bar.keypress": "nocsize", "child_gets_width_minus_bar.mouse_event": "nocsize",
               "thumb_never_moves_up_when_position_increases": "nofollow"}


def _validate(chk, name, traces, **kw):
    for tr in traces:
        tr.setdefault("nopos", 0)
        tr.setdefault("nocsize", 0)
        tr.setdefault("nofollow", 0)
    res = tlc.validate("ScrollableTrace", traces, **kw)
    chk.add_tv(name, res)
    todo = traces
    for rnd in range(4):
        again = {}
        for ti, verdict in _handle(chk, todo, res):
            again.setdefault(ti, set()).add(verdict)
        if not again or rnd == 3:     # three flags: at most three further passes
            break
        todo = [dict(todo[ti], **{flag: 1 for flag in flags}) for ti, flags in sorted(again.items())]
        res = tlc.validate("ScrollableTrace", todo, **kw)
        chk.add_tv(f"{name}_pass{rnd + 2}_" + "_".join(sorted({f for fl in again.values() for f in fl})), res)


def _lb_cached_in_window(evs):
    """Signature only: among the renderings of the same list content in the same view as the last one (the renderings TLC compares
    the thumb with), was one answered by the canvas cache?"""
    last = evs[-1]
    cfg = (last["items"], last["cw"], last["h"])
    for x in reversed(evs):
        if x["t"] != "lbrender":
            continue
        if (x["items"], x["cw"], x["h"]) != cfg:
            break
        if x.get("cached"):
            return 1
    return 0


def _handle(chk, traces, res):
    """Report TLC's rejections; returns (trace index, flag) for the histories to be judged again without one clause."""
    again = []
    for ti, l, why in res.rejects:
        tr = traces[ti]
        e = tr["ev"][l - 1]
        if why == SOFT:
            chk.divergence(SOFT, {"kind": tr["kind"], "bar": tr["bar"], "w": tr["w"], "h": tr["h"], "observed": {k: e[k] for k in ("col", "row", "boxpos", "innerpos") if k in e}})
            again.append((ti, SECOND_PASS[SOFT]))
            continue
        isr = e["t"] in ("render", "lbrender")
        onscreen = [x for x in tr["ev"][:l - 1] if x["t"] in ("render", "lbrender")]
        sig = {"side": (tr["bar"][1] if tr["bar"] else ""), "bar_on_screen": onscreen[-1]["bar"] if onscreen else 0,
               "frame_from_cache": onscreen[-1].get("cached", 0) if onscreen and not isr else (e.get("cached", 0) if isr else 0),
               "lb_cached_frame_same_content": _lb_cached_in_window(tr["ev"][:l]) if e["t"] == "lbrender" else 0,
               "kind": tr["kind"], "event": e["t"], "exc": e.get("exc", ""), "h": e.get("h", 0), "bar": e.get("bar", 0),
               "fits": int(e.get("total", 0) <= e.get("h", 0)) if e["t"] == "render" else -1, "hasbar": e.get("hasbar", 0) if isr else -1}
        rp = {k: tr[k] for k in ("kind", "total", "w", "h", "bar", "eat", "lazy", "cseed", "held")}
        rp["ops"] = tr["ops"]       # the whole history (events do not map one-to-one to ops); the verdict names the event
        if tr["kind"] == "listbox":
            rp["items"] = tr["items"]
            rp["hint"] = tr.get("hint", -1)
        rp["observed"] = e
        rp["event_index"] = l
        if chk.reject(f"C20.{why}", sig, rp) == "known" and why in SECOND_PASS:
            again.append((ti, SECOND_PASS[why]))
    return again


def _vacuity_counts(traces):
    """Python only COUNTS what the generated histories exercised (no verdicts)."""
    kinds = {}
    nontriv = set()

    def bump(k):
        kinds[k] = kinds.get(k, 0) + 1

    for t in traces:
        lastr = None
        quiet = True
        nren = 0
        latent = False        # a scroll key reached the Scrollable while the content fitted
        frames = {}           # held histories: (w, h, focus, total) -> position of the last rendering of that view since the last key / position
        lastkey = ""
        for e in t["ev"]:
            k = f"{t['kind']}.{e['t']}" + (".bar" if e.get("bar") else "")
            bump(k)
            if t.get("held") and e["t"] in ("render", "lbrender") and not e["exc"]:
                bump("held.render")
                if e["cached"]:
                    bump("held.frame_answered_by_cache")
            if t.get("held") and e["t"] == "render" and not e["exc"]:
                key = (e["w"], e["h"], e["focus"], e["total"])
                if key in frames and frames[key] != e["p"]:
                    bump("held.same_view_again_after_rendering_moved_position")
                    if e["bar"]:
                        bump("held.same_view_again_after_rendering_moved_position.bar")
                if len({kk[2] for kk in frames} | {e["focus"]}) > 1:
                    bump("held.both_focus_states")
                frames[key] = e["p"]
            elif e["t"] in ("key", "mouse", "consumed", "setpos"):
                frames = {}
            if e["t"] == "lbrender" and not e["exc"]:
                if e["first"][0] > 0:
                    bump("listbox.top_row_identified")
                    if e["first"][1] > 0:
                        bump("listbox.first_item_cut_at_top")
                        if e["fitem"] == e["first"][0]:
                            bump("listbox.first_item_cut_at_top.is_focus")
                            if lastkey in ("up", "page up"):
                                bump("listbox.first_item_cut_at_top.is_focus.after_up")
                        if e["hint"] > 3 * e["h"]:
                            bump("listbox.first_item_cut_at_top.relative")
                    if lastr is not None and lastr.get("t") == "lbrender" and e["bar"] and lastr["bar"] and e["hint"] <= 3 * e["h"] \
                            and (e["items"], e["cw"], e["h"]) == (lastr["items"], lastr["cw"], lastr["h"]) and e["first"] != lastr["first"]:
                        bump("listbox.thumb_followed_to_another_position")
                elif e["items"]:
                    bump("listbox.top_row_not_identified")
                if t.get("held") and e["cached"] and lastr is not None and lastr.get("t") == "lbrender" and lastr["items"] != e["items"]:
                    bump("listbox.held.cached_frame_after_inplace_change")
            if e["t"] == "key":
                lastkey = e["key"]
            if e["t"] == "render":
                if t["kind"] == "cols" and not e["exc"] and e.get("p", 0) > 3 and e["total"] > e["h"]:
                    bump("cols.cut_inside_cells_spanning_row_groups")
                if e.get("p", 0) > 0:
                    nontriv.add((t["kind"], e["total"], e["h"], e["p"], e.get("bar", 0)))
                fits = e["total"] <= e["h"]
                if lastr is not None and quiet and e["exact"]:
                    bump("quiet_render")
                    if lastr["total"] <= lastr["h"] and not fits:
                        bump("quiet_render.fit_to_overflow")
                        if latent:
                            bump("quiet_render.fit_to_overflow.after_key_while_fitting")
                if not fits:
                    latent = False
                if t.get("lazy") and not quiet:
                    bump("lazy_render")
                lastr, quiet = e, True
                nren += 1
            elif e["t"] == "lbrender":
                exactrows = e["hint"] <= 3 * e["h"]
                if not e["sized"] and not exactrows:
                    bump("listbox.estimated_length.relative")
                    if e["hint"] < len(e["items"]) and not e["exc"] and e["fvp"] > e["hint"]:
                        bump("listbox.estimated_length.first_visible_past_the_estimate")
                inplace = e["after"] == "set"
                if lastr is not None and inplace and exactrows and nren >= 2 and e["w"] == lastr["w"] and e["h"] == lastr["h"] and not e["exc"]:
                    bump("listbox.inplace_change.same_size")
                    if e["bar"] != lastr["bar"]:
                        bump("listbox.inplace_change.bar_appears_or_goes")
                if not exactrows:
                    bump("listbox.relative")
                lastr = e
                nren += 1
            elif e["t"] in ("key", "mouse", "consumed") and e.get("hasbar") and e.get("calls"):
                if e["fn"] == "mouse_event" and e["key"].startswith("click") and lastr and lastr["bar"]:
                    bump("sb.click.bar_" + ("left" if e["left"] else "right"))
                bump(f"sb.{e['fn']}." + ("bar" if lastr and lastr["bar"] else "nobar"))
                if e["inner"]:
                    bump(f"sb.{e['fn']}.reaches_flow_widget." + ("bar" if lastr and lastr["bar"] else "nobar"))
            if e["t"] in ("key", "mouse", "setpos"):
                quiet = False
                if e["t"] == "key" and e.get("reached") and e["key"] in KEYS and lastr is not None and t["kind"] != "listbox" \
                        and lastr["total"] <= lastr["h"]:
                    latent = True
    return kinds, nontriv


def generate(chk, quick):
    rng = chk.rng
    traces = []
    # ---- spec -> code: every (total, h, p) for the thumb geometry (sweep p upwards: monotonicity) ----
    maxt, maxh = (9, 6) if quick else (14, 9)
    for total in range(0, maxt + 1):
        for h in range(1, maxh + 1):
            for bar in ((1, "right"), (2, "left")):
                ops = [("setpos", p) for p in range(0, max(0, total - h) + 2)]
                traces.append(run_history("probe", total, 7, h, ops, bar=bar, sweep=True))
    # ---- exhaustive short histories from every (total, h) without a bar ----
    basic = [("key", k) for k in KEYS] + [("setpos", v) for v in (-3, -1, 0, 2, 50)] + [("total", 0), ("total", 7), ("h", 1), ("h", 5)]
    for total in (0, 1, 3, 6):
        for h in (1, 2, 4):
            for a in basic:
                for b in basic:
                    traces.append(run_history("probe", total, 6, h, [a, b]))
    # ---- fits, then stops fitting: keys pressed while everything is visible, renderings, then the view shrinks / the content grows
    bars = (None, (1, "right"), (2, "left"))
    for kind in ("probe", "text", "fixed", "wtext") if quick else ("probe", "text", "fixed", "wtext", "edit"):
        for total in (1, 2, 3) if quick else (1, 2, 3, 5):
            for hfit in (total, total + 2):
                for keys in [[k] for k in KEYS] + ([["down", "down"], ["page down", "up"]] if not quick else []):
                    for extra in (0, 1, 2) if not quick else (0, 1):
                        for change in (("h", 1), ("total", hfit + 1), ("total", hfit + 4)) + ((("h", max(1, total - 1)),) if total > 2 else ()):
                            bar = bars[len(traces) % 3]
                            n = total if kind != "wtext" else 1
                            ops = [("key", k) for k in keys] + [("render",)] * extra + [change, ("render",)]
                            if kind == "wtext" and change[0] == "total":
                                ops[-2] = ("total", change[1] * 3)
                            traces.append(run_history(kind, n, 7, hfit if kind != "wtext" else hfit + 1, ops, bar=bar, lazy=len(keys) > 1))
    # ---- widths handed to the wrapped widget: content fits / does not fit x bar options x every kind of input ----
    inputs = [("key", k) for k in KEYS + ["a", "left", "right"]] + [("wheel", 4), ("wheel", 5), ("click", 0, 0), ("click", 2, 1), ("click", 4, 0)]
    for kind in ("probe", "edit", "pile", "text"):
        for bar in ((1, "right"), (2, "left"), (3, "right")):
            for total, h in ((2, 6), (6, 2)) if kind != "pile" else ((1, 12), (3, 3)):
                for cseed in (0, 1) if quick else (0, 1, 2, 3, 4, 5):
                    for a in inputs:
                        b = inputs[(len(traces) * 7 + cseed) % len(inputs)]
                        traces.append(run_history(kind, total, 9, h, [a, b], bar=bar, cseed=cseed))
    # ---- content whose cells span several row groups of the canvas (Pile > Columns of unequal cells): EVERY scroll position ----
    for k in (3, 6) if quick else (2, 3, 4, 6, 9):
        for h in (2, 4) if quick else (1, 2, 3, 4, 6):
            for cseed in (0, 1, 5) if quick else range(6):
                for bar in (None, (1, "right")):
                    ops = [("setpos", p) for p in range(1, k + 9)] + [("key", "up")] * 3 + [("key", "page up"), ("key", "down")]
                    traces.append(run_history("cols", k, 8, h, ops, bar=bar, cseed=cseed, held=cseed == 5))
    # ---- seeded random histories: kinds x bar x consumption x lazy ----
    n_rand = 1500 if quick else 60000
    kinds = ["probe", "probe", "fixed", "text", "wtext", "edit", "pile", "cols"]
    for i in range(n_rand):
        kind = kinds[i % len(kinds)]
        bar = [None, (1, "right"), (2, "left"), (1, "left")][(i // len(kinds)) % 4]
        eat = rng.choice([(), (), ("down", "page down"), ("up", "wheel"), ("home", "end", "wheel")]) if kind == "probe" else ()
        lazy = rng.random() < 0.3
        held = (i // (4 * len(kinds))) % 2 == 1
        traces.append(run_history(kind, rng.randint(0, 12), rng.randint(4, 9), rng.randint(1, 6),
                                  random_ops(rng, rng.randint(3, 12), 12, 6, mouse=True, focus=held), bar=bar, eat=eat, lazy=lazy,
                                  cseed=rng.randint(0, 20), held=held))
    # ---- ListBox under ScrollBar ----
    # every small list: one item grows / shrinks in place after two renderings, then back
    for h in (2, 4):
        for n_items in (1, 2, 3):
            for typ in (0, 1, 2):
                for grow in (2, 5, 9, 30):
                    for idx in range(n_items):
                        items = [[typ if j == idx else 0, 1] for j in range(n_items)]
                        ops = [("render",), ("render",), ("set", idx, grow), ("render",), ("set", idx, 1), ("key", "down"), ("set", idx, grow)]
                        traces.append(listbox_history(items, 8, h, ops, bar=((1, "right"), (2, "left"))[len(traces) % 2]))
    for i in range(250 if quick else 6000):
        traces.append(random_lb(rng, quick, held=i % 3 == 0))
    # a short list of items of several rows walked with keys: every list of 1..3 items (heights up to view + 2) to the end and back
    # (the first visible item is cut at the top on the way back, and whenever an item is taller than the view), then random walks
    for h in (2, 3) if quick else (2, 3, 4, 5):
        hs = (1, 2, h + 2) if quick else (1, 2, 3, h, h + 2)
        lists = [[a] for a in hs] + [[a, b] for a in hs for b in hs] + [[a, b, c] for a in hs for b in hs for c in hs]
        for li, heights in enumerate(lists):
            if quick and len(heights) == 3 and (li + h) % 3:
                continue
            typ = (0, 0, 2, 1)[li % 4]
            items = [[typ if j == li % len(heights) else 0, (x * 4 - 1) if (typ == 1 and j == li % len(heights)) else x] for j, x in enumerate(heights)]
            traces.append(listbox_history(items, 5 if typ == 1 else 7, h, lb_scroll_ops(None, sum(heights), h, quick), bar=(1, "right"), held=li % 2 == 1))
    for i in range(200 if quick else 5000):
        traces.append(random_lb_scroll(rng, quick))
    # an item scrolled out above the view changes its height in place while the frames stay referenced: the rows shown stay, the position moves
    for h in (2, 4) if quick else (2, 3, 4, 5):
        for downs in (3, 5):
            for a, b in ((2, 9), (9, 2), (3, 20)):
                ops = [("key", "down")] * downs + [("set", 0, b), ("render",), ("key", "up"), ("key", "down"), ("set", 0, a), ("render",), ("key", "down")]
                for held in (True, False):
                    traces.append(listbox_history([[0, a], [2, 1], [0, h + 3], [0, 2]], 8, h, ops, bar=((1, "right"), (2, "left"))[len(traces) % 2], held=held))
    # ---- a walker that only estimates its length (too low): the item-based protocol past the estimate ----
    traces += lazy_lb_histories(rng, quick)
    # ---- held canvases: size / focus A, B, A ----
    traces += held_histories(quick)
    return traces


def run(chk):
    quick = chk.tier == "quick"
    import concurrent.futures as cf

    # ---- model checking and the unbounded proof run beside the generation of the histories ----
    obligations = [("base", "Init", "IndInv", 0, "NoError"), ("step", "IndInit", "IndInv", 1, "NoError"), ("implies_safe", "IndInit", "Safe", 0, "NoError")]
    if not quick:
        obligations.append(("step_refutes_too_strong", "IndInit", "NeverAtEnd", 1, "Error"))
    with cf.ThreadPoolExecutor(len(obligations) + 4) as ex:
        f_mc = ex.submit(tlc.mc, "Scrollable", MC_CFG.format(t=5 if quick else 8, h=4 if quick else 5, d=5 if quick else 6, s="FALSE", f="none"),
                         timeout=2400, workers=4 if quick else 6)
        f_sticky = ex.submit(tlc.mc, "Scrollable", MC_CFG.format(t=3, h=3, d=4, s="TRUE", f="none"), timeout=600, workers=1)
        # frames that stay referenced (one per view height): sound invalidation holds, the lazy variant is refuted
        f_held = ex.submit(tlc.mc, "Scrollable", MC_CFG.format(t=3 if quick else 5, h=3 if quick else 4, d=6 if quick else 7, s="FALSE", f="held"),
                           timeout=2400, workers=2 if quick else 4)
        f_lazy = ex.submit(tlc.mc, "Scrollable", MC_CFG.format(t=3, h=2, d=7, s="FALSE", f="lazy"), timeout=600, workers=1)
        futs = [(ob, ex.submit(tlc.apalache, "ScrollableInd", ob[1], ob[2], ob[3], 240)) for ob in obligations]
        traces = generate(chk, quick)
        r = f_mc.result()
        chk.add_mc("MC_Scrollable", r)
        if not r.ok:
            chk.reject("C20.model." + str(r.violated), {"model": "Scrollable"}, {"tlc_trace": r.trace[-5:]})
        rh = f_held.result()
        chk.add_mc("MC_Scrollable_held_frames", rh)
        if not rh.ok:
            chk.reject("C20.model.held_frames." + str(rh.violated), {"model": "Scrollable", "frames": "held"}, {"tlc_trace": rh.trace[-7:]})
        rs = f_sticky.result()
        rl = f_lazy.result()
        chk.cov["refuted_variants"] = {"Sticky (a key pressed while the content fits stays pending)": str(rs.violated),
                                       "Frames = lazy (a rendering that moves the position keeps the frames held for other sizes)": str(rl.violated)}
        if rs.ok or rs.violated != "ClampOnly":
            chk.reject("C20.model.sticky_variant_not_refuted", {"model": "Scrollable", "violated": str(rs.violated)}, {"tlc_trace": rs.trace[-5:]})
        if rl.ok or rl.violated not in ("HeldFramesFresh", "AfterRender"):
            chk.reject("C20.model.lazy_frames_variant_not_refuted", {"model": "Scrollable", "violated": str(rl.violated)}, {"tlc_trace": rl.trace[-5:]})
        apa = []
        for ob, f in futs:
            res = f.result()
            res["obligation"], res["expected"] = ob[0], ob[4]
            apa.append(res)
            if res["outcome"] == "unavailable":
                chk.vacuity.append("apalache." + ob[0] + " did not run")
            elif res["outcome"] != ob[4]:
                chk.reject("C20.model.apalache." + ob[0], {"model": "ScrollableInd", "outcome": res["outcome"]}, {"apalache": res})
    chk.cov["apalache_inductive"] = apa
    _validate(chk, "TV_ScrollableTrace", traces, batch_events=20000, timeout=2400, jobs=4)
    kinds, nontriv = _vacuity_counts(traces)
    chk.cov["clause_counts"] = kinds
    chk.cov["distinct_nontrivial"] = len(nontriv)
    chk.cov["rule"] = ("histories of keys / set_scrollpos / wheel / clicks / resize / content change on real Scrollable and ScrollBar objects around a "
                       "row-labelled flow probe, a fixed widget, Text (explicit lines and wrapped), a multi-line Edit, a Pile of Text and Edit, and a "
                       "ListBox whose items change height in place or that is walked line by line / page by page over items of several rows (position "
                       "computed by TLC from the item heights and the row seen on the top line); histories in which every canvas stays referenced "
                       "(sizes / focus flags A, B, A); every (total, h, p) swept for the bar geometry; sizes recorded at the wrapped "
                       "widget for render / keypress / mouse_event; non-trivial = distinct (kind, total, h, p>0, bar) rendered")
    chk.cov["exhaustive"] = True
    need = ["probe.consumed", "probe.render.bar", "fixed.render", "text.render.bar", "wtext.render.bar", "edit.render.bar", "pile.render.bar",
            "listbox.lbrender.bar", "listbox.lbrender", "listbox.relative", "listbox.estimated_length.relative", "cols.cut_inside_cells_spanning_row_groups",
            "listbox.estimated_length.first_visible_past_the_estimate", "listbox.inplace_change.same_size",
            "listbox.inplace_change.bar_appears_or_goes", "quiet_render.fit_to_overflow.after_key_while_fitting", "lazy_render",
            "sb.keypress.nobar", "sb.keypress.bar", "sb.mouse_event.nobar", "sb.mouse_event.bar",
            "sb.keypress.reaches_flow_widget.nobar", "sb.mouse_event.reaches_flow_widget.nobar", "probe.setpos", "sb.click.bar_left", "sb.click.bar_right",
            "held.render", "held.frame_answered_by_cache", "held.same_view_again_after_rendering_moved_position",
            "held.same_view_again_after_rendering_moved_position.bar", "held.both_focus_states",
            "listbox.top_row_identified", "listbox.first_item_cut_at_top", "listbox.first_item_cut_at_top.is_focus",
            "listbox.first_item_cut_at_top.is_focus.after_up", "listbox.first_item_cut_at_top.relative", "listbox.thumb_followed_to_another_position"]
    # "listbox.held.cached_frame_after_inplace_change" is counted but no longer required: since repo fix (ScrollBar.render not
    # cached) a ScrollBar frame never comes from the cache; the family stays so that a return of the caching is judged
    for v in need:
        if not kinds.get(v):
            chk.vacuity.append("driver." + v)
    chk.sample({k: traces[len(traces) // 2][k] for k in ("kind", "total", "w", "h", "ops", "bar", "eat")})
    chk.sample(traces[len(traces) // 2]["ev"][:3])
    chk.cov["trusted_base"] = ["TLC", "row-labelled probe widgets, the size-recording wrappers and the canvas projection (bar columns, row matching "
                               "against the wrapped widget's own rendering) in vf/props/c20.py"]
    chk.assumptions += ["the position is predicted exactly (ScrollableOps!Shown) where the wrapped widget has no cursor (probe, fixed, Text); with an Edit "
                        "or a Pile inside, the Scrollable also follows the cursor: bounds, slice, bar and width clauses only",
                        "ListBox under ScrollBar: bar drawn / parts / width / rows_max against the model's own content height; the thumb position "
                        "only in exact-row mode (len(body) <= 3 * rows)",
                        "the view is wider than the bar (w > width option)",
                        "ListBox: the row on the top line of the view is identified by matching the lines shown against the items' own renderings "
                        "(first_row); views that match at several places are counted (listbox.top_row_not_identified) and judged on the reported "
                        "position only",
                        "held histories keep every canvas of the history referenced; whether a frame was answered by the cache is read off the "
                        "absence of a render() call at the wrapped widget"]


def replay(chk, path):
    with open(path) as f:
        rp = json.load(f)["replay"]
    if rp["kind"] == "listbox":
        tr = listbox_history(rp["items"], rp["w"], rp["h"], [tuple(o) for o in rp["ops"]], bar=tuple(rp["bar"]), held=bool(rp.get("held")),
                             hint=rp.get("hint") if rp.get("hint", -1) >= 0 else None)
    else:
        tr = run_history(rp["kind"], rp["total"], rp["w"], rp["h"], [tuple(o) for o in rp["ops"]], bar=tuple(rp["bar"]) if rp["bar"] else None,
                         eat=rp["eat"], lazy=bool(rp.get("lazy")), cseed=rp.get("cseed", 0), held=bool(rp.get("held")))
    _validate(chk, "replay", [tr])
    chk.sample(tr["ev"][:3])
    return chk.finish()
