"""X04 — tree browsing (extra layer): urwid/widget/treetools.py TreeNode / ParentNode (lazy loading), TreeWidget (expanded
flag, '+' / '-' / 'right', click on the expand icon, next_inorder / prev_inorder over expanded nodes), TreeWalker and
TreeListBox ('left', '-', 'home', 'end') inside a real ListBox.  Spec: spec/TreeBrowse.tla (+TreeBrowseOps); trace
spec: spec/TreeBrowseTrace.tla.  See tools/EXTRAS_BRIEF.md.

spec -> code: TLC behaviours of TreeBrowse.tla (SimSpec: any tree shape, any set of initially collapsed parents, every
operation class) are stepped through the real objects and the projected state (result, focus node, ListBox row offset,
expanded flag and key of every loaded node, load counts) is compared after every action.
code -> spec: exhaustive short histories + seeded random long ones on the real objects, one event per public call,
validated by TLC against TreeBrowseTrace.tla.  No verdict is computed in Python.
"""
from __future__ import annotations

import concurrent.futures as cf
import itertools
import json
import time

from .. import tlc

WIDTH = 30


def cps(s):
    return [ord(c) for c in s]


def mkop(n, a=0, v=0, key="", ev="", btn=0, col=0, row=0):
    return {"n": n, "a": a, "v": v, "key": key, "ev": ev, "btn": btn, "col": col, "row": row}


def label(n):
    return f"n{n}"


class World:
    """Real TreeNode / ParentNode / TreeWidget / TreeWalker / TreeListBox objects over an in-memory tree, driven by
    abstract operations.  par[n-1] = parent id of node n (0 for the root, node 1); sibling order = id order;
    isp[n-1] = 1: ParentNode; ic: ids whose widget starts collapsed; the subclasses only count the loads."""

    def __init__(self, par, isp, ic=(), height=4, width=WIDTH, leafsel=1):
        from urwid.widget import treetools as tt

        self.tt = tt
        self.par, self.isp = list(par), list(isp)
        self.n = n = len(par)
        self.ic = list(ic) if len(ic) == n else [0] * n          # 0/1 per node: the widget starts collapsed
        self.hk = [0] * n                                        # bookkeeping for the driver: key list cached in the current node object
        self.h, self.w, self.leafsel = height, width, leafsel
        self.size = (width, height)
        self.src_key = {i: i for i in range(1, n + 1)}       # the data source: key of every node
        self.ldk = [0] * n
        self.ldn = [0] * n
        self.nodes = {}
        self.rowtab = {}
        self.kidtab = {p: [c for c in range(1, n + 1) if self.par[c - 1] == p] for p in range(1, n + 1)}
        world = self

        class Text_(tt.TreeWidget):
            def get_display_text(self):
                return label(self.get_node().get_value())

        class SelLeafWidget(Text_):                              # the examples' idiom: selectable leaves
            def selectable(self):
                return True

        class ParentWidget(Text_):                               # the examples' idiom: some directories start collapsed
            def __init__(self, node):
                super().__init__(node)
                if world.ic[node.get_value() - 1]:
                    self.expanded = False
                    self.update_expanded_icon()

        class Leaf(tt.TreeNode):
            def load_widget(self):
                return SelLeafWidget(self) if world.leafsel else Text_(self)

        class Parent(tt.ParentNode):
            def load_widget(self):
                return ParentWidget(self)

            def load_child_keys(self):
                me = self.get_value()
                world.ldk[me - 1] += 1
                world.hk[me - 1] = 1
                return [world.src_key[c] for c in world.kidtab[me]]

            def load_child_node(self, key):
                me = self.get_value()
                c = next(c for c in world.kidtab[me] if world.src_key[c] == key)
                world.ldn[c - 1] += 1
                depth = None if c % 2 else self.get_depth() + 1    # both ways of telling a node its depth
                node = (Parent if world.isp[c - 1] else Leaf)(c, parent=self, key=key, depth=depth)
                world.nodes[c] = node
                return node

        self.root = Parent(1, key=1)
        self.nodes[1] = self.root
        self.walker = tt.TreeWalker(self.root)
        self.lb = tt.TreeListBox(self.walker)

    # ---- helpers ------------------------------------------------------------------------------
    def subtree(self, n):
        out = [n]
        for c in self.kidtab[n]:
            out += self.subtree(c)
        return out

    @staticmethod
    def nid(node):
        return 0 if node is None else node.get_value()

    def loaded(self):
        return sorted(self.nodes)

    # ---- projection (causes no loads) ---------------------------------------------------------------
    def proj(self):
        exp, keys = [], []
        for i in range(1, self.n + 1):
            nd = self.nodes.get(i)
            if nd is None:
                exp.append(2)
                keys.append(0)
            else:
                exp.append(1 if nd.get_widget().expanded else 0)
                keys.append(nd.get_key())
        return {"focus": self.nid(self.walker.get_focus()[1]), "off": min(self.lb.offset_rows, self.h - 1), "exp": exp, "key": keys}

    def render(self):
        c = self.lb.render(self.size, True)
        rows = [self.rowtab.setdefault(tuple(cps(r.decode("utf-8"))), len(self.rowtab) + 1) for r in c.text]
        cur = c.cursor
        return rows, ([] if cur is None else [int(cur[0]), int(cur[1])])

    def walk(self):
        vis, node, last = [], self.root, self.root
        while node is not None and len(vis) <= self.n:
            vis.append(node.get_value())
            last = node
            _w, node = self.walker.get_next(node)
        rvis, node = [], last
        while node is not None and len(rvis) <= self.n:
            rvis.append(node.get_value())
            _w, node = self.walker.get_prev(node)
        return vis, rvis

    # ---- operations -------------------------------------------------------------------------------
    def apply(self, op, render=True, walk=True):
        """Run one abstract operation on the real objects; returns the event recorded at its return."""
        n, a = op["n"], op["a"]
        res, exc, ret, info = "", "", 0, []
        tt = self.tt
        nd = self.nodes.get(a)
        try:
            if n == "key":
                r = self.lb.keypress(self.size, op["key"])
                res = "" if r is None else str(r)
            elif n == "call":                                      # the TreeListBox methods behind the keys, called directly
                getattr(self.lb, op["key"])(self.size)
            elif n == "unhandled":
                r = self.lb.unhandled_input(self.size, op["key"])
                res = "" if r is None else str(r)
            elif n == "wkey":
                r = nd.get_widget().keypress((self.w,), op["key"])
                res = "" if r is None else str(r)
            elif n == "mouse":
                r = self.lb.mouse_event(self.size, op["ev"], op["btn"], op["col"], op["row"], True)
                res = "True" if r else "False"
            elif n == "wmouse":
                r = nd.get_widget().mouse_event((self.w,), op["ev"], op["btn"], op["col"], op["row"], True)
                res = "True" if r else "False"
            elif n == "set_focus":
                self.walker.set_focus(nd)
            elif n == "set_exp":
                w = nd.get_widget()
                w.expanded = bool(op["v"])
                w.update_expanded_icon()
            elif n == "noop":
                pass
            elif n == "next_sibling":
                ret = self.nid(nd.next_sibling())
            elif n == "prev_sibling":
                ret = self.nid(nd.prev_sibling())
            elif n == "first_child":
                ret = self.nid(nd.get_first_child())
            elif n == "last_child":
                ret = self.nid(nd.get_last_child())
            elif n == "has_children":
                ret = 1 if nd.has_children() else 0
            elif n == "info":
                idx = nd.get_index()
                info = [nd.get_depth(), 0 if idx is None else idx + 1, self.nid(nd.get_parent()), self.nid(nd.get_root()), 1 if nd.is_root() else 0]
            elif n == "wnext":
                ret = self.nid(self.walker.get_next(nd)[1])
            elif n == "wprev":
                ret = self.nid(self.walker.get_prev(nd)[1])
            elif n == "wfirst":
                w = nd.get_widget().first_child()
                ret = 0 if w is None else w.get_node().get_value()
            elif n == "wlast":
                w = nd.get_widget().last_child()
                ret = 0 if w is None else w.get_node().get_value()
            elif n == "rename":
                old, new = nd.get_key(), op["v"]
                self.src_key[a] = new                              # the data source renames the entry ...
                try:
                    if new % 2:
                        nd.change_key(new)                         # ... and tells the tree (either spelling)
                    else:
                        nd.get_parent().change_child_key(old, new)
                except Exception:
                    self.src_key[a] = old
                    raise
            elif n == "reload_keys":
                nd.get_child_keys(reload=True)
            elif n == "reload_node":
                for d in self.subtree(a):
                    self.hk[d - 1] = 0
                    if d != a:
                        self.nodes.pop(d, None)                    # node objects below the old object are orphans now
                ret = self.nid(nd.get_parent().get_child_node(nd.get_key(), reload=True))
            else:
                raise AssertionError(n)
        except tt.TreeWidgetError:
            exc = "TreeWidgetError"
        except AssertionError:
            raise
        except Exception as ex:  # noqa: BLE001 - recorded, judged by the trace specification
            exc = type(ex).__name__
        e = {"op": op, "res": res, "exc": exc, "ret": ret, "info": info}
        stale = n == "rename" and not exc
        render = render and not stale
        walk = walk and not stale
        try:
            e["rows"], e["cur"] = self.render() if render else ([], [])
            e["vis"], e["rvis"] = self.walk() if walk else ([], [])
        except Exception as ex:  # noqa: BLE001
            e["exc"] = e["exc"] or ("render:" + type(ex).__name__)
            e.setdefault("rows", []), e.setdefault("cur", []), e.setdefault("vis", []), e.setdefault("rvis", [])
            render = walk = False
        e["rendered"], e["walked"] = int(bool(render)), int(bool(walk))
        e.update(self.proj())                                      # after render / walk: they create node objects and widgets
        e["ldk"], e["ldn"] = list(self.ldk), list(self.ldn)
        return e

    def trace(self, ev, driver, left="asbuilt"):
        tab = [None] * len(self.rowtab)
        for t, i in self.rowtab.items():
            tab[i - 1] = list(t)
        return {"driver": driver, "par": self.par, "isp": self.isp, "ic": self.ic, "h": self.h, "width": self.w, "leafsel": self.leafsel,
                "left": left, "labels": [cps(label(i)) for i in range(1, self.n + 1)], "rowtab": tab, "ev": ev}


def record(tree, ops, driver, h=4, leafsel=1, left="asbuilt", render=1, walk=1, width=WIDTH):
    """tree = (par, isp, ic).  render / walk = k: after every k-th call and after the last one; 0: never."""
    wd = World(*tree, height=h, leafsel=leafsel, width=width)
    ev = []
    for j, op in enumerate(ops):
        last = j == len(ops) - 1
        ev.append(wd.apply(op, render=bool(render) and ((j + 1) % render == 0 or last), walk=bool(walk) and ((j + 1) % walk == 0 or last)))
    return wd.trace(ev, driver, left)


# ------------------------------------------------------------------------------------------------
# trees and operation alphabets
# ------------------------------------------------------------------------------------------------
def mktree(par, leaf_parents=(), ic=()):
    n = len(par)
    isp = [1 if (i + 1 == 1 or (i + 1) in par or (i + 1) in leaf_parents) else 0 for i in range(n)]
    return list(par), isp, [1 if (i + 1) in ic else 0 for i in range(n)]


#                    1  2  3  4  5  6  7  8  9
T_SMALL = mktree([0, 1, 2, 2, 1])                                        # 1 -> [2 -> [3, 4], 5]
T_LEFTBUG = mktree([0, 1, 2, 2, 1, 1])                                   # 1 -> [2 -> [3, 4], 5, 6]
T_MIXED = mktree([0, 1, 2, 2, 1, 1, 6, 7, 7], leaf_parents=(9,), ic=(6,))   # deeper, an empty ParentNode, a collapsed start
T_CHAIN = mktree([0, 1, 2, 3, 4], leaf_parents=(5,))                     # a chain ending in an empty ParentNode
T_FLAT = mktree([0, 1, 1, 1, 1, 1, 1, 1])                                # root with 7 leaves
T_ROOTONLY = mktree([0])
T_WIDE = mktree([0, 1, 1, 2, 2, 3, 3, 3, 1, 9, 10, 10], ic=(3, 9))
TREES = [T_SMALL, T_MIXED, T_CHAIN, T_FLAT, T_WIDE, T_LEFTBUG, T_ROOTONLY]

KEYS = ["up", "down", "page up", "page down", "left", "right", "+", "-", "home", "end", "x", "enter"]


def random_tree(rng, n, maxdepth=4):
    par, depth = [0], [0]
    for k in range(2, n + 1):
        cand = [i for i in range(1, k) if depth[i - 1] < maxdepth]
        # prefer recent nodes so that the tree gets deep
        p = rng.choice(cand[-3:] if rng.random() < 0.6 else cand)
        par.append(p)
        depth.append(depth[p - 1] + 1)
    childless = [i for i in range(2, n + 1) if i not in par]
    leaf_parents = [i for i in childless if rng.random() < 0.25]
    parents = [i for i in range(1, n + 1) if i in par or i in leaf_parents]
    ic = [i for i in parents if rng.random() < 0.25]
    return mktree(par, leaf_parents, ic)


def enabled_ops(wd, rng, classes, h):
    """A random operation the model allows in the current state of the real objects (chosen from what is loaded)."""
    ld = wd.loaded()
    cls = rng.choice(classes)
    a = rng.choice(ld)
    if cls == "key":
        return mkop("key", key=rng.choice(KEYS + ["down", "down", "up", "left", "right", "-", "+", "end", "home"]))
    if cls == "call":
        if rng.random() < 0.3:
            return mkop("unhandled", key=rng.choice(["left", "-", "x", "home", "up"]))
        return mkop("call", key=rng.choice(["focus_home", "focus_end", "move_focus_to_parent", "move_focus_to_parent", "collapse_focus_parent", "collapse_focus_parent"]))
    if cls == "mouse":
        ev, b = rng.choice([("mouse press", 1)] * 5 + [("mouse press", 3), ("mouse release", 0), ("meta mouse press", 1), ("mouse drag", 1), ("mouse press", 2)])
        return mkop("mouse", ev=ev, btn=b, col=rng.choice([0, 3, 6, 9, 12, 1, 4, 20]), row=rng.randrange(h + 1))
    if cls == "wkey":
        return mkop("wkey", a=a, key=rng.choice(["+", "-", "right", "left", "x", "enter", "up"]))
    if cls == "wmouse":
        ev, b = rng.choice([("mouse press", 1)] * 4 + [("mouse press", 3), ("mouse release", 0), ("meta mouse press", 1)])
        return mkop("wmouse", a=a, ev=ev, btn=b, col=rng.choice([0, 3, 6, 9, 12, 2]), row=rng.choice([0, 0, 0, 1]))
    if cls == "set_focus":
        return mkop("set_focus", a=a)
    if cls == "set_exp":
        ps = [x for x in ld if wd.isp[x - 1]]
        return mkop("set_exp", a=rng.choice(ps), v=rng.randrange(2))
    if cls == "api":
        name = rng.choice(["next_sibling", "prev_sibling", "first_child", "last_child", "has_children", "info", "info"])
        if name in ("first_child", "last_child"):
            ps = [x for x in ld if wd.kidtab[x]]
            if not ps:
                return mkop("info", a=a)
            a = rng.choice(ps)
        elif name == "has_children":
            a = rng.choice([x for x in ld if wd.isp[x - 1]])
        return mkop(name, a=a)
    if cls == "walker":
        return mkop(rng.choice(["wnext", "wprev", "wfirst", "wlast"]), a=a)
    if cls == "rename":
        cand = [x for x in ld if x != 1]
        if not cand:
            return mkop("noop")
        a = rng.choice(cand)
        sib = [s for s in wd.kidtab[wd.par[a - 1]]]
        used = {wd.src_key[s] for s in sib}
        loaded_keys = [wd.src_key[s] for s in sib if s in wd.nodes]
        if rng.random() < 0.3:
            return mkop("rename", a=a, v=rng.choice(loaded_keys))                         # in use: raises
        return mkop("rename", a=a, v=rng.choice([k for k in range(20, 60) if k not in used]))
    if cls == "reload":
        if rng.random() < 0.5:
            ps = [x for x in ld if wd.isp[x - 1] and wd.hk[x - 1]]
            if ps:
                return mkop("reload_keys", a=rng.choice(ps))
        focus = wd.nid(wd.walker.get_focus()[1])
        cand = [x for x in ld if x != 1 and focus not in wd.subtree(x)]
        if cand:
            return mkop("reload_node", a=rng.choice(cand))
        return mkop("noop")
    raise AssertionError(cls)


ALL_CLASSES = ["key", "key", "key", "call", "mouse", "mouse", "wkey", "wmouse", "set_focus", "set_exp", "api", "walker", "rename", "reload"]
USER_CLASSES = ["key", "key", "key", "mouse"]


def random_history(rng, tree, n_ops, h, leafsel, classes, driver, render=1, walk=1, left="asbuilt"):
    wd = World(*tree, height=h, leafsel=leafsel)
    ev = [wd.apply(mkop("noop"), render=bool(render), walk=bool(walk))]
    pending = None
    for j in range(n_ops):
        if pending is not None:
            op, pending = pending, None
        else:
            op = enabled_ops(wd, rng, classes, h)
        e = wd.apply(op, render=bool(render) and (j % render == 0), walk=bool(walk) and (j % walk == 0))
        ev.append(e)
        if op["n"] == "rename" and not e["exc"]:
            pending = mkop("reload_keys", a=wd.par[op["a"] - 1])     # the caller's duty after change_child_key
    if pending is not None:
        ev.append(wd.apply(pending, render=bool(render), walk=bool(walk)))
    return wd.trace(ev, driver, left)


def small_alphabet(tree, h):
    """Representatives of every operation kind, for exhaustive pairs / triples on a small tree."""
    par, isp, _ic = tree
    ops = [mkop("key", key=k) for k in ("down", "up", "left", "right", "-", "+", "home", "end", "page down", "x")]
    ops += [mkop("mouse", ev="mouse press", btn=1, col=c, row=r) for r, c in ((0, 0), (1, 3), (2, 6), (1, 0), (h - 1, 3))]
    ops += [mkop("mouse", ev="mouse press", btn=3, col=0, row=0), mkop("mouse", ev="mouse release", btn=0, col=3, row=1)]
    ops += [mkop("call", key="collapse_focus_parent"), mkop("call", key="move_focus_to_parent"), mkop("call", key="focus_end"), mkop("unhandled", key="-")]
    ops += [mkop("wkey", a=2, key="-"), mkop("wkey", a=1, key="+"), mkop("wmouse", a=2, ev="mouse press", btn=1, col=3, row=0),
            mkop("set_exp", a=1, v=0), mkop("set_exp", a=2, v=0), mkop("set_exp", a=2, v=1), mkop("set_focus", a=2), mkop("set_focus", a=1),
            mkop("wnext", a=2), mkop("wprev", a=2), mkop("wlast", a=1), mkop("next_sibling", a=2), mkop("first_child", a=1), mkop("info", a=2)]
    return ops


# ------------------------------------------------------------------------------------------------
# TLC configurations
# ------------------------------------------------------------------------------------------------
INVS = ["TypeOK", "VisIsPreorder", "NextPrevInverse", "FocusCached", "WindowOK", "ShownIsLoaded", "Lazy", "CountBound"]
PROPS = ["P_LeftGoesToParent", "P_LeftKeepsRow", "P_ExpandCollapse", "P_MinusOnLeaf", "P_HomeEnd", "P_UpDown", "P_WidgetKeys", "P_UnusedKeysReturned",
         "P_MouseRule", "P_WidgetMouse", "P_UserKeepsFocusShown", "P_CollapseHidesSubtree", "P_LoadOnce", "P_NodeApi", "P_WalkerApi", "P_RenameRule"]
MKEYS = ("up", "down", "left", "right", "+", "-", "home", "end", "x")


def cfg(nmin=1, nmax=3, h=3, leafsel=(1,), empty=True, ic="any", classes=("key",), keys=MKEYS, wkeys=("+", "-", "x"), evs=("mouse press",), btns=(1,),
        cols=(0, 3), keyvals=(2, 21), maxreload=1, variant="ok", inv=INVS, props=PROPS, spec="Spec", view=True):
    q = lambda xs: "{" + ", ".join(json.dumps(x) for x in xs) + "}"  # noqa: E731
    return (f'CONSTANTS NMin = {nmin} NMax = {nmax} H = {h} LeafSels = {q(leafsel)} EmptyParents = {"TRUE" if empty else "FALSE"} ICMode = "{ic}"\n'
            f"Classes = {q(classes)} Keys = {q(keys)} WKeys = {q(wkeys)} MouseEvs = {q(evs)} Buttons = {q(btns)} Cols = {q(cols)} KeyVals = {q(keyvals)}\n"
            f'MaxReload = {maxreload} Variant = "{variant}"\nSPECIFICATION {spec}\n' + "".join(f"INVARIANT {i}\n" for i in inv)
            + ("VIEW View\n" if view else "") + "".join(f"PROPERTY {p}\n" for p in props) + "CHECK_DEADLOCK FALSE\n")


# wrong variant -> (configuration with the one invariant / property meant to catch it, the name TLC must report)
TINY = dict(nmin=4, nmax=4, h=2, ic="none", empty=False)


def _only(inv=(), props=()):
    return dict(inv=list(inv), props=list(props))


VARIANTS = {
    # what the code does when the parent is off screen: the focus goes to the parent of the TOP ROW's node
    "left_asbuilt": (dict(**TINY, classes=("key",), keys=("down", "left"), **_only(props=["P_LeftGoesToParent"])), "P_LeftGoesToParent"),
    "right_toggles": (dict(nmin=2, nmax=2, classes=("key",), keys=("right",), **_only(props=["P_ExpandCollapse"])), "P_ExpandCollapse"),
    "children_stay": (dict(nmin=2, nmax=3, classes=("key",), keys=("-",), **_only(inv=["VisIsPreorder"])), "VisIsPreorder"),          # collapsing hides nothing
    "prev_ignores_expanded": (dict(**TINY, classes=("key",), keys=("down", "-"), **_only(inv=["NextPrevInverse"])), "NextPrevInverse"),
    "eager_keys": (dict(nmin=2, nmax=3, classes=("key",), keys=("down",), **_only(inv=["Lazy"])), "Lazy"),                          # keys fetched for collapsed parents
    "reload_always": (dict(nmin=2, nmax=2, classes=("walker",), **_only(props=["P_LoadOnce"])), "P_LoadOnce"),                      # "Create if necessary" ignored
    "end_ignores_collapsed": (dict(nmin=3, nmax=3, classes=("key",), keys=("end", "-", "down"), **_only(props=["P_HomeEnd"])), "P_HomeEnd"),
    "click_anywhere": (dict(nmin=2, nmax=2, classes=("mouse",), cols=(0, 5), **_only(props=["P_MouseRule"])), "P_MouseRule"),
    "leaf_swallows": (dict(nmin=2, nmax=2, classes=("wkey",), empty=False, **_only(props=["P_WidgetKeys"])), "P_WidgetKeys"),
    "minus_keeps_focus": (dict(nmin=2, nmax=2, classes=("key",), keys=("down", "-"), empty=False, **_only(props=["P_UserKeepsFocusShown"])), "P_UserKeepsFocusShown"),
}
LIVE = dict(nmin=1, nmax=3, h=2, classes=("key",), keys=("down", "right"), inv=["TypeOK"], props=["BrowseTerminates"], spec="BrowseSpec", view=False)


def _mc(name, cfg_text, workers, timeout=1500):
    """tlc.mc, recognising this TLC's wording of a liveness violation."""
    try:
        return name, tlc.mc("TreeBrowse", cfg_text, workers=workers, timeout=timeout)
    except tlc.MachineryError as ex:
        m = str(ex)
        if ("Temporal property" in m and "was violated" in m) or "Back to state" in m or "Stuttering" in m:
            return name, tlc.MCResult(ok=False, violated="TEMPORAL", out=m[-2000:])
        if "unexpected exception" in m:        # seen under heavy machine load: retry once
            return name, tlc.mc("TreeBrowse", cfg_text, workers=workers, timeout=timeout)
        raise


USER = ("key", "mouse", "call")


def model_checking(chk, quick):
    """Exhaustive runs (expected to pass), expected refutations (wrong variants, the as-built observation)."""
    jobs = []      # (name, cfg text, workers, expected violations or None)
    mouse = dict(evs=("mouse press", "mouse release", "meta mouse press"), btns=(1, 3), cols=(0, 3, 4))
    if quick:
        m2 = dict(evs=("mouse press",), btns=(1, 3), cols=(0, 3))
        jobs.append(("MC_user_keys_mouse_N<=3", cfg(nmax=3, h=2, classes=USER, inv=INVS + ["FocusShown"], **m2), 2, None))
        jobs.append(("MC_keys_N=4", cfg(nmin=4, nmax=4, h=3, empty=False, classes=("key",), inv=INVS + ["FocusShown"]), 2, None))
        jobs.append(("MC_programmatic_N<=3", cfg(nmax=3, h=2, ic="none", classes=("key", "wkey", "wmouse", "set_focus", "set_exp"), keys=("down", "left", "-"), wkeys=("-", "x"),
                                                 evs=("mouse press",), btns=(1,), cols=(3,)), 2, None))
        jobs.append(("MC_node_api_walker_N<=3", cfg(nmax=3, h=2, classes=("key", "api", "walker"), keys=("down", "-", "right")), 2, None))
        jobs.append(("MC_rename_reload_N=3", cfg(nmin=3, nmax=3, ic="none", classes=("key", "rename", "reload", "set_exp"), keys=("down", "-")), 2, None))
    else:
        pg = MKEYS + ("page down", "page up")
        jobs.append(("MC_user_N<=4_childless_parents", cfg(nmax=4, ic="none", classes=USER, inv=INVS + ["FocusShown"], keys=pg, **mouse), 4, None))
        jobs.append(("MC_user_N=4_collapsed_starts", cfg(nmin=4, nmax=4, empty=False, classes=USER, inv=INVS + ["FocusShown"], keys=pg, **mouse), 4, None))
        jobs.append(("MC_user_N=5_collapsed_starts", cfg(nmin=5, nmax=5, h=3, empty=False, classes=USER, inv=INVS + ["FocusShown"], evs=("mouse press",), btns=(1, 3), cols=(0, 3)), 4, None))
        jobs.append(("MC_user_N=5_h2_stock_leaves", cfg(nmin=5, nmax=5, h=2, empty=False, leafsel=(0,), classes=USER, inv=INVS + ["FocusShown"],
                                                        evs=("mouse press", "meta mouse press"), btns=(1, 3), cols=(0, 3)), 4, None))
        jobs.append(("MC_keys_N=5_h4_childless_parents", cfg(nmin=5, nmax=5, h=4, ic="none", classes=("key",), keys=pg, inv=INVS + ["FocusShown"]), 4, None))
        jobs.append(("MC_keys_N=6", cfg(nmin=6, nmax=6, h=3, ic="none", empty=False, classes=("key",), inv=INVS + ["FocusShown"]), 4, None))
        jobs.append(("MC_programmatic_N<=4", cfg(nmax=4, h=3, ic="none", leafsel=(0, 1), classes=("key", "wkey", "wmouse", "set_focus", "set_exp"), keys=("down", "left", "-", "right", "end"),
                                                 wkeys=("-", "x"), evs=("mouse press",), btns=(1,), cols=(3,)), 4, None))
        jobs.append(("MC_programmatic_N<=3_collapsed_starts", cfg(nmax=3, h=2, classes=("key", "call", "wkey", "wmouse", "set_focus", "set_exp"), keys=("down", "left", "-", "right", "end"),
                                                                  evs=("mouse press",), btns=(1,), cols=(0, 3)), 3, None))
        jobs.append(("MC_node_api_walker_N<=4", cfg(nmax=4, h=3, ic="none", classes=("key", "api", "walker"), keys=("down", "left", "-", "right")), 4, None))
        jobs.append(("MC_node_api_walker_N<=3_collapsed_starts", cfg(nmax=3, h=2, classes=("key", "api", "walker"), keys=("down", "-", "right")), 2, None))
        jobs.append(("MC_rename_reload_N=4", cfg(nmin=4, nmax=4, h=2, ic="none", empty=False, classes=("key", "rename", "reload", "set_exp"), keys=("down", "-"), maxreload=2), 4, None))
        jobs.append(("MC_rename_reload_N<=3_collapsed_starts", cfg(nmax=3, classes=("key", "rename", "reload", "set_exp"), keys=("down", "-", "right"), maxreload=1), 3, None))
    # as-built observation: a programmatic collapse of an ancestor leaves the focus on a node that is not in the display order
    jobs.append(("OBS_programmatic_collapse_hides_focus", cfg(nmin=2, nmax=2, classes=("key", "set_exp"), keys=("down",), inv=["FocusShown"], props=[]), 1, {"FocusShown"}))
    for v, (kw, expect) in VARIANTS.items():
        jobs.append((f"VARIANT_{v}", cfg(**kw, variant=v), 1, {expect}))
    jobs.append(("LIVE_browse_terminates", cfg(**(LIVE if quick else {**LIVE, "nmax": 5})), 2 if quick else 4, None))
    jobs.append(("VARIANT_right_toggles_live", cfg(**LIVE, variant="right_toggles"), 1, {"TEMPORAL"}))
    order = sorted(jobs, key=lambda j: -j[2])
    results = {}
    with cf.ThreadPoolExecutor(4 if quick else 3) as ex:
        futs = [ex.submit(_mc, name, text, workers) for name, text, workers, _ in order]
        for f in futs:
            name, r = f.result()
            results[name] = r
    refuted, cex = {}, {}
    for name, _, _, expect in jobs:
        r = results[name]
        if expect is None:
            chk.add_mc(name, r)
            if not r.ok:
                raise tlc.MachineryError(f"X04 model run {name}: {r.violated} violated on the specification itself:\n{r.out[-2500:]}")
        else:
            refuted[name] = r.violated
            chk.cov["tlc_runs"].append({"run": name, "expected_violation": sorted(expect), "violated": r.violated, "generated": r.generated, "wall_s": round(r.wall_s, 1)})
            if r.violated not in expect:
                raise tlc.MachineryError(f"X04: {name} should be refuted by {sorted(expect)}, TLC says {r.violated}:\n{r.out[-2500:]}")
            if name.startswith("OBS_") or name == "VARIANT_left_asbuilt":
                cex[name] = r.trace
    chk.cov["wrong_variants_refuted"] = refuted
    return cex


# ------------------------------------------------------------------------------------------------
# spec -> code
# ------------------------------------------------------------------------------------------------
def _shown(par, isp, exp, n):
    p = par[n - 1]
    while p:
        if not (isp[p - 1] and exp[p - 1]):
            return False
        p = par[p - 1]
    return True


def _model_proj(st):
    hn = st["hn"]
    return {"focus": st["focus"], "off": st["off"], "exp": [e if c else 2 for e, c in zip(st["exp"], hn)], "key": [k if c else 0 for k, c in zip(st["key"], hn)]}


def replay_behaviour(chk, beh, h, leafsel, traces, stats, variant_left="doc"):
    """Step the real objects through one TLC behaviour; compare the projected state after every action."""
    beh = beh[1:]                    # the first state is the "boot" state of SimSpec; the second one is the drawn initial state
    if not beh:
        return
    s0 = beh[0]
    par, isp, ic, leafsel = list(s0["tree"]["par"]), list(s0["isp"]), list(s0["ic"]), s0["leafsel"]
    wd = World(par, isp, ic, height=h, leafsel=leafsel)
    ev = [wd.apply(mkop("noop"))]
    e = ev[0]
    if {k: e[k] for k in ("focus", "off", "exp", "key")} != _model_proj(s0) or e["ldk"] != list(s0["ldk"]) or e["ldn"] != list(s0["ldn"]):
        chk.divergence("spec_to_code.initial_state_differs", {"tree": [par, isp, ic], "spec": _model_proj(s0), "code": {k: e[k] for k in ("focus", "off", "exp", "key", "ldk", "ldn")}})
        return
    prev = s0
    for st in beh[1:]:
        op = {k: st["last"]["op"][k] for k in ("n", "a", "v", "key", "ev", "btn", "col", "row")}
        e = wd.apply(op)
        ev.append(e)
        stats["steps"] += 1
        stats["ops"][op["n"]] = stats["ops"].get(op["n"], 0) + 1
        what = None
        mp = _model_proj(st)
        hidden = not (_shown(par, isp, prev["exp"], prev["focus"]) and _shown(par, isp, st["exp"], st["focus"]))
        if e["exc"] != st["last"]["exc"] or e["res"] != st["last"]["res"] or e["ret"] != st["last"]["ret"] or e["info"] != list(st["last"]["info"]):
            what = "result_differs"
        elif e["focus"] != mp["focus"]:
            what = "focus_differs"
        elif e["off"] != mp["off"]:
            what = "row_offset_differs"
        elif st["stale"] == 0 and not hidden and (e["ldk"] != list(st["ldk"]) or e["ldn"] != list(st["ldn"])):
            what = "load_counts_differ"
        elif hidden and any(a < b for a, b in zip(e["ldk"] + e["ldn"], list(st["ldk"]) + list(st["ldn"]))):
            what = "load_counts_below_model"
        elif not hidden and (e["exp"] != mp["exp"] or e["key"] != mp["key"]):
            what = "flags_or_keys_differ"
        elif hidden and any(m != 2 and c != m for c, m in zip(e["exp"], mp["exp"])):
            what = "flags_differ"
        if what:
            chk.divergence(f"spec_to_code.{what}", {"tree": [par, isp, ic], "h": h, "leafsel": leafsel, "op": {k: v for k, v in op.items() if v not in (0, "")},
                                                    "spec": {**mp, "res": st["last"]["res"], "ret": st["last"]["ret"], "ldk": st["ldk"], "ldn": st["ldn"]},
                                                    "code": {k: e[k] for k in ("focus", "off", "exp", "key", "res", "ret", "ldk", "ldn")},
                                                    "ops_so_far": [x["op"] for x in ev[1:]]})
            break
        stats["agree"] += 1
        if hidden:
            stats["hidden_focus_steps"] += 1
        prev = st
    traces.append(wd.trace(ev, "tlc-simulate", variant_left))


def confirm_counterexample(chk, name, trace, h, left_expect):
    """Replay a TLC counterexample on the real objects: does the code do what the (as-built / variant) model says?"""
    if len(trace) < 2:
        chk.vacuity.append(f"observation.{name}.no_counterexample_trace")
        return
    s0, s1 = trace[0], trace[-1]
    par, isp, ic = list(s0["tree"]["par"]), list(s0["isp"]), list(s0["ic"])
    wd = World(par, isp, ic, height=h, leafsel=1)
    wd.apply(mkop("noop"))
    e = None
    for st in trace[1:]:
        e = wd.apply({k: st["last"]["op"][k] for k in ("n", "a", "v", "key", "ev", "btn", "col", "row")})
    obs = {"tree": [par, isp, ic], "h": h, "ops": [{k: v for k, v in st["last"]["op"].items() if v not in (0, "")} for st in trace[1:]],
           "model_focus": s1["focus"], "code_focus": e["focus"], "model_exp": s1["exp"], "code_exp": e["exp"], "parent_of_previous_focus": par[trace[-2]["focus"] - 1],
           "code_agrees_with_model": e["focus"] == s1["focus"] and all(c == m for c, m in zip(e["exp"], s1["exp"]) if c != 2)}
    chk.cov.setdefault("as_built_observations", {})[name] = obs
    if not obs["code_agrees_with_model"]:
        chk.divergence("spec_to_code.counterexample_differs", obs)


# ------------------------------------------------------------------------------------------------
def _handle_rejects(chk, traces, res):
    for ti, l, why in res.rejects:
        tr = traces[ti]
        e = tr["ev"][l - 1]
        pre = tr["ev"][l - 2] if l >= 2 else {}
        fam = tr["driver"] if tr["driver"].startswith(("left-parent-offscreen", "narrow-view")) else ""
        chk.divergence(f"X04.{why}" + (f"[{fam}]" if fam else ""), {
            "driver": tr["driver"], "tree": {"par": tr["par"], "isp": tr["isp"], "ic": tr["ic"]}, "h": tr["h"], "width": tr["width"], "leafsel": tr["leafsel"],
            "op": {k: v for k, v in e["op"].items() if v not in (0, "")}, "pre": {k: pre.get(k) for k in ("focus", "off", "exp")},
            "post": {k: e.get(k) for k in ("res", "exc", "ret", "focus", "off", "exp", "key", "ldk", "ldn", "vis", "cur")},
            "rows": ["".join(chr(c) for c in tr["rowtab"][i - 1]).rstrip() for i in e.get("rows", [])],
            "replay": {"tree": [tr["par"], tr["isp"], tr["ic"]], "h": tr["h"], "width": tr["width"], "leafsel": tr["leafsel"], "left": tr["left"],
                       "ops": [x["op"] for x in tr["ev"][:l]], "flags": [[x["rendered"], x["walked"]] for x in tr["ev"][:l]]}})


def dedicated_families():
    """Trace families judged against the DOCUMENTED behaviour where the code is known to differ (each yields a DIVERGENCE)."""
    out = []
    # 'left' / '-' with the parent scrolled off the top while a nephew is on the top row
    down = [mkop("key", key="down")]
    for h, tree, n_down in ((3, T_LEFTBUG, 4), (2, T_SMALL, 4), (3, T_MIXED, 4)):
        out.append(record(tree, [mkop("noop")] + down * n_down + [mkop("key", key="left")], "left-parent-offscreen", h=h, left="doc"))
        out.append(record(tree, [mkop("noop")] + down * n_down + [mkop("key", key="-")], "left-parent-offscreen-minus", h=h, left="doc"))
    # focus_end in a view that is taller than wide: the row offset is taken from the width
    tall = mktree([0] + [1] * 10 + [11, 11], ic=(11,))
    out.append(record(tall, [mkop("noop"), mkop("key", key="end"), mkop("key", key="+"), mkop("noop")], "narrow-view-end", h=12, width=9, left="doc"))
    return out


def run(chk):
    quick = chk.tier == "quick"
    rng = chk.rng
    t0 = time.time()
    pool = cf.ThreadPoolExecutor(3)
    fut_mc = pool.submit(model_checking, chk, quick)      # TLC subprocesses; overlap with the Python drivers below
    allc = ("key", "call", "wkey", "mouse", "wmouse", "set_focus", "set_exp", "api", "walker", "rename", "reload")
    simkw = dict(classes=allc, keys=MKEYS + ("page down", "page up", "enter"), wkeys=("+", "-", "right", "x"), evs=("mouse press", "mouse release", "meta mouse press"),
                 btns=(1, 3), cols=(0, 3, 6, 4), keyvals=(2, 3, 21, 22), maxreload=3, inv=[], props=[], spec="SimSpec", view=False)
    # (the behaviours are drawn from the AS-BUILT model -- variant "left_asbuilt", which TLC refutes against P_LeftGoesToParent --
    #  so that the replay shows the code does exactly what that variant says; the documented 'left' is judged in the dedicated families)
    nb = 80 if quick else 800
    sims = [(3, pool.submit(tlc.simulate, "TreeBrowse", cfg(nmin=3, nmax=7, h=3, leafsel=(0, 1), variant="left_asbuilt", **simkw), num=nb, depth=18, seed=chk.seed, jobs=1 if quick else 4, timeout=900))]

    traces = []
    tv_pool = cf.ThreadPoolExecutor(2)                    # trace validation runs while the drivers go on (at most 2 x 2 TLC processes)
    pending = []
    mark = [0]

    def flush(name):
        """Hand the traces recorded since the last flush to TLC."""
        chunk = traces[mark[0]:]
        mark[0] = len(traces)
        if chunk:
            n_ev = sum(len(t["ev"]) + 1 for t in chunk)
            pending.append((name, chunk, tv_pool.submit(tlc.validate, "TreeBrowseTrace", chunk, batch_events=n_ev if quick else n_ev // 2 + 1, jobs=2, timeout=1500)))

    # ---- code -> spec: exhaustive pairs (thorough: triples) of a representative alphabet on small trees ----------------
    n_pairs = n_triples = 0
    plan = [(T_MIXED, 4, 1)] if quick else [(T_SMALL, 3, 1), (T_MIXED, 4, 1), (T_MIXED, 3, 0), (T_LEFTBUG, 4, 1)]
    for tree, h, ls in plan:
        sm = small_alphabet(tree, h)
        for o1 in sm:
            for o2 in (sm[(chk.seed + n_pairs) % 2::2] if quick else sm):
                traces.append(record(tree, [mkop("noop"), o1, o2], "pairs", h=h, leafsel=ls))
                n_pairs += 1
        flush("pairs")
    if not quick:
        sm = small_alphabet(T_SMALL, 3)
        for o1 in sm[chk.seed % 2::2]:
            for o2 in sm:
                for o3 in sm[1::3]:
                    traces.append(record(T_SMALL, [mkop("noop"), o1, o2, o3], "triples", h=3, render=2))
                    n_triples += 1
        flush("triples")
    # ---- every key from every focus position of every small tree (single steps from the walked state) --------------------
    n_single = 0
    for tree in ([T_SMALL, T_MIXED, T_CHAIN, T_ROOTONLY] if quick else TREES):
        n = len(tree[0])
        for h in ((3,) if quick else (2, 3, 5)):
            for ls in (1, 0):
                for k in KEYS:
                    for steps in range(0, n if ls else 1):
                        traces.append(record(tree, [mkop("noop")] + [mkop("key", key="down")] * steps + [mkop("key", key=k), mkop("key", key=k)], "keys-from-everywhere", h=h, leafsel=ls,
                                             render=1 if (n_single % 3 == 0 or not quick) else 0))
                        n_single += 1
    flush("keys-from-everywhere")
    # ---- seeded random long histories ----------------------------------------------------------------------------------
    n_rand = 70 if quick else 600
    for i in range(n_rand):
        tree = random_tree(rng, rng.randint(3, 14)) if i % 5 else rng.choice(TREES)
        h = rng.randint(2, 7)
        mode = i % 7
        if mode == 0:       # the user only, never walked: what the ListBox itself loads
            traces.append(random_history(rng, tree, 40 if quick else 60, h, 1, USER_CLASSES, "random-user-nowalk", render=1, walk=0))
        elif mode == 1:     # stock (unselectable) leaf widgets
            traces.append(random_history(rng, tree, 40 if quick else 60, h, 0, ALL_CLASSES, "random-stock-leaves", render=2, walk=3))
        elif mode == 2:     # the user only
            traces.append(random_history(rng, tree, 40 if quick else 60, h, 1, USER_CLASSES, "random-user", render=1, walk=2))
        else:
            traces.append(random_history(rng, tree, 40 if quick else 60, h, 1, ALL_CLASSES, "random", render=2 if quick else 1, walk=2))
        if not quick and i % 150 == 149:
            flush("random")
    traces += dedicated_families()
    flush("random+dedicated")
    t_drive = time.time() - t0

    # ---- spec -> code ------------------------------------------------------------------------------------------------------
    stats = {"steps": 0, "agree": 0, "hidden_focus_steps": 0, "ops": {}}
    nbeh = 0
    for h, fut in sims:
        behs = fut.result()
        nbeh += len(behs)
        for b in behs:
            replay_behaviour(chk, b, h, 1, traces, stats, "asbuilt")
    flush("tlc-simulate")
    chk.cov["spec_to_code"] = {"behaviours": nbeh, **stats}
    for c in ("key", "mouse", "call", "wkey", "set_exp", "wnext", "rename", "reload_node"):
        if not stats["ops"].get(c):
            chk.vacuity.append(f"spec_to_code.{c}_never_replayed")
    chk.note(f"drivers {t_drive:.1f}s, spec->code {time.time() - t0 - t_drive:.1f}s, {len(traces)} traces")

    # ---- trace validation (results of the runs started above) ---------------------------------------------------------------
    total = tlc.TVResult()
    for name, chunk, fut in pending:
        res = fut.result()
        for f in ("traces", "events", "consumed", "states", "generated", "batches"):
            setattr(total, f, getattr(total, f) + getattr(res, f))
        total.wall_s = max(total.wall_s, time.time() - t0)
        total.rejects += [(0, 0, why) for _ti, _l, why in res.rejects]
        _handle_rejects(chk, chunk, res)
    tv_pool.shutdown()
    chk.add_tv("TV_TreeBrowseTrace", total)

    cex = fut_mc.result()
    pool.shutdown()
    confirm_counterexample(chk, "programmatic_collapse_hides_focus", cex.get("OBS_programmatic_collapse_hides_focus", []), 3, None)
    confirm_counterexample(chk, "left_goes_to_parent_of_top_row", cex.get("VARIANT_left_asbuilt", []), 2, None)

    # ---- coverage bookkeeping ------------------------------------------------------------------------------------------------
    kinds, nontriv = {}, set()
    hidden_rendered = 0
    for t in traces:
        pf = 1
        pexp = None
        for e in t["ev"]:
            op = e["op"]
            changed = pexp is not None and (e["focus"] != pf or any(a != b for a, b in zip(e["exp"], pexp) if 2 not in (a, b)))
            k = (op["n"] if op["n"] != "key" else "key." + op["key"].replace(" ", "_"), "exc" if e["exc"] else ("changes" if changed else "quiet"))
            kinds[k] = kinds.get(k, 0) + 1
            if changed:
                nontriv.add(json.dumps([t["par"], t["ic"], t["h"], t["leafsel"], {a: b for a, b in op.items() if b not in (0, "")}, pf, pexp, e["focus"], e["exp"]]))
            if e["rendered"] and not _shown(t["par"], t["isp"], [1 if x == 2 else x for x in e["exp"]], e["focus"]):
                hidden_rendered += 1
            pf, pexp = e["focus"], e["exp"]
    chk.cov["clause_counts"] = {f"{a}.{b}": n for (a, b), n in sorted(kinds.items())}
    chk.cov["clause_counts"]["rendered_with_focus_outside_display_order"] = hidden_rendered
    chk.cov["distinct_nontrivial"] = len(nontriv)
    for need in [("key.left", "changes"), ("key.right", "changes"), ("key.-", "changes"), ("key.+", "changes"), ("key.home", "changes"), ("key.end", "changes"),
                 ("key.down", "changes"), ("key.up", "changes"), ("key.page_down", "changes"), ("key.x", "quiet"), ("mouse", "changes"), ("mouse", "quiet"),
                 ("call", "changes"), ("unhandled", "changes"), ("wkey", "changes"), ("wmouse", "changes"), ("set_focus", "changes"), ("set_exp", "changes"), ("rename", "exc"), ("rename", "quiet"),
                 ("reload_node", "quiet"), ("reload_keys", "quiet"), ("wnext", "quiet"), ("wprev", "quiet"), ("first_child", "quiet"), ("info", "quiet")]:
        if not kinds.get(need):
            chk.vacuity.append(f"driver.{need[0]}.{need[1]}")
    if not hidden_rendered:
        chk.vacuity.append("driver.view_rendered_with_hidden_focus")
    chk.cov["rule"] = ("exhaustive pairs (thorough: triples) of a representative alphabet of every operation kind (keys, TreeListBox methods called directly, mouse, widget "
                       "keys / mouse, set_focus, expanded = ..., walker / node navigation calls) on small trees; every key pressed (twice) from every "
                       "focus position of seven trees, with selectable and with stock leaf widgets; seeded random histories (user events only / every operation "
                       "class / stock leaves / never walked) on random trees of 3..14 nodes in views of 2..7 rows; TLC behaviours of TreeBrowse.tla replayed on the "
                       "real objects; non-trivial = distinct (tree, view, operation, state before, state after) cases that moved the focus or changed a flag")
    chk.cov["exhaustive"] = True
    chk.cov["bounds"] = {"pair_histories": n_pairs, "triple_histories": n_triples, "key_from_everywhere_cases": n_single, "random_histories": n_rand,
                         "driver_wall_s": round(t_drive, 1)}
    for t in traces:
        if t["driver"] == "random" and len(t["ev"]) > 10:
            e = next((e for e in t["ev"][5:] if e["op"]["n"] == "key" and e["op"]["key"] in ("left", "-") and e["rendered"]), None)
            if e:
                chk.sample({"tree": [t["par"], t["isp"], t["ic"]], "h": t["h"], "op": e["op"], "focus": e["focus"], "exp": e["exp"], "vis": e["vis"], "ldn": e["ldn"],
                            "rows": ["".join(chr(c) for c in t["rowtab"][i - 1]).rstrip() for i in e["rows"]]})
                break
    chk.sample({k: v for k, v in traces[len(traces) // 3]["ev"][-1].items()})
    chk.cov["trusted_base"] = ["TLC", "vf/props/x04.py World (call-through driver: in-memory tree behind load_child_keys / load_child_node, which count their calls; "
                               "widget subclasses only set the row text, leaf selectability and the initial expanded flag; projects focus node, offset_rows, "
                               "expanded flags, keys, rendered rows)", "TreeBrowseOps.tla Geo (one-line-row model of ListBox.calculate_visible) and RowOf"]
    chk.assumptions += ["every row is one line high and fits the view's width (width 30, depth <= 4); the view is wider than tall except in the narrow-view family",
                        "sibling keys are unique in the data source; change_child_key is followed by get_child_keys(reload=True) before anything else is called (the cached "
                        "key list is not updated by change_child_key: as built, undocumented)",
                        "get_child_node(reload=True) is only called for subtrees that do not contain the focus (the walker would keep the orphaned node object)",
                        "get_first_child / get_last_child are only called on parents that have children (IndexError on an empty key list: as built)",
                        "mouse buttons 4 / 5 (ListBox scrolling) are out of scope; 'up' / 'down' / 'page up' / 'page down' with unselectable leaf rows are only checked for "
                        "direction and result (ListBox's business), and so are the page keys while the focus is hidden by a programmatic collapse", "the root is a ParentNode",
                        "set_child_node, load_parent (bottom-up population), get_widget(reload=True) and get_child_widget are not exercised"]


def replay(chk, path):
    """Replay file: {"replay": {"tree": [par, isp, ic], "h": .., "width": .., "leafsel": .., "left": .., "ops": [...], "flags": [[rendered, walked], ...]}}."""
    with open(path) as f:
        rp = json.load(f)
    rp = rp.get("replay", rp)
    wd = World(*rp["tree"], height=rp["h"], leafsel=rp.get("leafsel", 1), width=rp.get("width", WIDTH))
    flags = rp.get("flags") or [[1, 1]] * len(rp["ops"])
    ev = [wd.apply(op, render=bool(fl[0]), walk=bool(fl[1])) for op, fl in zip(rp["ops"], flags)]
    tr = wd.trace(ev, "replay", rp.get("left", "asbuilt"))
    res = tlc.validate("TreeBrowseTrace", [tr], jobs=1, timeout=300)
    chk.add_tv("replay", res)
    _handle_rejects(chk, [tr], res)
    chk.sample(tr["ev"][-1])
    return chk.finish()
