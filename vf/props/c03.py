"""C03 — text layout shows every character once, in order, within the width.
Contract: spec/TextLayoutOps.tla; consistency/satisfiability model: spec/TextLayout.tla; design model of the living widget
(mutators, canvas cache, kept translation): spec/TextLayoutWidget.tla; trace spec: spec/TextLayoutTrace.tla.

The driver calls the real StandardTextLayout.layout / Text.rows / Text.pack / Text.render for every text over a small
alphabet (exhaustive) and seeded random longer texts, x width x wrap x align x str|bytes x {utf8, euc-jp, iso8859-1},
and records the layout structure (byte offsets converted to character indices), the rendered rows and the row counts.
TLC judges every record; nothing is decided here."""
from __future__ import annotations

import concurrent.futures as cf
import itertools
import json
import multiprocessing
import time

from .. import tlc

# encoding mode -> (name given to urwid.set_encoding, Python codec that reads the bytes, urwid's byte mode)
MODE_DEF = {"utf8": ("utf-8", "utf-8", "utf8"), "wide": ("euc-jp", "euc-jp", "wide"), "narrow": ("iso8859-1", "iso8859-1", "narrow"),
            # double-byte encodings whose second byte may lie in the ASCII range 0x40..0x7E and whose lead byte starts at 0x81
            "gbk": ("gbk", "gbk", "wide"), "uhc": ("uhc", "cp949", "wide"), "big5": ("big5", "big5hkscs", "wide")}
MODES = {m: d[1] for m, d in MODE_DEF.items()}
DBCS = ("gbk", "uhc", "big5")
KINDS = {"utf8": ("str", "bytes"), "wide": ("str", "bytes"), "narrow": ("str", "bytes"), "gbk": ("str", "bytes"), "uhc": ("bytes",),
         "big5": ("bytes",)}      # urwid encodes str with the codec named 'big5', which has no HKSCS characters: bytes only
WRAPS = ["any", "space", "clip", "ellipsis"]
ALIGNS = ["left", "center", "right"]
NL = 4
# display width per class id — must equal CW in spec/TextLayoutOps.tla (checked by check_tables)
CW = [None, 1, 1, 1, 0, 2, 0, 1, 1, 1, 2, 2, 0, 2, 2, 2, 0, 0, 1, 2, 2]
# the alphabet table: class id -> concrete character, per encoding mode
CHARS = {
    # 16 zero-width joiner, 17 variation selector 16, 18 a base VS-16 is used with, 19/20 regional indicators (a pair = a flag):
    # sequence-aware measuring (wcswidth) differs from the per-character widths on these
    "utf8": {1: "a", 2: "b", 3: " ", 4: "\n", 5: "字", 6: "́", 7: "…", 8: ".", 9: "é", 10: "界", 11: "\U0001f600", 12: "​",
             16: "\u200d", 17: "\ufe0f", 18: "\u2764", 19: "\U0001f1fa", 20: "\U0001f1f8"},
    "wide": {1: "a", 2: "b", 3: " ", 4: "\n", 5: "字", 8: ".", 10: "界", 13: "…"},   # 13: only ever produced by urwid (the mark)
    "narrow": {1: "a", 2: "b", 3: " ", 4: "\n", 8: ".", 9: "é"},
    # 5: lead byte 0x81..0xA0 + second byte in 0x40..0x7E; 11: lead >= 0xA1 + low second byte; 14: low lead + high second byte;
    # 15: low lead + second byte 0x7E / 'z'; 10: both bytes high
    "gbk": {1: "a", 2: "b", 3: " ", 4: "\n", 5: "\u4e02", 8: ".", 10: "字", 11: "\u72dc", 13: "…", 14: "\u4e90", 15: "\u721a"},
    "uhc": {1: "a", 2: "b", 3: " ", 4: "\n", 5: "\uac02", 8: ".", 10: "\uac00", 11: "\uc8a5", 13: "…", 14: "\uac56", 15: "\uc7fa"},
    "big5": {1: "a", 2: "b", 3: " ", 4: "\n", 5: "\u43f0", 8: ".", 10: "字", 11: "\u4e00", 13: "…", 14: "\u4413", 15: "\u35d2"},
}
LOWTRAIL = {m: {i for i, ch in CHARS[m].items() if len(ch.encode(MODES[m])) == 2 and ch.encode(MODES[m])[1] < 0x80} for m in DBCS}
EXH = {"utf8": [1, 2, 3, 4, 5, 6], "wide": [1, 2, 3, 4, 5], "narrow": [1, 9, 3, 4], "gbk": [1, 3, 5, 11], "uhc": [1, 3, 5],
       "big5": [1, 5, 10]}
EXH2 = {"utf8": [1, 16, 17, 19]}        # second exhaustive alphabet: joiner, variation selector, regional indicator among letters
RND = {"utf8": [1, 1, 2, 2, 3, 3, 3, 4, 5, 5, 6, 6, 7, 8, 9, 10, 11, 12, 16, 16, 17, 18, 19, 20], "wide": [1, 1, 2, 2, 3, 3, 3, 4, 5, 5, 10, 8],
       "narrow": [1, 1, 2, 2, 3, 3, 3, 4, 8, 9]}
for _m in DBCS:
    RND[_m] = [1, 1, 2, 3, 3, 3, 4, 5, 5, 5, 10, 11, 11, 14, 15, 8]
MINMARK = {"utf8": 1, "wide": 2, "narrow": 1, "gbk": 2, "uhc": 2, "big5": 2}


def check_tables():
    """The abstraction cannot drift: widths of the table agree with wcwidth / the byte length rule of the encoding,
    and CW agrees with the TLA+ constant."""
    import os
    import re

    import wcwidth

    with open(os.path.join(tlc.SPEC_DIR, "TextLayoutOps.tla")) as f:
        m = re.search(r"^CW == <<([\d, ]+)>>", f.read(), re.M)
    if [int(x) for x in m.group(1).split(",")] != CW[1:]:
        raise tlc.MachineryError("CW in c03.py and TextLayoutOps.tla differ")
    for mode, tab in CHARS.items():
        for i, ch in tab.items():
            if i == NL:
                continue
            b = ch.encode(MODES[mode])
            if b.decode(MODES[mode]) != ch:
                raise tlc.MachineryError(f"{ch!r} does not round-trip in {mode}")
            if MODE_DEF[mode][2] == "wide" and not (
                    (len(b) == 1 and b[0] < 0x80) or (len(b) == 2 and b[0] >= 0x81 and (0x40 <= b[1] <= 0x7E or b[1] >= 0x80))):
                # the documented pairing rule of the double-byte mode: a byte >= 0x81 followed by 0x40..0x7E or >= 0x80 is one character
                raise tlc.MachineryError(f"alphabet table: id {i} {ch!r} in {mode}: {b!r} is not one character by the pairing rule")
            uw = max(0, wcwidth.wcwidth(ch))
            bw = uw if mode == "utf8" else len(b)     # double-byte / latin-1 terminals: one column per byte
            if bw != CW[i] or (uw != CW[i] and i != 13):
                raise tlc.MachineryError(f"alphabet table: id {i} {ch!r} in {mode}: width {uw}/{bw}, table says {CW[i]}")


class Enc:
    """urwid's encoding mode is process-global: set it explicitly, restore what was there."""

    def __init__(self, mode):
        self.mode = mode

    def __enter__(self):
        import urwid
        from urwid import str_util, util

        self.old = (util._target_encoding, util._use_dec_special, str_util.get_byte_encoding())
        urwid.set_encoding(MODE_DEF[self.mode][0])
        if str_util.get_byte_encoding() != MODE_DEF[self.mode][2]:
            raise tlc.MachineryError(f"set_encoding({MODE_DEF[self.mode][0]}) gave byte mode {str_util.get_byte_encoding()}")
        return self

    def __exit__(self, *a):
        from urwid import str_util, util

        util._target_encoding, util._use_dec_special = self.old[0], self.old[1]
        str_util.set_byte_encoding(self.old[2])


def _seg(k, c=0, s=0, e=0, ins=()):
    return {"k": k, "c": int(c), "s": int(s), "e": int(e), "ins": list(ins)}


def to_ids(mode, data):
    rev = {ch: i for i, ch in CHARS[mode].items()}
    if isinstance(data, bytes):
        data = data.decode(MODES[mode], errors="replace")
    return [rev.get(ch, 0) for ch in data]


def convert_layout(mode, lay, idx):
    """Layout structure -> homogeneous records over character indices.  idx(offset) -> index or None (inside a character)."""
    split = 0
    out = []
    for line in lay:
        ol = []
        for seg in line:
            if not isinstance(seg, tuple) or len(seg) not in (2, 3) or not isinstance(seg[0], int):
                ol.append(_seg("?"))
                continue
            offs = [seg[1]] if len(seg) == 2 or isinstance(seg[2], bytes) else [seg[1], seg[2]]
            conv = []
            for o in offs:
                if o is None:
                    conv.append(None)
                elif not isinstance(o, int):
                    conv.append("?")
                else:
                    i = idx(o)
                    if i is None:
                        split = 1
                        i = 0
                    conv.append(i)
            if "?" in conv:
                ol.append(_seg("?"))
            elif len(seg) == 2:
                ol.append(_seg("p", seg[0]) if conv[0] is None else _seg("h", seg[0], conv[0], conv[0]))
            elif isinstance(seg[2], bytes):
                ol.append(_seg("?") if conv[0] is None else _seg("i", seg[0], conv[0], conv[0], to_ids(mode, seg[2])))
            else:
                ol.append(_seg("?") if None in conv else _seg("t", seg[0], conv[0], conv[1]))
        out.append(ol)
    return out, split


def _exc_detail(ex):
    a = ex.args[0] if ex.args else None
    if isinstance(ex, ValueError) and isinstance(a, tuple) and len(a) == 3 and a[0] == 0:
        return "zero_column_text_segment"
    if type(ex).__name__ == "CanvasError" and "wider than the maxcol" in str(ex):
        return "row_wider_than_maxcol"
    return ""


def encode_text(mode, kind, ids):
    """The text urwid is given for a sequence of class ids, and offset -> character index (None inside a character)."""
    codec = MODES[mode]
    chars = [CHARS[mode][i] for i in ids]
    s = "".join(chars)
    if kind == "str":
        return s, (lambda o: o)
    bmap, bo = {}, 0
    for ci, ch in enumerate(chars):
        bmap[bo] = ci
        bo += len(ch.encode(codec))
    bmap[bo] = len(chars)
    return s.encode(codec), bmap.get


def observe(mode, widget, text, idx, e, w, align, wrap, rows_first, held):
    """The judged queries of one event: the layout structure for the modes in force, rows / render / pack at width w."""
    from urwid import text_layout

    stage = "layout"
    try:
        lay = text_layout.StandardTextLayout().layout(text, w, align, wrap)
        e["lay"], e["split"] = convert_layout(mode, lay, idx)
        if rows_first:
            stage = "rows"
            e["rows"] = int(widget.rows((w,)))
            stage = "render"
            canv = widget.render((w,))
        else:
            stage = "render"
            canv = widget.render((w,))
            stage = "rows"
            e["rows"] = int(widget.rows((w,)))
        if held is not None:
            held.append(canv)
        e["rend"] = [to_ids(mode, row) for row in canv.text]
        stage = "pack"
        e["prows"] = int(widget.pack((w,))[1])
    except Exception as ex:  # noqa: BLE001
        e["exc"] = f"{stage}:{type(ex).__name__}"
        return _exc_detail(ex)
    return ""


def run_case(mode, kind, ids, w, wrap, order=0):
    """One trace: the text laid out at width w with wrap mode wrap, the three alignments in turn on one widget."""
    import urwid

    text, idx = encode_text(mode, kind, ids)
    ev, details = [], []
    widget = None
    held = []
    align0 = ALIGNS[(order + 1) % 3]
    for j, align in enumerate(ALIGNS):
        e = {"op": "align", "w": w, "wrap": wrap, "align": align, "exc": "", "split": 0, "lay": [[]], "rend": [], "rows": 0, "prows": 0}
        detail = ""
        try:
            if widget is None:
                # the widget has a history: another alignment, wrap mode and width were laid out (and cached) before
                widget = urwid.Text(text, align0, WRAPS[(WRAPS.index(wrap) + 1 + order) % 4])
                widget.rows((w + 1 if order or w == 1 else w - 1,))
                widget.set_wrap_mode(wrap)
                widget.rows((w + 1 if order or w == 1 else w - 1,))
            widget.set_align_mode(align)
            widget.rows((w + 1 if order or w == 1 else w - 1,))        # a layout for another width is cached at this point
        except Exception as ex:  # noqa: BLE001
            e["exc"] = f"prime:{type(ex).__name__}"
            detail = _exc_detail(ex)
        else:
            del held[:-1]                    # the canvas of the previous alignment is still referenced while the mode changes
            detail = observe(mode, widget, text, idx, e, w, align, wrap, (order + j) % 2 == 0, held)
        ev.append(e)
        details.append(detail)
    return {"mode": mode, "kind": kind, "text": list(ids), "mm": MINMARK[mode], "w": w, "wrap": wrap, "wrap0": wrap, "align0": align0,
            "order": order, "ev": ev, "_detail": details}


HIST_OPS = ["layout", "layout", "align", "wrap", "text", "none"]


def gen_hist(rng, mode, kind):
    """A history on ONE Text widget: (mutator, queries at a width) steps; canvases stay referenced or not."""
    alpha = RND[mode]

    def rtext():
        return tuple(rng.choice(alpha) for _ in range(rng.randint(2, 12)))
    ws = rng.sample([2, 3, 4, 5, 6, 8], 2)
    hold = rng.choice([1, 1, 1, 0, 2])        # 1: every canvas stays referenced, 0: none, 2: decided per step
    steps = []
    for _ in range(rng.randint(4, 8)):
        op = rng.choice(HIST_OPS)
        steps.append((op, rng.choice(ALIGNS), rng.choice(WRAPS), rtext() if op == "text" else None,
                      ws[0] if rng.random() < 0.75 else ws[1],                 # width of the judged queries
                      rng.choice([0, 0, ws[0], ws[1]]),                        # an unjudged render at this width before them (0: none)
                      rng.randint(0, 1), rng.randint(0, 1), rng.randint(0, 1)))  # rows first | property spelling | keep (hold = 2)
    return (mode, "H", kind, rtext(), rng.choice(ALIGNS), rng.choice(WRAPS), tuple(steps), hold)


def run_hist(mode, fam, kind, ids0, align0, wrap0, steps, hold):
    """One trace: a Text widget that lives through mutators (set_layout, set_align_mode / .align, set_wrap_mode / .wrap,
    set_text) interleaved with rows / render / pack; the trace specification keeps the modes in force (TextLayoutOps.WidgetApply)."""
    import urwid

    cur_ids, align, wrap = tuple(ids0), align0, wrap0
    text, idx = encode_text(mode, kind, cur_ids)
    ev, details = [], []
    held = []
    widget = None
    for op, a, wr, ids, w, pre, rows_first, spell, keep in steps:
        e = {"op": op, "w": w, "wrap": wrap, "align": align, "text": list(cur_ids), "exc": "", "split": 0, "lay": [[]], "rend": [],
             "rows": 0, "prows": 0, "got": ["", ""], "via": "", "heldw": 0, "chg": 0}
        detail = ""
        try:
            if widget is None:
                widget = urwid.Text(text, align0, wrap0)
            before = (cur_ids, align, wrap)
            if op == "layout":
                align, wrap = a, wr
                widget.set_layout(a, wr)
                e["via"] = "set_layout"
            elif op == "align":
                align = a
                if spell:
                    widget.align = a
                else:
                    widget.set_align_mode(a)
                e["via"] = ".align" if spell else "set_align_mode"
            elif op == "wrap":
                wrap = wr
                if spell:
                    widget.wrap = wr
                else:
                    widget.set_wrap_mode(wr)
                e["via"] = ".wrap" if spell else "set_wrap_mode"
            elif op == "text":
                cur_ids = tuple(ids)
                text, idx = encode_text(mode, kind, cur_ids)
                widget.set_text(text)
                e["via"] = "set_text"
            e["align"], e["wrap"], e["text"] = align, wrap, list(cur_ids)
            e["chg"] = int(before != (cur_ids, align, wrap))
            e["heldw"] = int(any(c.cols() == w for c in held))      # a canvas rendered earlier at this width is still referenced
            e["got"] = [str(widget.align), str(widget.wrap)]
            if pre:
                c = widget.render((pre,))
                if hold == 1 or (hold == 2 and keep):
                    held.append(c)
                del c
        except Exception as ex:  # noqa: BLE001
            e["exc"] = f"{op}:{type(ex).__name__}"
            detail = _exc_detail(ex)
        else:
            detail = observe(mode, widget, text, idx, e, w, align, wrap, rows_first, held if hold == 1 or (hold == 2 and keep) else None)
        ev.append(e)
        details.append(detail)
        if e["exc"]:
            break
    return {"mode": mode, "kind": kind, "fam": "H", "text": list(ids0), "mm": MINMARK[mode], "w": steps[0][4], "wrap": wrap0, "wrap0": wrap0,
            "align0": align0, "hold": hold, "steps": [list(st[:3]) + [list(st[3]) if st[3] else []] + list(st[4:]) for st in steps],
            "ev": ev, "_detail": details}


# ---- descriptive features of an input (for finding signatures and coverage counts; no verdicts) ---------------------------------
def features(ids, w, wrap):
    n = len(ids)
    has_zero = any(CW[i] == 0 and i != NL for i in ids)
    zero_line = False
    i = 0
    while i < n:
        if CW[ids[i]] == 0 and ids[i] != NL:
            j = i
            while j < n and CW[ids[j]] == 0 and ids[j] != NL:
                j += 1
            if (i == 0 or ids[i - 1] in (3, NL)) and (j == n or ids[j] in (3, NL)):
                zero_line = True
            i = j
        else:
            i += 1
    paras, cur = [], 0
    for i in ids:
        if i == NL:
            paras.append(cur)
            cur = 0
        else:
            cur += CW[i]
    paras.append(cur)
    return {"has_wide": any(CW[i] == 2 for i in ids), "has_zero": has_zero, "zero_only_line": zero_line,
            "overflow": max(paras) > w}


def _handle(chk, traces, res):
    for ti, l, why in res.rejects:
        tr = traces[ti]
        e = tr["ev"][l - 1]
        ids = e.get("text", tr["text"])
        sig = {"mode": tr["mode"], "kind": tr["kind"], "wrap": e["wrap"], "align": e["align"], "width": e["w"], "exc": e["exc"],
               "exc_detail": tr["_detail"][l - 1], "op": e["op"], **features(ids, e["w"], e["wrap"])}
        rp = {"mode": tr["mode"], "kind": tr["kind"], "text": tr["text"], "w": tr["w"], "wrap": tr["wrap"], "align": e["align"],
              "text_repr": repr("".join(CHARS[tr["mode"]][i] for i in ids)), "observed": e}
        if tr.get("fam") == "H":
            rp.update({"fam": "H", "align0": tr["align0"], "wrap0": tr["wrap0"], "steps": tr["steps"], "hold": tr["hold"], "event": l})
        else:
            rp["order"] = tr["order"]
        chk.reject(f"C03.{why}", sig, rp)


MC_INVS = ["RefValid", "RefDisplayed", "RefEmptyOnlyWhenUndisplayable", "DupRefuted", "DropRefuted", "OverRefuted", "EarlyRefuted",
           "MidWordRefuted", "MidWordOtherwiseFine", "RoundDownRefuted", "ShortRefuted", "CutMoreRefuted", "BadRowRefuted", "EmptyRefuted"]
MUTANTS = ["Dup", "Drop", "Over", "Early", "MidWord", "RoundDown", "Short", "CutMore"]


def _mc_cfg(n, w, invs, alpha="{1, 2, 3, 4, 5, 6}"):
    return (f"CONSTANTS Alphabet = {alpha} MaxLen = {n} MaxWidth = {w}\nSPECIFICATION Spec\n"
            + "".join(f"INVARIANT {i}\n" for i in invs) + "CHECK_DEADLOCK FALSE\n")


def texts_upto(alpha, n):
    for k in range(n + 1):
        yield from itertools.product(alpha, repeat=k)


def generate(chk, quick):
    """The quantified domain: (mode, kind, text, width, wrap) -> one trace with the three alignments; histories on one widget."""
    rng = chk.rng
    cases = []
    order = 0
    for mode in MODES:
        for kind in KINDS[mode]:
            full = mode == "utf8" and kind == "str"
            dbcs = mode in DBCS
            extra = []
            if quick:
                maxlen, widths = 3, range(1, 6)
                if full:      # length 4 over two sub-alphabets (without the second letter; without newline or without zero-width)
                    extra = sorted(set(itertools.product([1, 3, 4, 5], repeat=4)) | set(itertools.product([1, 3, 5, 6], repeat=4)))
                elif mode == "narrow":   # long enough for the three-column mark
                    extra = list(itertools.product([1, 3], repeat=4)) + list(itertools.product([1, 3], repeat=5))
            else:
                maxlen, widths = 4, range(1, 8)
                if full:      # length 5 without the second letter
                    extra = list(itertools.product([1, 3, 4, 5, 6], repeat=5))
                elif mode == "narrow":
                    extra = list(itertools.product([1, 3], repeat=6)) + list(itertools.product([1, 3], repeat=7))
            if mode in EXH2:   # the sequence-forming characters among letters: the same lengths over a second alphabet
                extra = list(extra) + [t for t in texts_upto(EXH2[mode], maxlen) if any(i != 1 for i in t)]
            exh = () if dbcs and kind == "str" else texts_upto(EXH[mode], maxlen)     # str in a double-byte encoding: random texts only
            for ids in itertools.chain(exh, extra):
                tw = sum(CW[i] for i in ids)
                for w in widths:
                    if (w > tw + 2 and w > 2) or (quick and full and len(ids) == 4 and w > 4):
                        continue    # far wider than the text: the widths up to two spare columns represent the rest
                    for wrap in WRAPS:
                        order += 1
                        cases.append((mode, kind, ids, w, wrap, order % 2))
            nrnd = (400 if quick else 8000) if not dbcs else (250 if quick else 4000)
            for _ in range(nrnd):
                n = rng.randint(5, 30)
                ids = tuple(rng.choice(RND[mode]) for _ in range(n))
                w = rng.choice([1, 2, 2, 3, 3, 4, 5, 6, 7, 8, 10, 12, 16, 25])
                cases.append((mode, kind, ids, w, rng.choice(WRAPS), rng.randint(0, 1)))
            nh = HIST_N.get((mode, kind), 0) * (1 if quick else 10)
            cases += [gen_hist(rng, mode, kind) for _ in range(nh)]
    return cases


# histories per (mode, kind) in the quick tier (x 10 in the thorough tier)
HIST_N = {("utf8", "str"): 260, ("utf8", "bytes"): 120, ("narrow", "str"): 60, ("wide", "bytes"): 40, ("gbk", "bytes"): 80, ("gbk", "str"): 40,
          ("uhc", "bytes"): 40, ("big5", "bytes"): 40}


def _run(c):
    return run_hist(*c) if c[1] == "H" else run_case(*c)


def _execute_chunk(chunk):
    with Enc(chunk[0][0]):
        return [_run(c) for c in chunk]


def _chunks(cases, procs):
    out = []
    for mode in MODES:       # one encoding mode per chunk (the mode is process-global)
        mc = [c for c in cases if c[0] == mode]
        size = max(500, len(mc) // (procs * 4) + 1)
        out += [mc[i:i + size] for i in range(0, len(mc), size)]
    return out


def execute(cases):
    """Run cases on the real urwid in this process."""
    return [t for ch in _chunks(cases, 1) for t in _execute_chunk(ch)]


def run(chk):
    quick = chk.tier == "quick"
    check_tables()
    procs, jobs = (4, 4) if quick else (8, 8)
    cases = generate(chk, quick)
    step = len(cases) if quick else 60000
    slices = [cases[i:i + step] for i in range(0, len(cases), step)]
    cov = {"cc": {}, "nontriv": set(), "samples": []}
    n_traces = 0
    with multiprocessing.get_context("fork").Pool(procs) as pool, cf.ThreadPoolExecutor(1) as tpool:    # workers forked before any thread exists
        pending = pool.map_async(_execute_chunk, _chunks(slices[0], procs))
        mcf = tpool.submit(model_check_all, chk, quick)
        for i in range(len(slices)):
            traces = [t for part in pending.get() for t in part]
            if i + 1 < len(slices):
                pending = pool.map_async(_execute_chunk, _chunks(slices[i + 1], procs))
            n_traces += len(traces)
            chk.note(f"slice {i + 1}/{len(slices)}: {len(traces)} traces executed on the real Text/StandardTextLayout at {time.time() - chk.t0:.1f}s")
            total = sum(len(t["ev"]) + 1 for t in traces)
            res = tlc.validate("TextLayoutTrace", traces, batch_events=max(3000, total // (2 * jobs) + 1), jobs=jobs, timeout=1100)
            chk.add_tv(f"TV_TextLayoutTrace_{i + 1}", res)
            _handle(chk, traces, res)
            coverage_update(cov, traces)
        chk.note(f"trace validation of {n_traces} traces finished at {time.time() - chk.t0:.1f}s")
        mc_results = mcf.result()
    for name, r, expect in mc_results:
        chk.add_mc(name, r)
        if expect is None:
            if not r.ok:
                chk.reject("C03.model." + str(r.violated), {"model": "TextLayout"}, {"tlc_trace": r.trace[-2:]})
        elif r.violated != expect:
            chk.vacuity.append(f"TextLayout wrong variant {name} is not refuted (or never differs from the reference) within bounds")
    coverage_finish(chk, cov)


def model_check_all(chk, quick):
    n, w = (4, 4) if quick else (5, 7)
    out = [(f"MC_TextLayout_len{n}_w{w}", tlc.mc("TextLayout", _mc_cfg(n, w, MC_INVS), workers=6, timeout=300 if quick else 1100, heap="8g"), None)]
    # non-vacuity of the refutations: for every wrong variant TLC must find a state where it differs from the reference,
    # expressed as the invariant "variant = reference" (Same<Variant> in TextLayout.tla), which has to be VIOLATED
    with cf.ThreadPoolExecutor(4) as pool:
        futs = [(m, pool.submit(tlc.mc, "TextLayout", _mc_cfg(4, 4, ["Same" + m]), workers=1, timeout=300, heap="2g")) for m in MUTANTS]
        # the Text widget as a state machine with its two memories (canvas cache, kept translation): the design is safe,
        # the three wrong designs (a mutator that keeps a memory) are refuted
        wfuts = [(v, pool.submit(tlc.mc, "TextLayoutWidget", _widget_cfg(v), workers=1, timeout=300, heap="2g")) for v in WIDGET_VARIANTS]
        for m, f in futs:
            out.append((f"variant_{m}_differs", f.result(), "Same" + m))
        for v, f in wfuts:
            out.append((f"MC_TextLayoutWidget_{v}", f.result(), None if v == "ok" else "AnswersBelongToStateInForce"))
    return out


WIDGET_VARIANTS = ["ok", "layout_keeps_canvases", "setter_keeps_translation", "text_keeps_canvases"]


def _widget_cfg(variant):
    invs = ["TypeOK", "AnswersBelongToStateInForce"] + (["MemoriesAreCurrent"] if variant == "ok" else [])
    return (f'CONSTANTS Widths = {{2, 3}} Variant = "{variant}"\nSPECIFICATION Spec\n' + "".join(f"INVARIANT {i}\n" for i in invs)
            + "CHECK_DEADLOCK FALSE\n")


def coverage_update(cov, traces):
    cc, nontriv = cov["cc"], cov["nontriv"]

    def bump(k):
        cc[k] = cc.get(k, 0) + 1
    for t in traces:
        hist = t.get("fam") == "H"
        for e in t["ev"]:
            ids = e.get("text", t["text"])
            bump(f"{t['mode']}.{t['kind']}")
            bump(f"wrap.{e['wrap']}")
            bump(f"align.{e['align']}")
            if hist:
                bump("hist.events")
                bump(f"hist.op.{e['op']}")
                if e["chg"] and e["heldw"]:
                    bump(f"hist.{e['op']}_changes_widget_while_canvas_of_that_width_is_referenced")
            if e["exc"]:
                bump("raised")
                continue
            lay = e["lay"]
            if lay == [[]]:
                bump("empty_line_layout")
                continue
            shown = set()
            feats = set()
            for line in lay:
                for g in line:
                    if g["k"] == "t":
                        shown.update(range(g["s"], g["e"]))
                    elif g["k"] == "i":
                        feats.add("ellipsis_mark")
                    elif g["k"] == "p":
                        feats.add("negative_shift" if g["c"] < 0 else "align_pad")
            for i, c in enumerate(ids):
                if i not in shown:
                    if c == 3:
                        feats.add("space_left_out")
                    elif CW[c] == 0 and c != NL:
                        feats.add("zero_width_left_out")
                    elif c != NL:
                        feats.add("clipped_beyond_width")
            if len(lay) > 1:
                feats.add("multi_line")
            if t["mode"] in DBCS and t["kind"] == "bytes" and (len(lay) > 1 or "clipped_beyond_width" in feats):
                # a wrap / cut next to a double-byte character whose second byte is in the ASCII range
                ends = {g["e"] for line in lay for g in line if g["k"] == "t"}
                if any(0 < x < len(ids) and (ids[x - 1] in LOWTRAIL[t["mode"]] or ids[x] in LOWTRAIL[t["mode"]]) for x in ends):
                    feats.add("dbcs_cut_next_to_low_second_byte")
                if any(0 < x < len(ids) and ids[x - 1] == 5 for x in ends) or any(0 <= x < len(ids) and ids[x] == 5 for x in ends):
                    feats.add("dbcs_cut_next_to_low_lead_low_second_byte")
            if t["mode"] == "utf8" and features(ids, e["w"], e["wrap"])["overflow"]:
                if any(ids[i] == 16 and CW[ids[i + 1]] > 0 for i in range(len(ids) - 1)):
                    feats.add("joiner_before_visible_character_in_overflowing_line")
                if any(ids[i + 1] == 17 and CW[ids[i]] > 0 for i in range(len(ids) - 1)):
                    feats.add("variation_selector_after_base_in_overflowing_line")
                if any(ids[i] in (19, 20) and ids[i + 1] in (19, 20) for i in range(len(ids) - 1)):
                    feats.add("regional_indicator_pair_in_overflowing_line")
            if e["wrap"] == "space" and len(lay) > 1 and any(len(line) == 1 and line[0]["k"] == "t" for line in lay[:-1]):
                feats.add("space_mode_break_without_consumed_space")
            if e["align"] == "center" and any(g["k"] == "p" and g["c"] > 0 for line in lay for g in line[:1]):
                feats.add("centred")
            for f in feats:
                bump(f)
            if feats:
                nontriv.add(hash((t["mode"], t["kind"], tuple(ids), e["w"], e["wrap"], e["align"])))
        if len(cov["samples"]) < 3 and len(t["ev"][0]["lay"]) > 1 and t["wrap"] == "space" and len(t["text"]) >= 4 and not t["ev"][0]["exc"]:
            cov["samples"].append({k: v for k, v in t.items() if k not in ("_detail", "ev")} | {"ev": t["ev"][:1]})


def coverage_finish(chk, cov):
    cc = cov["cc"]
    chk.cov["clause_counts"] = dict(sorted(cc.items()))
    for need in ("ellipsis_mark", "negative_shift", "align_pad", "space_left_out", "zero_width_left_out", "clipped_beyond_width", "multi_line",
                 "empty_line_layout", "space_mode_break_without_consumed_space", "centred",
                 "dbcs_cut_next_to_low_second_byte", "dbcs_cut_next_to_low_lead_low_second_byte",
                 "joiner_before_visible_character_in_overflowing_line", "variation_selector_after_base_in_overflowing_line",
                 "regional_indicator_pair_in_overflowing_line", "hist.events",
                 "hist.layout_changes_widget_while_canvas_of_that_width_is_referenced",
                 "hist.align_changes_widget_while_canvas_of_that_width_is_referenced",
                 "hist.wrap_changes_widget_while_canvas_of_that_width_is_referenced",
                 "hist.text_changes_widget_while_canvas_of_that_width_is_referenced"):
        if not cc.get(need):
            chk.vacuity.append(f"driver never produced a layout with {need}")
    chk.cov["distinct_nontrivial"] = len(cov["nontriv"])
    chk.cov["rule"] = ("one case = (encoding mode, str|bytes, text, width, wrap, align); exhaustive: every text over the mode's alphabet "
                       "(utf8 {a b space newline wide zero-width} and {a joiner VS-16 regional-indicator}, euc-jp {a b space newline wide}, "
                       "gbk/uhc/big5 bytes {a space (newline) wide-with-low-second-byte x2}, latin-1 {a e-acute space newline}) up to the "
                       "tier's length x widths x 4 wrap modes x 3 alignments, plus seeded random texts of 5..30 characters over a richer alphabet, "
                       "plus seeded histories on one widget (set_layout / set_align_mode / set_wrap_mode / set_text between queries at two "
                       "widths, canvases referenced or dropped); "
                       "non-trivial = distinct cases whose layout wraps, clips, leaves a character out, carries a mark or an alignment shift")
    chk.cov["exhaustive"] = True
    for smp in cov["samples"]:
        chk.sample(smp, limit=3)
    chk.cov["trusted_base"] = ["TLC", "alphabet table CHARS/CW in vf/props/c03.py (checked against wcwidth, str.encode and the TLA+ constant every run)",
                               "convert_layout / to_ids projections (offset -> character index, row bytes -> class ids)"]
    chk.assumptions += [
        "texts are representable in the encoding in force (no combining marks in euc-jp/latin-1, no CJK in latin-1); East-Asian-ambiguous "
        "characters are not put into euc-jp texts",
        "a double-width (CJK) character counts as a word of its own for 'breaks only at spaces': a break before or after one is accepted",
        "clip mode with centre/right alignment of an overlong line: the shift may be anything that keeps the window inside the line",
        "a zero-width character at a window edge or after a cut double-width character may or may not be displayed",
        "space mode is not required to be greedy (the property does not say so); empty extra lines are not forbidden",
        "a rejection ends its trace: the remaining alignments of that (text, width, wrap) are not judged in that run",
    ]


def replay(chk, path):
    with open(path) as f:
        rp = json.load(f)["replay"]
    check_tables()
    with Enc(rp["mode"]):
        if rp.get("fam") == "H":
            steps = [tuple(st[:3]) + (tuple(st[3]) or None,) + tuple(st[4:]) for st in rp["steps"]]
            tr = run_hist(rp["mode"], "H", rp["kind"], tuple(rp["text"]), rp["align0"], rp["wrap0"], steps, rp["hold"])
        else:
            tr = run_case(rp["mode"], rp["kind"], tuple(rp["text"]), rp["w"], rp["wrap"], rp.get("order", 0))
    res = tlc.validate("TextLayoutTrace", [tr], jobs=1, timeout=300)
    chk.add_tv("replay", res)
    _handle(chk, [tr], res)
    chk.sample({k: v for k, v in tr.items() if k != "_detail"})
    return chk.finish()
