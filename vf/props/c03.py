"""C03 — text layout shows every character once, in order, within the width.
Contract: spec/TextLayoutOps.tla; consistency/satisfiability model: spec/TextLayout.tla; trace spec: spec/TextLayoutTrace.tla.

The driver calls the real StandardTextLayout.layout / Text.rows / Text.pack / Text.render for every text over a small
alphabet (exhaustive) and seeded random longer texts, x width x wrap x align x str|bytes x {utf8, euc-jp, iso8859-1},
and records the layout structure (byte offsets converted to character indices), the rendered rows and the row counts.
TLC judges every record; nothing is decided here."""
from __future__ import annotations

import concurrent.futures as cf
import itertools
import json
import multiprocessing
import time

from .. import tlc

MODES = {"utf8": "utf-8", "wide": "euc-jp", "narrow": "iso8859-1"}
WRAPS = ["any", "space", "clip", "ellipsis"]
ALIGNS = ["left", "center", "right"]
NL = 4
# display width per class id — must equal CW in spec/TextLayoutOps.tla (checked by check_tables)
CW = [None, 1, 1, 1, 0, 2, 0, 1, 1, 1, 2, 2, 0, 2]
# the alphabet table: class id -> concrete character, per encoding mode
CHARS = {
    "utf8": {1: "a", 2: "b", 3: " ", 4: "\n", 5: "字", 6: "́", 7: "…", 8: ".", 9: "é", 10: "界", 11: "\U0001f600", 12: "​"},
    "wide": {1: "a", 2: "b", 3: " ", 4: "\n", 5: "字", 8: ".", 10: "界", 13: "…"},   # 13: only ever produced by urwid (the mark)
    "narrow": {1: "a", 2: "b", 3: " ", 4: "\n", 8: ".", 9: "é"},
}
EXH = {"utf8": [1, 2, 3, 4, 5, 6], "wide": [1, 2, 3, 4, 5], "narrow": [1, 9, 3, 4]}
RND = {"utf8": [1, 1, 2, 2, 3, 3, 3, 4, 5, 5, 6, 6, 7, 8, 9, 10, 11, 12], "wide": [1, 1, 2, 2, 3, 3, 3, 4, 5, 5, 10, 8],
       "narrow": [1, 1, 2, 2, 3, 3, 3, 4, 8, 9]}
MINMARK = {"utf8": 1, "wide": 2, "narrow": 1}


def check_tables():
    """The abstraction cannot drift: widths of the table agree with wcwidth / the byte length rule of the encoding,
    and CW agrees with the TLA+ constant."""
    import os
    import re

    import wcwidth

    with open(os.path.join(tlc.SPEC_DIR, "TextLayoutOps.tla")) as f:
        m = re.search(r"^CW == <<([\d, ]+)>>", f.read(), re.M)
    if [int(x) for x in m.group(1).split(",")] != CW[1:]:
        raise tlc.MachineryError("CW in c03.py and TextLayoutOps.tla differ")
    for mode, tab in CHARS.items():
        for i, ch in tab.items():
            if i == NL:
                continue
            b = ch.encode(MODES[mode])
            if b.decode(MODES[mode]) != ch:
                raise tlc.MachineryError(f"{ch!r} does not round-trip in {mode}")
            uw = max(0, wcwidth.wcwidth(ch))
            bw = uw if mode == "utf8" else len(b)     # euc-jp / latin-1 terminals: one column per byte
            if bw != CW[i] or (uw != CW[i] and i != 13):
                raise tlc.MachineryError(f"alphabet table: id {i} {ch!r} in {mode}: width {uw}/{bw}, table says {CW[i]}")


class Enc:
    """urwid's encoding mode is process-global: set it explicitly, restore what was there."""

    def __init__(self, mode):
        self.mode = mode

    def __enter__(self):
        import urwid
        from urwid import str_util, util

        self.old = (util._target_encoding, util._use_dec_special, str_util.get_byte_encoding())
        urwid.set_encoding(MODES[self.mode])
        if str_util.get_byte_encoding() != self.mode:
            raise tlc.MachineryError(f"set_encoding({MODES[self.mode]}) gave byte mode {str_util.get_byte_encoding()}")
        return self

    def __exit__(self, *a):
        from urwid import str_util, util

        util._target_encoding, util._use_dec_special = self.old[0], self.old[1]
        str_util.set_byte_encoding(self.old[2])


def _seg(k, c=0, s=0, e=0, ins=()):
    return {"k": k, "c": int(c), "s": int(s), "e": int(e), "ins": list(ins)}


def to_ids(mode, data):
    rev = {ch: i for i, ch in CHARS[mode].items()}
    if isinstance(data, bytes):
        data = data.decode(MODES[mode], errors="replace")
    return [rev.get(ch, 0) for ch in data]


def convert_layout(mode, lay, idx):
    """Layout structure -> homogeneous records over character indices.  idx(offset) -> index or None (inside a character)."""
    split = 0
    out = []
    for line in lay:
        ol = []
        for seg in line:
            if not isinstance(seg, tuple) or len(seg) not in (2, 3) or not isinstance(seg[0], int):
                ol.append(_seg("?"))
                continue
            offs = [seg[1]] if len(seg) == 2 or isinstance(seg[2], bytes) else [seg[1], seg[2]]
            conv = []
            for o in offs:
                if o is None:
                    conv.append(None)
                elif not isinstance(o, int):
                    conv.append("?")
                else:
                    i = idx(o)
                    if i is None:
                        split = 1
                        i = 0
                    conv.append(i)
            if "?" in conv:
                ol.append(_seg("?"))
            elif len(seg) == 2:
                ol.append(_seg("p", seg[0]) if conv[0] is None else _seg("h", seg[0], conv[0], conv[0]))
            elif isinstance(seg[2], bytes):
                ol.append(_seg("?") if conv[0] is None else _seg("i", seg[0], conv[0], conv[0], to_ids(mode, seg[2])))
            else:
                ol.append(_seg("?") if None in conv else _seg("t", seg[0], conv[0], conv[1]))
        out.append(ol)
    return out, split


def _exc_detail(ex):
    a = ex.args[0] if ex.args else None
    if isinstance(ex, ValueError) and isinstance(a, tuple) and len(a) == 3 and a[0] == 0:
        return "zero_column_text_segment"
    if type(ex).__name__ == "CanvasError" and "wider than the maxcol" in str(ex):
        return "row_wider_than_maxcol"
    return ""


def run_case(mode, kind, ids, w, wrap, order=0):
    """One trace: the text laid out at width w with wrap mode wrap, the three alignments in turn on one widget."""
    import urwid
    from urwid import text_layout

    codec = MODES[mode]
    chars = [CHARS[mode][i] for i in ids]
    s = "".join(chars)
    if kind == "str":
        text = s

        def idx(o):
            return o
    else:
        text = s.encode(codec)
        bmap, bo = {}, 0
        for ci, ch in enumerate(chars):
            bmap[bo] = ci
            bo += len(ch.encode(codec))
        bmap[bo] = len(chars)

        def idx(o):
            return bmap.get(o)
    ev, details = [], []
    widget = None
    for j, align in enumerate(ALIGNS):
        e = {"w": w, "wrap": wrap, "align": align, "exc": "", "split": 0, "lay": [[]], "rend": [], "rows": 0, "prows": 0}
        detail = ""
        stage = "layout"
        try:
            lay = text_layout.StandardTextLayout().layout(text, w, align, wrap)
            e["lay"], e["split"] = convert_layout(mode, lay, idx)
            stage = "widget"
            if widget is None:
                # the widget has a history: another alignment, wrap mode and width were laid out (and cached) before
                stage = "prime"
                widget = urwid.Text(text, ALIGNS[(order + 1) % 3], WRAPS[(WRAPS.index(wrap) + 1 + order) % 4])
                widget.rows((w + 1 if order or w == 1 else w - 1,))
                widget.set_wrap_mode(wrap)
                widget.rows((w + 1 if order or w == 1 else w - 1,))
                stage = "widget"
            widget.set_align_mode(align)
            widget.rows((w + 1 if order or w == 1 else w - 1,))        # a layout for another width is cached at this point
            if (order + j) % 2 == 0:
                stage = "rows"
                e["rows"] = int(widget.rows((w,)))
                stage = "render"
                canv = widget.render((w,))
            else:
                stage = "render"
                canv = widget.render((w,))
                stage = "rows"
                e["rows"] = int(widget.rows((w,)))
            e["rend"] = [to_ids(mode, row) for row in canv.text]
            stage = "pack"
            e["prows"] = int(widget.pack((w,))[1])
        except Exception as ex:  # noqa: BLE001
            e["exc"] = f"{stage}:{type(ex).__name__}"
            detail = _exc_detail(ex)
        ev.append(e)
        details.append(detail)
    return {"mode": mode, "kind": kind, "text": list(ids), "mm": MINMARK[mode], "w": w, "wrap": wrap, "order": order,
            "ev": ev, "_detail": details}


# ---- descriptive features of an input (for finding signatures and coverage counts; no verdicts) ---------------------------------
def features(ids, w, wrap):
    n = len(ids)
    has_zero = any(CW[i] == 0 and i != NL for i in ids)
    zero_line = False
    i = 0
    while i < n:
        if CW[ids[i]] == 0 and ids[i] != NL:
            j = i
            while j < n and CW[ids[j]] == 0 and ids[j] != NL:
                j += 1
            if (i == 0 or ids[i - 1] in (3, NL)) and (j == n or ids[j] in (3, NL)):
                zero_line = True
            i = j
        else:
            i += 1
    paras, cur = [], 0
    for i in ids:
        if i == NL:
            paras.append(cur)
            cur = 0
        else:
            cur += CW[i]
    paras.append(cur)
    return {"has_wide": any(CW[i] == 2 for i in ids), "has_zero": has_zero, "zero_only_line": zero_line,
            "overflow": max(paras) > w}


def _handle(chk, traces, res):
    for ti, l, why in res.rejects:
        tr = traces[ti]
        e = tr["ev"][l - 1]
        sig = {"mode": tr["mode"], "kind": tr["kind"], "wrap": tr["wrap"], "align": e["align"], "width": tr["w"], "exc": e["exc"],
               "exc_detail": tr["_detail"][l - 1], **features(tr["text"], tr["w"], tr["wrap"])}
        chk.reject(f"C03.{why}", sig, {"mode": tr["mode"], "kind": tr["kind"], "text": tr["text"], "w": tr["w"], "wrap": tr["wrap"],
                                       "order": tr["order"], "align": e["align"],
                                       "text_repr": repr("".join(CHARS[tr["mode"]][i] for i in tr["text"])), "observed": e})


MC_INVS = ["RefValid", "RefDisplayed", "RefEmptyOnlyWhenUndisplayable", "DupRefuted", "DropRefuted", "OverRefuted", "EarlyRefuted",
           "MidWordRefuted", "MidWordOtherwiseFine", "RoundDownRefuted", "ShortRefuted", "CutMoreRefuted", "BadRowRefuted", "EmptyRefuted"]
MUTANTS = ["Dup", "Drop", "Over", "Early", "MidWord", "RoundDown", "Short", "CutMore"]


def _mc_cfg(n, w, invs, alpha="{1, 2, 3, 4, 5, 6}"):
    return (f"CONSTANTS Alphabet = {alpha} MaxLen = {n} MaxWidth = {w}\nSPECIFICATION Spec\n"
            + "".join(f"INVARIANT {i}\n" for i in invs) + "CHECK_DEADLOCK FALSE\n")


def texts_upto(alpha, n):
    for k in range(n + 1):
        yield from itertools.product(alpha, repeat=k)


def generate(chk, quick):
    """The quantified domain: (mode, kind, text, width, wrap) -> one trace with the three alignments."""
    rng = chk.rng
    cases = []
    order = 0
    for mode in MODES:
        for kind in ("str", "bytes"):
            full = mode == "utf8" and kind == "str"
            if quick:
                maxlen, widths = 3, range(1, 6)
                if full:      # length 4 over two sub-alphabets (without the second letter; without newline or without zero-width)
                    extra = sorted(set(itertools.product([1, 3, 4, 5], repeat=4)) | set(itertools.product([1, 3, 5, 6], repeat=4)))
                elif mode == "narrow":   # long enough for the three-column mark
                    extra = list(itertools.product([1, 3], repeat=4)) + list(itertools.product([1, 3], repeat=5))
                else:
                    extra = []
            else:
                maxlen, widths = 4, range(1, 8)
                if full:      # length 5 without the second letter
                    extra = list(itertools.product([1, 3, 4, 5, 6], repeat=5))
                elif mode == "narrow":
                    extra = list(itertools.product([1, 3], repeat=6)) + list(itertools.product([1, 3], repeat=7))
                else:
                    extra = []
            for ids in itertools.chain(texts_upto(EXH[mode], maxlen), extra):
                tw = sum(CW[i] for i in ids)
                for w in widths:
                    if (w > tw + 2 and w > 2) or (quick and full and len(ids) == 4 and w > 4):
                        continue    # far wider than the text: the widths up to two spare columns represent the rest
                    for wrap in WRAPS:
                        order += 1
                        cases.append((mode, kind, ids, w, wrap, order % 2))
            for _ in range(400 if quick else 8000):
                n = rng.randint(5, 30)
                ids = tuple(rng.choice(RND[mode]) for _ in range(n))
                w = rng.choice([1, 2, 2, 3, 3, 4, 5, 6, 7, 8, 10, 12, 16, 25])
                cases.append((mode, kind, ids, w, rng.choice(WRAPS), rng.randint(0, 1)))
    return cases


def _execute_chunk(chunk):
    with Enc(chunk[0][0]):
        return [run_case(*c) for c in chunk]


def _chunks(cases, procs):
    out = []
    for mode in MODES:       # one encoding mode per chunk (the mode is process-global)
        mc = [c for c in cases if c[0] == mode]
        size = max(500, len(mc) // (procs * 4) + 1)
        out += [mc[i:i + size] for i in range(0, len(mc), size)]
    return out


def execute(cases):
    """Run cases on the real urwid in this process."""
    return [t for ch in _chunks(cases, 1) for t in _execute_chunk(ch)]


def run(chk):
    quick = chk.tier == "quick"
    check_tables()
    procs, jobs = (4, 4) if quick else (8, 8)
    cases = generate(chk, quick)
    step = len(cases) if quick else 60000
    slices = [cases[i:i + step] for i in range(0, len(cases), step)]
    cov = {"cc": {}, "nontriv": set(), "samples": []}
    n_traces = 0
    with multiprocessing.get_context("fork").Pool(procs) as pool, cf.ThreadPoolExecutor(1) as tpool:    # workers forked before any thread exists
        pending = pool.map_async(_execute_chunk, _chunks(slices[0], procs))
        mcf = tpool.submit(model_check_all, chk, quick)
        for i in range(len(slices)):
            traces = [t for part in pending.get() for t in part]
            if i + 1 < len(slices):
                pending = pool.map_async(_execute_chunk, _chunks(slices[i + 1], procs))
            n_traces += len(traces)
            chk.note(f"slice {i + 1}/{len(slices)}: {len(traces)} traces executed on the real Text/StandardTextLayout at {time.time() - chk.t0:.1f}s")
            total = sum(len(t["ev"]) + 1 for t in traces)
            res = tlc.validate("TextLayoutTrace", traces, batch_events=max(3000, total // (2 * jobs) + 1), jobs=jobs, timeout=1100)
            chk.add_tv(f"TV_TextLayoutTrace_{i + 1}", res)
            _handle(chk, traces, res)
            coverage_update(cov, traces)
        chk.note(f"trace validation of {n_traces} traces finished at {time.time() - chk.t0:.1f}s")
        mc_results = mcf.result()
    for name, r, expect in mc_results:
        chk.add_mc(name, r)
        if expect is None:
            if not r.ok:
                chk.reject("C03.model." + str(r.violated), {"model": "TextLayout"}, {"tlc_trace": r.trace[-2:]})
        elif r.violated != expect:
            chk.vacuity.append(f"TextLayout wrong variant {name} never differs from the reference within bounds")
    coverage_finish(chk, cov)


def model_check_all(chk, quick):
    n, w = (4, 4) if quick else (5, 7)
    out = [(f"MC_TextLayout_len{n}_w{w}", tlc.mc("TextLayout", _mc_cfg(n, w, MC_INVS), workers=6, timeout=300 if quick else 1100, heap="8g"), None)]
    # non-vacuity of the refutations: for every wrong variant TLC must find a state where it differs from the reference,
    # expressed as the invariant "variant = reference" (Same<Variant> in TextLayout.tla), which has to be VIOLATED
    with cf.ThreadPoolExecutor(4) as pool:
        futs = [(m, pool.submit(tlc.mc, "TextLayout", _mc_cfg(4, 4, ["Same" + m]), workers=1, timeout=300, heap="2g")) for m in MUTANTS]
        for m, f in futs:
            out.append((f"variant_{m}_differs", f.result(), "Same" + m))
    return out


def coverage_update(cov, traces):
    cc, nontriv = cov["cc"], cov["nontriv"]

    def bump(k):
        cc[k] = cc.get(k, 0) + 1
    for t in traces:
        ids = t["text"]
        for e in t["ev"]:
            bump(f"{t['mode']}.{t['kind']}")
            bump(f"wrap.{e['wrap']}")
            bump(f"align.{e['align']}")
            if e["exc"]:
                bump("raised")
                continue
            lay = e["lay"]
            if lay == [[]]:
                bump("empty_line_layout")
                continue
            shown = set()
            feats = set()
            for line in lay:
                for g in line:
                    if g["k"] == "t":
                        shown.update(range(g["s"], g["e"]))
                    elif g["k"] == "i":
                        feats.add("ellipsis_mark")
                    elif g["k"] == "p":
                        feats.add("negative_shift" if g["c"] < 0 else "align_pad")
            for i, c in enumerate(ids):
                if i not in shown:
                    if c == 3:
                        feats.add("space_left_out")
                    elif CW[c] == 0 and c != NL:
                        feats.add("zero_width_left_out")
                    elif c != NL:
                        feats.add("clipped_beyond_width")
            if len(lay) > 1:
                feats.add("multi_line")
            if e["wrap"] == "space" and len(lay) > 1 and any(len(line) == 1 and line[0]["k"] == "t" for line in lay[:-1]):
                feats.add("space_mode_break_without_consumed_space")
            if e["align"] == "center" and any(g["k"] == "p" and g["c"] > 0 for line in lay for g in line[:1]):
                feats.add("centred")
            for f in feats:
                bump(f)
            if feats:
                nontriv.add(hash((t["mode"], t["kind"], tuple(ids), t["w"], e["wrap"], e["align"])))
        if len(cov["samples"]) < 3 and len(t["ev"][0]["lay"]) > 1 and t["wrap"] == "space" and len(ids) >= 4 and not t["ev"][0]["exc"]:
            cov["samples"].append({k: v for k, v in t.items() if k not in ("_detail", "ev")} | {"ev": t["ev"][:1]})


def coverage_finish(chk, cov):
    cc = cov["cc"]
    chk.cov["clause_counts"] = dict(sorted(cc.items()))
    for need in ("ellipsis_mark", "negative_shift", "align_pad", "space_left_out", "zero_width_left_out", "clipped_beyond_width", "multi_line",
                 "empty_line_layout", "space_mode_break_without_consumed_space", "centred"):
        if not cc.get(need):
            chk.vacuity.append(f"driver never produced a layout with {need}")
    chk.cov["distinct_nontrivial"] = len(cov["nontriv"])
    chk.cov["rule"] = ("one case = (encoding mode, str|bytes, text, width, wrap, align); exhaustive: every text over the mode's alphabet "
                       "(utf8 {a b space newline wide zero-width}, euc-jp {a b space newline wide}, latin-1 {a e-acute space newline}) up to the "
                       "tier's length x widths x 4 wrap modes x 3 alignments, plus seeded random texts of 5..30 characters over a richer alphabet; "
                       "non-trivial = distinct cases whose layout wraps, clips, leaves a character out, carries a mark or an alignment shift")
    chk.cov["exhaustive"] = True
    for smp in cov["samples"]:
        chk.sample(smp, limit=3)
    chk.cov["trusted_base"] = ["TLC", "alphabet table CHARS/CW in vf/props/c03.py (checked against wcwidth, str.encode and the TLA+ constant every run)",
                               "convert_layout / to_ids projections (offset -> character index, row bytes -> class ids)"]
    chk.assumptions += [
        "texts are representable in the encoding in force (no combining marks in euc-jp/latin-1, no CJK in latin-1); East-Asian-ambiguous "
        "characters are not put into euc-jp texts",
        "a double-width (CJK) character counts as a word of its own for 'breaks only at spaces': a break before or after one is accepted",
        "clip mode with centre/right alignment of an overlong line: the shift may be anything that keeps the window inside the line",
        "a zero-width character at a window edge or after a cut double-width character may or may not be displayed",
        "space mode is not required to be greedy (the property does not say so); empty extra lines are not forbidden",
        "a rejection ends its trace: the remaining alignments of that (text, width, wrap) are not judged in that run",
    ]


def replay(chk, path):
    with open(path) as f:
        rp = json.load(f)["replay"]
    check_tables()
    with Enc(rp["mode"]):
        tr = run_case(rp["mode"], rp["kind"], tuple(rp["text"]), rp["w"], rp["wrap"], rp.get("order", 0))
    res = tlc.validate("TextLayoutTrace", [tr], jobs=1, timeout=300)
    chk.add_tv("replay", res)
    _handle(chk, [tr], res)
    chk.sample({k: v for k, v in tr.items() if k != "_detail"})
    return chk.finish()
