"""C16 — focus-tracking lists.  Spec: spec/MonitoredList.tla (+Ops, PySlice); trace spec:
spec/MonitoredListTrace.tla.  See DESIGN.md §4 C16."""
from __future__ import annotations

import itertools
import json

from .. import tlc

NONE = 1000


def _py(v):
    return None if v == NONE else v


def mkop(n, a=0, b=0, s=0, new=(), rhs="list"):
    return {"n": n, "a": a, "b": b, "s": s, "new": list(new), "rhs": rhs}


RHS = ("list", "tuple", "gen", "iter")


def _rhs(new, how):
    """The same new items spelled as the caller may spell them: list / tuple / generator / iterator."""
    if how == "tuple":
        return tuple(new)
    if how == "gen":
        return (x for x in new)
    if how == "iter":
        return iter(new)
    return new


# ------------------------------------------------------------------------------------------------
# subjects: real objects under test, each projecting to (items as ints, focus)
# ------------------------------------------------------------------------------------------------
class Subject:
    kind = "focus"
    name = "?"
    emptyfocus = "ignore"  # what assigning a focus index does on an empty list

    def __init__(self, items, focus):
        self.mod = 0
        self.fcb = 0
        self.make(list(items), focus)

    # mapping between abstract ids and concrete list elements
    def conc(self, i):
        return i

    def abst(self, x):
        return x

    def sortkey(self):
        return None

    def project(self):
        f = self.focus()
        return [self.abst(x) for x in self.lst], (-1 if f is None else f)

    def _on_mod(self, *a):
        self.mod += 1

    def _on_fc(self, *a):
        self.fcb += 1

    def set_focus(self, i):
        self.lst.focus = i

    def apply(self, op):
        """Run one abstract operation on the real list; return exception class name or ''."""
        self.mod = 0
        self.fcb = 0
        ml = self.lst
        n = op["n"]
        new = [self.conc(i) for i in op["new"]]
        how = op.get("rhs", "list")
        try:
            if n == "setslice":
                ml[slice(_py(op["a"]), _py(op["b"]), _py(op["s"]))] = _rhs(new, how)
            elif n == "delslice":
                del ml[slice(_py(op["a"]), _py(op["b"]), _py(op["s"]))]
            elif n == "setitem":
                ml[op["a"]] = new[0]
            elif n == "delitem":
                del ml[op["a"]]
            elif n == "insert":
                ml.insert(op["a"], new[0])
            elif n == "append":
                ml.append(new[0])
            elif n == "extend":
                ml.extend(_rhs(new, how))
            elif n == "iadd":
                ml += _rhs(new, how)
            elif n == "pop":
                if op["a"] == NONE:
                    ml.pop()
                else:
                    ml.pop(op["a"])
            elif n == "remove":
                ml.remove(self.conc(op["a"]))
            elif n == "reverse":
                ml.reverse()
            elif n == "sort":
                k = self.sortkey()
                if k is None:
                    ml.sort()
                else:
                    ml.sort(key=k)
            elif n == "imul":
                ml *= op["a"]
            elif n == "clear":
                ml.clear()
            elif n == "setfocus":
                self.set_focus(op["a"])
            else:
                raise AssertionError(n)
        except (IndexError, ValueError, TypeError, KeyError, AttributeError, AssertionError, RuntimeError) as ex:
            return type(ex).__name__
        return ""


class MFL(Subject):
    name = "MonitoredFocusList"

    def make(self, items, focus):
        from urwid.widget.monitored_list import MonitoredFocusList

        self.lst = MonitoredFocusList(items, focus=max(focus, 0))
        self.lst.set_modified_callback(self._on_mod)
        self.lst.set_focus_changed_callback(self._on_fc)

    def focus(self):
        return self.lst.focus


class ML(Subject):
    name = "MonitoredList"
    kind = "plain"

    def make(self, items, focus):
        from urwid.widget.monitored_list import MonitoredList

        self.lst = MonitoredList(items)
        self.lst.set_modified_callback(self._on_mod)

    def focus(self):
        return None

    def set_focus(self, i):
        raise AssertionError("no focus")


class SFLW(Subject):
    name = "SimpleFocusListWalker"

    def make(self, items, focus):
        import urwid

        self.lst = urwid.SimpleFocusListWalker(items)
        if items:
            self.lst.focus = focus
        urwid.connect_signal(self.lst, "modified", self._on_mod)
        self.lst.set_focus_changed_callback(self._on_fc)

    def focus(self):
        return self.lst.focus

    def set_focus(self, i):
        self.lst.set_focus(i)


class SFLWPlain(SFLW):
    """The same walker observed as a ListBox observes it: only through the 'modified' signal, with the walker's own
    focus-changed hook left in place (installing an observer there would replace whatever the walker put there itself)."""

    name = "SimpleFocusListWalker.signal_only"
    kind = "focus_nocb"

    def make(self, items, focus):
        import urwid

        self.lst = urwid.SimpleFocusListWalker(items)
        if items:
            self.lst.focus = focus
        urwid.connect_signal(self.lst, "modified", self._on_mod)


class SLW(Subject):
    """SimpleListWalker: MonitoredList + a position re-clamped by the walker's _modified wrapper; observed as a ListBox
    observes it, through get_focus() (None when there is nothing to focus)."""

    name = "SimpleListWalker"
    kind = "clamp"
    emptyfocus = "IndexError"

    def make(self, items, focus):
        import urwid

        self.lst = urwid.SimpleListWalker(items)
        if items:
            self.lst.set_focus(focus)
        urwid.connect_signal(self.lst, "modified", self._on_mod)

    def focus(self):
        return self.lst.get_focus()[1]

    def set_focus(self, i):
        self.lst.set_focus(i)


class _Container(Subject):
    """Pile/Columns/GridFlow .contents: elements are (widget, options) tuples; abstract id = the
    widget's tag.  The container itself owns the modified / focus callbacks of the list, so
    callback counts are observed through wrappers around them (call-through)."""

    emptyfocus = "IndexError"

    def make(self, items, focus):
        import urwid

        self._w = {}
        self._urwid = urwid
        self.cont = self.build([self.conc(i) for i in items], focus)
        self.lst = self.cont.contents
        inner_mod = self.lst._modified
        inner_fc = self.lst._focus_changed

        def mod():
            self.mod += 1
            return inner_mod()

        def fc(pos):
            self.fcb += 1
            return inner_fc(pos)

        self.lst._modified = mod
        self.lst._focus_changed = fc

    def widget(self, i):
        if i not in self._w:
            w = self._urwid.Text(str(i))
            w._vf_id = i
            self._w[i] = w
        return self._w[i]

    def abst(self, x):
        return x[0]._vf_id

    def sortkey(self):
        return lambda t: t[0]._vf_id

    def focus(self):
        return self.lst.focus

    def set_focus(self, i):
        self.cont.focus_position = i


class PileC(_Container):
    name = "Pile.contents"

    def conc(self, i):
        return (self.widget(i), ("pack", None))

    def build(self, items, focus):
        p = self._urwid.Pile([])
        p.contents[:] = items
        if items:
            p.focus_position = focus
        return p


class ColumnsC(_Container):
    name = "Columns.contents"

    def conc(self, i):
        return (self.widget(i), ("weight", 1, False))

    def build(self, items, focus):
        c = self._urwid.Columns([])
        c.contents[:] = items
        if items:
            c.focus_position = focus
        return c


class GridFlowC(_Container):
    name = "GridFlow.contents"

    def conc(self, i):
        return (self.widget(i), ("given", 3))

    def build(self, items, focus):
        g = self._urwid.GridFlow([], 3, 1, 0, "left")
        g.contents[:] = items
        if items:
            g.focus_position = focus
        return g


SUBJECTS = {c.name: c for c in (MFL, ML, SFLW, SFLWPlain, SLW, PileC, ColumnsC, GridFlowC)}


# ------------------------------------------------------------------------------------------------
def record(subject_cls, items, focus, ops):
    """Execute ops on a fresh subject, return a trace for MonitoredListTrace."""
    s = subject_cls(items, focus)
    it, f = s.project()
    tr = {"kind": s.kind, "subject": s.name, "emptyfocus": s.emptyfocus, "init": {"items": it, "focus": f}, "ev": []}
    for op in ops:
        exc = s.apply(op)
        it, f = s.project()
        tr["ev"].append({"op": op, "exc": exc, "items": it, "focus": f, "mod": s.mod, "fcb": s.fcb})
    return tr


def all_ops(maxidx, maxstep, maxnew, vals, setfocus=True, iterables=False):
    idx = list(range(-maxidx, maxidx + 1))
    steps = [s for s in range(-maxstep, maxstep + 1) if s] + [NONE, 0]
    fresh = lambda k: [7 + j for j in range(k)]  # noqa: E731
    ops = []
    for a in idx + [NONE]:
        for b in idx + [NONE]:
            for s in steps:
                for k in range(maxnew + 1):
                    ops.append(mkop("setslice", a, b, s, fresh(k)))
                ops.append(mkop("delslice", a, b, s))
    for a in idx:
        ops += [mkop("setitem", a, new=fresh(1)), mkop("delitem", a), mkop("insert", a, new=fresh(1)), mkop("pop", a)]
        if setfocus:
            ops.append(mkop("setfocus", a))
    ops.append(mkop("pop", NONE))
    ops.append(mkop("append", new=fresh(1)))
    for k in range(maxnew + 1):
        ops += [mkop("extend", new=fresh(k)), mkop("iadd", new=fresh(k))]
        # the right-hand side spelled as a tuple / generator / iterator: `+=` takes any iterable on every subject;
        # extend / slice assignment take any iterable on the plain MonitoredList (sized collections on the focus list)
        ops += [mkop("iadd", new=fresh(k), rhs=h) for h in RHS[1:]]
        ops += [mkop("extend", new=fresh(k), rhs=h) for h in (RHS[1:] if iterables else RHS[1:2])]
        for a in (0, 1, -1, NONE):
            ops += [mkop("setslice", a, a, NONE, fresh(k), rhs=h) for h in (RHS[1:] if iterables else RHS[1:2])]
        if iterables:
            ops += [mkop("setslice", NONE, NONE, 2, fresh(k), rhs=h) for h in RHS[1:]]
    for v in vals:
        ops.append(mkop("remove", v))
    ops += [mkop("reverse"), mkop("sort"), mkop("clear")]
    for k in range(-1, 4):
        ops.append(mkop("imul", k))
    return ops


def rep_ops(base):
    """A small alphabet with a few representatives of every operation kind (fresh values from `base`),
    used for exhaustive PAIRS / TRIPLES of operations: multi-step interactions such as a call that leaves
    stale private state behind which only a later, different call exposes."""
    f = lambda k: [base + j for j in range(k)]  # noqa: E731
    ops = [mkop("setslice", NONE, NONE, NONE, []), mkop("setslice", 0, 0, NONE, f(1)), mkop("setslice", 1, 2, NONE, f(2)),
           mkop("setslice", NONE, NONE, NONE, f(1)), mkop("setslice", NONE, NONE, 2, f(1)), mkop("setslice", -1, NONE, NONE, f(2)),
           mkop("delslice", NONE, NONE, NONE), mkop("delslice", 0, 1, NONE), mkop("delslice", 1, NONE, NONE),
           mkop("delslice", NONE, NONE, 2), mkop("delslice", NONE, NONE, -1), mkop("delslice", -1, NONE, NONE),
           mkop("delslice", NONE, NONE, -2),
           mkop("setitem", 0, new=f(1)), mkop("setitem", -1, new=f(1)), mkop("delitem", 0), mkop("delitem", -1), mkop("delitem", 1),
           mkop("insert", 0, new=f(1)), mkop("insert", 1, new=f(1)), mkop("insert", 9, new=f(1)),
           mkop("pop", NONE), mkop("pop", 0), mkop("setfocus", 0), mkop("setfocus", 1), mkop("setfocus", -1), mkop("setfocus", 2),
           mkop("append", new=f(1)), mkop("extend", new=[]), mkop("extend", new=f(1)), mkop("extend", new=f(2)),
           mkop("iadd", new=[]), mkop("iadd", new=f(1)), mkop("iadd", new=f(2)), mkop("remove", 1), mkop("remove", 2),
           mkop("iadd", new=f(2), rhs="gen"), mkop("iadd", new=f(1), rhs="iter"), mkop("extend", new=f(2), rhs="tuple"),
           mkop("reverse"), mkop("sort"), mkop("clear"), mkop("imul", 0), mkop("imul", 1), mkop("imul", 2)]
    return ops


def states(maxlen, dup_vals=2):
    seen = []
    for n in range(maxlen + 1):
        for t in itertools.product(range(1, dup_vals + 1), repeat=n):
            seen.append(list(t))
    for n in range(3, maxlen + 1):
        for p in itertools.islice(itertools.permutations(range(1, n + 1)), 0, 6):
            seen.append(list(p))
    out = []
    for it in seen:
        if not it:
            out.append((it, -1))
        else:
            for f in range(len(it)):
                out.append((it, f))
    return out


def random_ops(rng, n, maxsize=8, setfocus=True):
    """A random history that keeps the list within maxsize (growth ops are dropped when large)."""
    ops = []
    size_hint = 4
    nxt = [10]

    def fresh(k):
        out = list(range(nxt[0], nxt[0] + k))
        nxt[0] += k
        return out

    for _ in range(n):
        r = rng.random()
        ix = lambda: rng.choice([NONE] + list(range(-10, 11)))  # noqa: E731
        if r < 0.25:
            k = rng.randint(0, 3) if size_hint < maxsize else 0
            s = rng.choice([NONE, 1, 1, 2, 3, -1, -2, -3, 0]) if rng.random() < 0.4 else NONE
            ops.append(mkop("setslice", ix(), ix(), s, fresh(k)))
            size_hint += k
        elif r < 0.45:
            ops.append(mkop("delslice", ix(), ix(), rng.choice([NONE, NONE, 1, 2, 3, -1, -2, -3, 0])))
            size_hint = max(0, size_hint - 1)
        elif r < 0.52:
            ops.append(mkop("setitem", rng.randint(-9, 9), new=fresh(1)))
        elif r < 0.6:
            ops.append(mkop("delitem", rng.randint(-9, 9)))
        elif r < 0.68 and size_hint < maxsize:
            ops.append(mkop("insert", rng.randint(-9, 9), new=fresh(1)))
            size_hint += 1
        elif r < 0.73 and size_hint < maxsize:
            ops.append(mkop(rng.choice(["append"]), new=fresh(1)))
            size_hint += 1
        elif r < 0.78 and size_hint < maxsize:
            nm = rng.choice(["extend", "iadd"])
            ops.append(mkop(nm, new=fresh(rng.randint(0, 2)), rhs=rng.choice(RHS if nm == "iadd" else RHS[:2])))
            size_hint += 2
        elif r < 0.84:
            ops.append(mkop("pop", rng.choice([NONE, NONE] + list(range(-9, 10)))))
        elif r < 0.88:
            ops.append(mkop("remove", rng.randint(1, 20)))
        elif r < 0.91:
            ops.append(mkop("reverse"))
        elif r < 0.94:
            ops.append(mkop("sort"))
        elif r < 0.96:
            ops.append(mkop("imul", rng.choice([-1, 0, 1, 2]) if size_hint * 2 <= maxsize else rng.choice([0, 1])))
        elif r < 0.97:
            ops.append(mkop("clear"))
            size_hint = 0
        elif setfocus:
            ops.append(mkop("setfocus", rng.randint(-9, 9)))
    return ops


MC_CFG = """CONSTANTS MaxLen = {maxlen} MaxVal = {maxval} MaxIdx = {maxidx} MaxStep = {maxstep} MaxNew = {maxnew} Depth = {depth}
SPECIFICATION Spec
INVARIANT FocusInv
INVARIANT FocusInRange
INVARIANT ErrLeavesUnchanged
INVARIANT ModifiedOnlyOnSuccess
INVARIANT FocusFollowsItem
INVARIANT AsCodedOK
CHECK_DEADLOCK FALSE
"""


def _handle_rejects(chk, traces, res, label):
    for ti, l, why in res.rejects:
        tr = traces[ti]
        e = tr["ev"][l - 1]
        pre = tr["ev"][l - 2] if l >= 2 else tr["init"]
        sig = {"subject": tr["subject"], "op": e["op"]["n"], "step": e["op"]["s"] if e["op"]["n"] in ("setslice", "delslice") else 0,
               "exc": e["exc"], "pre_len": len(pre["items"])}
        chk.reject(f"C16.{why}", sig, {"driver": label, "subject": tr["subject"], "init": tr["init"],
                                       "ops": [x["op"] for x in tr["ev"][:l]], "observed": e})


def run(chk):
    quick = chk.tier == "quick"
    rng = chk.rng
    # ---- MC: exhaustive check of the contract + the as-coded transcription -----------------
    cfg = MC_CFG.format(maxlen=3 if quick else 4, maxval=3, maxidx=5 if quick else 6, maxstep=3,
                        maxnew=2 if quick else 3, depth=1)
    r = tlc.mc("MonitoredList", cfg, timeout=1500, coverage=False)  # -coverage exhausts the heap on the big op set
    chk.add_mc("MC_MonitoredList_depth1_allstates", r)
    if not r.ok:
        chk.reject("C16.model." + str(r.violated), {"model": "MonitoredList", "inv": r.violated}, {"tlc_trace": r.trace})
    # deeper histories from a few states
    cfg2 = MC_CFG.format(maxlen=2, maxval=2, maxidx=2, maxstep=2, maxnew=1, depth=2 if quick else 3)
    r2 = tlc.mc("MonitoredList", cfg2, timeout=1500, coverage=False)
    chk.add_mc("MC_MonitoredList_deeper", r2)
    if not r2.ok:
        chk.reject("C16.model." + str(r2.violated), {"model": "MonitoredList", "inv": r2.violated}, {"tlc_trace": r2.trace})

    traces = []
    # ---- code -> spec, exhaustive within bounds: every op from every state (1 event each) ---
    ops = all_ops(4 if quick else 6, 3, 2 if quick else 3, [1, 2, 3])
    sts = states(3 if quick else 4)
    n_ex = 0
    for items, f in sts:
        for op in ops:
            traces.append(record(MFL, items, f, [op]))
            n_ex += 1
    # other subjects: every op from a few states
    few = [s for s in sts if len(s[0]) in (0, 1, 3)][:: (3 if quick else 1)]
    small_ops = all_ops(3, 2, 1, [1, 2, 3])
    plain_ops = all_ops(3, 2, 1, [1, 2, 3], iterables=True)
    for cls in (ML, SFLW, SFLWPlain, SLW, PileC, ColumnsC, GridFlowC):
        for items, f in few:
            for op in (plain_ops if cls in (ML, SLW) else small_ops):
                if cls is ML and op["n"] == "setfocus":
                    continue
                traces.append(record(cls, items, f, [op]))
    # ---- code -> spec, exhaustive PAIRS (thorough: also TRIPLES) over a representative alphabet ----
    r1, r2, r3 = rep_ops(20), rep_ops(30), rep_ops(40)
    n_pairs = 0
    mfl_states = states(3) if not quick else [([1, 2, 3], 0), ([1, 2, 3], 1), ([1, 2, 3], 2), ([1, 2], 0), ([1, 2], 1), ([1], 0),
                                              ([], -1), ([1, 1, 2], 1)]
    for items, f in mfl_states:
        for o1 in r1:
            for o2 in r2:
                traces.append(record(MFL, items, f, [o1, o2]))
                n_pairs += 1
    pair_states = [([1, 2, 3], 2), ([1, 2], 1), ([], -1)] if not quick else [([1, 2, 3], 2)]
    for cls in (SFLW, SFLWPlain, SLW, PileC, ColumnsC, GridFlowC, ML):
        for items, f in pair_states:
            for o1 in r1:
                for o2 in r2:
                    if cls is ML and "setfocus" in (o1["n"], o2["n"]):
                        continue
                    traces.append(record(cls, items, f, [o1, o2]))
                    n_pairs += 1
    n_triples = 0
    if not quick:
        for items, f in [([1, 2, 3], 2), ([1, 2, 3], 0), ([2, 1], 1), ([1], 0), ([], -1)]:
            for o1 in r1:
                for o2 in r2:
                    for o3 in r3:
                        traces.append(record(MFL, items, f, [o1, o2, o3]))
                        n_triples += 1
    chk.cov["pair_histories"] = n_pairs
    chk.cov["triple_histories"] = n_triples
    # ---- code -> spec, seeded random histories --------------------------------------------
    n_rand = 1500 if quick else 40000
    for i in range(n_rand):
        cls = [MFL, MFL, SFLW, ML, PileC, ColumnsC, GridFlowC, SLW, SFLWPlain][i % 9]
        n0 = rng.randint(0, 5)
        items = list(range(1, n0 + 1))
        rng.shuffle(items)
        f = rng.randrange(n0) if n0 else -1
        traces.append(record(cls, items, f, random_ops(rng, 30, setfocus=cls is not ML)))
    # ---- spec -> code: TLC-chosen behaviours replayed on the real class ---------------------
    simcfg = MC_CFG.format(maxlen=3, maxval=3, maxidx=5, maxstep=3, maxnew=2, depth=10).replace("SPECIFICATION Spec", "SPECIFICATION SimSpec")
    behs = tlc.simulate("MonitoredList", simcfg, num=200 if quick else 3000, depth=11, seed=chk.seed, jobs=4 if quick else 12)
    agree = 0
    for b in behs:
        init = b[0]
        opsb = [st["last"]["op"] for st in b[1:]]
        tr = record(MFL, init["items"], init["focus"], opsb)
        tr["driver"] = "tlc-simulate"
        traces.append(tr)
        for st, e in zip(b[1:], tr["ev"]):
            if st["items"] == e["items"] and st["focus"] == e["focus"] and st["last"]["err"] == e["exc"]:
                agree += 1
            else:
                chk.divergence("spec_to_code_state_differs", {"op": st["last"]["op"], "spec": [st["items"], st["focus"]], "code": [e["items"], e["focus"]]})
                break
    chk.cov["spec_to_code_behaviours"] = len(behs)
    chk.cov["spec_to_code_steps_agreeing"] = agree

    res = tlc.validate("MonitoredListTrace", traces, batch_events=30000, timeout=1500)
    chk.add_tv("TV_MonitoredListTrace", res)
    _handle_rejects(chk, traces, res, "c16")
    # coverage bookkeeping
    kinds = {}
    nontriv = set()
    for t in traces:
        for e in t["ev"]:
            k = (t["subject"], e["op"]["n"], "err" if e["exc"] else "ok")
            kinds[k] = kinds.get(k, 0) + 1
            if e["exc"] == "" and len(t["ev"]) == 1 and t["init"]["items"] != e["items"]:
                nontriv.add(json.dumps([t["subject"], t["init"], e["op"]]))
    chk.cov["clause_counts"] = {f"{a}.{b}.{c}": n for (a, b, c), n in sorted(kinds.items())}
    chk.cov["distinct_nontrivial"] = len(nontriv)
    rhs_seen = {}
    for t in traces:
        for e in t["ev"]:
            if e["op"]["n"] in ("iadd", "extend", "setslice") and e["exc"] == "" and e["op"]["new"]:
                k = f'{t["subject"]}.{e["op"]["n"]}.{e["op"].get("rhs", "list")}'
                rhs_seen[k] = rhs_seen.get(k, 0) + 1
    chk.cov["rhs_spellings_accepted"] = dict(sorted(rhs_seen.items()))
    for sub in SUBJECTS:
        for h in RHS:
            if not rhs_seen.get(f"{sub}.iadd.{h}"):
                chk.vacuity.append(f"driver.{sub}.iadd.{h}")
        if not rhs_seen.get(f"{sub}.extend.tuple"):
            chk.vacuity.append(f"driver.{sub}.extend.tuple")
    for h in RHS:
        if not rhs_seen.get(f"MonitoredList.setslice.{h}"):
            chk.vacuity.append(f"driver.MonitoredList.setslice.{h}")
    for sub in SUBJECTS:
        for opn in ("delslice", "pop", "remove", "delitem", "setslice", "clear", "insert"):
            if not kinds.get((sub, opn, "ok")):
                chk.vacuity.append(f"driver.{sub}.{opn}")
    chk.cov["rule"] = ("every operation of the bounded alphabet from every bounded (list, focus) state on MonitoredFocusList, "
                       "a sub-alphabet on MonitoredList/SimpleFocusListWalker/SimpleListWalker (position re-clamped, seen through get_focus)/Pile/Columns/GridFlow contents, seeded random histories "
                       "of length 30, and TLC -simulate behaviours replayed; non-trivial = distinct single-op cases that change the contents")
    chk.cov["exhaustive"] = True
    chk.cov["bounds"] = {"exhaustive_states": len(sts), "ops_per_state": len(ops), "exhaustive_cases": n_ex, "random_histories": n_rand}
    chk.sample(traces[len(traces) // 3])
    chk.sample(traces[-1])
    chk.cov["trusted_base"] = ["TLC", "vf/props/c16.py Subject.apply/project (call-through driver)", "PySlice.tla (list semantics)"]
    chk.assumptions += ["new items are fresh values, distinct from the list's (focus identity is positional in the code)",
                        "constructor focus= is given valid values only",
                        "generators / iterators as new items: for `+=` on every subject, for extend / slice assignment on the plain MonitoredList "
                        "and SimpleListWalker only (MonitoredFocusList.extend / __setitem__ are declared for sized collections and call len())"]


def replay(chk, path):
    with open(path) as f:
        rp = json.load(f)["replay"]
    cls = SUBJECTS[rp["subject"]]
    tr = record(cls, rp["init"]["items"], rp["init"]["focus"], rp["ops"])
    res = tlc.validate("MonitoredListTrace", [tr])
    chk.add_tv("replay", res)
    _handle_rejects(chk, [tr], res, "replay")
    chk.sample(tr)
    return chk.finish()
