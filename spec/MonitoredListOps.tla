------------------------- MODULE MonitoredListOps -------------------------
(* C16: contract of urwid's focus-tracking lists (MonitoredList / MonitoredFocusList).   *)
(* Pure operators shared by the state machine (MonitoredList.tla) and the trace           *)
(* specification (MonitoredListTrace.tla).                                                *)
EXTENDS PySlice

NoFocus == -1

(* The focus rule is stated by the property, not by the code's arithmetic:               *)
(*   - None exactly when the list is empty;                                               *)
(*   - keeps designating the same item while it remains (same position when the item is   *)
(*     replaced in place): pos[f] # -1  =>  pos[f];                                       *)
(*   - else the item following the removed ones, else the last item.                      *)
FocusRule(f, pos, newlen) ==
  IF newlen = 0 THEN NoFocus
  ELSE IF f = NoFocus THEN 0          \* list was empty: property only demands "in range"
  ELSE IF pos[f + 1] # -1 THEN pos[f + 1]
  ELSE LET later == {j \in (f + 1)..(Len(pos) - 1) : pos[j + 1] # -1}
       IN IF later = {} THEN newlen - 1
          ELSE pos[(CHOOSE j \in later : \A k \in later : j <= k) + 1]

(* ---- as-coded transcription of MonitoredFocusList (urwid/widget/monitored_list.py) ---- *)
(* _adjust_focus_on_contents_modified(slice(a, b, s), new_items) with len(new_items) = k   *)
Adjust(n, rawf, a, b, s, k) ==
  LET ix == SliceIndices(a, b, s, n)
      start0 == ix[1]  stop0 == ix[2]  step0 == ix[3]
      \* normalisation added by the fix: commit (ascending, non-reversed ranges only)
      rl == RangeLen(start0, stop0, step0)
      neg == step0 < 0
      start == IF neg THEN (IF rl = 0 THEN 0 ELSE start0 + (rl - 1) * step0) ELSE start0
      stop  == IF neg THEN (IF rl = 0 THEN 0 ELSE start0 + 1) ELSE Max(start0, stop0)
      step  == IF neg THEN -step0 ELSE step0
      f1 == IF step = 1
            THEN LET g == IF start + k <= rawf /\ rawf < stop THEN stop ELSE rawf
                 IN IF stop <= g THEN g + k - (stop - start) ELSE g
            ELSE IF k = 0
                 THEN LET g == IF rawf \in RangeSet(start, stop, step) THEN rawf + 1 ELSE rawf
                      IN g - RangeLen(start, Min(g, stop), step)
                 ELSE rawf
  IN Min(f1, n + k - rl - 1)

PlusOneOrNone(y) == IF y + 1 = 0 THEN None ELSE y + 1

\* result of the focus setter applied after the list call: -2 = IndexError after mutation
Setter(newlen, v) == IF newlen = 0 THEN NoFocus ELSE IF v < 0 \/ v >= newlen THEN -2 ELSE v

AsCodedFocus(items, f, op) ==
  LET n == Len(items)
      rawf == IF f = NoFocus THEN 0 ELSE f
      r == ListApply(items, op)
      nl == Len(r.items)
      v == CASE op.n = "setslice" -> Adjust(n, rawf, op.a, op.b, op.s, Len(op.new))
             [] op.n = "delslice" -> Adjust(n, rawf, op.a, op.b, op.s, 0)
             [] op.n = "setitem"  -> Adjust(n, rawf, op.a, PlusOneOrNone(op.a), None, 1)
             [] op.n = "delitem"  -> Adjust(n, rawf, op.a, PlusOneOrNone(op.a), None, 0)
             [] op.n = "insert"   -> Adjust(n, rawf, op.a, op.a, None, 1)
             [] op.n \in {"append", "extend"} -> Adjust(n, rawf, n, n, None, Len(op.new))
             [] op.n = "iadd"     -> rawf
             [] op.n = "pop"      -> LET i == IF op.a = None THEN -1 ELSE op.a IN Adjust(n, rawf, i, PlusOneOrNone(i), None, 0)
             [] op.n = "remove"   -> LET i == IndexOf(items, op.a) IN Adjust(n, rawf, i, i + 1, None, 0)
             [] op.n = "reverse"  -> Max(0, n - rawf - 1)
             [] op.n = "sort"     -> IF n = 0 THEN rawf ELSE IndexOf(r.items, items[rawf + 1])
             [] op.n = "imul"     -> IF op.a > 0 THEN Adjust(n, rawf, n, n, None, n * (op.a - 1)) ELSE Adjust(n, rawf, 0, n, None, 0)
             [] op.n = "clear"    -> Adjust(n, rawf, 0, 0, None, 0)
             [] OTHER -> rawf
  IN IF op.n = "iadd" THEN (IF nl = 0 THEN NoFocus ELSE rawf) ELSE Setter(nl, v)

(* ---- operation alphabet ---- *)
Fresh(k) == [j \in 1..k |-> 6 + j]
\* rhs: how the caller spells the new items (a list, a tuple, a generator, an iterator).  The contract does not look at it:
\* whatever a built-in list accepts as right-hand side is accepted, with the same result (ListApply reads op.new only).
RhsKinds == {"list", "tuple", "gen", "iter"}
MkOp(nm, a, b, s, new) == [n |-> nm, a |-> a, b |-> b, s |-> s, new |-> new, rhs |-> "list"]
MkOpRhs(nm, a, b, s, new, h) == [n |-> nm, a |-> a, b |-> b, s |-> s, new |-> new, rhs |-> h]

OpsFor(Idx, Steps, NewLens, Vals) ==
       {MkOp("setslice", a, b, s, Fresh(k)) : a \in Idx \cup {None}, b \in Idx \cup {None}, s \in Steps \cup {None, 0}, k \in NewLens}
  \cup {MkOp("delslice", a, b, s, <<>>) : a \in Idx \cup {None}, b \in Idx \cup {None}, s \in Steps \cup {None, 0}}
  \cup {MkOp("setitem", a, 0, 0, Fresh(1)) : a \in Idx}
  \cup {MkOp("delitem", a, 0, 0, <<>>) : a \in Idx}
  \cup {MkOp("insert", a, 0, 0, Fresh(1)) : a \in Idx}
  \cup {MkOp("append", 0, 0, 0, Fresh(1))}
  \cup {MkOp(nm, 0, 0, 0, Fresh(k)) : nm \in {"extend", "iadd"}, k \in NewLens}
  \* in-place concatenation takes any iterable (MonitoredList.__iadd__(Iterable)); extend / slice assignment of the
  \* focus list are declared for sized collections: a tuple there
  \cup {MkOpRhs("iadd", 0, 0, 0, Fresh(k), h) : k \in NewLens, h \in RhsKinds}
  \cup {MkOpRhs("extend", 0, 0, 0, Fresh(k), "tuple") : k \in NewLens}
  \cup {MkOpRhs("setslice", a, a, None, Fresh(k), "tuple") : a \in Idx, k \in NewLens}
  \cup {MkOp("pop", a, 0, 0, <<>>) : a \in Idx \cup {None}}
  \cup {MkOp("remove", v, 0, 0, <<>>) : v \in Vals}
  \cup {MkOp(nm, 0, 0, 0, <<>>) : nm \in {"reverse", "sort", "clear"}}
  \cup {MkOp("imul", k, 0, 0, <<>>) : k \in -1..3}

(* ---- per-call contract used both by the model's step and by trace validation ---- *)
Changed(items, r) == r.items # items
===========================================================================
