----------------------------- MODULE VTermTrace -----------------------------
(* C15 trace validation.  Executions of the real urwid.vterm.TermCanvas, recorded by        *)
(* vf/props/c15.py, are judged here; clause names are the sentences of the property.        *)
(*                                                                                            *)
(* kind "a" (faithfulness): one event per command of the listed subset and of what a VT100    *)
(*   documents next to it (VTermOps: Listed, Ext, Query), fed as bytes (in random chunks) to  *)
(*   the emulator; the event carries the command [t, a, b, ps], what the emulator shows       *)
(*   afterwards (g, cur, sb, pen, reg, tabs, md) and the replies it sent (reps).  TLC steps   *)
(*   the reference terminal with the same command and compares cell for cell.  "resize"      *)
(*   events re-seat the reference on what the emulator shows (a VT100 has no resize) after    *)
(*   checking the shape; "view" events scroll the view back by k lines and compare what       *)
(*   content() yields.                                                                        *)
(*   "refeed" events: the whole stream of the trace (resizes at their positions) fed again to *)
(*   a fresh emulator under another chunking - in one feed, byte by byte, cut at every single  *)
(*   position, cut at random positions; what that emulator shows at the end and every reply it *)
(*   sent are compared with the reference state reached through the per-command events and the *)
(*   replies recorded there ("any chunking of the stream across feeds").                       *)
(*   Traces[tid].lock = 1: urwid's encoding is "utf8", the terminal decodes UTF-8 whatever the *)
(*   program selects; 0: 8-bit characters until ESC % G.                                       *)
(* kind "b" (robustness): one event per feed of arbitrary bytes / per resize: exception class,*)
(*   watchdog flag, row lengths, cursors, scrolling region, replies sent to the program;      *)
(*   "rechunk" events: the same operations with the bytes cut differently into feeds, on a     *)
(*   fresh emulator: screen, scrollback, cursor, region, modes and replies (g, sb, cur, reg,   *)
(*   st, reps) next to those of the first run (g0, sb0, ...), cells as numbers interned per    *)
(*   trace.  There is no reference for arbitrary bytes, but the outcome must not depend on the *)
(*   chunking.                                                                                 *)
(*                                                                                            *)
(* IOEnv.C15_STRICT = "1": compare against xterm only and include the SGR flags; rejections   *)
(* of the strict run that the tolerant run accepts are reported as DIVERGENCE by the driver.  *)
EXTENDS VTermOps, Json, IOUtils

Traces == JsonDeserialize(IOEnv.TRACE_FILE)
Strict == IOEnv.C15_STRICT = "1"

VARIABLES tid, l, term, ok, why
vars == <<tid, l, term, ok, why>>

Init == /\ tid \in 1..Len(Traces)
        /\ l = 0
        /\ term = NewVTL(Traces[tid].w, Traces[tid].h, Traces[tid].lock = 1)
        /\ ok = TRUE
        /\ why = "-"

(* ---- (a) ---- *)
\* Candidates that show the same screen may differ in the last-column flag, which only shows when the next glyph is
\* printed: among the accepted candidates the one whose flag is the emulator's (e.pend) is followed.
CmdStep(e) ==
  LET cs == Cands(term, e, Strict)
      good == {i \in 1..Len(cs) : Matches(cs[i], e, Strict)}
      same == {i \in good : cs[i].pend = (e.pend = 1)}
      pick == IF same # {} THEN same ELSE good
  IN IF e.exc # "" THEN <<"never_raises", term>>
     ELSE IF ~RegionInside(e.reg, term.h) THEN <<"region_inside", term>>
     ELSE IF e.reps # <<>> THEN <<"replies_well_formed", term>>          \* no command of this kind is a query
     ELSE IF good # {} THEN <<"-", cs[CHOOSE i \in pick : \A j \in pick : i <= j]>>
     ELSE LET ac == AsCoded(term, e, e.rot = 1)
              known == \E i \in 1..Len(ac) : Matches(ac[i], e, Strict)
          IN <<Why(cs[1], e, Strict) \o (IF known THEN ".as_coded" ELSE ""), term>>

\* DSR / CPR / DA: exactly one reply, the one the reference state calls for; nothing on the screen changes
QueryStep(e) ==
  IF e.exc # "" THEN <<"never_raises", term>>
  ELSE IF ~Matches(term, e, Strict) THEN <<Why(term, e, Strict), term>>
  ELSE IF Len(e.reps) # 1 THEN <<"replies_well_formed", term>>
  ELSE IF e.reps[1].s \notin Replies(term, e, Strict) THEN <<"replies_well_formed", term>>
  ELSE <<"-", term>>

ResizeStep(e) ==
  IF e.exc # "" THEN <<"never_raises", term>>
  ELSE IF ~ShapeOK(e.g, e.w, e.h) THEN <<"grid_is_height_by_width", term>>
  ELSE IF ~CursorInside(e.cur, e.w, e.h) THEN <<"cursor_inside", term>>
  ELSE IF ~RegionInside(e.reg, e.h) THEN <<"region_inside", term>>
  ELSE IF ~ResizeKeepsLines(e.psb, e.pg, e.sb, e.g) THEN <<"scrollback_keeps_lines_in_order.across_resize", term>>
  ELSE <<"-", Adopt(term, e, e.w, e.h, e.pend = 1)>>

ViewStep(e) ==
  IF e.exc # "" THEN <<"scrolled_back_view_shows_scrollback", term>>
  ELSE IF ~Matches(term, e, Strict) THEN <<Why(term, e, Strict), term>>          \* looking does not change anything
  ELSE IF e.view # ViewOf(e.sb, e.g, e.k) THEN <<"scrolled_back_view_shows_scrollback", term>>
  ELSE <<"-", term>>

\* "any chunking of the stream across feeds": the same stream cut differently ends in the same reference state
ChunkClause == "chunking_does_not_matter"
RECURSIVE RepsUpTo(_, _)
RepsUpTo(ev, n) == IF n = 0 THEN <<>> ELSE RepsUpTo(ev, n - 1) \o (IF ev[n].t = "refeed" THEN <<>> ELSE ev[n].reps)
RefeedStep(e) ==
  IF e.exc # "" THEN <<ChunkClause \o ".never_raises", term>>
  ELSE IF ~Matches(term, e, Strict) THEN <<ChunkClause \o "." \o Why(term, e, Strict), term>>
  ELSE IF e.reps # RepsUpTo(Traces[tid].ev, l) THEN <<ChunkClause \o ".replies", term>>
  ELSE <<"-", term>>

(* ---- (b) ---- *)
RechunkVerdict(e) ==
  IF e.hang = 1 THEN ChunkClause \o ".terminates_promptly"
  ELSE IF e.exc # "" THEN ChunkClause \o ".never_raises"
  ELSE IF e.g # e.g0 THEN ChunkClause \o ".screen"
  ELSE IF e.cur # e.cur0 \/ e.ccur # e.ccur0 THEN ChunkClause \o ".cursor"
  ELSE IF e.sb # e.sb0 THEN ChunkClause \o ".scrollback"
  ELSE IF e.reg # e.reg0 \/ e.st # e.st0 THEN ChunkClause \o ".state"
  ELSE IF e.reps # e.reps0 THEN ChunkClause \o ".replies"
  ELSE "-"

FeedVerdict(e) ==
  IF e.hang = 1 THEN "terminates_promptly"
  ELSE IF e.exc # "" THEN "never_raises"
  ELSE IF ~LensOK(e.lens, e.w, e.h) THEN "grid_is_height_by_width"
  ELSE IF ~CursorInside(e.cur, e.w, e.h) \/ (e.ccur # <<>> /\ ~CursorInside(e.ccur, e.w, e.h)) THEN "cursor_inside"
  ELSE IF ~RegionInside(e.reg, e.h) THEN "region_inside"
  ELSE IF \E i \in 1..Len(e.reps) : ~ReplyOK(e.reps[i], e.w, e.h) THEN "replies_well_formed"
  ELSE IF e.nq >= 0 /\ Len(e.reps) # e.nq THEN "replies_well_formed"
  ELSE IF e.nq = 1 /\ e.qk = 5 /\ e.reps[1].s # DSROK THEN "replies_well_formed"
  ELSE IF e.nq = 1 /\ e.qk = 6 /\ e.reps[1].s # CPR(e.cur[1], e.cur[2]) THEN "replies_well_formed"
  ELSE "-"

StepOf(e) ==
  IF e.t \in Listed \cup Ext THEN CmdStep(e)
  ELSE IF e.t \in Query THEN QueryStep(e)
  ELSE IF e.t = "resize" THEN ResizeStep(e)
  ELSE IF e.t = "view" THEN ViewStep(e)
  ELSE IF e.t = "refeed" THEN RefeedStep(e)
  ELSE IF e.t = "rechunk" THEN <<RechunkVerdict(e), term>>
  ELSE IF e.t \in {"feed", "rsz"} THEN <<FeedVerdict(e), term>>
  ELSE <<"no_action", term>>

Step == /\ ok
        /\ l < Len(Traces[tid].ev)
        /\ l' = l + 1
        /\ tid' = tid
        /\ LET r == StepOf(Traces[tid].ev[l + 1])
           IN why' = r[1] /\ ok' = (r[1] = "-") /\ term' = r[2]
Spec == Init /\ [][Step]_vars
Report == ok \/ PrintT(<<"REJECT", tid, l, why>>)
==============================================================================
