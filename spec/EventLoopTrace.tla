--------------------------- MODULE EventLoopTrace ---------------------------
(* C13 trace validation: executions of the real event loops (select, asyncio, tornado,    *)
(* twisted, trio, zmq) under a virtual clock are judged event by event by the contract     *)
(* monitor of EventLoopOps.                                                                *)
EXTENDS EventLoopOps, Json, IOUtils

Traces == JsonDeserialize(IOEnv.TRACE_FILE)
VARIABLES tid, l, s, ok, why
vars == <<tid, l, s, ok, why>>

Init == tid \in 1..Len(Traces) /\ l = 0 /\ s = InitState /\ ok = TRUE /\ why = "-"

Step == /\ ok /\ l < Len(Traces[tid].ev) /\ l' = l + 1 /\ tid' = tid
        /\ LET r == Judge(s, Traces[tid].ev[l + 1]) IN s' = r.s /\ why' = r.why /\ ok' = (r.why = "-")
Spec == Init /\ [][Step]_vars
Report == ok \/ PrintT(<<"REJECT", tid, l, why>>)
=============================================================================
