------------------------------- MODULE Partition -------------------------------
(* C19 consistency model.  TLC enumerates every configuration inside the bounds and checks     *)
(* that the reference allocators of PartitionOps satisfy the relations (so the contract the    *)
(* real code is judged by is satisfiable everywhere, including the stronger readings), and     *)
(* the ASSUMEs show that each deliberately wrong allocator is refuted by the relations.        *)
(* Configurations are generated in two steps (option list first, then the remaining            *)
(* parameters as successor states) so that TLC's workers share the enumeration.                *)
EXTENDS PartitionOps

CONSTANTS MaxItems,      \* option lists of 1..MaxItems columns / rows
          MaxAmount,     \* given sizes, packed sizes and weights 0..MaxAmount
          MaxDiv,        \* dividechars 0..MaxDiv
          MaxMinWidth,   \* min_width 1..MaxMinWidth
          MaxAvail,      \* available columns / rows 0..MaxAvail
          MaxMargin      \* fixed margins 0..MaxMargin

VARIABLES kind, opts, p
vars == <<kind, opts, p>>

Kinds == {"given", "pack", "weight"}
Option == [k : Kinds, a : 0..MaxAmount, b : {1}]
HalfOption == [k : {"weight"}, a : 1..MaxAmount, b : {1, 2}]        \* rational weights, short lists only
OptLists == UNION {[1..n -> Option] : n \in 1..MaxItems} \cup UNION {[1..n -> HalfOption] : n \in 2..2}
Own(o) == [i \in 1..Len(o) |-> IF IsStatic(o[i]) THEN o[i].a ELSE 0]
Percent == {0, 25, 50, 75, 100}
Aligns == Percent \cup {33}
PadKinds == <<"given", "pack", "relative", "clip", "pack">>      \* 2: a packed child that shrinks (Padding around a text);
                                                                  \* 5: a packed child with its own extent (Filler / Overlay around a flow widget)

Init == \/ kind = "col0" /\ opts \in OptLists /\ p = <<>>
        \/ kind = "pile0" /\ opts \in {o \in OptLists : HasPositiveWeight(o)} /\ p = <<>>
        \/ kind = "pad0" /\ opts = <<>> /\ p \in {<<ki, amt, mn>> : ki \in 1..5, amt \in 0..(MaxAmount + 3), mn \in {-1, 1, 2, 3}}
        \/ kind = "grid0" /\ opts = <<>> /\ p \in {<<n, cw>> : n \in 1..5, cw \in 1..MaxAmount}

Next ==
  \/ /\ kind = "col0" /\ kind' = "col" /\ opts' = opts
     /\ p' \in {<<d, mw, f, av>> : d \in 0..MaxDiv, mw \in 1..MaxMinWidth, f \in 1..Len(opts), av \in 0..MaxAvail}
  \/ /\ kind = "pile0" /\ kind' = "pile" /\ opts' = opts /\ p' \in {<<av>> : av \in 0..MaxAvail}
  \/ /\ kind = "pad0" /\ kind' = "pad" /\ opts' = opts
     /\ p' \in {p \o <<L, R, al, av>> : L \in 0..MaxMargin, R \in 0..MaxMargin, al \in Aligns, av \in 0..MaxAvail}
  \/ /\ kind = "pad" /\ p[7] <= 4 /\ p[4] <= 1 /\ p[5] <= 1 /\ p[2] <= 4 /\ p[3] \in {-1, 2} /\ p[6] \in {0, 50, 100} /\ kind' = "ovl" /\ opts' = opts     \* Overlay: two axes, small product
     /\ p' \in {p \o <<ki, amt, 1, 1, 0, al, av>> : ki \in {1, 3, 5}, amt \in {2, 3}, al \in {0, 50}, av \in {0, 2, 4}}
  \/ /\ kind = "grid0" /\ kind' = "grid" /\ opts' = opts
     /\ p' \in {p \o <<hs, vs, av>> : hs \in 0..2, vs \in 0..1, av \in 1..MaxAvail}
Spec == Init /\ [][Next]_vars

\* a Padding/Filler/Overlay-axis configuration from parameters <<kind index, amount, min, L, R, align, avail>>
\* (relative amounts are percentages: amount a stands for 25 * a, up to 125)
PadCfg(q) == [kind |-> PadKinds[q[1]], amt |-> IF q[1] = 3 THEN Min2(125, 25 * q[2]) ELSE q[2], own |-> q[2], nat |-> q[2], flex |-> q[1] = 2, min |-> q[3],
              L |-> q[4], R |-> q[5], align |-> q[6], avail |-> q[7], clip |-> q[1] \in {4, 5}, trim |-> FALSE]

ColOK == kind = "col" =>
  LET own == Own(opts)  w == RefColumns(opts, own, p[1], p[2], p[3], p[4])
  IN /\ ColumnWidthsOK(opts, own, p[1], p[2], p[3], p[4], w)
     /\ StrongColFillExactly(opts, own, p[1], p[4], w)
     /\ StrongColProportional(opts, p[2], w)
PileOK == kind = "pile" =>
  LET own == Own(opts)  r == RefPile(opts, own, p[1]) IN PileRowsOK(opts, own, p[1], r)
PadRefOK == kind = "pad" =>
  LET c == PadCfg(p)  x == RefPad(c) IN PadOK(c, x[1], x[2], x[3]) /\ FillOK(c, x[1], x[2], x[3])
OvlOK == kind = "ovl" =>
  LET ch == PadCfg(SubSeq(p, 1, 7))  cv == PadCfg(SubSeq(p, 8, 14))  x == RefPad(ch)  y == RefPad(cv)
  IN OverlayOK(ch, x[1], x[2], x[3], cv, y[1], y[2], y[3])
GridRefOK == kind = "grid" =>
  LET n == p[1]  cw == p[2]  hs == p[3]  vs == p[4]  av == p[5]
  IN GridOK(n, cw, av, RefGridCols(n, cw, av), RefGridXs(n, cw, hs, av), RefGridYs(n, cw, hs, vs, av))

(* ---- the relations have teeth: every wrong allocator is refuted somewhere in a small domain ---- *)
SmallOpts == UNION {[1..n -> [k : Kinds, a : 1..3, b : {1}]] : n \in 2..3}
SmallOwn(o) == [i \in 1..Len(o) |-> IF IsStatic(o[i]) THEN o[i].a ELSE 0]
Refuted(Alloc(_, _, _, _, _)) ==      \* Alloc(opts, d, mw, f, avail)
  \E o \in SmallOpts : \E d \in 0..1 : \E mw \in 1..2 : \E f \in 1..Len(o) : \E av \in 1..8 :
    ~ColumnWidthsOK(o, SmallOwn(o), d, mw, f, av, Alloc(o, d, mw, f, av))
ASSUME Refuted(LAMBDA o, d, mw, f, av : WrongColumnsNoDividers(o, SmallOwn(o), mw, f, av))
ASSUME Refuted(LAMBDA o, d, mw, f, av : WrongColumnsFloor(o, SmallOwn(o), d, mw, f, av))
ASSUME Refuted(LAMBDA o, d, mw, f, av : WrongColumnsFromLeft(o, SmallOwn(o), d, mw, av))
ASSUME \E o \in {o \in SmallOpts : HasPositiveWeight(o)} : \E av \in 1..8 :
         ~PileRowsOK(o, SmallOwn(o), av, WrongPileEqual(o, SmallOwn(o), av))
SmallPad == {PadCfg(<<ki, amt, mn, L, R, al, av>>) : ki \in 1..5, amt \in 1..3, mn \in {-1, 3}, L \in 0..1, R \in 0..1,
                                                      al \in {0, 25, 100}, av \in 2..8}
PadRefuted(Alloc(_)) == \E c \in SmallPad : LET x == Alloc(c) IN ~PadOK(c, x[1], x[2], x[3])
ASSUME PadRefuted(WrongPadMirror)
ASSUME PadRefuted(WrongPadNoMargins)
ASSUME PadRefuted(WrongPadNoMin)
ASSUME PadRefuted(WrongPadPackWhole)
ASSUME PadRefuted(WrongPadNoClip)
\* a shrinking packed child that does not fit beside the fixed margins gets exactly what they leave and the margins stay
ASSUME \A c \in SmallPad : (c.flex /\ c.min = -1 /\ ~PadFits(c, c.nat) /\ PadBase(c) > 0) =>
         \A l \in 0..c.avail : \A r \in 0..c.avail : \A ch \in 0..c.avail :
           PadOK(c, l, r, ch) => (ch = c.avail - c.L - c.R /\ l = c.L /\ r = c.R)
ASSUME ~GridOK(3, 2, 5, <<2, 2, 2>>, <<0, 3, 0>>, <<0, 0, 0>>)          \* third cell painted over the first
ASSUME ~GridOK(2, 2, 5, <<2, 2>>, <<3, 0>>, <<0, 0>>)                   \* right to left
ASSUME ~GridOK(2, 2, 5, <<2, 3>>, <<0, 2>>, <<0, 0>>)                   \* a cell wider than configured
================================================================================
