----------------------------- MODULE AttrFlowOps -----------------------------
(* C17 contract: display attributes travel from markup to the terminal unchanged.          *)
(* Written from the property statement and the documented behaviour of Text markup,         *)
(* AttrMap / AttrWrap / CompositeCanvas.fill_attr[_apply] and register_palette[_entry];     *)
(* no variables.  Attributes are small integers, None = 0.                                  *)
(*                                                                                          *)
(* Markup node (homogeneous record, JSON-able):                                             *)
(*   [k |-> "s", tag |-> 0, cs |-> <<code points>>, items |-> <<>>]      a string            *)
(*   [k |-> "t", tag |-> a, cs |-> <<>>, items |-> <<child>>]            (a, child)          *)
(*   [k |-> "l", tag |-> 0, cs |-> <<>>, items |-> <<m1, ..., mk>>]      [m1, ..., mk]       *)
EXTENDS Integers, Sequences, FiniteSets, TLC

None == 0

Leaf(cs) == [k |-> "s", tag |-> 0, cs |-> cs, items |-> <<>>]
TagNode(a, m) == [k |-> "t", tag |-> a, cs |-> <<>>, items |-> <<m>>]
ListNode(ms) == [k |-> "l", tag |-> 0, cs |-> <<>>, items |-> ms]

RECURSIVE Size(_), SizeUpTo(_, _)
SizeUpTo(ms, j) == IF j = 0 THEN 0 ELSE SizeUpTo(ms, j - 1) + Size(ms[j])     \* characters in ms[1..j]
Size(m) == IF m.k = "s" THEN Len(m.cs)
           ELSE IF m.k = "t" THEN Size(m.items[1])
           ELSE SizeUpTo(m.items, Len(m.items))

RECURSIVE TextOf(_), TextUpTo(_, _)
TextUpTo(ms, j) == IF j = 0 THEN <<>> ELSE TextUpTo(ms, j - 1) \o TextOf(ms[j])
TextOf(m) == IF m.k = "s" THEN m.cs
             ELSE IF m.k = "t" THEN TextOf(m.items[1])
             ELSE TextUpTo(m.items, Len(m.items))

(* ---- sentence 1: "the display attribute of the innermost markup tag enclosing it" ---- *)
\* walk from the root towards character i (1-based) remembering the last tag passed: that is the innermost one
RECURSIVE InnermostFrom(_, _, _)
InnermostFrom(m, i, seen) ==
  IF m.k = "s" THEN seen
  ELSE IF m.k = "t" THEN InnermostFrom(m.items[1], i, m.tag)
  ELSE LET j == CHOOSE j \in 1..Len(m.items) : SizeUpTo(m.items, j - 1) < i /\ i <= SizeUpTo(m.items, j)
       IN InnermostFrom(m.items[j], i - SizeUpTo(m.items, j - 1), seen)
AttrOf(m, i) == InnermostFrom(m, i, None)

\* reference flattening (one attribute per character), the way a markup is read left to right
RECURSIVE Flatten(_, _), FlattenUpTo(_, _, _)
FlattenUpTo(ms, j, inh) == IF j = 0 THEN <<>> ELSE FlattenUpTo(ms, j - 1, inh) \o Flatten(ms[j], inh)
Flatten(m, inh) == IF m.k = "s" THEN [j \in 1..Len(m.cs) |-> inh]
                   ELSE IF m.k = "t" THEN Flatten(m.items[1], m.tag)
                   ELSE FlattenUpTo(m.items, Len(m.items), inh)

\* deliberately wrong readings (refuted by TLC in AttrFlow.tla)
RECURSIVE FlattenOutermost(_, _), FlattenOutermostUpTo(_, _, _)        \* the outermost tag wins
FlattenOutermostUpTo(ms, j, inh) == IF j = 0 THEN <<>> ELSE FlattenOutermostUpTo(ms, j - 1, inh) \o FlattenOutermost(ms[j], inh)
FlattenOutermost(m, inh) == IF m.k = "s" THEN [j \in 1..Len(m.cs) |-> inh]
                            ELSE IF m.k = "t" THEN FlattenOutermost(m.items[1], IF inh = None THEN m.tag ELSE inh)
                            ELSE FlattenOutermostUpTo(m.items, Len(m.items), inh)
RECURSIVE FlattenForgetful(_, _), FlattenForgetfulUpTo(_, _, _, _)      \* the enclosing tag is lost after a nested tagged element
FlattenForgetfulUpTo(ms, j, inh, cur) ==        \* left to right; cur = what is inherited by ms[j]
  IF j > Len(ms) THEN <<>>
  ELSE FlattenForgetful(ms[j], cur) \o FlattenForgetfulUpTo(ms, j + 1, inh, IF ms[j].k = "t" THEN None ELSE cur)
FlattenForgetful(m, inh) == IF m.k = "s" THEN [j \in 1..Len(m.cs) |-> inh]
                            ELSE IF m.k = "t" THEN FlattenForgetful(m.items[1], m.tag)
                            ELSE FlattenForgetfulUpTo(m.items, 1, inh, inh)

\* run-length lists <<attribute, length>> (the form (text, attrib) of Text.get_text); a missing tail means None
RECURSIVE Expand(_)
Expand(runs) == IF runs = <<>> THEN <<>> ELSE [j \in 1..runs[1][2] |-> runs[1][1]] \o Expand(Tail(runs))
RECURSIVE Compress(_)
Compress(as) ==
  IF as = <<>> THEN <<>>
  ELSE LET rest == Compress(Tail(as)) IN
       IF rest # <<>> /\ rest[1][1] = as[1] THEN <<<<as[1], rest[1][2] + 1>>>> \o Tail(rest)
       ELSE <<<<as[1], 1>>>> \o rest
AtOr(s, i, d) == IF i >= 1 /\ i <= Len(s) THEN s[i] ELSE d
RECURSIVE SumUpTo(_, _)
SumUpTo(s, j) == IF j = 0 THEN 0 ELSE SumUpTo(s, j - 1) + s[j]

\* runs measured in units (characters of a str, bytes of a bytes text); ulen[i] = units of character i.
\* every unit of character i carries AttrOf(i); nothing is attributed beyond the text
RunsAgree(m, ulen, runs) ==
  LET u == Expand(runs)  n == Size(m) IN
  /\ Len(u) <= SumUpTo(ulen, n)
  /\ \A i \in 1..n : \A q \in (SumUpTo(ulen, i - 1) + 1)..SumUpTo(ulen, i) : AtOr(u, q, None) = AttrOf(m, i)

(* ---- sentence 2: attribute maps ---- *)
\* a map is a sequence of <<old, new>> pairs with distinct old (a Python dict)
Keys(mp) == {mp[j][1] : j \in 1..Len(mp)}
MapGet(mp, a) == IF a \in Keys(mp) THEN mp[CHOOSE j \in 1..Len(mp) : mp[j][1] = a][2] ELSE a
   \* "replaces exactly the attributes it lists and leaves others untouched"

\* a chain element: [amap, hasf, fmap, lvl]; "the focus map instead, when rendered in focus"
Eff(e, focus) == IF focus /\ e.hasf THEN e.fmap ELSE e.amap

\* chain[1] is the innermost map: "the outer map is applied to the result of the inner one"
RECURSIVE ApplyFrom(_, _, _, _)
ApplyFrom(chain, focus, a, j) == IF j > Len(chain) THEN a ELSE ApplyFrom(chain, focus, MapGet(Eff(chain[j], focus), a), j + 1)
ApplyMaps(chain, focus, a) == ApplyFrom(chain, focus, a, 1)

\* deliberately wrong: inner map applied to the result of the outer one
RECURSIVE ApplyOuterFirstFrom(_, _, _, _)
ApplyOuterFirstFrom(chain, focus, a, j) == IF j < 1 THEN a ELSE ApplyOuterFirstFrom(chain, focus, MapGet(Eff(chain[j], focus), a), j - 1)
ApplyOuterFirst(chain, focus, a) == ApplyOuterFirstFrom(chain, focus, a, Len(chain))

\* one map equivalent to "outer after inner", as a function over a finite attribute universe
ComposeFn(outer, inner, U) == [a \in U |-> MapGet(outer, MapGet(inner, a))]
\* the dictionary CompositeCanvas.fill_attr_apply builds (as coded): outer.copy(); update(k -> outer.get(v, v) for k, v in inner)
AsCodedCombined(outer, inner, U) ==
  [a \in U |-> IF a \in Keys(inner) THEN MapGet(outer, MapGet(inner, a))
               ELSE IF a \in Keys(outer) THEN MapGet(outer, a) ELSE a]

\* only the maps wrapped around the widget that produced a cell apply to it: a cell made at nesting level o
\* (0 = the text, 1 = padding around it, 2 = filler around that) is inside exactly the elements with lvl >= o
Outside(chain, o) == SelectSeq(chain, LAMBDA e : e.lvl >= o)

(* ---- sentence 3: palette ---- *)
\* entry: [name, alias (BOOLEAN), like, mono <<flags>>, fg <<colour, <<flags>>>>, bg colour,
\*         hasfh, fgh <<<<colour, <<flags>>>> at 88, at 256, at 2^24>>, hasbh, bgh <<colour at 88, 256, 2^24>>, largeh,
\*         fghc, bghc: the high colours as written, when they are hexadecimal RGB (see below),
\*         fghe, bghe: the high field is given but names no colour (see "three ways to write a high-colour field")]
\* colours: -1 default, 0..15 basic, 1000+n indexed, 2^24+rgb true colour (as Terminal.tla)
SeqSet(s) == {s[j] : j \in 1..Len(s)}
TrueDepth == 16777216
DefaultP == [fg |-> -1, bg |-> -1, fl |-> {}]
HighIx(depth) == IF depth = 88 THEN 1 ELSE IF depth = 256 THEN 2 ELSE 3
BasicPen(e) == [fg |-> e.fg[1], bg |-> e.bg, fl |-> SeqSet(e.fg[2])]

\* High colours written as hexadecimal RGB, resolved here (not by the harness).  A colour description is
\*   [k |-> "n"]                      a name or colour number: the harness' table gives its number per depth
\*   [k |-> "x6", r, g, b \in 0..255] '#rrggbb'  ("RRGGBB hex color code")
\*   [k |-> "x3", r, g, b \in 0..15]  '#rgb'     ("'#fcc' (100% red, 80% green, 80% blue)": one hex digit = sixteenths)
\* 2^24 colours show '#rrggbb' exactly.  The 88- and 256-colour terminals have a colour cube with CubeSteps(depth) levels per
\* component, numbered 16 + (r * n + g) * n + b: "closest colors will be found".  '#rgb' names the level d/15 of full
\* intensity (d * 17 of 255); with fewer than 2^24 colours '#rrggbb' is read as the '#rgb' made of the leading digit of each
\* component.  On a 2^24-colour terminal '#rgb' is shown as the RGB value of the 256-colour cube colour it names.
NumC == [k |-> "n", r |-> 0, g |-> 0, b |-> 0]
X6(r, g, b) == [k |-> "x6", r |-> r, g |-> g, b |-> b]
X3(r, g, b) == [k |-> "x3", r |-> r, g |-> g, b |-> b]
CubeSteps(depth) == IF depth = 88 THEN <<0, 139, 205, 255>> ELSE <<0, 95, 135, 175, 215, 255>>     \* xterm's 88colres.h / 256colres.h
Dist(a, b) == IF a >= b THEN a - b ELSE b - a
Closest(steps, v) == CHOOSE i \in 1..Len(steps) : \A j \in 1..Len(steps) : Dist(steps[i], v) <= Dist(steps[j], v)
LeadDigit(c, comp) == IF c.k = "x6" THEN comp \div 16 ELSE comp
CubeLevel(c, comp, depth) == Closest(CubeSteps(depth), 17 * LeadDigit(c, comp)) - 1              \* 0-based level of one component
CubeColour(c, depth) ==
  LET n == Len(CubeSteps(depth)) IN
  1000 + 16 + (CubeLevel(c, c.r, depth) * n + CubeLevel(c, c.g, depth)) * n + CubeLevel(c, c.b, depth)
HexColourAt(c, depth) ==
  IF depth # TrueDepth THEN CubeColour(c, depth)
  ELSE IF c.k = "x6" THEN TrueDepth + c.r * 65536 + c.g * 256 + c.b
  ELSE LET s == CubeSteps(256) IN
       TrueDepth + s[CubeLevel(c, c.r, 256) + 1] * 65536 + s[CubeLevel(c, c.g, 256) + 1] * 256 + s[CubeLevel(c, c.b, 256) + 1]
HighColour(c, n, depth) == IF c.k = "n" THEN n ELSE HexColourAt(c, depth)

\* Three ways to write a high-colour field (foreground_high / background_high), told apart in the entry record:
\*   absent (None)      hasfh = FALSE                 "None = use foreground parameter value": colour AND settings of the basic field
\*   given, no colour   hasfh = TRUE, fghe = TRUE     '' / 'bold' / ...: "If the color is not given then 'default' will be assumed":
\*                                                    the terminal's own colour, with exactly the settings the field lists (none for '')
\*   given, a colour    hasfh = TRUE, fghe = FALSE    that colour ('default' is a colour name: the terminal's own colour)
\* An empty string is a given field, not an absent one: it never inherits the basic colour.
HighFg(e, k, depth) == IF ~e.hasfh THEN e.fg[1] ELSE IF e.fghe THEN -1 ELSE HighColour(e.fghc, e.fgh[k][1], depth)
HighBg(e, k, depth) == IF ~e.hasbh THEN e.bg ELSE IF e.bghe THEN -1 ELSE HighColour(e.bghc, e.bgh[k], depth)
PenFor(e, depth) ==
  IF depth = 1 THEN [fg |-> -1, bg |-> -1, fl |-> SeqSet(e.mono)]                  \* monochrome: settings only
  ELSE IF depth = 16 THEN BasicPen(e)
  ELSE IF depth = 88 /\ e.largeh THEN BasicPen(e)        \* colour numbers above 15 differ at 88 colours: 16-colour values are used
  ELSE LET k == HighIx(depth) IN
       [fg |-> HighFg(e, k, depth),
        fl |-> IF e.hasfh THEN SeqSet(e.fgh[k][2]) ELSE SeqSet(e.fg[2]),
        bg |-> HighBg(e, k, depth)]
\* deliberately wrong reading (refuted by TLC in AttrFlow.tla): a high field that names no colour is treated like an absent one
PenForEmptyInherits(e, depth) ==
  PenFor([e EXCEPT !.hasfh = e.hasfh /\ ~(e.fghe /\ e.fgh[1][2] = <<>> /\ e.fgh[2][2] = <<>> /\ e.fgh[3][2] = <<>>),
                   !.hasbh = e.hasbh /\ ~e.bghe], depth)

\* (name, like_other_name) copies the settings of an entry that appears before it; the last registration of a name counts
RECURSIVE EntryOf(_, _, _)
EntryOf(pal, name, upto) ==      \* the defining (non-alias) entry for name among pal[1..upto], or a record with found = FALSE
  LET J == {j \in 1..upto : pal[j].name = name} IN
  IF J = {} THEN [found |-> FALSE]
  ELSE LET j == CHOOSE j \in J : \A q \in J : q <= j IN
       IF pal[j].alias THEN EntryOf(pal, pal[j].like, j - 1) ELSE [found |-> TRUE, e |-> pal[j]]
Defined(pal, name) == EntryOf(pal, name, Len(pal)).found
IsAlias(pal, name) == \E j \in 1..Len(pal) : pal[j].name = name /\ pal[j].alias
\* "undefined names falling back to the default": default foreground on default background, no settings
\* (None is a name like any other: cells without an attribute use the entry registered for None when there is one)
ResolvePen(pal, name, depth) ==
  LET r == EntryOf(pal, name, Len(pal)) IN
  IF r.found THEN PenFor(r.e, depth) ELSE DefaultP
==============================================================================
