---------------------------- MODULE ScrollableTrace ----------------------------
(* C20 trace validation: histories executed on real Scrollable / ScrollBar objects.           *)
(* The trace specification carries the model of spec/Scrollable.tla along the recorded         *)
(* history (stored position, pending key, bar state of the rendering on screen) and judges     *)
(* every rendering and every delivery of input against it.                                     *)
EXTENDS ScrollableListOps, Json, IOUtils

Traces == JsonDeserialize(IOEnv.TRACE_FILE)
VARIABLES tid, l, prevp, prevtop, lastp, ok, why,
          stored, pend,     \* model of the position: as in Scrollable.tla
          quiet,            \* no key / set_scrollpos / wheel / click since the last rendering
          nren,             \* renderings so far
          lastbar, lastw, lasth,  \* the rendering on screen: bar drawn, view size
          lastcached,       \* ... and whether it was answered by the canvas cache (a held canvas; no render() ran)
          lbcfg, lbseen     \* ListBox: <<items, columns, rows>> of the last rendering; <<position, top part>> of the renderings of that content in that view
vars == <<tid, l, prevp, prevtop, lastp, ok, why, stored, pend, quiet, nren, lastbar, lastw, lasth, lastcached, lbcfg, lbseen>>

Init == /\ tid \in 1..Len(Traces) /\ l = 0 /\ prevp = -1 /\ prevtop = -1 /\ lastp = 0 /\ ok = TRUE /\ why = "-"
        /\ stored = 0 /\ pend = "" /\ quiet = TRUE /\ nren = 0 /\ lastbar = FALSE /\ lastw = 0 /\ lasth = 0
        /\ lastcached = FALSE /\ lbcfg = <<>> /\ lbseen = <<>>

\* (content height of a list of items <<wrap, n>>, position of a list view: ScrollableListOps)
\* sizes the wrapped widget was called with: box widgets <<cols, rows>>, flow widgets cols
BoxSizesOK(calls, drawn, w, h, barw) == \A i \in 1..Len(calls) : calls[i][1] = ChildWidth(drawn, w, barw) /\ calls[i][2] = h
FlowSizesOK(calls, drawn, w, barw) == \A i \in 1..Len(calls) : calls[i] = ChildWidth(drawn, w, barw)

\* e.t = "render": rows = row numbers shown (-1 blank), p = reported position, total = rows of the wrapped widget's full
\*   rendering at the width it was given, totalfull = at the full view width (what decides whether a bar is needed), h/w = view size, hasbar = under a ScrollBar, bar = 0/1 drawn, barw = bar width asked, top/thumb/bottom = bar parts,
\*   calls = sizes the ScrollBar's wrapped widget was rendered with, inner = widths the Scrollable's flow widget was rendered with,
\*   exact = 1: the wrapped widget has no cursor, the position is fully determined by the history (model of Scrollable.tla)
RenderVerdict(e) ==
  IF e.exc # "" THEN "render_never_raises"
  ELSE IF Len(e.rows) # e.h THEN "view_height"
  ELSE IF e.p < 0 \/ e.p > MaxPos(e.total, e.h) THEN "position_within_bounds"
  ELSE IF e.rows # View(e.p, e.total, e.h) THEN "view_is_rows_p_to_p_plus_height"
  ELSE IF e.exact = 1 /\ nren > 0 /\ quiet /\ e.p # Clamp(lastp, e.total, e.h) THEN "resize_or_content_change_only_clamps_position"
  ELSE IF e.exact = 1 /\ ~ShownOK(e.p, stored, pend, e.total, e.h) THEN "position_is_what_the_history_of_keys_and_positions_gives"
  ELSE IF e.hasbar = 1 /\ ~BarDrawnOK(e.bar = 1, e.totalfull, e.h) THEN "bar_drawn_iff_more_rows_than_view"
  ELSE IF e.bar = 1 /\ ~PartsOK(e.top, e.thumb, e.bottom, e.h) THEN "bar_parts_nonnegative_and_sum_to_height"
  ELSE IF e.bar = 1 /\ e.judge_top = 1 /\ ~ThumbTopOK(e.top, e.thumb, e.p, e.h) THEN "thumb_leaves_top_iff_scrolled"
  ELSE IF e.hasbar = 1 /\ ~BoxSizesOK(e.calls, e.bar = 1, e.w, e.h, e.barw) THEN "child_gets_width_minus_bar"
  ELSE IF ~FlowSizesOK(e.inner, e.bar = 1, e.w, e.barw) THEN "child_gets_width_minus_bar"
  ELSE IF e.bar = 1 /\ e.sweep = 1 /\ prevp >= 0 /\ e.p >= prevp /\ e.top < prevtop THEN "thumb_never_moves_up_when_position_increases"
  ELSE "-"

\* e.t = "lbrender": ListBox under ScrollBar; items = <<wrap, n>> per item (the model's own content), p = ListBox.get_scrollpos,
\*   rmax = ListBox.rows_max for the size it was rendered with, cw = that width, fvp = ListBox.get_first_visible_pos,
\*   first = <<item, row inside the item>> seen on the top line of the view (<<0, 0>>: not identified, <<-1, -1>>: the lines
\*   shown are no run of consecutive rows of the items).  The position the clauses speak about is TLC's own: the rows above
\*   that line, from the item heights of the model (RowsAbove).
\*   hint = the length the list walker reports: its real length when it is sized, else its estimate (__length_hint__), which may
\*   be lower than Len(e.items): past it the first visible item exceeds the estimated maximum; the bar's parts are still
\*   non-negative and sum to the view height, and render never raises
LbExact(e) == e.hint <= 3 * e.h          \* otherwise the bar shows item positions, not rows
LbSeen(e) == e.first[1] > 0
LbPos(e) == IF LbSeen(e) THEN RowsAbove(e.items, e.cw, e.first) ELSE e.p
LbCfg(e) == <<e.items, e.cw, e.h>>
LbVerdict(e) ==
  LET total == SumRows(e.items, e.w)
      exactrows == LbExact(e)
  IN IF e.exc # "" THEN "render_never_raises"
     ELSE IF e.first[1] < 0 \/ (LbSeen(e) /\ ~FirstOK(e.items, e.cw, e.first)) THEN "listbox_shows_consecutive_rows_of_its_items"
     ELSE IF ~BarDrawnOK(e.bar = 1, total, e.h) THEN "bar_drawn_iff_more_rows_than_view"
     ELSE IF e.bar = 1 /\ ~PartsOK(e.top, e.thumb, e.bottom, e.h) THEN "bar_parts_nonnegative_and_sum_to_height"
     ELSE IF ~BoxSizesOK(e.calls, e.bar = 1, e.w, e.h, e.barw) THEN "child_gets_width_minus_bar"
     ELSE IF exactrows /\ e.rmax # SumRows(e.items, e.cw) THEN "rows_max_is_the_content_height"
     ELSE IF e.bar = 1 /\ exactrows /\ ~ThumbTopOK(e.top, e.thumb, LbPos(e), e.h) THEN "thumb_leaves_top_iff_scrolled"
     \* (nofollow = 1: second pass of the driver after a known finding - the rest of the history is judged without this clause)
     ELSE IF e.bar = 1 /\ exactrows /\ lbcfg = LbCfg(e) /\ Traces[tid].nofollow = 0 /\ ~ThumbFollows(lbseen, LbPos(e), e.top)
       THEN "thumb_never_moves_up_when_position_increases"
     ELSE IF LbSeen(e) /\ e.p # LbPos(e) THEN "position_reported_is_rows_scrolled_out_above_the_view"
     ELSE IF LbSeen(e) /\ e.fvp # e.first[1] - 1 THEN "first_visible_item_reported_is_the_item_on_the_top_line"
     ELSE "-"

\* mouse events: the position is relative to the widget that receives it - the ScrollBar takes its columns off when the bar
\* is drawn on the left, the Scrollable adds the rows scrolled out above the view.  Events on the bar's own columns are
\* not judged (col, row = position sent to the outermost widget; boxpos / innerpos = positions received).
BarShift(e) == IF lastbar /\ e.left = 1 THEN e.barw ELSE 0
InChild(e) == ~lastbar \/ (IF e.left = 1 THEN e.col >= e.barw ELSE e.col < lastw - e.barw)
MousePosOK(e) == InChild(e) =>
  /\ \A i \in 1..Len(e.boxpos) : e.boxpos[i][1] = e.col - BarShift(e) /\ e.boxpos[i][2] = e.row
  /\ \A i \in 1..Len(e.innerpos) : e.innerpos[i][1] = e.col - BarShift(e) /\ e.innerpos[i][2] = e.row + lastp

\* input handed down by the ScrollBar / Scrollable: same width as the rendering on screen
\* nocsize = 1 (second pass of the driver after a known finding): sizes are not judged while the frame on screen is a cached one
SizeJudged == ~(lastcached /\ Traces[tid].nocsize = 1)
InputVerdict(e, fn) ==
  IF e.exc # "" THEN "keypress_never_raises"
  ELSE IF SizeJudged /\ e.hasbar = 1 /\ ~BoxSizesOK(e.calls, lastbar, lastw, lasth, e.barw) THEN "child_gets_width_minus_bar." \o fn
  ELSE IF SizeJudged /\ ~FlowSizesOK(e.inner, lastbar, lastw, e.barw) THEN "child_gets_width_minus_bar." \o fn
  \* not a sentence of C20 (reported as DIVERGENCE by the driver, which then re-submits the history with nopos = 1)
  ELSE IF fn = "mouse_event" /\ Traces[tid].nopos = 0 /\ ~MousePosOK(e) THEN "mouse_position_relative_to_wrapped_widget"
  ELSE "-"

Verdict(e) ==
  CASE e.t = "render" -> RenderVerdict(e)
    [] e.t = "lbrender" -> LbVerdict(e)
    [] e.t = "key" -> InputVerdict(e, "keypress")
    [] e.t = "mouse" -> InputVerdict(e, "mouse_event")
    [] e.t = "consumed" ->   \* a key / mouse event the wrapped widget handled: the next render must not have scrolled
         IF e.exc # "" THEN "keypress_never_raises" ELSE IF e.after # e.before THEN "handled_input_not_used_for_scrolling"
         ELSE InputVerdict(e, e.fn)
    [] OTHER -> "-"

\* ---- the model along the history ----
\* key: e.reached = 1 when the wrapped widget did not handle it (the Scrollable maps it to a scroll action)
\* mouse: e.button 4 / 5 not handled by the wrapped widget under a ScrollBar: one row up / down from the stored position
Touches(e) == e.t \in {"key", "mouse", "setpos"}
Step == /\ ok /\ l < Len(Traces[tid].ev) /\ l' = l + 1 /\ tid' = tid
        /\ LET e == Traces[tid].ev[l + 1]  v == Verdict(e)
               isr == e.t \in {"render", "lbrender"}
           IN /\ why' = v /\ ok' = (v = "-")
              /\ prevp' = IF e.t = "render" /\ e.bar = 1 THEN e.p ELSE prevp
              /\ prevtop' = IF e.t = "render" /\ e.bar = 1 THEN e.top ELSE prevtop
              /\ lastp' = IF e.t = "render" THEN e.p ELSE lastp
              /\ stored' = CASE e.t = "render" -> e.p
                             [] e.t = "setpos" -> e.v
                             [] e.t = "mouse" /\ e.reached = 1 /\ e.hasbar = 1 /\ e.button = 4 -> WheelPos(stored, "up")
                             [] e.t = "mouse" /\ e.reached = 1 /\ e.hasbar = 1 /\ e.button = 5 -> WheelPos(stored, "down")
                             [] OTHER -> stored
              /\ pend' = CASE isr -> ""
                           [] e.t = "key" /\ e.reached = 1 /\ e.key \in ScrollKeys -> e.key
                           [] OTHER -> pend
              /\ quiet' = IF isr THEN TRUE ELSE IF Touches(e) THEN FALSE ELSE quiet
              /\ nren' = IF isr THEN nren + 1 ELSE nren
              /\ lastbar' = IF isr THEN e.bar = 1 ELSE lastbar
              /\ lastw' = IF isr THEN e.w ELSE lastw
              /\ lasth' = IF isr THEN e.h ELSE lasth
              /\ lastcached' = IF isr THEN e.cached = 1 ELSE lastcached
              /\ lbcfg' = IF e.t = "lbrender" THEN LbCfg(e) ELSE lbcfg
              /\ lbseen' = IF e.t # "lbrender" THEN lbseen
                            ELSE IF e.exc # "" \/ e.bar # 1 \/ ~LbExact(e) THEN <<>>
                            ELSE IF lbcfg = LbCfg(e) THEN Append(lbseen, <<LbPos(e), e.top>>) ELSE <<<<LbPos(e), e.top>>>>
Spec == Init /\ [][Step]_vars
Report == ok \/ PrintT(<<"REJECT", tid, l, why>>)
================================================================================
