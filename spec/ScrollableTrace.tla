---------------------------- MODULE ScrollableTrace ----------------------------
(* C20 trace validation: histories executed on real Scrollable / ScrollBar objects.           *)
EXTENDS ScrollableOps, Json, IOUtils

Traces == JsonDeserialize(IOEnv.TRACE_FILE)
VARIABLES tid, l, prevp, prevtop, lastp, ok, why
vars == <<tid, l, prevp, prevtop, lastp, ok, why>>

Init == tid \in 1..Len(Traces) /\ l = 0 /\ prevp = -1 /\ prevtop = -1 /\ lastp = 0 /\ ok = TRUE /\ why = "-"

\* e.t = "render": rows = row numbers shown (-1 blank), p = reported position, total, h, cw = width the child got,
\*                 w = view width, bar = 0/1, barw = bar width asked, top/thumb/bottom = bar parts, narrow = content narrower than view
RenderVerdict(e) ==
  IF e.exc # "" THEN "render_never_raises"
  ELSE IF Len(e.rows) # e.h THEN "view_height"
  ELSE IF e.p < 0 \/ e.p > MaxPos(e.total, e.h) THEN "position_within_bounds"
  ELSE IF e.rows # View(e.p, e.total, e.h) THEN "view_is_rows_p_to_p_plus_height"
  ELSE IF e.hasbar = 1 /\ ~BarDrawnOK(e.bar = 1, e.total, e.h) THEN "bar_drawn_iff_more_rows_than_view"
  ELSE IF e.bar = 1 /\ ~PartsOK(e.top, e.thumb, e.bottom, e.h) THEN "bar_parts_nonnegative_and_sum_to_height"
  ELSE IF e.bar = 1 /\ e.judge_top = 1 /\ ~ThumbTopOK(e.top, e.thumb, e.p, e.h) THEN "thumb_leaves_top_iff_scrolled"
  ELSE IF e.hasbar = 1 /\ e.cw # (IF e.bar = 1 THEN e.w - e.barw ELSE e.w) THEN "child_gets_width_minus_bar"
  ELSE IF e.bar = 1 /\ e.sweep = 1 /\ prevp >= 0 /\ e.p >= prevp /\ e.top < prevtop THEN "thumb_never_moves_up_when_position_increases"
  ELSE "-"

Verdict(e) ==
  CASE e.t = "render" -> RenderVerdict(e)
    [] e.t = "key" -> IF e.exc # "" THEN "keypress_never_raises" ELSE "-"
    [] e.t = "consumed" ->   \* a key / mouse event the wrapped widget handled: the next render must not have scrolled
         IF e.exc # "" THEN "keypress_never_raises" ELSE IF e.after # e.before THEN "handled_input_not_used_for_scrolling" ELSE "-"
    [] OTHER -> "-"

Step == /\ ok /\ l < Len(Traces[tid].ev) /\ l' = l + 1 /\ tid' = tid
        /\ LET e == Traces[tid].ev[l + 1]  v == Verdict(e)
           IN /\ why' = v /\ ok' = (v = "-")
              /\ prevp' = IF e.t = "render" /\ e.bar = 1 THEN e.p ELSE prevp
              /\ prevtop' = IF e.t = "render" /\ e.bar = 1 THEN e.top ELSE prevtop
              /\ lastp' = IF e.t = "render" THEN e.p ELSE lastp
Spec == Init /\ [][Step]_vars
Report == ok \/ PrintT(<<"REJECT", tid, l, why>>)
================================================================================
