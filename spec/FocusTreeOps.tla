------------------------------ MODULE FocusTreeOps ------------------------------
(* C08: container focus and input routing.  A widget tree is a flat table of nodes            *)
(*   [id, parent (0 = root), idx (position among the parent's children), kind, leaf (0/1),    *)
(*    nch, focus (index of the focus child or -1), sel (the widget's selectable()),            *)
(*    ok (the container's .focus IS the child at its .focus_position),                         *)
(*    emptyok (an empty container reports focus None and raises IndexError for the position)]  *)
EXTENDS Integers, Sequences, FiniteSets, TLC

NodeIds(nodes) == {nodes[k].id : k \in 1..Len(nodes)}
Node(nodes, id) == nodes[CHOOSE k \in 1..Len(nodes) : nodes[k].id = id]
Has(nodes, id) == \E k \in 1..Len(nodes) : nodes[k].id = id
ChildId(nodes, p, i) ==
  IF \E k \in 1..Len(nodes) : nodes[k].parent = p /\ nodes[k].idx = i
  THEN nodes[CHOOSE k \in 1..Len(nodes) : nodes[k].parent = p /\ nodes[k].idx = i].id ELSE 0
Root(nodes) == nodes[CHOOSE k \in 1..Len(nodes) : nodes[k].parent = 0].id

RECURSIVE PathFrom(_, _)
PathFrom(nodes, id) ==
  LET nd == Node(nodes, id) IN
  IF nd.leaf = 1 \/ nd.focus < 0 \/ ChildId(nodes, id, nd.focus) = 0 THEN {id}
  ELSE {id} \cup PathFrom(nodes, ChildId(nodes, id, nd.focus))
FocusPath(nodes) == IF nodes = <<>> THEN {} ELSE PathFrom(nodes, Root(nodes))

RECURSIVE AncSelf(_, _)
AncSelf(nodes, id) == IF id = 0 \/ ~Has(nodes, id) THEN {} ELSE {id} \cup AncSelf(nodes, Node(nodes, id).parent)

SeqSet(q) == {q[j] : j \in 1..Len(q)}

\* every non-empty container has a valid focus child which is the widget it reports; empty ones report none
FocusValid(nodes) ==
  \A k \in 1..Len(nodes) : nodes[k].leaf = 1 \/
     (IF nodes[k].nch = 0 THEN nodes[k].focus = -1 /\ nodes[k].emptyok = 1
      ELSE nodes[k].focus >= 0 /\ nodes[k].focus < nodes[k].nch /\ nodes[k].ok = 1)

\* containers (by id) whose focus index differs between two snapshots of a structurally unchanged tree
Moved(pre, post) == {id \in NodeIds(pre) \cap NodeIds(post) : Node(pre, id).leaf = 0 /\ Node(pre, id).nch = Node(post, id).nch
                                                             /\ Node(pre, id).focus # Node(post, id).focus}
\* A ListBox also uses its focus to SCROLL: when the next selectable item is not in reach it moves the focus onto an unselectable
\* item (documented ListBox behaviour; whether an item is in reach depends on geometry the node table does not carry).  Such a move
\* is accepted when it did not pass over a selectable item on its way.
ListBoxScrolled(pre, post, id) ==
  LET a == Node(pre, id).focus  b == Node(post, id).focus
      lo == IF a < b THEN a ELSE b  hi == IF a < b THEN b ELSE a
  IN Node(post, id).kind = "ListBox" /\ \A i \in (lo + 1)..(hi - 1) : LET c == ChildId(post, id, i) IN c = 0 \/ Node(post, c).sel = 0
ArrowOnlyToSelectable(pre, post, scrolls) ==
  \A id \in Moved(pre, post) :
     LET c == ChildId(post, id, Node(post, id).focus) IN c = 0 \/ Node(post, c).sel = 1 \/ ListBoxScrolled(pre, post, id)

SelectableIffChild(nodes, id) ==
  LET nd == Node(nodes, id)
      kids == {k \in 1..Len(nodes) : nodes[k].parent = id}
  IN (nd.sel = 1) <=> (\E k \in kids : nodes[k].sel = 1)

(* ---- which keys a container itself acts on (documented key handling) ------------------------------------------------------ *)
(* Pile: "unhandled 'up' and 'down' keys may cause a focus change"; Columns: 'left' / 'right'; GridFlow (a Pile of Columns       *)
(* rows): the four arrows; ListBox: 'up', 'down', 'page up', 'page down' and 'home' / 'end' (first / last item).  Frame,         *)
(* Overlay and the decorations only pass a key on to their focus child.  Every other key is none of a container's business.      *)
Navigates(kind, key) ==
  CASE kind = "Pile"     -> key \in {"up", "down"}
    [] kind = "Columns"  -> key \in {"left", "right"}
    [] kind = "GridFlow" -> key \in {"up", "down", "left", "right"}
    [] kind = "ListBox"  -> key \in {"up", "down", "page up", "page down", "home", "end"}
    [] OTHER             -> FALSE

(* Documented ListBox behaviour (manual, "Widget.move_cursor_to_coords ... The ListBox widget uses move_cursor_to_coords when       *)
(* changing focus"): a ListBox focus assignment is completed at the next layout (a rendering, or the layout a keypress / mouse     *)
(* event performs first), and when the new item is among the visible rows that layout places the cursor within the item: the        *)
(* containers inside the item then focus the (selectable) child at the cursor.  The ListBox's own focus is NOT touched by this.     *)
(* pend: ids of the ListBoxes with a focus change pending.                                                                        *)
Desc(nodes, a) == {id \in NodeIds(nodes) : a \in AncSelf(nodes, id)}
FocusItem(nodes, lb) == IF Has(nodes, lb) /\ Node(nodes, lb).focus >= 0 THEN ChildId(nodes, lb, Node(nodes, lb).focus) ELSE 0
CursorPlaced(post, pend, id) ==
  \E lb \in SeqSet(pend) : /\ lb # id /\ FocusItem(post, lb) # 0 /\ FocusItem(post, lb) \in AncSelf(post, id)
                           /\ LET c == ChildId(post, id, Node(post, id).focus) IN c = 0 \/ Node(post, c).sel = 1
\* what a key can reach: the focus path and - below a ListBox on the path whose focus change is still pending - the whole focus item
Reach(pre, pend) ==
  FocusPath(pre) \cup UNION {Desc(pre, FocusItem(pre, lb)) : lb \in {x \in SeqSet(pend) : x \in FocusPath(pre) /\ FocusItem(pre, x) # 0}}

\* a key travels down the focus path only: the containers that may act on it are the ones on the path that navigate with it
NavigatorsOnPath(pre, pend, key) == {id \in Reach(pre, pend) : Navigates(Node(pre, id).kind, key)}

\* ret: "same" (the key came back), "none" (None came back), "other" (something else came back); ate = 1: a leaf consumed the key.
\* A key no leaf consumed and no container on the focus path navigates with is UNHANDLED: it comes back unchanged.  Whoever
\* handles a key returns None or the key itself, never something else.
UnhandledComesBack(pre, pend, key, ate, ret) ==
  /\ ret \in {"same", "none"}
  /\ (ate = 0 /\ NavigatorsOnPath(pre, pend, key) = {}) => ret = "same"
\* ... and it changes no focus: a container's focus moves on a key only when the container, or a container above it on the focus
\* path (which then places the cursor inside the child it moved to), navigates with that key
\* (first: the ListBoxes never laid out before, which choose their first visible selectable item at the layout the key performs)
KeyMovesOnlyNavigators(pre, post, pend, first, key) ==
  \A id \in Moved(pre, post) : \/ AncSelf(pre, id) \cap NavigatorsOnPath(pre, pend, key) # {}
                               \/ CursorPlaced(post, pend, id) \/ id \in SeqSet(first)

(* ---- focus assignments and layout ----------------------------------------------------------------------------------------- *)
(* foc: the focus indices of the containers as a sequence of [id, nch, focus], read at some instant (cheaper than a table).       *)
FocusOf(foc, id) == IF \E k \in 1..Len(foc) : foc[k].id = id THEN foc[CHOOSE k \in 1..Len(foc) : foc[k].id = id].focus ELSE -2
FocusesOf(nodes) == LET cs == {k \in 1..Len(nodes) : nodes[k].leaf = 0}
                        RECURSIVE Build(_)
                        Build(k) == IF k > Len(nodes) THEN <<>>
                                    ELSE (IF k \in cs THEN <<[id |-> nodes[k].id, nch |-> nodes[k].nch, focus |-> nodes[k].focus]>> ELSE <<>>) \o Build(k + 1)
                    IN Build(1)
\* Laying the tree out (rendering it, or the layout a keypress / mouse event performs first) changes no focus: what focus_position
\* and get_focus_path() answered before is what they answer afterwards, so a focus that was written stays written - but for the
\* documented cursor placement inside the new focus item of a ListBox (pend), and for a ListBox laid out for the very first time
\* (first), which moves its focus to the first visible selectable item.
LayoutKeepsFocus(foc, post, pend, first) ==
  \A k \in 1..Len(foc) : (Has(post, foc[k].id) /\ Node(post, foc[k].id).nch = foc[k].nch /\ Node(post, foc[k].id).focus # foc[k].focus)
                             => CursorPlaced(post, pend, foc[k].id) \/ foc[k].id \in SeqSet(first)
\* a valid focus assignment puts the focus on the assigned child: at once (foc) and still after the next layout (post)
AssignmentTakesEffect(foc, post, pend, target, want) ==
  FocusOf(foc, target) = want /\ (Has(post, target) => (Node(post, target).focus = want \/ CursorPlaced(post, pend, target)))

(* ---- a cursor sent into a Columns (Columns.move_cursor_to_coords: "choose a selectable column to focus based on the coords") ---- *)
(* A parent that moves its focus onto a Columns with up / down / page keys (Pile.keypress, ListBox.change_focus) hands it the         *)
(* preferred cursor column.  m records one such call:                                                                              *)
(*   widths (what column_widths() answers: 0 = the column is hidden, scrolled out on the left because the focus is far right;       *)
(*   columns cut off on the right are not listed), sel / acc per listed column (selectable(); acc 1: takes a cursor at any cell,     *)
(*   0: refuses every cell, 2: a container, unknown), div (dividechars), colk / col (the coordinate: "int" with col, "left",        *)
(*   "right", "other"), before / after (focus_position, 0-based), ret (1: the move succeeded).                                       *)
(* The columns lie side by side: column i covers [X(i), X(i) + widths[i]).  A hidden column is not drawn and neither is its          *)
(* divider; Columns.get_pref_col and move_cursor_to_coords nevertheless count the dividers of hidden columns.  The contract leaves   *)
(* this open (g = 0: as drawn, g = 1: hidden dividers counted) and accepts the choice either geometry leads to.                      *)
SetMin(S) == CHOOSE x \in S : \A y \in S : x <= y
SetMax(S) == CHOOSE x \in S : \A y \in S : x >= y
RECURSIVE ColX(_, _, _)
ColX(m, g, i) == IF i = 1 THEN 0
                 ELSE ColX(m, g, i - 1) + m.widths[i - 1] + (IF m.widths[i - 1] > 0 \/ g = 1 THEN m.div ELSE 0)
MoveCands(m) == {i \in 1..Len(m.widths) : m.sel[i] = 1}
\* the column(s) (1-based) the coordinate names: the selectable column that contains it, else the nearest selectable one (distance to
\* a column on the left: cells between its right edge and col; to one on the right: cells up to its left edge; a tie may go either way)
MovePicks(m, g) ==
  LET C  == MoveCands(m)
      Ls == {i \in C : ColX(m, g, i) <= m.col}
      Rs == {i \in C : ColX(m, g, i) > m.col}
  IN IF C = {} THEN {}
     ELSE IF m.colk = "left" THEN {SetMin(C)}
     ELSE IF m.colk = "right" THEN {SetMax(C)}
     ELSE IF Ls = {} THEN {SetMin(Rs)}
     ELSE IF Rs = {} THEN {SetMax(Ls)}
     ELSE LET L == SetMax(Ls)  R == SetMin(Rs)
              dl == m.col - (ColX(m, g, L) + m.widths[L])  dr == ColX(m, g, R) - m.col
          IN IF dl < 0 THEN {L} ELSE IF dl < dr THEN {L} ELSE IF dl > dr THEN {R} ELSE {L, R}
MovePicksAny(m) == MovePicks(m, 0) \cup MovePicks(m, 1)
\* a successful move leaves the focus on the column the coordinate names (a selectable one by construction - never on a column
\* counted in some other list, e.g. among the shown columns only); a refused move changes no focus; a move is refused only when
\* there is no selectable column or the chosen column's widget did not take the cursor
MoveOk(m) ==
  /\ m.ret = 0 => m.after = m.before
  /\ (m.ret = 1 /\ m.colk # "other") => (m.after + 1) \in MovePicksAny(m)
  /\ m.ret = 1 => MoveCands(m) # {}
  /\ (m.ret = 0 /\ m.colk # "other" /\ MoveCands(m) # {}) => \E i \in MovePicksAny(m) : m.acc[i] # 1
MovesOk(moves) == \A j \in 1..Len(moves) : MoveOk(moves[j])
=================================================================================
