------------------------------ MODULE FocusTreeOps ------------------------------
(* C08: container focus and input routing.  A widget tree is a flat table of nodes            *)
(*   [id, parent (0 = root), idx (position among the parent's children), kind, leaf (0/1),    *)
(*    nch, focus (index of the focus child or -1), sel (the widget's selectable()),            *)
(*    ok (the container's .focus IS the child at its .focus_position),                         *)
(*    emptyok (an empty container reports focus None and raises IndexError for the position)]  *)
EXTENDS Integers, Sequences, FiniteSets, TLC

NodeIds(nodes) == {nodes[k].id : k \in 1..Len(nodes)}
Node(nodes, id) == nodes[CHOOSE k \in 1..Len(nodes) : nodes[k].id = id]
Has(nodes, id) == \E k \in 1..Len(nodes) : nodes[k].id = id
ChildId(nodes, p, i) ==
  IF \E k \in 1..Len(nodes) : nodes[k].parent = p /\ nodes[k].idx = i
  THEN nodes[CHOOSE k \in 1..Len(nodes) : nodes[k].parent = p /\ nodes[k].idx = i].id ELSE 0
Root(nodes) == nodes[CHOOSE k \in 1..Len(nodes) : nodes[k].parent = 0].id

RECURSIVE PathFrom(_, _)
PathFrom(nodes, id) ==
  LET nd == Node(nodes, id) IN
  IF nd.leaf = 1 \/ nd.focus < 0 \/ ChildId(nodes, id, nd.focus) = 0 THEN {id}
  ELSE {id} \cup PathFrom(nodes, ChildId(nodes, id, nd.focus))
FocusPath(nodes) == IF nodes = <<>> THEN {} ELSE PathFrom(nodes, Root(nodes))

SeqSet(q) == {q[j] : j \in 1..Len(q)}

\* every non-empty container has a valid focus child which is the widget it reports; empty ones report none
FocusValid(nodes) ==
  \A k \in 1..Len(nodes) : nodes[k].leaf = 1 \/
     (IF nodes[k].nch = 0 THEN nodes[k].focus = -1 /\ nodes[k].emptyok = 1
      ELSE nodes[k].focus >= 0 /\ nodes[k].focus < nodes[k].nch /\ nodes[k].ok = 1)

\* containers (by id) whose focus index differs between two snapshots of a structurally unchanged tree
Moved(pre, post) == {id \in NodeIds(pre) \cap NodeIds(post) : Node(pre, id).leaf = 0 /\ Node(pre, id).nch = Node(post, id).nch
                                                             /\ Node(pre, id).focus # Node(post, id).focus}
\* A ListBox also uses its focus to SCROLL: when the next selectable item is not in reach it moves the focus onto an unselectable
\* item (documented ListBox behaviour; whether an item is in reach depends on geometry the node table does not carry).  Such a move
\* is accepted when it did not pass over a selectable item on its way.
ListBoxScrolled(pre, post, id) ==
  LET a == Node(pre, id).focus  b == Node(post, id).focus
      lo == IF a < b THEN a ELSE b  hi == IF a < b THEN b ELSE a
  IN Node(post, id).kind = "ListBox" /\ \A i \in (lo + 1)..(hi - 1) : LET c == ChildId(post, id, i) IN c = 0 \/ Node(post, c).sel = 0
ArrowOnlyToSelectable(pre, post, scrolls) ==
  \A id \in Moved(pre, post) :
     LET c == ChildId(post, id, Node(post, id).focus) IN c = 0 \/ Node(post, c).sel = 1 \/ ListBoxScrolled(pre, post, id)

SelectableIffChild(nodes, id) ==
  LET nd == Node(nodes, id)
      kids == {k \in 1..Len(nodes) : nodes[k].parent = id}
  IN (nd.sel = 1) <=> (\E k \in kids : nodes[k].sel = 1)
=================================================================================
