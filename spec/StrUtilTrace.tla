---------------------------- MODULE StrUtilTrace ----------------------------
(* C11 trace validation.  Every event is a set of return values of the REAL urwid functions *)
(* (urwid.str_util / urwid.util) for one call on one text; TLC judges each against the       *)
(* contract operators of StrUtilOps.  One clause name per sentence of the property.          *)
(*                                                                                           *)
(* Trace kinds:                                                                              *)
(*  "text" valid text, given as chars = sequence of [cp, w (width table), b (bytes in the     *)
(*         active encoding), enc (those bytes)].  Every call is made twice, on the str and   *)
(*         on its encoded byte form; offsets of the str calls are character indices i, j,    *)
(*         those of the bytes calls are Offs(chars, i), Offs(chars, j).                      *)
(*  "enc"  apply_target_encoding on a text                                                   *)
(*  "cps"  the per-code-point sweep: str path against UTF-8 bytes path                       *)
(*  "raw"  invalid / truncated input: nothing the property states applies; the clauses here  *)
(*         are named beyond.* and are reported as DIVERGENCE, never as a violation           *)
(*  "broken" UTF-8 byte text in which multi-byte characters are cut short (a proper prefix of  *)
(*         a 2-, 3- or 4-byte character followed by ASCII, by another character or by the end  *)
(*         of the text).  "invalid/truncated UTF-8" is in the quantifier of the property, and  *)
(*         the sentences "width, offset for a column ... agree with each other" and "widths    *)
(*         are additive" need a unit: every byte that does not belong to a well-formed         *)
(*         character is a character of its own, one column wide (urwid shows it as '?').      *)
(*         chars holds such a byte as [cp |-> 63, w |-> 1, b |-> 1, enc |-> <<byte>>]; the str *)
(*         the bytes are compared with has '?' in its place.  Judged by the very clauses of    *)
(*         "text" for width, offset-for-column, is-wide and trimming; stepping and decode_one   *)
(*         are not asked (urwid steps over a cut character as one unit: no sentence says how). *)
(*  "switch" ONE process, ONE byte string (same = "bytes": tr.raw) or ONE str (same = "str"), *)
(*         several encodings: views = sequence of [enc, mode, chars], the text that input is  *)
(*         under each encoding.  An event op = "setenc" is a real urwid.set_encoding(enc)     *)
(*         call and makes views[v] the active one (state variable cur); every other event is  *)
(*         a "text" / "enc" event recorded after it and is judged, by the very same clauses,  *)
(*         against the view that is active at that point of the history.                      *)
EXTENDS StrUtilOps, Json, IOUtils, TLC

Traces == JsonDeserialize(IOEnv.TRACE_FILE)
VARIABLES tid, l, ok, why,
          cur       \* "switch" traces: the view selected by the last set_encoding event (0: none yet)
vars == <<tid, l, ok, why, cur>>

Init == tid \in 1..Len(Traces) /\ l = 0 /\ ok = TRUE /\ why = "-" /\ cur = 0

Spaces(n) == [k \in 1..n |-> 32]
RECURSIVE SumSeq(_)
SumSeq(q) == IF q = <<>> THEN 0 ELSE Head(q) + SumSeq(Tail(q))

\* ------------------------------------------------------------------ calc_width
VWidth(cs, e) ==
  IF e.ru # e.rb THEN "width_str_and_bytes_agree"
  ELSE IF e.ru # WidthIdx(cs, e.i, e.j) THEN "width_agrees_with_width_table"
  ELSE IF \E k \in 1..Len(e.parts) : LET p == e.parts[k] IN p[1] + p[2] # e.ru \/ p[3] + p[4] # e.rb
       THEN "widths_additive_over_character_boundaries"
  ELSE "-"

\* ------------------------------------------------------------------ calc_text_pos
VPos(cs, e) ==
  LET U == AsStr(cs)
      s == Offs(cs, e.i)
      t == Offs(cs, e.j)
  IN
  IF ~PosOnBoundary(U, e.i, e.j, e.up) \/ ~PosOnBoundary(cs, s, t, e.bp) THEN "pos_never_inside_a_character"
  ELSE IF ~PosNotBeyond(e.col, e.uc) \/ ~PosNotBeyond(e.col, e.bc) THEN "pos_not_beyond_requested_column"
  ELSE IF ~PosColIsWidth(U, e.i, e.up, e.uc) \/ ~PosColIsWidth(cs, s, e.bp, e.bc) THEN "pos_column_agrees_with_width"
  ELSE IF ~PosClosest(U, e.i, e.j, e.col, e.uc) \/ ~PosClosest(cs, s, t, e.col, e.bc) THEN "pos_is_the_offset_for_the_column"
  ELSE IF e.bp # Offs(cs, e.up) \/ e.bc # e.uc THEN "pos_str_and_bytes_agree"
  ELSE "-"

\* ------------------------------------------------------------------ move_next_char / move_prev_char
VStep(cs, e) ==
  LET s == Offs(cs, e.i)
      t == Offs(cs, e.j)
  IN
  IF e.nu # e.i + 1 \/ e.nb # MoveNext(cs, s) THEN "next_is_the_next_character_boundary"
  ELSE IF e.pu # e.j - 1 \/ e.pb # MovePrev(cs, t) THEN "prev_is_the_previous_character_boundary"
  ELSE IF e.npu # e.i \/ e.npb # s THEN "next_then_prev_returns_to_start"
  ELSE IF e.nb # Offs(cs, e.nu) \/ e.pb # Offs(cs, e.pu) THEN "next_prev_str_and_bytes_agree"
  ELSE "-"

VWide(cs, e) ==
  IF e.ru # (cs[e.i + 1].w = 2) \/ e.rb # (cs[e.i + 1].w = 2) THEN "is_wide_agrees_with_width" ELSE "-"

\* decode_one at boundary i; decode_one_right on the last byte of character i+1 (UTF-8)
VDec(cs, e) ==
  IF e.ro # cs[e.i + 1].cp \/ e.rn # Offs(cs, e.i + 1) THEN "decode_one_agrees_with_character_boundaries"
  ELSE IF e.lo # cs[e.i + 1].cp \/ e.lp # Offs(cs, e.i) - 1 THEN "decode_one_right_agrees_with_character_boundaries"
  ELSE "-"

\* within_double_byte(text, line_start = boundary i, pos)
VWdb(cs, e) == IF e.r # WithinDouble(cs, e.pos) THEN "within_double_byte_agrees_with_character_boundaries" ELSE "-"

\* ------------------------------------------------------------------ calc_trim_text
VTrimOne(cs, s, t, sc, ec, r) ==
  IF ~TrimIsSlice(cs, s, t, r[1], r[2]) THEN "trim_returns_a_slice"
  ELSE IF ~TrimFlagsAreFlags(r[3], r[4]) \/ ~TrimTotalWidth(cs, sc, ec, r[1], r[2], r[3], r[4]) THEN "trim_total_width_is_the_requested_range"
  ELSE IF ~TrimFlagsStraddle(cs, s, t, sc, ec, r[3], r[4]) THEN "trim_pad_flag_iff_wide_character_straddles_edge"
  ELSE IF ~TrimStartsAtRange(cs, s, sc, r[1], r[3]) THEN "trim_slice_is_of_the_requested_range"
  ELSE "-"
VTrim(cs, e) ==
  LET vu == VTrimOne(AsStr(cs), e.i, e.j, e.sc, e.ec, e.u)
      vb == VTrimOne(cs, Offs(cs, e.i), Offs(cs, e.j), e.sc, e.ec, e.b)
  IN IF vu # "-" THEN vu ELSE IF vb # "-" THEN vb
     ELSE IF e.b # <<Offs(cs, e.u[1]), Offs(cs, e.u[2]), e.u[3], e.u[4]>> THEN "trim_str_and_bytes_agree"
     ELSE "-"
\* trim_text_attr_cs on the whole byte text: the trimmed text is pad + slice + pad, attr and cs cover it
VTrimCs(cs, e) ==
  LET v == VTrimOne(cs, 0, Total(cs), e.sc, e.ec, e.t)
      bytes == AllBytes(cs)
  IN IF v # "-" THEN v
     ELSE IF e.out # Spaces(e.t[3]) \o SubSeq(bytes, e.t[1] + 1, e.t[2]) \o Spaces(e.t[4]) THEN "trim_returns_a_slice"
     ELSE IF SumSeq(e.al) # Len(e.out) \/ SumSeq(e.cl) # Len(e.out) THEN "beyond.trim_attr_and_cs_runs_cover_the_text"
     ELSE "-"

VText(tr, e) ==
  LET cs == tr.chars IN
  IF e.exc # "" THEN "no_result_for_valid_text." \o e.op
  ELSE CASE e.op = "width" -> VWidth(cs, e)
         [] e.op = "pos" -> VPos(cs, e)
         [] e.op = "step" -> VStep(cs, e)
         [] e.op = "wide" -> VWide(cs, e)
         [] e.op = "dec" -> VDec(cs, e)
         [] e.op = "wdb" -> VWdb(cs, e)
         [] e.op = "trim" -> VTrim(cs, e)
         [] e.op = "trimcs" -> VTrimCs(cs, e)
         [] OTHER -> "no_action"

\* ------------------------------------------------------------------ cut-short UTF-8
\* tr.bad[k] = 1: character k of chars is a byte outside every well-formed character
VBroken(tr, e) ==
  LET cs == tr.chars IN
  IF tr.mode # "utf8" \/ Len(tr.bad) # Len(cs) \/ e.op \notin {"width", "pos", "wide", "trim", "trimcs"} THEN "no_action"
  ELSE IF \E k \in 1..Len(cs) : tr.bad[k] = 1 /\ (cs[k].w # 1 \/ cs[k].b # 1 \/ cs[k].cp # 63 \/ cs[k].enc[1] < 128) THEN "no_action"
  ELSE VText(tr, e)

\* ------------------------------------------------------------------ apply_target_encoding
\* e.src = "str": the text itself was encoded; "bytes": its already encoded byte form was passed through;
\* e.ctl: the input contains literal SO / SI control characters (then only the run-length clause applies)
VEnc(tr, e) ==
  LET cs == tr.chars
      dec == tr.mode # "utf8"
      anyDec == \E k \in 1..Len(cs) : IsDec(cs[k].cp)
  IN
  IF e.exc # "" THEN "no_result_for_valid_text.enc"
  ELSE IF RunTotal(e.cs) # Len(e.out) THEN "encode_run_lengths_equal_encoded_length"
  ELSE IF e.ctl THEN "-"
  ELSE IF e.src = "bytes" THEN (IF e.out # AllBytes(cs) \/ Expand(e.cs) # Rep("n", Len(e.out)) THEN "beyond.encode_bytes_pass_through" ELSE "-")
  ELSE IF e.out # EncodeBytes(cs, dec) THEN (IF dec /\ anyDec THEN "encode_maps_dec_characters_to_alternate_bytes" ELSE "beyond.encode_plain_text_bytes")
  ELSE IF Expand(e.cs) # EncodeTags(cs, dec) THEN "encode_charset_run_matches"
  ELSE "-"

\* ------------------------------------------------------------------ per-code-point sweep (UTF-8 mode)
Anchor(cp) == IF cp >= 32 /\ cp <= 126 THEN 1                   \* printable ASCII
              ELSE IF cp >= 768 /\ cp <= 879 THEN 0             \* combining diacritical marks
              ELSE IF cp >= 12353 /\ cp <= 12438 THEN 2         \* hiragana
              ELSE IF cp >= 19968 /\ cp <= 40959 THEN 2         \* CJK unified ideographs
              ELSE IF cp >= 44032 /\ cp <= 55203 THEN 2         \* hangul syllables
              ELSE IF cp >= 65281 /\ cp <= 65376 THEN 2         \* fullwidth forms
              ELSE 99
VCp(e) ==
  LET n == Utf8Len(e.cp) IN
  IF ~IsScalar(e.cp) THEN "no_action"
  ELSE IF e.exc # "" THEN "no_result_for_valid_text.cp"
  ELSE IF e.gw # e.tw \/ e.gwo # e.tw THEN "codepoint_width_agrees_with_width_table"
  ELSE IF Anchor(e.cp) # 99 /\ e.gw # Anchor(e.cp) THEN "codepoint_width_agrees_with_width_table"
  ELSE IF e.su # e.tw \/ e.sb # e.su THEN "codepoint_str_and_utf8_width_agree"
  ELSE IF e.wu # (e.tw = 2) \/ e.wb # e.wu THEN "codepoint_is_wide_agrees_with_width"
  ELSE IF e.blen # n \/ e.nb # n \/ e.pb # 0 \/ e.dn # n \/ e.do # e.cp \/ e.lo # e.cp \/ e.lp # -1
       THEN "codepoint_utf8_boundaries"
  ELSE IF e.cu # 2 + e.tw \/ e.cb # 2 + e.tw THEN "widths_additive_over_character_boundaries"
  ELSE IF e.p1u # (IF e.tw = 2 THEN <<1, 1>> ELSE <<2, 1 + e.tw>>) THEN "pos_not_beyond_requested_column"
  ELSE IF e.p1b # (IF e.tw = 2 THEN <<1, 1>> ELSE <<1 + n, 1 + e.tw>>) THEN "pos_never_inside_a_character"
  ELSE "-"

\* ------------------------------------------------------------------ invalid input: beyond the property
VRaw(tr, e) ==
  IF e.exc # "" THEN "beyond.robust_no_exception." \o e.op
  ELSE CASE e.op = "width" -> IF e.r1 < 0 \/ e.r1 > 2 * (e.e - e.s) THEN "beyond.robust_width_in_range" ELSE "-"
         [] e.op = "pos" -> IF e.r1 < e.s \/ e.r1 > e.e \/ e.r2 < 0 \/ e.r2 > e.col THEN "beyond.robust_pos_in_range" ELSE "-"
         [] e.op = "next" -> IF e.r1 <= e.s \/ e.r1 > e.e THEN "beyond.robust_next_advances" ELSE "-"
         [] e.op = "prev" -> IF e.r1 >= e.e \/ e.r1 < e.s THEN "beyond.robust_prev_goes_back" ELSE "-"
         [] e.op = "wide" -> "-"
         [] OTHER -> "no_action"

\* ------------------------------------------------------------------ one input under alternating encodings
\* c = the view selected by the last set_encoding of this history.  "no_action": the harness recorded something that is
\* not a history of this kind (a view that is not of the named encoding / not the same bytes, a call before any set_encoding)
VSwitch(tr, e, c) ==
  IF e.op = "setenc"
  THEN IF e.v < 1 \/ e.v > Len(tr.views) THEN "no_action"
       ELSE LET vw == tr.views[e.v] IN
            IF vw.enc # e.enc \/ vw.mode # EncodingMode(e.enc) THEN "no_action"
            ELSE IF tr.same = "bytes" /\ AllBytes(vw.chars) # tr.raw THEN "no_action"
            ELSE IF e.exc # "" THEN "no_result_for_valid_text.setenc"
            ELSE IF e.got # vw.mode THEN "encoding_mode_follows_set_encoding"
            ELSE "-"
  ELSE IF c = 0 THEN "no_action"
  ELSE IF e.op = "enc" THEN VEnc(tr.views[c], e)
  ELSE VText(tr.views[c], e)

Verdict(tr, e, c) ==
  CASE tr.kind = "text" -> VText(tr, e)
    [] tr.kind = "enc" -> VEnc(tr, e)
    [] tr.kind = "cps" -> VCp(e)
    [] tr.kind = "raw" -> VRaw(tr, e)
    [] tr.kind = "broken" -> VBroken(tr, e)
    [] tr.kind = "switch" -> VSwitch(tr, e, c)
    [] OTHER -> "no_action"

Step == /\ ok /\ l < Len(Traces[tid].ev) /\ l' = l + 1 /\ tid' = tid
        /\ LET tr == Traces[tid]
               e == tr.ev[l + 1]
               v == Verdict(tr, e, cur)
           IN /\ why' = v /\ ok' = (v = "-")
              /\ cur' = IF tr.kind = "switch" /\ e.op = "setenc" THEN e.v ELSE cur
Spec == Init /\ [][Step]_vars
Report == ok \/ PrintT(<<"REJECT", tid, l, why>>)
=============================================================================
