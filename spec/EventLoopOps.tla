---------------------------- MODULE EventLoopOps ----------------------------
(* C13: the contract every urwid event loop must honour, as a monitor over observable     *)
(* events.  State s:                                                                       *)
(*   now      virtual time (ms)                                                            *)
(*   alarms   id -> [due, st]   st in {"none","pending","fired","removed"}                 *)
(*   watches  fd -> "none" | "watched" | "removed"                                         *)
(*   wgen     fd -> generation of the watch now (or last) registered on the descriptor: a   *)
(*            descriptor may be watched again after its watch was removed; that is a NEW   *)
(*            watch with a callback of its own, the callback of the old one stays removed  *)
(*   idles    id -> "none" | "active" | "removed"   (one id per enter_idle() call)         *)
(*   readable set of descriptors that currently have data                                  *)
(*   dirty    an alarm/watch callback has run since the idle callbacks last all ran        *)
(*   seen     idle callbacks run since the last alarm/watch callback                       *)
(*   owed     descriptors the loop was told are ready and has not served yet               *)
(*   raised   kinds of exception raised by callbacks so far: "exit" (ExitMainLoop), "error"  *)
(*            (an Exception), "base" (a BaseException that is not an Exception)              *)
(* Judge(s, e) returns [s |-> next state, why |-> first broken clause or "-"].             *)
EXTENDS Integers, Sequences, FiniteSets, TLC

MaxA == 8
MaxF == 3
MaxI == 5
Inf == -1

InitState == [now |-> 0,
              alarms |-> [i \in 1..MaxA |-> [due |-> 0, st |-> "none"]],
              watches |-> [f \in 1..MaxF |-> "none"],
              wgen |-> [f \in 1..MaxF |-> 0],
              idles |-> [i \in 1..MaxI |-> "none"],
              readable |-> {}, dirty |-> FALSE, seen |-> {}, owed |-> {}, raised |-> {}]

Pending(s) == {i \in 1..MaxA : s.alarms[i].st = "pending"}
ActiveIdles(s) == {i \in 1..MaxI : s.idles[i] = "active"}
Watched(s) == {f \in 1..MaxF : s.watches[f] = "watched"}
MinDue(s) == IF Pending(s) = {} THEN Inf
             ELSE LET a == CHOOSE a \in Pending(s) : \A b \in Pending(s) : s.alarms[a].due <= s.alarms[b].due IN s.alarms[a].due
SeqSet(q) == {q[j] : j \in 1..Len(q)}

R(s, w) == [s |-> s, why |-> w]
\* what comes out of run() for an exception of kind k raised by a callback: the exception itself (recorded by its class)
ExcName(k) == CASE k = "error" -> "VfError" [] k = "base" -> "VfBase" [] OTHER -> "-"

AfterCallback(s) == [s EXCEPT !.dirty = TRUE, !.seen = {}]

Judge(s, e) ==
  CASE e.t = "reg_alarm" ->
         R([s EXCEPT !.alarms[e.id] = [due |-> s.now + e.delay, st |-> "pending"]], "-")
    [] e.t = "reg_watch" -> R([s EXCEPT !.watches[e.fd] = "watched", !.wgen[e.fd] = e.gen], "-")
    [] e.t = "reg_idle" -> R([s EXCEPT !.idles[e.id] = "active"], "-")
    [] e.t = "alarm_cb" ->
         LET a == s.alarms[e.id]
             s2 == AfterCallback([s EXCEPT !.alarms[e.id].st = "fired"])
         IN IF a.st = "fired" THEN R(s2, "alarm_runs_at_most_once")
            ELSE IF a.st = "removed" THEN R(s2, "removed_alarm_never_runs")
            ELSE IF a.st # "pending" THEN R(s2, "unknown_alarm")
            ELSE IF s.now < a.due THEN R(s2, "alarm_not_before_due")
            ELSE IF \E b \in Pending(s) : s.alarms[b].due < a.due THEN R(s2, "alarm_after_every_earlier_due")
            ELSE R(s2, "-")
    [] e.t = "watch_cb" ->
         LET s2 == AfterCallback([s EXCEPT !.owed = @ \ {e.fd}])
         IN IF s.watches[e.fd] = "removed" THEN R(s2, "removed_watch_never_runs")
            \* the callback of an earlier watch on this descriptor: that watch was removed, whatever was registered since
            ELSE IF e.gen # s.wgen[e.fd] THEN R(s2, "removed_watch_never_runs")
            ELSE IF s.watches[e.fd] # "watched" THEN R(s2, "unknown_watch")
            ELSE R(s2, "-")
    [] e.t = "idle_cb" ->
         LET seen2 == s.seen \cup {e.id}
             s2 == [s EXCEPT !.seen = seen2, !.dirty = IF ActiveIdles(s) \subseteq seen2 THEN FALSE ELSE @]
         IN IF s.idles[e.id] = "removed" THEN R(s2, "removed_idle_not_called_again")
            ELSE IF s.idles[e.id] # "active" THEN R(s2, "unknown_idle")
            ELSE R(s2, "-")
    [] e.t = "remove_alarm" ->
         LET st == s.alarms[e.id].st
             s2 == IF st = "pending" THEN [s EXCEPT !.alarms[e.id].st = "removed"] ELSE s
         IN IF st = "pending" /\ ~e.ret THEN R(s2, "removal_reports_success")
            ELSE IF st = "removed" /\ e.ret THEN R(s2, "second_removal_reports_failure")
            ELSE R(s2, "-")
    [] e.t = "remove_watch" ->
         R([s EXCEPT !.watches[e.fd] = IF @ = "watched" THEN "removed" ELSE @, !.owed = @ \ {e.fd}], "-")
    [] e.t = "remove_idle" ->
         LET s1 == [s EXCEPT !.idles[e.id] = IF @ = "active" THEN "removed" ELSE @]
         IN R([s1 EXCEPT !.dirty = IF ActiveIdles(s1) \subseteq s.seen THEN FALSE ELSE @], "-")
    \* a call the program makes outside any callback (before run(), between two runs) is part of the quantified histories: a removal
    \* that raises reports nothing, and what it should have removed is still there
    [] e.t = "call_failed" -> R(s, CASE e.call = "remove_alarm" -> "removal_reports_success"
                                     [] e.call = "remove_watch" -> "watch_can_be_removed"
                                     [] e.call = "watch_file" -> "descriptor_can_be_watched"
                                     [] OTHER -> "call_outside_callbacks_is_accepted")
    [] e.t = "slow" -> R([s EXCEPT !.now = @ + e.d], "-")
    [] e.t = "drain" -> R([s EXCEPT !.readable = @ \ {e.fd}, !.owed = @ \ {e.fd}], "-")
    [] e.t = "raise" -> R([s EXCEPT !.raised = @ \cup {e.kind}], "-")
    [] e.t = "wait" ->
         LET ready == SeqSet(e.ready)
             blocks == ready = {} /\ e.timeout # 0
             \* the loop sleeps until something the user can see: forever, or up to the next user alarm
             \* (e.grace: twisted emulates idle with a 1/256 s timer; waits no longer than that are its own tick)
             quiescent == blocks /\ (e.timeout = Inf \/ e.timeout > e.grace)
                                 /\ (e.timeout = Inf \/ MinDue(s) = Inf \/ s.now + e.timeout >= MinDue(s))
             s2 == [s EXCEPT !.owed = ready \cap Watched(s)]
         IN IF (s.owed \cap Watched(s) \cap s.readable) # {} THEN R(s2, "watch_runs_whenever_readable")
            ELSE IF quiescent /\ s.raised = {} /\ s.dirty /\ ~(ActiveIdles(s) \subseteq s.seen) THEN R(s2, "idle_before_quiescent")
            ELSE R(s2, "-")
    [] e.t = "woke" -> R([s EXCEPT !.owed = SeqSet(e.ready) \cap Watched(s)], "-")
    [] e.t = "advance" ->    \* the loop slept until e.to; after a callback has raised it must not go back to sleep
         R([s EXCEPT !.now = IF e.to > @ THEN e.to ELSE @], IF s.raised # {} /\ e.to > s.now THEN "exception_stops_the_loop" ELSE "-")
    [] e.t = "env_readable" -> R([s EXCEPT !.readable = @ \cup {e.fd}], "-")
    [] e.t = "rerun" ->      \* run() is called again on the same loop object: what an earlier run raised is over and done with
         \* (and so is the obligation to run idle callbacks for callbacks of the aborted run: the property speaks of one run)
         R([s EXCEPT !.raised = {}, !.dirty = FALSE, !.seen = {}, !.owed = {}], "-")
    [] e.t = "run_end" ->
         IF e.outcome = "stuck" THEN R(s, "loop_never_serves_due_event")
         ELSE IF s.raised = {} THEN R(s, IF e.outcome = "return" THEN "run_returned_without_exit" ELSE "run_raises_only_what_a_callback_raised")
         ELSE IF e.outcome = "raise" /\ e.exc \notin {ExcName(k) : k \in s.raised \ {"exit"}} THEN R(s, "run_raises_only_what_a_callback_raised")
         ELSE IF "exit" \notin s.raised /\ e.outcome # "raise" THEN R(s, "error_reraised_from_run")
         ELSE IF s.raised = {"exit"} /\ e.outcome # "return" THEN R(s, "exit_ends_run_silently")
         ELSE R(s, "-")
    [] OTHER -> R(s, "no_action")
=============================================================================
