--------------------------- MODULE ScrollableListOps ---------------------------
(* C20: a list of items seen through a view (ListBox under ScrollBar) - the part of the contract   *)
(* that needs sequences of items.  Kept apart from ScrollableOps, whose integer core is also       *)
(* read by Apalache (ScrollableInd).                                                                *)
EXTENDS ScrollableOps

\* an item is <<wrap, n>>: n explicit lines (wrap = 0), or n cells wrapped anywhere at the view's columns (wrap = 1)
ItemRows(it, cols) == IF it[1] = 1 THEN Max2(1, (it[2] + cols - 1) \div cols) ELSE it[2]
RECURSIVE SumRowsTo(_, _, _)
SumRowsTo(items, cols, k) == IF k = 0 THEN 0 ELSE SumRowsTo(items, cols, k - 1) + ItemRows(items[k], cols)
SumRows(items, cols) == SumRowsTo(items, cols, Len(items))

\* first = <<item, off>>: the top line of the view shows row `off` (from 0) of item `item` (from 1)
FirstOK(items, cols, first) == first[1] \in 1..Len(items) /\ first[2] >= 0 /\ first[2] < ItemRows(items[first[1]], cols)
\* the scrolling position of such a view = the rows scrolled out above it: every row of the items before `item` and the
\* `off` rows of that item itself - whichever item has the focus, whichever way the view got there
RowsAbove(items, cols, first) == SumRowsTo(items, cols, first[1] - 1) + first[2]
\* the other way round: the item and inner row that row g (from 0) of the whole list belongs to
RECURSIVE FirstOfFrom(_, _, _, _)
FirstOfFrom(items, cols, g, k) ==
  IF k > Len(items) THEN <<0, 0>>
  ELSE IF g < ItemRows(items[k], cols) THEN <<k, g>> ELSE FirstOfFrom(items, cols, g - ItemRows(items[k], cols), k + 1)
FirstOf(items, cols, g) == FirstOfFrom(items, cols, g, 1)
\* a deliberately wrong reading (refuted in Scrollable.tla): rows cut off the first visible item are not counted
RowsAboveNoInset(items, cols, first) == SumRowsTo(items, cols, first[1] - 1)

\* what a position function of list views has to satisfy (Scrollable.tla: true of RowsAbove, false of RowsAboveNoInset):
\* the view that starts at row g of the list is at position g - so the top of the list is the only view at position 0 and
\* the position grows by one with every row the view moves down
ListPositionLaw(Pos(_, _, _), items, cols) ==
  \A g \in 0..(SumRows(items, cols) - 1) : Pos(items, cols, FirstOf(items, cols, g)) = g

\* the thumb follows the position: against every earlier rendering <<p, top>> of the same content in the same view it is
\* not higher when the position is not smaller, and not lower when the position is not greater
ThumbFollows(seen, p, top) ==
  \A i \in 1..Len(seen) : (seen[i][1] <= p => seen[i][2] <= top) /\ (seen[i][1] >= p => seen[i][2] >= top)
================================================================================
