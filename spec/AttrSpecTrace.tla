---------------------------- MODULE AttrSpecTrace ----------------------------
(* C18 trace validation.  Every event is self-contained (no state is carried between events): *)
(*  t = "spec": one construction AttrSpec(fg, bg, d) of the real class with everything that     *)
(*      was observed on the object and on the object rebuilt from its reported descriptions;    *)
(*  t = "pair": two constructed objects compared with == / != / hash.                           *)
(* One clause per sentence of the property; a clause listed in e.skip has already been reported *)
(* for this event and is passed over (the harness re-submits a rejected event with the clause   *)
(* added to skip, so one defect never hides another clause).  A verdict "div+name+name" lists   *)
(* observations beyond the property statement; they are reported as DIVERGENCE, never as a      *)
(* violation, and only when every clause of the property has passed.                            *)
(*                                                                                             *)
(* "spec" fields: d depth; fc = colour descriptions given in the foreground (0, 1 or 2);        *)
(*  st = style ids given (in order, 1..6); bg = background description; exc = exception class   *)
(*  of the constructor ("" = accepted).  When accepted: f, g = stored fg / bg colour            *)
(*  [k, n, r, g, b]; ss = style ids reported; fx, bx, cx, rx = exception class of reading       *)
(*  foreground / background / colors / get_rgb_values(); col = colors; rf, rb = reported RGB    *)
(*  (<<>> = None); fs, bs = reported descriptions as code points; fo, bo = their colour part    *)
(*  read back into a description, fos = style ids in the reported foreground; hs = hash in      *)
(*  16-bit pieces; qx = exception class of rebuilding AttrSpec(foreground, background, d);      *)
(*  qeq, qne = rebuilt == / != original; qf, qg, qss, qfs, qbs, qhs = the same observations on  *)
(*  the rebuilt object; cme = copy_modified() == original.                                      *)
EXTENDS AttrSpecOps, Json, IOUtils, TLC

Traces == JsonDeserialize(IOEnv.TRACE_FILE)
VARIABLES tid, l, ok, why
vars == <<tid, l, ok, why>>

Init == tid \in 1..Len(Traces) /\ l = 0 /\ ok = TRUE /\ why = "-"

Descs(e) == SeqSet(e.fc) \cup {e.bg}
HasRaw(e) == \E x \in Descs(e) : x.k = "raw"
DupSetting(e) == \E i, j \in 1..Len(e.st) : i < j /\ e.st[i] = e.st[j]
Several(e) == Len(e.fc) > 1
Unknown(e) == \E x \in Descs(e) : x.k = "word"
Beyond(e) == \E x \in Descs(e) : ~Expressible(e.d, x)
Expect(e) == IF HasRaw(e) THEN "any" ELSE IF DupSetting(e) \/ Several(e) \/ Beyond(e) THEN "reject" ELSE "accept"
RejectClause(e) == IF DupSetting(e) THEN "rejects_duplicated_setting"
                   ELSE IF Several(e) THEN "rejects_several_colours_in_one_foreground"
                   ELSE IF Unknown(e) THEN "rejects_unknown_colour_name"
                   ELSE "rejects_colour_beyond_declared_depth"

FgDesc(e) == IF Len(e.fc) = 0 THEN D("none", 0, 0, 0) ELSE e.fc[1]
PalOf(dp) == IF dp = 88 THEN 88 ELSE 256
\* which sentence a wrong stored colour breaks
ColourClause(dp, x, c) ==
  IF dp = TRUEC /\ x.k # "rgb6" /\ c.k = "true" /\ ~InPalette256(<<c.r, c.g, c.b>>) THEN "rgb_matches_xterm"
  ELSE IF x.k = "rgb6" /\ dp # TRUEC
       THEN (IF \A v \in {x.a, x.b, x.c} : IsCubeStep(PalOf(dp), v) THEN "exact_preserved" ELSE "nearest_cube")
  ELSE IF IsExact(PalOf(dp), x) THEN "exact_preserved"
  ELSE IF x.k = "rgb3" THEN "nearest_cube"
  ELSE "nearest_gray"

SpecVerdict(e) ==
  LET S(name) == name \notin SeqSet(e.skip)
      exp == Expect(e)
  IN
  IF S("rejects_with_AttrSpecError_only") /\ e.exc \notin {"", "AttrSpecError"} THEN "rejects_with_AttrSpecError_only"
  ELSE IF exp = "reject" /\ e.exc = "" /\ S(RejectClause(e)) THEN RejectClause(e)
  ELSE IF exp = "accept" /\ e.exc = "AttrSpecError" /\ S("valid_specification_accepted") THEN "valid_specification_accepted"
  ELSE IF exp # "accept" \/ e.exc # "" THEN "-"
  ELSE
  LET fd == FgDesc(e)
      fcl == ColourClause(e.d, fd, e.f) \o "/fg"
      bcl == ColourClause(e.d, e.bg, e.g) \o "/bg"
      sem == SemDepth(e.d, e.f, e.g)
      mode == ModeDepth(e.d, e.f, e.g)
      described == e.fx = "" /\ e.bx = ""
      rebuilt == described /\ e.qx = ""
  IN
  IF S(fcl) /\ e.f \notin ColourSet(e.d, fd) THEN fcl
  ELSE IF S(bcl) /\ e.g \notin ColourSet(e.d, e.bg) THEN bcl
  ELSE IF S("settings_preserved") /\ SeqSet(e.ss) # SeqSet(e.st) THEN "settings_preserved"
  ELSE IF S("min_depth") /\ (e.cx # "" \/ e.col \notin {sem, mode}) THEN "min_depth"
  ELSE IF S("rgb_matches_xterm/fg") /\ (e.rx # "" \/ e.rf # ColourRGB(e.d, e.f)) THEN "rgb_matches_xterm/fg"
  ELSE IF S("rgb_matches_xterm/bg") /\ (e.rx # "" \/ e.rb # ColourRGB(e.d, e.g)) THEN "rgb_matches_xterm/bg"
  ELSE IF S("roundtrip_equal/fg") /\ e.fx # "" THEN "roundtrip_equal/fg"
  ELSE IF S("roundtrip_equal/bg") /\ e.bx # "" THEN "roundtrip_equal/bg"
  ELSE IF described /\ S("description_denotes_colour/fg")
          /\ (e.f \notin ColourSet(e.d, e.fo) \/ SeqSet(e.fos) # SeqSet(e.ss) \/ Len(e.fos) # Cardinality(SeqSet(e.ss)))
       THEN "description_denotes_colour/fg"
  ELSE IF described /\ S("description_denotes_colour/bg") /\ e.g \notin ColourSet(e.d, e.bo) THEN "description_denotes_colour/bg"
  ELSE IF described /\ S("roundtrip_equal") /\ (e.qx # "" \/ e.qeq # 1 \/ e.qne # 0) THEN "roundtrip_equal"
  ELSE IF rebuilt /\ S("parse_idempotent")
          /\ (e.qf # e.f \/ e.qg # e.g \/ SeqSet(e.qss) # SeqSet(e.ss) \/ e.qfs # e.fs \/ e.qbs # e.bs) THEN "parse_idempotent"
  ELSE IF rebuilt /\ S("equal_hash") /\ e.qeq = 1 /\ e.qhs # e.hs THEN "equal_hash"
  \* ---- beyond the statement: DIVERGENCE only; every alarm clause has passed, all divergences are named at once
  ELSE LET T(c, name) == IF c THEN "+" \o name ELSE ""
           divs == T(e.cx = "" /\ e.col # sem, "colors_not_smallest_by_colour_kinds")
                   \o T(e.cx = "" /\ e.col # mode, "colors_below_own_mode")
                   \o T(fd.k = "rgb6" /\ e.d \in {88, 256} /\ e.f.k = "high" /\ e.f.n \notin Rgb6Nearest(e.d, fd), "rgb6_not_nearest_cube/fg")
                   \o T(e.bg.k = "rgb6" /\ e.d \in {88, 256} /\ e.g.k = "high" /\ e.g.n \notin Rgb6Nearest(e.d, e.bg), "rgb6_not_nearest_cube/bg")
                   \o T(e.cme # 1 /\ e.col = mode, "copy_modified_not_equal")
       IN IF divs # "" /\ S("div") THEN "div" \o divs ELSE "-"

\* a, b: [f, g, ss, hs] of two accepted specifications of the same depth; eq, ne = (a == b), (a != b) as 0 / 1
PairVerdict(e) ==
  LET S(name) == name \notin SeqSet(e.skip)
      same == e.a.f = e.b.f /\ e.a.g = e.b.g /\ SeqSet(e.a.ss) = SeqSet(e.b.ss)
  IN
  IF S("equal_means_same_colours_and_settings") /\ (e.eq = 1) # same THEN "equal_means_same_colours_and_settings"
  ELSE IF S("equal_means_same_colours_and_settings") /\ e.ne # 1 - e.eq THEN "equal_means_same_colours_and_settings"
  ELSE IF S("equal_hash") /\ e.eq = 1 /\ e.a.hs # e.b.hs THEN "equal_hash"
  ELSE "-"

Verdict(e) == CASE e.t = "spec" -> SpecVerdict(e) [] e.t = "pair" -> PairVerdict(e) [] OTHER -> "no_action"

Step == /\ ok /\ l < Len(Traces[tid].ev) /\ l' = l + 1 /\ tid' = tid
        /\ LET v == Verdict(Traces[tid].ev[l + 1]) IN why' = v /\ ok' = (v = "-")
Spec == Init /\ [][Step]_vars
Report == ok \/ PrintT(<<"REJECT", tid, l, why>>)
===============================================================================
