--------------------------- MODULE InputDecoderOps ---------------------------
(* C05: reference decoder for terminal input, written from urwid's documented behaviour     *)
(* (key table = InputTable, X10 / SGR mouse reports, cursor-position reports, UTF-8          *)
(* assembly, ESC-prefix = meta, control bytes).  Works on byte sequences; `more` says         *)
(* whether further bytes may still arrive before the completion timeout.                      *)
(* An event is [k, name, a, b, c]:                                                           *)
(*   k = "key"   name = documented key name                                                   *)
(*   k = "char"  a = code point of a non-ASCII character (name = "" or "meta ")               *)
(*   k = "mouse" name = e.g. "ctrl mouse press", a = button, b = x, c = y                     *)
(*   k = "cpr"   a = x, b = y           (cursor position report)                              *)
(*   k = "raw"   a = byte               (undecodable byte passed through as "<n>")            *)
EXTENDS InputTable, FiniteSets

Take(s, n) == SubSeq(s, 1, n)
Drop(s, n) == SubSeq(s, n + 1, Len(s))
Ev(k, name, a, b, c) == [k |-> k, name |-> name, a |-> a, b |-> b, c |-> c]
KeyEv(name) == Ev("key", name, 0, 0, 0)
Chr(c) == Ascii[c - 31]

\* result of decoding one item: evs = events, used = bytes consumed, need = more input required,
\* unspec = the documentation does not fix the result (malformed report)
Res(evs, used) == [evs |-> evs, used |-> used, need |-> FALSE, unspec |-> FALSE]
Need == [evs |-> <<>>, used |-> 0, need |-> TRUE, unspec |-> FALSE]
Unspec == [evs |-> <<>>, used |-> 0, need |-> FALSE, unspec |-> TRUE]
NoMatch == [evs |-> <<>>, used |-> 0, need |-> FALSE, unspec |-> FALSE]

IsCont(b) == b >= 128 /\ b < 192
BitAnd7(b) == b % 8      \* helpers for mouse button arithmetic: bit tests on small naturals
Bit(b, v) == (b \div v) % 2 = 1

ModPrefix(b) == (IF Bit(b, 4) THEN "shift " ELSE "") \o (IF Bit(b, 8) THEN "meta " ELSE "") \o (IF Bit(b, 16) THEN "ctrl " ELSE "")

\* ESC [ M cb cx cy
X10Mouse(rest, more) ==
  IF Len(rest) < 5 THEN (IF more THEN Need ELSE NoMatch)
  ELSE LET b == rest[3] - 32
           x == (rest[4] - 33) % 256
           y == (rest[5] - 33) % 256
       IN IF b < 0 THEN Unspec
          ELSE LET action == IF b % 4 = 3 THEN "release" ELSE IF Bit(b, 32) THEN "drag" ELSE "press"
                   button == IF b % 4 = 3 THEN 0 ELSE (IF Bit(b, 64) THEN 3 ELSE 0) + (b % 4) + 1
               IN Res(<<Ev("mouse", ModPrefix(b) \o "mouse " \o action, button, x, y)>>, 6)

IsDigit(c) == c >= 48 /\ c <= 57
RECURSIVE Num(_, _, _)
Num(s, i, acc) == IF i > Len(s) THEN acc ELSE Num(s, i + 1, acc * 10 + (s[i] - 48))
AllDigits(s) == s # <<>> /\ \A i \in 1..Len(s) : IsDigit(s[i])
IndexOfByte(s, from, B) == IF \E i \in from..Len(s) : s[i] \in B THEN CHOOSE i \in from..Len(s) : s[i] \in B /\ \A j \in from..(i - 1) : s[j] \notin B ELSE 0

\* ESC [ < b ; x ; y (M|m)
SgrMouse(rest, more) ==
  LET end == IndexOfByte(rest, 3, {77, 109}) IN
  IF end = 0 THEN (IF more THEN Need ELSE (IF Len(rest) = 2 THEN NoMatch ELSE NoMatch))
  ELSE LET body == SubSeq(rest, 3, end - 1)
           s1 == IndexOfByte(body, 1, {59})
           s2 == IF s1 = 0 THEN 0 ELSE IndexOfByte(body, s1 + 1, {59})
       IN IF s1 = 0 \/ s2 = 0 THEN Unspec
          ELSE LET fb == SubSeq(body, 1, s1 - 1)  fx == SubSeq(body, s1 + 1, s2 - 1)  fy == SubSeq(body, s2 + 1, Len(body))
               IN IF ~(AllDigits(fb) /\ AllDigits(fx) /\ AllDigits(fy)) \/ Len(fb) > 4 \/ Len(fx) > 5 \/ Len(fy) > 5 THEN Unspec
                  ELSE LET b == Num(fb, 1, 0)
                           action == IF rest[end] = 109 THEN "release" ELSE IF Bit(b, 32) THEN "drag" ELSE "press"
                           button == (IF Bit(b, 64) THEN 3 ELSE 0) + (b % 4) + 1
                       IN Res(<<Ev("mouse", ModPrefix(b) \o "mouse " \o action, button, Num(fx, 1, 0) - 1, Num(fy, 1, 0) - 1)>>, end + 1)

\* ESC [ y ; x R   (y, x positive decimal numbers without leading zero)
Cpr(rest, more) ==
  IF rest = <<>> THEN (IF more THEN Need ELSE NoMatch)
  ELSE IF rest[1] # 91 THEN NoMatch
  ELSE LET stop == IndexOfByte(rest, 2, (0..255) \ (48..57))     \* first non-digit after '['
       IN IF stop = 0 THEN (IF more THEN Need ELSE NoMatch)        \* only digits so far
          ELSE IF rest[stop] # 59 \/ stop = 2 \/ rest[2] = 48 THEN NoMatch
          ELSE LET stop2 == IndexOfByte(rest, stop + 1, (0..255) \ (48..57))
               IN IF stop2 = 0 THEN (IF stop + 1 <= Len(rest) /\ rest[stop + 1] = 48 THEN NoMatch       \* a column starting with 0 can never become a report
                                     ELSE IF more THEN Need ELSE NoMatch)
                  ELSE IF rest[stop2] # 82 \/ stop2 = stop + 1 \/ rest[stop + 1] = 48 THEN NoMatch
                  ELSE LET y == Num(SubSeq(rest, 2, stop - 1), 1, 0)  x == Num(SubSeq(rest, stop + 1, stop2 - 1), 1, 0)
                       IN IF Len(rest) > 12 THEN Unspec ELSE Res(<<Ev("cpr", "cursor position", x - 1, y - 1, 0)>>, stop2 + 1)

TableMatch(rest) ==
  IF \E n \in 1..MaxSeqLen : n <= Len(rest) /\ Take(rest, n) \in DOMAIN Table
  THEN LET n == CHOOSE n \in 1..MaxSeqLen : n <= Len(rest) /\ Take(rest, n) \in DOMAIN Table
       IN Res(<<KeyEv(Table[Take(rest, n)])>>, n + 1)
  ELSE NoMatch

Utf8(bytes, more) ==
  LET c == bytes[1]
      need == IF c >= 192 /\ c < 224 THEN 1 ELSE IF c >= 224 /\ c < 240 THEN 2 ELSE IF c >= 240 /\ c < 248 THEN 3 ELSE 0
  IN IF need = 0 THEN Res(<<Ev("raw", "", c, 0, 0)>>, 1)
     ELSE IF \E i \in 2..(need + 1) : i <= Len(bytes) /\ ~IsCont(bytes[i]) /\ \A j \in 2..(i - 1) : j <= Len(bytes)
          THEN Res(<<Ev("raw", "", c, 0, 0)>>, 1)       \* a non-continuation byte where one is required
     ELSE IF Len(bytes) < need + 1 THEN (IF more THEN Need ELSE Res(<<Ev("raw", "", c, 0, 0)>>, 1))
     ELSE LET cp == IF need = 1 THEN (c - 192) * 64 + (bytes[2] - 128)
                    ELSE IF need = 2 THEN (c - 224) * 4096 + (bytes[2] - 128) * 64 + (bytes[3] - 128)
                    ELSE (c - 240) * 262144 + (bytes[2] - 128) * 4096 + (bytes[3] - 128) * 64 + (bytes[4] - 128)
              valid == IF need = 1 THEN cp >= 128
                       ELSE IF need = 2 THEN cp >= 2048 /\ ~(cp >= 55296 /\ cp <= 57343)
                       ELSE cp >= 65536 /\ cp <= 1114111
          IN IF valid THEN Res(<<Ev("char", "", cp, 0, 0)>>, need + 1) ELSE Res(<<Ev("raw", "", c, 0, 0)>>, 1)

\* double-byte ("wide") encodings: a byte >= 128 starts a character; the byte after it belongs to the same character when it is a
\* possible second half: 128..255 in every double-byte encoding, 64..126 after a lead >= 129 (big5, uhc, gbk); reported once, as the pair
Wide(bytes, more) ==
  LET c == bytes[1] IN
  IF Len(bytes) < 2 THEN (IF more THEN Need ELSE Res(<<Ev("char", "", c, 0, 0)>>, 1))
  ELSE LET t == bytes[2] IN
       IF t >= 128 \/ (c >= 129 /\ t >= 64 /\ t <= 126) THEN Res(<<Ev("dchar", "", c, 0, t)>>, 2)
       ELSE Res(<<Ev("char", "", c, 0, 0)>>, 1)

CtrlName(c) ==
  CASE c = 8 -> "backspace" [] c = 9 -> "tab" [] c = 10 -> "enter" [] c = 13 -> "enter" [] c = 127 -> "backspace"
    [] c > 0 /\ c < 27 -> "ctrl " \o Chr(96 + c)
    [] c > 27 /\ c < 32 -> "ctrl " \o Chr(64 + c)
    [] OTHER -> ""

RECURSIVE DecodeOne(_, _, _)
DecodeOne(bytes, more, mode) ==
  LET c == bytes[1] IN
  IF c >= 32 /\ c <= 126 THEN Res(<<KeyEv(Chr(c))>>, 1)
  ELSE IF CtrlName(c) # "" THEN Res(<<KeyEv(CtrlName(c))>>, 1)
  ELSE IF c >= 128 THEN (IF mode = "utf8" THEN Utf8(bytes, more) ELSE IF mode = "wide" THEN Wide(bytes, more) ELSE Res(<<Ev("char", "", c, 0, 0)>>, 1))
  ELSE IF c # 27 THEN Res(<<Ev("raw", "", c, 0, 0)>>, 1)
  ELSE LET rest == Drop(bytes, 1)
           tm == TableMatch(rest)
           special == IF Len(rest) >= 2 /\ Take(rest, 2) = <<91, 77>> THEN X10Mouse(rest, more)
                      ELSE IF Len(rest) >= 2 /\ Take(rest, 2) = <<91, 60>> THEN SgrMouse(rest, more)
                      ELSE NoMatch
       IN IF tm.used > 0 THEN tm
          ELSE IF special.need \/ special.unspec \/ special.used > 0 THEN special
          ELSE IF rest \in TablePrefixes /\ more THEN Need
          ELSE LET cp == Cpr(rest, more) IN
               IF cp.need \/ cp.unspec \/ cp.used > 0 THEN cp
               ELSE IF rest = <<>> THEN (IF more THEN Need ELSE Res(<<KeyEv("esc")>>, 1))
               ELSE LET run == DecodeOne(rest, more, mode) IN
                    IF run.need \/ run.unspec THEN run
                    ELSE LET f == run.evs[1]
                             asEsc == f.k = "mouse" \/ f.k = "cpr" \/ (f.k = "key" /\ (f.name = "esc" \/ f.name \in MetaNames \/ Take(<<f.b>>, 1) = <<1>>))
                                  \/ (f.k \in {"char", "dchar"} /\ f.b = 1)     \* a character that already carries the meta prefix
                         IN IF asEsc THEN Res(<<KeyEv("esc")>> \o run.evs, run.used + 1)
                            ELSE IF f.k = "raw" THEN Unspec
                            ELSE Res(<<[f EXCEPT !.name = "meta " \o @, !.b = 1]>> \o Tail(run.evs), run.used + 1)

\* comparison of events ignores the internal "built by the meta rule" marker kept in field b of key/char events
Proj(e) == <<e.k, e.name, e.a, IF e.k \in {"mouse", "cpr"} THEN e.b ELSE 0, e.c>>
ProjSeq(es) == [i \in 1..Len(es) |-> Proj(es[i])]

\* decode a whole buffer; rest = the unfinished tail when more input is required
RECURSIVE DecodeAll(_, _, _, _)
DecodeAll(bytes, more, mode, acc) ==
  IF bytes = <<>> THEN [evs |-> acc, rest |-> <<>>, unspec |-> FALSE]
  ELSE LET r == DecodeOne(bytes, more, mode) IN
       IF r.unspec THEN [evs |-> acc, rest |-> bytes, unspec |-> TRUE]
       ELSE IF r.need THEN [evs |-> acc, rest |-> bytes, unspec |-> FALSE]
       ELSE DecodeAll(Drop(bytes, r.used), more, mode, acc \o r.evs)
==============================================================================
