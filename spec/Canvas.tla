-------------------------------- MODULE Canvas --------------------------------
(* C02 -- a machine of canvas values over GridOps.  A value is [g grid, cur cursor, pop pop-up  *)
(* coordinates] plus book-keeping (predicted width/height, composite?, alive?, has dependents?). *)
(* Every step applies one canvas operation to earlier values and appends the result; `prog` is   *)
(* the history of operations, so every distinct state is one program: TLC is the program         *)
(* generator (dump / simulate) for the driver in vf/props/c02.py, and checks the grid algebra    *)
(* itself: dimension algebra, no half characters, coordinates inside or dropped, the reference   *)
(* coordinates satisfy the allowed-set predicate, delta law, and the algebraic laws tying the    *)
(* operators together.                                                                           *)
EXTENDS GridOps, TLC

CONSTANTS Depth,        \* operations after the initial leaves
          InitLeaves,   \* number of leaf values every behaviour starts with
          PadRange,     \* pad / trim amounts range over -PadRange..PadRange
          MaxW, MaxH,   \* results larger than this are not generated
          WithGrids,    \* FALSE: track dimensions only (cheap program enumeration)
          Variant       \* "ok", or "nocut": a deliberately wrong trim that emits half characters

VARIABLES vals, prog
vars == <<vals, prog>>

MkOp(n, ids, p, leaf, wrap) == [n |-> n, ids |-> ids, p |-> p, leaf |-> leaf, wrap |-> wrap]

(* ---- leaf library: wide glyphs at every column parity, marks, attribute and charset runs ---- *)
LeafLib ==
  << [rows |-> << << <<1, 1, 0>>, <<4, 2, 0>>, <<2, 0, 0>> >> >>, maxcol |-> 4, cur |-> <<1, 0>>],
     [rows |-> << << <<4, 0, 0>>, <<4, 1, 0>> >>, << <<11, 1, 0>>, <<2, 0, 1>> >> >>, maxcol |-> 4, cur |-> <<>>],
     [rows |-> << << <<1, 0, 0>>, <<4, 1, 0>> >>, << <<4, 2, 0>>, <<2, 1, 1>> >>, << <<3, 2, 0>>, <<1, 0, 0>>, <<2, 0, 0>> >> >>, maxcol |-> 3, cur |-> <<2, 2>>],
     [rows |-> << << <<14, 1, 0>> >> >>, maxcol |-> 2, cur |-> <<>>],
     [rows |-> << << <<2, 2, 1>> >> >>, maxcol |-> 1, cur |-> <<0, 0>>],
     [rows |-> << << <<1, 0, 0>>, <<2, 1, 0>>, <<21, 2, 0>> >>, << <<4, 1, 0>> >> >>, maxcol |-> 3, cur |-> <<>>] >>
TextOp(k) == LET l == LeafLib[k] IN
  MkOp("text", <<>>, <<l.maxcol, IF l.cur = <<>> THEN -1 ELSE l.cur[1], IF l.cur = <<>> THEN -1 ELSE l.cur[2]>>, l.rows, 0)
LeafOps == {TextOp(k) : k \in 1..Len(LeafLib)}
           \cup {MkOp("solid", <<>>, <<2, 2, 2>>, <<>>, 0), MkOp("solid", <<>>, <<11, 3, 1>>, <<>>, 0)}
           \cup {MkOp("blank", <<>>, <<2, 1>>, <<>>, 0)}

Maps == { <<0, 1>>, <<1, 2>>, <<0, 1, 1, 2>>, <<1, 0, 2, 1>>, <<2, 0>> }      \* flattened dictionaries
Pads == (0 - PadRange)..PadRange
Mutators == {"padlr", "padtb", "trim", "trimend", "fill", "setcur", "setpop", "ovl"}

(* ---- which operations are inside their documented domain ------------------------------------ *)
Ids == {i \in 1..Len(vals) : vals[i].live}
\* a mutator acts in place on a composite nobody depends on (wrap = 0) or on a fresh CompositeCanvas(target)
WrapChoices(i) == IF vals[i].comp /\ ~vals[i].used THEN {0, 1} ELSE {1}
WrapIfLeaf(i) == IF vals[i].comp THEN 0 ELSE 1

Targets == {y \in Ids \X {0, 1} : y[2] \in WrapChoices(y[1])}      \* <<value, wrap flag>>
OpsOf(kind) ==
  CASE kind = "wrap" -> {MkOp("wrap", <<i>>, <<>>, <<>>, 0) : i \in Ids}
    [] kind = "padlr" -> UNION {{MkOp("padlr", <<x[1]>>, q, <<>>, x[2]) :
                                   q \in {z \in Pads \X Pads : Max(0, -z[1]) + Max(0, -z[2]) < vals[x[1]].w /\ vals[x[1]].w + z[1] + z[2] <= MaxW}}
                                : x \in Targets}
    [] kind = "padtb" -> UNION {{MkOp("padtb", <<x[1]>>, q, <<>>, x[2]) :
                                   q \in {z \in Pads \X Pads : Max(0, -z[1]) + Max(0, -z[2]) < vals[x[1]].h /\ vals[x[1]].h + z[1] + z[2] <= MaxH}}
                                : x \in Targets}
    [] kind = "trim" -> UNION {{MkOp("trim", <<x[1]>>, q, <<>>, x[2]) :
                                   q \in {z \in (0..(vals[x[1]].h - 1)) \X ({NoCount} \cup 1..MaxH) : z[2] = NoCount \/ z[1] + z[2] <= vals[x[1]].h}}
                                : x \in Targets}
    [] kind = "trimend" -> UNION {{MkOp("trimend", <<x[1]>>, <<n>>, <<>>, x[2]) : n \in 1..(vals[x[1]].h - 1)} : x \in Targets}
    [] kind = "fill" -> {MkOp("fill", <<x[1]>>, m, <<>>, x[2]) : x \in Targets, m \in Maps}
    [] kind = "setcur" -> UNION {{MkOp("setcur", <<x[1]>>, c, <<>>, x[2]) : c \in {<<>>, <<0, 0>>, <<vals[x[1]].w - 1, vals[x[1]].h - 1>>}} : x \in Targets}
    [] kind = "setpop" -> UNION {{MkOp("setpop", <<x[1]>>, c, <<>>, x[2]) : c \in {<<0, vals[x[1]].h, 3, 2, 1>>, <<vals[x[1]].w - 1, 0, 2, 2, 1>>}} : x \in Targets}
    [] kind = "combine" ->
         {MkOp("combine", x, <<>>, <<>>, 0) : x \in {y \in Ids \X Ids : vals[y[1]].w = vals[y[2]].w /\ vals[y[1]].h + vals[y[2]].h <= MaxH}}
         \cup {MkOp("combine", x, <<>>, <<>>, 0) :
                 x \in {y \in Ids \X Ids \X Ids : y[1] # y[2] /\ y[2] # y[3] /\ y[1] # y[3] /\ vals[y[1]].w = vals[y[2]].w /\ vals[y[2]].w = vals[y[3]].w
                                                  /\ vals[y[1]].h + vals[y[2]].h + vals[y[3]].h <= MaxH}}
    [] kind = "join" ->         \* widths >= the canvases' own: padded on the right
         UNION {{MkOp("join", x, <<vals[x[1]].w + e[1], vals[x[2]].w + e[2]>>, <<>>, 0) :
                    e \in {z \in (0..1) \X (0..1) : vals[x[1]].w + vals[x[2]].w + z[1] + z[2] <= MaxW}} : x \in Ids \X Ids}
         \cup {MkOp("join", x, <<vals[x[1]].w, vals[x[2]].w + 1, vals[x[3]].w>>, <<>>, 0) :
                 x \in {y \in Ids \X Ids \X Ids : y[1] # y[2] /\ y[2] # y[3] /\ y[1] # y[3] /\ vals[y[1]].w + vals[y[2]].w + vals[y[3]].w + 1 <= MaxW}}
    [] kind = "overlay" ->      \* ids = <<top, bottom>>; the top canvas must be a CompositeCanvas (wrapped when it is a leaf)
         UNION {{MkOp("overlay", x, q, <<>>, WrapIfLeaf(x[1])) : q \in (0..(vals[x[2]].w - vals[x[1]].w)) \X (0..(vals[x[2]].h - vals[x[1]].h))}
                : x \in {y \in Ids \X Ids : y[1] # y[2] /\ vals[y[1]].w <= vals[y[2]].w /\ vals[y[1]].h <= vals[y[2]].h}}
    [] kind = "ovl" ->          \* ids = <<receiver, top>>: receiver.overlay(top, l, t) in place
         UNION {{MkOp("ovl", x, q, <<>>, WrapIfLeaf(x[2])) : q \in (0..(vals[x[1]].w - vals[x[2]].w)) \X (0..(vals[x[1]].h - vals[x[2]].h))}
                : x \in {y \in Ids \X Ids : y[1] # y[2] /\ vals[y[1]].comp /\ ~vals[y[1]].used
                                              /\ vals[y[2]].w <= vals[y[1]].w /\ vals[y[2]].h <= vals[y[1]].h}}
    [] kind = "delta" ->        \* ids = <<new, old>>
         {MkOp("delta", x, <<>>, <<>>, 0) : x \in {y \in Ids \X Ids : vals[y[1]].w = vals[y[2]].w /\ vals[y[1]].h = vals[y[2]].h}}
Kinds == {"wrap", "padlr", "padtb", "trim", "trimend", "fill", "setcur", "setpop", "combine", "join", "overlay", "ovl", "delta"}
Ops == UNION {OpsOf(k) : k \in Kinds}

(* ---- applying an operation ------------------------------------------------------------------- *)
\* the deliberately wrong trim: a cut double-width glyph keeps its surviving half
NoCutLR(g, l, r) == [y \in 1..H(g) |-> BlankRow(Max(0, l)) \o SubSeq(g[y], 1 + Max(0, -l), W(g) - Max(0, -r)) \o BlankRow(Max(0, r))]

\* fill_attr_apply composes a new mapping over an existing one; the composition as the code builds it
ComposeAsCoded(m, m2) ==
  LET old == Pairs(m)   new == Pairs(m2)
      a == [i \in 1..Len(old) |-> <<old[i][1], Lookup(new, old[i][2])>>]
      rest == SelectSeq(new, LAMBDA q : \A i \in 1..Len(old) : old[i][1] # q[1])
  IN a \o rest
ASSUME \A m \in Maps, m2 \in Maps : \A a \in 0..2 : Lookup(ComposeAsCoded(m, m2), a) = Lookup(Pairs(m2), Lookup(Pairs(m), a))
ASSUME \E m \in Maps, m2 \in Maps : \E a \in 0..2 : Lookup(ComposeAsCoded(m, m2), a) # Lookup(Pairs(m), Lookup(Pairs(m2), a))   \* order matters

Law(op, vs, r) ==
  LET p == op.p   g == vs[1].g IN
  CASE op.n \in {"overlay", "ovl"} ->
         LET top == IF op.n = "overlay" THEN vs[1].g ELSE vs[2].g
             bot == IF op.n = "overlay" THEN vs[2].g ELSE vs[1].g
         IN r.g = OverlayByParts(bot, top, p[1], p[2])
    [] op.n = "combine" ->      \* cutting the stack back at operand k gives operand k
         LET dy == Offsets([i \in 1..Len(vs) |-> H(vs[i].g)], 0) IN
         \A k \in 1..Len(vs) : Trim(r.g, dy[k], H(vs[k].g)) = vs[k].g
    [] op.n = "join" ->         \* cutting the join back to operand k's columns gives operand k, padded
         LET dx == Offsets(p, 0) IN
         \A k \in 1..Len(vs) : Rows(PadTrimLR(r.g, -dx[k], -(W(r.g) - dx[k] - p[k])), 1, H(vs[k].g)) = PadTrimLR(vs[k].g, 0, p[k] - W(vs[k].g))
    [] op.n = "padlr" -> (p[1] >= 0 /\ p[2] >= 0) => PadTrimLR(r.g, -p[1], -p[2]) = g
    [] op.n = "padtb" -> (p[1] >= 0 /\ p[2] >= 0) => PadTrimTB(r.g, -p[1], -p[2]) = g
    [] op.n = "trim" -> r.g = PadTrimTB(g, -p[1], IF p[2] = NoCount THEN 0 ELSE -(H(g) - p[1] - p[2]))
    [] op.n = "trimend" -> r.g = PadTrimTB(g, 0, -p[1])
    [] op.n = "fill" -> \A m2 \in Maps : MapAttr(r.g, Pairs(m2)) = MapAttr(g, ComposeAsCoded(p, m2))
    [] OTHER -> TRUE

ValueOf(op, vs) ==
  LET d == OpDims(op, [k \in 1..Len(vs) |-> <<vs[k].w, vs[k].h>>])
      r == OpResult(op, vs)
      g == IF Variant = "nocut" /\ op.n = "padlr" THEN NoCutLR(vs[1].g, op.p[1], op.p[2]) ELSE r.g
  IN [g |-> IF WithGrids THEN g ELSE <<>>,
      cur |-> IF WithGrids THEN r.cur ELSE <<>>,
      pop |-> IF WithGrids THEN r.pop ELSE <<>>,
      w |-> d[1], h |-> d[2],
      comp |-> op.n \notin {"text", "solid"},
      live |-> op.n # "delta",
      used |-> FALSE,
      refok |-> WithGrids => (r.cur \in r.curok /\ r.pop \in r.popok),
      law |-> WithGrids => Law(op, vs, r),
      dom |-> InDomain(op, [k \in 1..Len(vs) |-> <<vs[k].w, vs[k].h>>])]

Do(op) ==
  LET vs == [k \in 1..Len(op.ids) |-> vals[op.ids[k]]]
      inplace == op.n = "ovl" \/ (op.n \in Mutators /\ op.wrap = 0)     \* for ovl the wrap flag concerns the top canvas
      touched == {op.ids[k] : k \in 1..Len(op.ids)}
  IN /\ vals' = Append([k \in 1..Len(vals) |->
                          IF k \notin touched \/ op.n = "delta" THEN vals[k]
                          ELSE IF inplace /\ k = op.ids[1] THEN [vals[k] EXCEPT !.live = FALSE]
                          ELSE [vals[k] EXCEPT !.used = TRUE]], ValueOf(op, vs))
     /\ prog' = Append(prog, op)

Init == \E s \in [1..InitLeaves -> LeafOps] :
          /\ prog = s
          /\ vals = [k \in 1..InitLeaves |-> ValueOf(s[k], <<>>)]

Next == /\ Len(prog) < InitLeaves + Depth
        /\ \E op \in Ops : Do(op)
Spec == Init /\ [][Next]_vars

(* ---- behaviour export: one random operation per step, random leaves --------------------------- *)
RandCluster(s) ==
  LET g == RandomElement({1, 2, 3, 4, 11, 14, 21, 4 + 0 * s})
      a == RandomElement(0..2)
      cs == IF g \in {1, 2, 3} THEN RandomElement({0, 0 * s, 1}) ELSE 0
  IN <<g, a, cs>>
RECURSIVE Fit(_, _)
Fit(cl, w) == IF cl = <<>> \/ RowWidth(<<Head(cl)>>) > w THEN <<>> ELSE <<Head(cl)>> \o Fit(Tail(cl), w - RowWidth(<<Head(cl)>>))
RandRow(s) == Fit([i \in 1..RandomElement(1..4) |-> RandCluster(s + i)], 4)
RandLeaf(s) ==
  LET rows == [y \in 1..RandomElement(1..3) |-> RandRow(s + y)]
      wmax == CHOOSE w \in 1..4 : (\A y \in 1..Len(rows) : RowWidth(rows[y]) <= w) /\ (\E y \in 1..Len(rows) : RowWidth(rows[y]) = w)
      maxcol == wmax + RandomElement({0, 0 * s, 1})
      cx == RandomElement((-1)..(maxcol - 1))
      cy == RandomElement(0..(Len(rows) - 1))
  IN MkOp("text", <<>>, <<maxcol, IF cx < 0 THEN -1 ELSE cx, IF cx < 0 THEN -1 ELSE cy>>, rows, 0)
SimLeaf(s) == IF RandomElement(1..4) = 1 THEN RandomElement(LeafOps) ELSE RandLeaf(s)

SimNext ==
  /\ Len(prog) < InitLeaves + Depth
  /\ LET s == Len(prog)
         kinds == {k \in Kinds : OpsOf(k) # {}}
         pushleaf == kinds = {} \/ Cardinality(Ids) < 2 \/ RandomElement(1..5) = 1
     IN \E op \in {IF pushleaf THEN SimLeaf(s) ELSE RandomElement(OpsOf(RandomElement(kinds)))} : Do(op)
SimSpec == Init /\ [][SimNext]_vars

(* ---- what TLC checks on the algebra ------------------------------------------------------------ *)
Live == {i \in 1..Len(vals) : prog[i].n # "delta"}
DimensionAlgebra == WithGrids => \A i \in Live : Rect(vals[i].g) /\ W(vals[i].g) = vals[i].w /\ H(vals[i].g) = vals[i].h /\ vals[i].w >= 1 /\ vals[i].h >= 1
NoHalfGlyph == WithGrids => \A i \in Live : WellFormed(vals[i].g)
CoordsInsideOrDropped == WithGrids => \A i \in Live : /\ (vals[i].cur = <<>> \/ Inside(vals[i].cur, vals[i].w, vals[i].h) \/ prog[i].n = "setcur")
                                                     /\ (vals[i].pop = <<>> \/ Inside(vals[i].pop, vals[i].w, vals[i].h) \/ prog[i].n \in {"setpop", "wrap", "fill", "setcur"})
ReferenceAllowed == \A i \in 1..Len(vals) : vals[i].refok
LawsHold == \A i \in 1..Len(vals) : vals[i].law
GeneratedInDomain == \A i \in 1..Len(vals) : vals[i].dom
DeltaLaw == WithGrids => \A i \in Live, j \in Live :
              (vals[i].w = vals[j].w /\ vals[i].h = vals[j].h) =>
                 /\ ApplyDelta(vals[j].g, Delta(vals[i].g, vals[j].g)) = vals[i].g
                 /\ (i = j => \A y \in 1..vals[i].h : \A x \in 1..vals[i].w : Delta(vals[i].g, vals[j].g)[y][x] = Keep)
===============================================================================
