---------------------------- MODULE TextLayoutOps ----------------------------
(* C03 - the contract of text layout, written from the property statement.                       *)
(*                                                                                                *)
(* A text is a sequence of character class ids (TLC cannot index strings); CW gives the display   *)
(* width of each id.  A layout is a sequence of lines, a line a sequence of segment records       *)
(*    [k |-> "t", c, s, e]   the characters s..e-1 (0-based, end exclusive) of the text           *)
(*    [k |-> "p", c]         alignment shift of c columns (first segment only; negative = the     *)
(*                           line starts c columns left of the window, clip mode)                 *)
(*    [k |-> "h", c, s]      c blank columns (c = 0: hint for a character that was left out)      *)
(*    [k |-> "i", c, s, ins] inserted text ins (the ellipsis mark)                                *)
(* All widths used below are the TRUE widths of the characters a segment covers, never the column *)
(* count c a text segment claims.  One predicate per sentence of the property; where the property *)
(* leaves freedom the predicate is a relation over the implementation's layout; RefLayout is a    *)
(* plain greedy layout used only to show that the relation is satisfiable (TextLayout.tla).       *)
EXTENDS Integers, Sequences, FiniteSets

\* id:  1 a   2 b   3 space  4 newline  5 wide  6 zero-width  7 ellipsis  8 '.'  9 e-acute
\*     10 wide  11 wide (4-byte in utf8)  12 zero-width  13 ellipsis as a double-byte (two column) character
\*     14 15 wide (double-byte encodings: further lead / second byte ranges)
\*     16 zero-width joiner  17 variation selector 16  18 narrow symbol  19 20 regional indicators (wide)
\* A character's width is its own (one character at a time): a joiner, a variation selector or a pair of
\* regional indicators does not change what its neighbours occupy.
CW == <<1, 1, 1, 0, 2, 0, 1, 1, 1, 2, 2, 0, 2, 2, 2, 0, 0, 1, 2, 2>>
NCls == Len(CW)
SP == 3
NL == 4
IsSp(c) == c = SP
IsNl(c) == c = NL
IsWide(c) == CW[c] = 2
IsZero(c) == CW[c] = 0 /\ c # NL
Marks == {<<7>>, <<13>>, <<8>>, <<8, 8>>, <<8, 8, 8>>}       \* what counts as an ellipsis mark

TLMax(S) == CHOOSE x \in S : \A y \in S : y <= x
TLMin(S) == CHOOSE x \in S : \A y \in S : x <= y

RECURSIVE SumW(_, _, _)
SumW(q, a, b) == IF a > b THEN 0 ELSE CW[q[a]] + SumW(q, a + 1, b)     \* 1-based, inclusive
SeqW(q) == SumW(q, 1, Len(q))
TW(t, s, e) == SumW(t, s + 1, e)                                        \* 0-based, end exclusive
RECURSIVE Rep(_, _)
Rep(x, n) == IF n <= 0 THEN <<>> ELSE <<x>> \o Rep(x, n - 1)

KnownIds(q) == \A i \in 1..Len(q) : q[i] \in 1..NCls

\* source lines ("paragraphs"): maximal newline-free stretches, as <<start, end>>
RECURSIVE ParasFrom(_, _)
ParasFrom(t, s) ==
  LET nls == {i \in s..(Len(t) - 1) : IsNl(t[i + 1])}
  IN IF nls = {} THEN << <<s, Len(t)>> >> ELSE << <<s, TLMin(nls)>> >> \o ParasFrom(t, TLMin(nls) + 1)
Paras(t) == ParasFrom(t, 0)

HasWide(t) == \E i \in 1..Len(t) : IsWide(t[i])
\* "Text that cannot be displayed at all (a double-width character in a one-column space)"
Undisplayable(t, w) == w = 1 /\ HasWide(t)
EmptyLayout == << <<>> >>

-----------------------------------------------------------------------------
(* structure                                                                                     *)
SegShapeOK(t, g) ==
  /\ g.k \in {"t", "p", "h", "i"}
  /\ g.k = "h" => g.c >= 0 /\ 0 <= g.s /\ g.s <= Len(t)
  /\ g.k = "i" => KnownIds(g.ins) /\ 0 <= g.s /\ g.s <= Len(t)
ShapeOK(t, lay) ==
  /\ Len(lay) >= 1
  /\ \A k \in 1..Len(lay) : \A j \in 1..Len(lay[k]) : SegShapeOK(t, lay[k][j]) /\ (lay[k][j].k = "p" => j = 1)

IsT(g) == g.k = "t"
LineTs(line) == SelectSeq(line, IsT)
IsI(g) == g.k = "i"
LineIs(line) == SelectSeq(line, IsI)
Pad(line) == IF Len(line) >= 1 /\ line[1].k = "p" THEN line[1].c ELSE 0
SegUsed(t, g) == CASE g.k = "t" -> TW(t, g.s, g.e) [] g.k = "h" -> g.c [] g.k = "i" -> SeqW(g.ins) [] OTHER -> 0
RECURSIVE UsedFrom(_, _, _)
UsedFrom(t, line, j) == IF j > Len(line) THEN 0 ELSE SegUsed(t, line[j]) + UsedFrom(t, line, j + 1)
Used(t, line) == UsedFrom(t, line, 1)          \* columns of the line without its alignment shift

TPos(lay) == {p \in (1..Len(lay)) \X (1..TLMax({0} \cup {Len(lay[k]) : k \in 1..Len(lay)})) :
                 p[2] <= Len(lay[p[1]]) /\ lay[p[1]][p[2]].k = "t"}

-----------------------------------------------------------------------------
(* 1. "the laid-out lines present the characters of the text in their original order with none   *)
(*     shown twice"                                                                               *)
OrderOnce(t, lay) ==
  LET P == TPos(lay)
      G(p) == lay[p[1]][p[2]]
      Before(a, b) == a[1] < b[1] \/ (a[1] = b[1] /\ a[2] < b[2])
  IN /\ \A p \in P : 0 <= G(p).s /\ G(p).s <= G(p).e /\ G(p).e <= Len(t)
     /\ \A a \in P : \A b \in P : Before(a, b) => G(a).e <= G(b).s

\* line (1-based) on which character i (0-based) is shown, 0 when it is not shown
LineOfFn(t, lay) ==
  [i \in 0..(Len(t) - 1) |->
     LET ks == {k \in 1..Len(lay) : \E j \in 1..Len(lay[k]) : lay[k][j].k = "t" /\ lay[k][j].s <= i /\ i < lay[k][j].e}
     IN IF ks = {} THEN 0 ELSE TLMin(ks)]

-----------------------------------------------------------------------------
(* 2. "the only characters not shown are newlines, the single space consumed at each wrap point,  *)
(*     lines made solely of zero-width characters and, in clip and ellipsis modes, the part of a  *)
(*     line that lies beyond the width (replaced by an ellipsis mark in ellipsis mode)"           *)
(*                                                                                                *)
(* Wrapping modes.  Between two consecutive shown characters p (on line kb) and q (on line ka)     *)
(* everything left out must be a newline, a space or a zero-width character; every newline and    *)
(* every consumed space needs a line boundary of its own (one space per wrap point), and a run of *)
(* zero-width characters that touches a shown character needs one more boundary on that side      *)
(* (otherwise it would not be a line of its own).                                                 *)
GapOK(t, lay, lo, p, q) ==
  LET n == Len(t)
      idx == (p + 1)..(q - 1)
      kb == IF p < 0 THEN 1 ELSE lo[p]
      ka == IF q >= n THEN Len(lay) ELSE lo[q]
      sn == Cardinality({i \in idx : IsSp(t[i + 1]) \/ IsNl(t[i + 1])})
      jl == IF p >= 0 /\ IsZero(t[p + 2]) THEN 1 ELSE 0
      jr == IF q < n /\ IsZero(t[q]) THEN 1 ELSE 0
  IN /\ \A i \in idx : IsSp(t[i + 1]) \/ IsNl(t[i + 1]) \/ IsZero(t[i + 1])
     /\ sn + jl + jr <= ka - kb

OmittedWrapOK(t, lay) ==
  LET n == Len(t)
      lo == LineOfFn(t, lay)
      sh == {i \in 0..(n - 1) : lo[i] # 0}
      Nxt(p) == LET S == {j \in sh : j > p} IN IF S = {} THEN n ELSE TLMin(S)
  IN \A p \in {-1} \cup sh : Nxt(p) > p + 1 => GapOK(t, lay, lo, p, Nxt(p))

(* Trimming modes: one laid-out line per source line; it shows the source line from its start;    *)
(* what is left out at the end really lies beyond the width (the next character would not fit     *)
(* together with the mark), only ellipsis mode leaves anything out of the layout (clip cuts when  *)
(* the line is displayed, see RowShows), an ellipsis mark stands after the shown part exactly     *)
(* when something was cut, and an overflowing line IS cut when there is room for a character and  *)
(* a mark (w > mm, mm = narrowest mark of the encoding).  A source line made solely of zero-width *)
(* characters may be left out altogether.                                                         *)
TrimLineOK(t, w, wrap, mm, s0, e0, line) ==
  LET ts == LineTs(line)
      is == LineIs(line)
      e == IF Len(ts) = 0 THEN s0 ELSE ts[1].e
      pw == TW(t, s0, e0)
  IN /\ Len(ts) <= 1 /\ Len(is) <= 1
     /\ Len(ts) = 1 => ts[1].s = s0 /\ ts[1].e <= e0
     /\ \A j \in 1..Len(is) : is[j].ins \in Marks
     /\ \A a \in 1..Len(line) : \A b \in 1..Len(line) : (line[a].k = "i" /\ line[b].k = "t") => b < a
     /\ IF e = e0 THEN Len(is) = 0
        ELSE IF pw = 0 THEN Len(is) = 0 /\ e = s0
        ELSE /\ wrap = "ellipsis" /\ Len(is) = 1
             /\ TW(t, s0, e) + SeqW(is[1].ins) + CW[t[e + 1]] > w
     /\ (wrap = "ellipsis" /\ w > mm /\ pw > w) => e < e0

OmittedTrimOK(t, w, wrap, mm, lay) ==
  LET ps == Paras(t)
  IN /\ Len(lay) = Len(ps)
     /\ \A k \in 1..Len(ps) : TrimLineOK(t, w, wrap, mm, ps[k][1], ps[k][2], lay[k])

OmittedOnlyAllowed(t, w, wrap, mm, lay) ==
  IF wrap \in {"any", "space"} THEN OmittedWrapOK(t, lay) ELSE OmittedTrimOK(t, w, wrap, mm, lay)

-----------------------------------------------------------------------------
(* 3. "Every displayed line fits in the width" - on the layout for the wrapping modes and for a    *)
(*    line that carries an ellipsis mark; on the rendered rows for all modes (FitsRows).           *)
HasMark(line) == \E j \in 1..Len(line) : line[j].k = "i"
FitsLayout(t, w, wrap, lay) ==
  \A k \in 1..Len(lay) :
     (wrap \in {"any", "space"} \/ HasMark(lay[k])) => Pad(lay[k]) >= 0 /\ Pad(lay[k]) + Used(t, lay[k]) <= w
FitsRows(w, rend) == \A k \in 1..Len(rend) : SeqW(rend[k]) <= w

-----------------------------------------------------------------------------
(* line boundaries.  ContentEnd(k) = end of the text shown on lines 1..k; the character there      *)
(* (after zero-width characters that were left out) is "the next character" of the boundary after *)
(* line k; the boundary is a wrap when that character exists and is not a newline.                *)
ContentEnd(lay, k) ==
  LET E == UNION {{lay[m][j].e : j \in {x \in 1..Len(lay[m]) : lay[m][x].k = "t"}} : m \in 1..k}
  IN IF E = {} THEN 0 ELSE TLMax(E)
RECURSIVE SkipLeftOut(_, _, _)
SkipLeftOut(t, lo, c) == IF c < Len(t) /\ IsZero(t[c + 1]) /\ lo[c] = 0 THEN SkipLeftOut(t, lo, c + 1) ELSE c
IsWrap(t, c) == c < Len(t) /\ ~IsNl(t[c + 1])

(* 4. "'any' wrapping fills each line as far as the next character allows"                         *)
AnyIsGreedy(t, w, lay) ==
  LET lo == LineOfFn(t, lay)
  IN \A k \in 1..(Len(lay) - 1) :
       LET c == SkipLeftOut(t, lo, ContentEnd(lay, k))
       IN IsWrap(t, c) => Used(t, lay[k]) + CW[t[c + 1]] > w

(* 5. "'space' wrapping breaks only at spaces whenever every word fits".  A break next to a        *)
(*    displayed or consumed space counts; a double-width (CJK) character is a word of its own, so  *)
(*    a break before or after one is a break between words.                                       *)
WordChar(c) == ~IsSp(c) /\ ~IsNl(c) /\ ~IsWide(c)
RECURSIVE WordsFitFrom(_, _, _, _)
WordsFitFrom(t, w, i, acc) ==          \* acc = width of the word that is being read
  IF i > Len(t) THEN TRUE
  ELSE IF WordChar(t[i]) THEN acc + CW[t[i]] <= w /\ WordsFitFrom(t, w, i + 1, acc + CW[t[i]])
  ELSE WordsFitFrom(t, w, i + 1, 0)
EveryWordFits(t, w) == (HasWide(t) => w >= 2) /\ WordsFitFrom(t, w, 1, 0)
RECURSIVE PrevBase(_, _)
PrevBase(t, c) == IF c <= 0 THEN 0 ELSE IF CW[t[c]] > 0 \/ IsNl(t[c]) THEN c ELSE PrevBase(t, c - 1)   \* 1-based index, 0 = none
BreakAtSpace(t, c) ==
  LET nx == t[c + 1]
      pb == PrevBase(t, c)
  IN IsSp(nx) \/ IsWide(nx) \/ (pb > 0 /\ (IsSp(t[pb]) \/ IsWide(t[pb])))
SpaceBreaksAtSpaces(t, w, lay) ==
  EveryWordFits(t, w) =>
    LET lo == LineOfFn(t, lay)
    IN \A k \in 1..(Len(lay) - 1) :
         LET c == SkipLeftOut(t, lo, ContentEnd(lay, k)) IN IsWrap(t, c) => BreakAtSpace(t, c)

-----------------------------------------------------------------------------
(* 6. "left/center/right alignment pads by exactly 0, half (rounded up) or all of the spare        *)
(*    columns".  When a clipped line is wider than the width there are no spare columns; then the *)
(*    shift only has to keep the window inside the line.                                          *)
PadFor(align, spare) == CASE align = "left" -> 0 [] align = "center" -> (spare + 1) \div 2 [] OTHER -> spare
AlignPad(t, w, align, lay) ==
  \A k \in 1..Len(lay) :
    LET spare == w - Used(t, lay[k])
        p == Pad(lay[k])
    IN IF spare >= 0 THEN p = PadFor(align, spare)
       ELSE IF align = "left" THEN p = 0 ELSE spare <= p /\ p <= 0

-----------------------------------------------------------------------------
(* Display of a line: the segments in order, the window of w columns starting at column off of    *)
(* that stream (off > 0 for a negative shift), a double-width character cut by a window edge      *)
(* becomes one blank, the row is filled with blanks up to w.  A zero-width character goes with    *)
(* the character before it: it must be shown when that character is wholly shown and it is not at *)
(* the right edge, must not be shown outside the window, and is free otherwise.                   *)
SegItems(t, g) == CASE g.k = "t" -> SubSeq(t, g.s + 1, g.e) [] g.k = "i" -> g.ins [] OTHER -> Rep(SP, g.c)
RECURSIVE ItemsFrom(_, _, _)
ItemsFrom(t, line, j) == IF j > Len(line) THEN <<>> ELSE SegItems(t, line[j]) \o ItemsFrom(t, line, j + 1)
LineItems(t, w, line) == ItemsFrom(t, line, 1) \o Rep(SP, w)
WinOff(line) == IF Pad(line) < 0 THEN 0 - Pad(line) ELSE 0

\* status of item k given the column col where it starts and the status bst of the last solid item before it ("none")
Solid(a, b, off, w) == IF a >= off /\ b <= off + w THEN "in" ELSE IF b <= off \/ a >= off + w THEN "out" ELSE "cut"
Status(c, col, bst, off, w) ==
  IF CW[c] > 0 THEN Solid(col, col + CW[c], off, w)
  ELSE IF col < off \/ col > off + w THEN "out"
  ELSE IF bst = "in" /\ col < off + w THEN "in"
  ELSE "free"

RECURSIVE MatchFrom(_, _, _, _, _, _, _, _)
MatchFrom(row, it, off, w, r, k, col, bst) ==
  IF k > Len(it) THEN r = Len(row) + 1
  ELSE LET c == it[k]
           st == Status(c, col, bst, off, w)
           col2 == col + CW[c]
           bst2 == IF CW[c] > 0 THEN st ELSE bst
           Take(x) == r <= Len(row) /\ row[r] = x /\ MatchFrom(row, it, off, w, r + 1, k + 1, col2, bst2)
           Skip == MatchFrom(row, it, off, w, r, k + 1, col2, bst2)
       IN CASE st = "out" -> Skip
            [] st = "in"  -> Take(c)
            [] st = "cut" -> Take(SP)
            [] OTHER -> Take(c) \/ Skip

RowShows(t, w, line, row) == MatchFrom(row, LineItems(t, w, line), WinOff(line), w, 1, 1, 0, "none")
RenderShowsLayout(t, w, lay, rend) ==
  Len(rend) = Len(lay) /\ \A k \in 1..Len(lay) : RowShows(t, w, lay[k], rend[k])

(* 7. "the row count reported for a width equals the number of lines rendered at that width"       *)
RowsEqualLines(rows, packrows, rend) == rows = Len(rend) /\ packrows = Len(rend)

(* 8. "Text that cannot be displayed at all (...) produces an empty line rather than an error":    *)
(*    the one-empty-line layout is acceptable for such a text and for no other.                   *)
UndisplayableIsEmptyLine(t, w, lay) == lay = EmptyLayout => Undisplayable(t, w)

(* 9. The Text widget: "for every ... wrap mode and alignment" on a widget that lives - the modes    *)
(*    and the text in force are those set last, whichever mutator set them; every answer (rows,    *)
(*    pack, render) is judged against that state, whatever was rendered and is still referenced.   *)
(*    s = [align, wrap, text]; op names the mutator of the step, a / wr / t its arguments.          *)
WidgetApply(s, op, a, wr, t) ==
  CASE op = "layout" -> [s EXCEPT !.align = a, !.wrap = wr]        \* Text.set_layout(align, wrap)
    [] op = "align"  -> [s EXCEPT !.align = a]                     \* Text.set_align_mode / .align
    [] op = "wrap"   -> [s EXCEPT !.wrap = wr]                     \* Text.set_wrap_mode / .wrap
    [] op = "text"   -> [s EXCEPT !.text = t]                      \* Text.set_text
    [] OTHER         -> s                                          \* queries only
ModesReported(s, got) == got = << s.align, s.wrap >>

\* the contract on the layout structure alone
ValidLayout(t, w, wrap, align, mm, lay) ==
  IF lay = EmptyLayout THEN Undisplayable(t, w)
  ELSE /\ ShapeOK(t, lay)
       /\ OrderOnce(t, lay)
       /\ OmittedOnlyAllowed(t, w, wrap, mm, lay)
       /\ FitsLayout(t, w, wrap, lay)
       /\ wrap = "any" => AnyIsGreedy(t, w, lay)
       /\ wrap = "space" => SpaceBreaksAtSpaces(t, w, lay)
       /\ AlignPad(t, w, align, lay)

-----------------------------------------------------------------------------
(* RefLayout: a plain greedy layout (no "unwrap previous space" refinement); used only to show     *)
(* that ValidLayout is satisfiable for every input and as the base of the wrong variants.         *)
TSeg(t, s, e) == [k |-> "t", c |-> TW(t, s, e), s |-> s, e |-> e, ins |-> <<>>]
PSeg(c) == [k |-> "p", c |-> c, s |-> 0, e |-> 0, ins |-> <<>>]
HSeg(c, s) == [k |-> "h", c |-> c, s |-> s, e |-> s, ins |-> <<>>]
ISeg(s, ins) == [k |-> "i", c |-> SeqW(ins), s |-> s, e |-> s, ins |-> ins]
OptT(t, s, e) == IF e > s THEN << TSeg(t, s, e) >> ELSE <<>>

RECURSIVE TakeFit(_, _, _, _)
TakeFit(t, q, pe, room) == IF q < pe /\ CW[t[q + 1]] <= room THEN TakeFit(t, q + 1, pe, room - CW[t[q + 1]]) ELSE q

\* last position j in i..q-1 such that the line may break there: t[j+1] a space (consumed) or wide (break after it)
BackBreak(t, i, q) ==
  LET S == {j \in i..(q - 1) : IsSp(t[j + 1]) \/ IsWide(t[j + 1])} IN IF S = {} THEN -1 ELSE TLMax(S)

RECURSIVE RefWrapPara(_, _, _, _, _)
RefWrapPara(t, w, wrap, i, pe) ==
  IF TW(t, i, pe) = 0 THEN << << HSeg(0, pe) >> >>
  ELSE LET q == TakeFit(t, i, pe, w)
       IN IF q = pe THEN << << TSeg(t, i, pe), HSeg(0, pe) >> >>
          ELSE IF wrap = "any" THEN << << TSeg(t, i, q) >> >> \o RefWrapPara(t, w, wrap, q, pe)
          ELSE IF IsSp(t[q + 1]) THEN << OptT(t, i, q) \o << HSeg(0, q) >> >> \o RefWrapPara(t, w, wrap, q + 1, pe)
          ELSE IF IsWide(t[q + 1]) THEN << << TSeg(t, i, q) >> >> \o RefWrapPara(t, w, wrap, q, pe)
          ELSE LET j == BackBreak(t, i, q)
               IN IF j < 0 THEN << << TSeg(t, i, q) >> >> \o RefWrapPara(t, w, wrap, q, pe)
                  ELSE IF IsSp(t[j + 1]) THEN << OptT(t, i, j) \o << HSeg(0, j) >> >> \o RefWrapPara(t, w, wrap, j + 1, pe)
                  ELSE << << TSeg(t, i, j + 1) >> >> \o RefWrapPara(t, w, wrap, j + 1, pe)

RefTrimPara(t, w, wrap, s0, e0) ==
  IF TW(t, s0, e0) = 0 THEN << HSeg(0, e0) >>
  ELSE IF wrap = "ellipsis" /\ w >= 2 /\ TW(t, s0, e0) > w
       THEN LET q == TakeFit(t, s0, e0, w - 1) IN OptT(t, s0, q) \o << ISeg(q, <<7>>) >>
       ELSE << TSeg(t, s0, e0), HSeg(0, e0) >>

RECURSIVE RefLinesFrom(_, _, _, _, _)
RefLinesFrom(t, w, wrap, ps, k) ==
  IF k > Len(ps) THEN <<>>
  ELSE (IF wrap \in {"any", "space"} THEN RefWrapPara(t, w, wrap, ps[k][1], ps[k][2])
        ELSE << RefTrimPara(t, w, wrap, ps[k][1], ps[k][2]) >>) \o RefLinesFrom(t, w, wrap, ps, k + 1)

AlignLine(t, w, align, line) ==
  LET p == PadFor(align, w - Used(t, line)) IN IF p = 0 THEN line ELSE << PSeg(p) >> \o line

RefLayout(t, w, wrap, align) ==
  IF wrap \in {"any", "space"} /\ Undisplayable(t, w) THEN EmptyLayout
  ELSE LET ls == RefLinesFrom(t, w, wrap, Paras(t), 1) IN [k \in 1..Len(ls) |-> AlignLine(t, w, align, ls[k])]

\* reference display of a line (a free zero-width character is shown when it lies strictly inside the window)
RECURSIVE RefRowFrom(_, _, _, _, _, _)
RefRowFrom(it, off, w, k, col, bst) ==
  IF k > Len(it) THEN <<>>
  ELSE LET c == it[k]
           st == Status(c, col, bst, off, w)
           cell == IF st = "in" THEN << c >> ELSE IF st = "cut" THEN << SP >>
                   ELSE IF st = "free" /\ col > off /\ col < off + w THEN << c >> ELSE <<>>
       IN cell \o RefRowFrom(it, off, w, k + 1, col + CW[c], IF CW[c] > 0 THEN st ELSE bst)
RefRow(t, w, line) == RefRowFrom(LineItems(t, w, line), WinOff(line), w, 1, 0, "none")
RefRender(t, w, lay) == [k \in 1..Len(lay) |-> RefRow(t, w, lay[k])]
=============================================================================
