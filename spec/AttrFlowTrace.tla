---------------------------- MODULE AttrFlowTrace ----------------------------
(* C17 trace validation.  One trace = one case; its events are judged one by one:          *)
(*   decomp  what Text.get_text() reports for a markup (text, run-length attributes)        *)
(*   render  every character of the canvas the real Text.render produced for one            *)
(*           (width, wrap, align): <<glyph, attribute, kind, source position>>;             *)
(*           kind "c" a character of the text, "p" alignment padding, "h" blank standing    *)
(*           for a character that did not fit (cut wide character), "m" inserted mark       *)
(*   trim    the rows of one rendering, per screen column, and the same rows clipped on the *)
(*           left / right at every column by Canvas.content(trim_left, cols),               *)
(*           pad_trim_left_right, an Overlay window and Padding(width='clip')               *)
(*   maps    cells before / after a chain of AttrMap, AttrWrap, fill_attr, fill_attr_apply  *)
(*   set, hrender, reread, apply   a widget stack living through map changes while earlier  *)
(*           canvases are held (stage 2b); the chain of maps is state of this specification *)
(*   put, sgr, cup, ... the tokens of the bytes the real raw_display.Screen wrote, run on   *)
(*           the reference terminal (Terminal.tla through RawDisplayTrace's Apply)          *)
(*   frame   canvas cells <<glyph, attribute name, part>>: the model screen must show each  *)
(*           with the pen the palette specifies for that name at the active colour depth    *)
(* Clause names are the sentences of the property.                                          *)
EXTENDS AttrFlowOps, Json, IOUtils

Traces == JsonDeserialize(IOEnv.TRACE_FILE)

VARIABLES tid, l, term, hist, ok, why
vars == <<tid, l, term, hist, ok, why>>

RD == INSTANCE RawDisplayTrace      \* Terminal.tla + token interpretation + bright-is-bold normalisation (C04)

\* history state (stage 2b): the chain of maps as it is now, and per held canvas the chain / focus flag it was rendered with
NoHist == [chain |-> <<>>, held |-> <<>>, fnone |-> {}]
HistInit(tr) == IF "chain0" \in DOMAIN tr THEN [chain |-> tr.chain0, held |-> <<>>, fnone |-> {}] ELSE NoHist

Init == /\ tid \in 1..Len(Traces)
        /\ l = 0
        /\ term = RD!NewTerm(Traces[tid].w, Traces[tid].h)
        /\ hist = HistInit(Traces[tid])
        /\ ok = TRUE
        /\ why = "-"

(* ---- stage 1: markup -> Text canvas ---- *)
MarkGlyphs == {8230, 46}          \* the ellipsis mark: U+2026, or full stops where that cannot be encoded
DecompVerdict(tr, e) ==
  IF e.gottext # TextOf(tr.markup) THEN "markup_text_kept"
  ELSE IF ~RunsAgree(tr.markup, tr.ulen, e.runs) THEN "character_carries_innermost_tag"
  ELSE "-"

CellClause(mk, txt, c) ==
  LET g == c[1]  a == c[2]  k == c[3]  s == c[4]
      n == Len(txt)
      isSrcGlyph == g # 32 /\ \E i \in 1..n : txt[i] = g
  IN
  IF a = 98 THEN "encoding_never_splits_a_character_between_attributes"   \* the bytes of one character carry different attributes
  ELSE IF k = "c" THEN
       IF s < 1 \/ s > n THEN "cell_traces_to_a_source_character"
       ELSE IF txt[s] # g THEN "cell_traces_to_a_source_character"
       ELSE IF g # 32 /\ \E i \in 1..n : i # s /\ txt[i] = g THEN "harness_characters_not_position_unique"
       ELSE IF a = AttrOf(mk, s) THEN "-"
       ELSE IF (s > 1 /\ a = AttrOf(mk, s - 1)) \/ (s < n /\ a = AttrOf(mk, s + 1)) THEN "attribute_not_shifted_onto_neighbour"
       ELSE "character_carries_innermost_tag"
  ELSE IF isSrcGlyph \/ (g # 32 /\ k # "m") THEN "cell_traces_to_a_source_character"
  ELSE IF k = "p" THEN (IF a # None THEN "padding_carries_none" ELSE "-")
  ELSE IF k = "h" THEN (IF a = None \/ (s >= 1 /\ s <= n /\ a = AttrOf(mk, s)) THEN "-"
                        ELSE "blank_for_cut_character_takes_no_foreign_attribute")
  ELSE IF k = "m" THEN (IF g \notin MarkGlyphs THEN "cell_traces_to_a_source_character"
                        ELSE IF a = None \/ \E i \in 1..n : a = AttrOf(mk, i) THEN "-"
                        ELSE "inserted_mark_takes_no_foreign_attribute")
  ELSE "cell_traces_to_a_source_character"

RenderVerdict(tr, e) ==
  LET txt == TextOf(tr.markup)
      bad == {p \in UNION {{<<y, x>> : x \in 1..Len(e.rows[y])} : y \in 1..Len(e.rows)} :
                CellClause(tr.markup, txt, e.rows[p[1]][p[2]]) # "-"}
  IN IF bad = {} THEN "-"
     ELSE LET p == CHOOSE p \in bad : \A q \in bad : p[1] < q[1] \/ (p[1] = q[1] /\ p[2] <= q[2])
          IN CellClause(tr.markup, txt, e.rows[p[1]][p[2]])

(* ---- stage 1b: the rendered rows clipped on the left / right ("clipping ... never shift[s] an attribute") ---- *)
\* base cell: <<glyph, attribute, kind, source position, part>> per screen column of the unclipped row (part 0 = narrow,
\* 1 / 2 = left / right half of a double-width character); a cut shows columns left+1 .. left+cols of row y of the base;
\* its cells are <<glyph, attribute, part>>.  Every column keeps its glyph and the attribute of its source character; a
\* double-width character with one half outside is shown as a blank, and that blank is what remains of *that* character:
\* it carries that character's attribute, never the attribute of the character next to it (and never none).
TrimCellClause(mk, b, cut, x) ==
  LET o == b[cut.left + x]
      c == cut.cells[x]
      n == Size(mk)
      halved == (o[5] = 2 /\ x = 1) \/ (o[5] = 1 /\ x = cut.cols)
      want == IF o[3] = "c" /\ o[4] >= 1 /\ o[4] <= n THEN AttrOf(mk, o[4]) ELSE o[2]
  IN
  IF halved THEN
       IF c[1] # 32 \/ c[3] # 0 THEN "cell_traces_to_a_source_character"
       ELSE IF c[2] = want THEN "-"
       ELSE "remnant_of_cut_wide_character_keeps_its_attribute"
  ELSE IF c[1] # o[1] \/ c[3] # o[5] THEN "cell_traces_to_a_source_character"
  ELSE IF c[2] = want THEN "-"
  ELSE "clipping_never_shifts_an_attribute"

TrimCutClause(mk, e, cut) ==
  IF cut.y < 1 \/ cut.y > Len(e.base) THEN "clipped_rows_match_the_unclipped_rows"
  ELSE LET b == e.base[cut.y] IN
       IF cut.left < 0 \/ cut.cols < 1 \/ cut.left + cut.cols > Len(b) \/ Len(cut.cells) # cut.cols THEN "clipped_row_has_the_requested_width"
       ELSE LET bad == {x \in 1..cut.cols : TrimCellClause(mk, b, cut, x) # "-"} IN
            IF bad = {} THEN "-" ELSE TrimCellClause(mk, b, cut, CHOOSE x \in bad : \A q \in bad : x <= q)

TrimVerdict(tr, e) ==
  LET txt == TextOf(tr.markup)
      \* the unclipped rows are judged like a render event first
      base4 == [y \in 1..Len(e.base) |-> [x \in 1..Len(e.base[y]) |-> SubSeq(e.base[y][x], 1, 4)]]
      bb == {p \in UNION {{<<y, x>> : x \in 1..Len(base4[y])} : y \in 1..Len(base4)} : CellClause(tr.markup, txt, base4[p[1]][p[2]]) # "-"}
      bad == {j \in 1..Len(e.cuts) : TrimCutClause(tr.markup, e, e.cuts[j]) # "-"}
  IN IF bb # {} THEN LET p == CHOOSE p \in bb : \A q \in bb : p[1] < q[1] \/ (p[1] = q[1] /\ p[2] <= q[2])
                     IN CellClause(tr.markup, txt, base4[p[1]][p[2]])
     ELSE IF bad = {} THEN "-"
     ELSE TrimCutClause(tr.markup, e, e.cuts[CHOOSE j \in bad : \A q \in bad : j <= q])

(* ---- stage 2: attribute maps ---- *)
\* cell: <<glyph before, attribute before, level that produced the cell, glyph after, attribute after>>
MapsCellClauseC(chain, f, c) ==
  LET ab == c[2]  lvl == c[3]  ag == c[5]
      sub == Outside(chain, lvl)
      want == ApplyMaps(sub, f, ab)
      \* the attribute as it reaches map j
      at(j) == ApplyMaps(SubSeq(sub, 1, j - 1), f, ab)
  IN
  IF c[4] # c[1] THEN "maps_leave_the_text_alone"
  ELSE IF lvl > 0 /\ ab # None THEN "fill_cells_carry_none"
  ELSE IF ag = want THEN "-"
  ELSE IF \A j \in 1..Len(sub) : at(j) \notin Keys(Eff(sub[j], f)) THEN "map_leaves_unlisted_attributes_untouched"
  ELSE IF f /\ (\E j \in 1..Len(sub) : sub[j].hasf) /\ ag = ApplyMaps(sub, FALSE, ab) THEN "focus_map_instead_when_in_focus"
  ELSE IF Len(sub) >= 2 THEN "outer_map_applied_to_result_of_inner"
  ELSE "map_replaces_exactly_the_listed_attributes"

MapsCellsVerdict(chain, f, cells) ==
  LET bad == {j \in 1..Len(cells) : MapsCellClauseC(chain, f, cells[j]) # "-"}
  IN IF bad = {} THEN "-" ELSE MapsCellClauseC(chain, f, cells[CHOOSE j \in bad : \A q \in bad : j <= q])
MapsVerdict(e) == MapsCellsVerdict(e.chain, e.focus, e.cells)

(* ---- stage 2b: histories.  One widget stack lives through a trace; the specification keeps its chain of maps (changed ---- *)
(* by "set" events: set_attr_map, set_focus_map, set_attr, set_focus_attr, property assignment) and, for every canvas  *)
(* the application still holds, the chain and focus flag it was rendered with.  Every rendering shows the outer map     *)
(* applied to the result of the inner one *for the maps as they are now*; a canvas that is still held keeps showing     *)
(* what it showed (rendering the same widgets again, or applying a map to a copy of it, does not change it); a widget   *)
(* rendered on its own shows the maps inside it only.                                                                   *)
\* AttrWrap.set_focus_attr(None): "If None this widget will use the attr instead (no change when in focus)".  The elements
\* last changed that way are remembered (fnone) only to give the rejection a name of its own when the widget behaves as if a
\* focus map {None: None} had been installed instead (LiteralNone): the verdict itself follows the documentation.
FocusAttrNone == "AttrWrap.set_focus_attr(None)"
LiteralNone(chain, fnone) ==
  [j \in 1..Len(chain) |-> IF j \in fnone THEN [chain[j] EXCEPT !.hasf = TRUE, !.fmap = <<<<None, None>>>>] ELSE chain[j]]
HistNext(h, e) ==
  CASE e.t = "set" /\ e.j >= 1 /\ e.j <= Len(h.chain) ->
         [h EXCEPT !.chain[e.j] = IF e.which = "amap" THEN [@ EXCEPT !.amap = e.map]
                                  ELSE [@ EXCEPT !.hasf = e.hasf, !.fmap = e.map],       \* no focus map: "will use the attr mapping instead"
                   !.fnone = IF e.which # "fmap" THEN @ ELSE IF e.how = FocusAttrNone THEN @ \cup {e.j} ELSE @ \ {e.j}]
    [] e.t = "hrender" /\ e.upto >= 0 /\ e.upto <= Len(h.chain) ->
         [h EXCEPT !.held = Append(@, [chain |-> SubSeq(h.chain, 1, e.upto), focus |-> e.focus, fnone |-> h.fnone \cap (1..e.upto)])]
    [] e.t = "apply" /\ e.i >= 1 /\ e.i <= Len(h.held) ->                               \* a map applied to a copy of a held canvas
         [h EXCEPT !.held = Append(@, [chain |-> Append(h.held[e.i].chain, [amap |-> e.amap, hasf |-> FALSE, fmap |-> <<>>, lvl |-> 2]),
                                       focus |-> h.held[e.i].focus, fnone |-> h.held[e.i].fnone])]
    [] OTHER -> h
ShownVerdict(c, cells, otherwise) ==        \* c: [chain, focus, fnone] a canvas must agree with
  LET v == MapsCellsVerdict(c.chain, c.focus, cells) IN
  IF v = "-" THEN "-"
  ELSE IF c.focus /\ c.fnone # {} /\ MapsCellsVerdict(LiteralNone(c.chain, c.fnone), c.focus, cells) = "-"
       THEN "focus_attr_none_means_the_attr_is_used_in_focus"
  ELSE IF otherwise # "" THEN otherwise ELSE v
HistVerdict(h, e) ==
  CASE e.t = "set" -> IF e.j >= 1 /\ e.j <= Len(h.chain) THEN "-" ELSE "harness_history_out_of_range"
    [] e.t = "hrender" -> IF e.upto < 0 \/ e.upto > Len(h.chain) THEN "harness_history_out_of_range"
                          ELSE LET n == HistNext(h, e).held IN ShownVerdict(n[Len(n)], e.cells, "")
    [] e.t = "reread" -> IF e.i < 1 \/ e.i > Len(h.held) THEN "harness_history_out_of_range"
                         ELSE ShownVerdict(h.held[e.i], e.cells, "held_canvas_keeps_showing_what_it_showed")
    [] e.t = "apply" -> IF e.i < 1 \/ e.i > Len(h.held) THEN "harness_history_out_of_range"
                        ELSE LET n == HistNext(h, e).held IN ShownVerdict(n[Len(n)], e.cells, "")
HistEvents == {"set", "hrender", "reread", "apply"}

(* ---- stage 3: palette -> SGR -> terminal ---- *)
AliasClause == "alias_resolves_like_the_entry_it_names"
FrameCellClause(tr, c, m0) ==
  LET pen == ResolvePen(tr.pal, c[2], tr.depth)
      e0 == [c |-> c[1], fg |-> pen.fg, bg |-> pen.bg, fl |-> pen.fl, p |-> c[3]]
  IN IF ~RD!TextEq(m0, e0) THEN "terminal_shows_the_canvas_text"
     ELSE IF RD!AttrEq(m0, e0, tr.bib) THEN "-"
     ELSE IF ~Defined(tr.pal, c[2]) THEN "undefined_name_falls_back_to_default"
     ELSE IF IsAlias(tr.pal, c[2]) THEN AliasClause
     ELSE "sgr_decodes_to_palette_entry_for_depth"

FrameVerdict(tr, e) ==
  LET H == Len(e.cells) IN
  IF H # term.h \/ (H > 0 /\ Len(e.cells[1]) # term.w) THEN "frame_size"
  ELSE LET cl(p) == FrameCellClause(tr, e.cells[p[1]][p[2]], term.grid[p[1]][p[2]])
           bad == {p \in UNION {{<<y, x>> : x \in 1..term.w} : y \in 1..H} : cl(p) # "-"}
           \* a cell with a name that is not an alias is reported first (alias cells are subject to a recorded finding)
           pref == {p \in bad : cl(p) # AliasClause}
           pick == IF pref # {} THEN pref ELSE bad
       IN IF bad = {} THEN "-"
          ELSE cl(CHOOSE p \in pick : \A q \in pick : p[1] < q[1] \/ (p[1] = q[1] /\ p[2] <= q[2]))

Verdict(tr, e) ==
  CASE e.t \in HistEvents -> HistVerdict(hist, e)
    [] e.t = "decomp" -> DecompVerdict(tr, e)
    [] e.t = "render" -> RenderVerdict(tr, e)
    [] e.t = "trim"   -> TrimVerdict(tr, e)
    [] e.t = "maps"   -> MapsVerdict(e)
    [] e.t = "frame"  -> FrameVerdict(tr, e)
    [] e.t = "exc"    -> "raised"
    [] e.t \in RD!Known \ {"frame"} -> "-"
    [] OTHER -> "unknown_control_sequence"

Step == /\ ok
        /\ l < Len(Traces[tid].ev)
        /\ l' = l + 1
        /\ tid' = tid
        /\ LET e == Traces[tid].ev[l + 1]
               v == Verdict(Traces[tid], e)
           IN /\ term' = IF e.t \in RD!Known THEN RD!Apply(e) ELSE term
              /\ hist' = IF e.t \in HistEvents THEN HistNext(hist, e) ELSE hist
              /\ why' = v
              /\ ok' = (v = "-")
Spec == Init /\ [][Step]_vars
Report == ok \/ PrintT(<<"REJECT", tid, l, why>>)
==============================================================================
