---------------------------- MODULE AttrFlowTrace ----------------------------
(* C17 trace validation.  One trace = one case; its events are judged one by one:          *)
(*   decomp  what Text.get_text() reports for a markup (text, run-length attributes)        *)
(*   render  every character of the canvas the real Text.render produced for one            *)
(*           (width, wrap, align): <<glyph, attribute, kind, source position>>;             *)
(*           kind "c" a character of the text, "p" alignment padding, "h" blank standing    *)
(*           for a character that did not fit (cut wide character), "m" inserted mark       *)
(*   maps    cells before / after a chain of AttrMap, AttrWrap, fill_attr, fill_attr_apply  *)
(*   put, sgr, cup, ... the tokens of the bytes the real raw_display.Screen wrote, run on   *)
(*           the reference terminal (Terminal.tla through RawDisplayTrace's Apply)          *)
(*   frame   canvas cells <<glyph, attribute name, part>>: the model screen must show each  *)
(*           with the pen the palette specifies for that name at the active colour depth    *)
(* Clause names are the sentences of the property.                                          *)
EXTENDS AttrFlowOps, Json, IOUtils

Traces == JsonDeserialize(IOEnv.TRACE_FILE)

VARIABLES tid, l, term, ok, why
vars == <<tid, l, term, ok, why>>

RD == INSTANCE RawDisplayTrace      \* Terminal.tla + token interpretation + bright-is-bold normalisation (C04)

Init == /\ tid \in 1..Len(Traces)
        /\ l = 0
        /\ term = RD!NewTerm(Traces[tid].w, Traces[tid].h)
        /\ ok = TRUE
        /\ why = "-"

(* ---- stage 1: markup -> Text canvas ---- *)
MarkGlyphs == {8230, 46}          \* the ellipsis mark: U+2026, or full stops where that cannot be encoded
DecompVerdict(tr, e) ==
  IF e.gottext # TextOf(tr.markup) THEN "markup_text_kept"
  ELSE IF ~RunsAgree(tr.markup, tr.ulen, e.runs) THEN "character_carries_innermost_tag"
  ELSE "-"

CellClause(mk, txt, c) ==
  LET g == c[1]  a == c[2]  k == c[3]  s == c[4]
      n == Len(txt)
      isSrcGlyph == g # 32 /\ \E i \in 1..n : txt[i] = g
  IN
  IF a = 98 THEN "encoding_never_splits_a_character_between_attributes"   \* the bytes of one character carry different attributes
  ELSE IF k = "c" THEN
       IF s < 1 \/ s > n THEN "cell_traces_to_a_source_character"
       ELSE IF txt[s] # g THEN "cell_traces_to_a_source_character"
       ELSE IF g # 32 /\ \E i \in 1..n : i # s /\ txt[i] = g THEN "harness_characters_not_position_unique"
       ELSE IF a = AttrOf(mk, s) THEN "-"
       ELSE IF (s > 1 /\ a = AttrOf(mk, s - 1)) \/ (s < n /\ a = AttrOf(mk, s + 1)) THEN "attribute_not_shifted_onto_neighbour"
       ELSE "character_carries_innermost_tag"
  ELSE IF isSrcGlyph \/ (g # 32 /\ k # "m") THEN "cell_traces_to_a_source_character"
  ELSE IF k = "p" THEN (IF a # None THEN "padding_carries_none" ELSE "-")
  ELSE IF k = "h" THEN (IF a = None \/ (s >= 1 /\ s <= n /\ a = AttrOf(mk, s)) THEN "-"
                        ELSE "blank_for_cut_character_takes_no_foreign_attribute")
  ELSE IF k = "m" THEN (IF g \notin MarkGlyphs THEN "cell_traces_to_a_source_character"
                        ELSE IF a = None \/ \E i \in 1..n : a = AttrOf(mk, i) THEN "-"
                        ELSE "inserted_mark_takes_no_foreign_attribute")
  ELSE "cell_traces_to_a_source_character"

RenderVerdict(tr, e) ==
  LET txt == TextOf(tr.markup)
      bad == {p \in UNION {{<<y, x>> : x \in 1..Len(e.rows[y])} : y \in 1..Len(e.rows)} :
                CellClause(tr.markup, txt, e.rows[p[1]][p[2]]) # "-"}
  IN IF bad = {} THEN "-"
     ELSE LET p == CHOOSE p \in bad : \A q \in bad : p[1] < q[1] \/ (p[1] = q[1] /\ p[2] <= q[2])
          IN CellClause(tr.markup, txt, e.rows[p[1]][p[2]])

(* ---- stage 2: attribute maps ---- *)
\* cell: <<glyph before, attribute before, level that produced the cell, glyph after, attribute after>>
MapsCellClause(e, c) ==
  LET ab == c[2]  lvl == c[3]  ag == c[5]
      sub == Outside(e.chain, lvl)
      f == e.focus
      want == ApplyMaps(sub, f, ab)
      \* the attribute as it reaches map j
      at(j) == ApplyMaps(SubSeq(sub, 1, j - 1), f, ab)
  IN
  IF c[4] # c[1] THEN "maps_leave_the_text_alone"
  ELSE IF lvl > 0 /\ ab # None THEN "fill_cells_carry_none"
  ELSE IF ag = want THEN "-"
  ELSE IF \A j \in 1..Len(sub) : at(j) \notin Keys(Eff(sub[j], f)) THEN "map_leaves_unlisted_attributes_untouched"
  ELSE IF f /\ (\E j \in 1..Len(sub) : sub[j].hasf) /\ ag = ApplyMaps(sub, FALSE, ab) THEN "focus_map_instead_when_in_focus"
  ELSE IF Len(sub) >= 2 THEN "outer_map_applied_to_result_of_inner"
  ELSE "map_replaces_exactly_the_listed_attributes"

MapsVerdict(e) ==
  LET bad == {j \in 1..Len(e.cells) : MapsCellClause(e, e.cells[j]) # "-"}
  IN IF bad = {} THEN "-" ELSE MapsCellClause(e, e.cells[CHOOSE j \in bad : \A q \in bad : j <= q])

(* ---- stage 3: palette -> SGR -> terminal ---- *)
AliasClause == "alias_resolves_like_the_entry_it_names"
FrameCellClause(tr, c, m0) ==
  LET pen == ResolvePen(tr.pal, c[2], tr.depth)
      e0 == [c |-> c[1], fg |-> pen.fg, bg |-> pen.bg, fl |-> pen.fl, p |-> c[3]]
  IN IF ~RD!TextEq(m0, e0) THEN "terminal_shows_the_canvas_text"
     ELSE IF RD!AttrEq(m0, e0, tr.bib) THEN "-"
     ELSE IF ~Defined(tr.pal, c[2]) THEN "undefined_name_falls_back_to_default"
     ELSE IF IsAlias(tr.pal, c[2]) THEN AliasClause
     ELSE "sgr_decodes_to_palette_entry_for_depth"

FrameVerdict(tr, e) ==
  LET H == Len(e.cells) IN
  IF H # term.h \/ (H > 0 /\ Len(e.cells[1]) # term.w) THEN "frame_size"
  ELSE LET cl(p) == FrameCellClause(tr, e.cells[p[1]][p[2]], term.grid[p[1]][p[2]])
           bad == {p \in UNION {{<<y, x>> : x \in 1..term.w} : y \in 1..H} : cl(p) # "-"}
           \* a cell with a name that is not an alias is reported first (alias cells are subject to a recorded finding)
           pref == {p \in bad : cl(p) # AliasClause}
           pick == IF pref # {} THEN pref ELSE bad
       IN IF bad = {} THEN "-"
          ELSE cl(CHOOSE p \in pick : \A q \in pick : p[1] < q[1] \/ (p[1] = q[1] /\ p[2] <= q[2]))

Verdict(tr, e) ==
  CASE e.t = "decomp" -> DecompVerdict(tr, e)
    [] e.t = "render" -> RenderVerdict(tr, e)
    [] e.t = "maps"   -> MapsVerdict(e)
    [] e.t = "frame"  -> FrameVerdict(tr, e)
    [] e.t = "exc"    -> "raised"
    [] e.t \in RD!Known \ {"frame"} -> "-"
    [] OTHER -> "unknown_control_sequence"

Step == /\ ok
        /\ l < Len(Traces[tid].ev)
        /\ l' = l + 1
        /\ tid' = tid
        /\ LET e == Traces[tid].ev[l + 1]
               v == Verdict(Traces[tid], e)
           IN /\ term' = IF e.t \in RD!Known THEN RD!Apply(e) ELSE term
              /\ why' = v
              /\ ok' = (v = "-")
Spec == Init /\ [][Step]_vars
Report == ok \/ PrintT(<<"REJECT", tid, l, why>>)
==============================================================================
