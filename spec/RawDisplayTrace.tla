--------------------------- MODULE RawDisplayTrace ---------------------------
(* C04 trace validation: the tokens of the bytes written by the real raw display are      *)
(* interpreted by the reference terminal (Terminal.tla); at every Frame event the model    *)
(* screen must show the canvas cell for cell, the cursor must be where the canvas says     *)
(* (or hidden), and the screen must never have scrolled.                                   *)
EXTENDS Terminal, Json, IOUtils

Traces == JsonDeserialize(IOEnv.TRACE_FILE)

VARIABLES tid, l, term, ok, why
vars == <<tid, l, term, ok, why>>

Init == /\ tid \in 1..Len(Traces)
        /\ l = 0
        /\ term = NewTerm(Traces[tid].w, Traces[tid].h)
        /\ ok = TRUE
        /\ why = "-"

SeqToSet(s) == {s[j] : j \in 1..Len(s)}

\* bright-is-bold terminals show "bold + colour 0..7" and "colour 8..15" the same way
Norm(c, bib) ==
  IF ~bib THEN c
  ELSE LET fg1 == IF 1 \in c.fl /\ c.fg \in 0..7 THEN c.fg + 8 ELSE c.fg
           fl1 == IF fg1 \in 8..15 THEN c.fl \cup {1} ELSE c.fl
       IN [c EXCEPT !.fg = fg1, !.fl = fl1]

Expected(x) == [c |-> x[1], fg |-> x[2], bg |-> x[3], fl |-> SeqToSet(x[4]), p |-> x[5]]

TextEq(m, e) == m.c = e.c /\ m.p = e.p
AttrEq(m0, e0, bib) ==
  LET m == Norm(m0, bib)  e == Norm(e0, bib) IN
  IF e.c = 32
  THEN m.bg = e.bg /\ (m.fl \cap {4, 7, 9}) = (e.fl \cap {4, 7, 9}) /\ (7 \in e.fl => m.fg = e.fg)
  ELSE m.fg = e.fg /\ m.bg = e.bg /\ m.fl = e.fl

FrameVerdict(tr, e) ==
  LET H == Len(e.cells)
      bib == tr.bib
  IN IF H # term.h \/ (H > 0 /\ Len(e.cells[1]) # term.w) THEN "frame_size"
     ELSE IF term.scrolled THEN "never_scrolls"
     ELSE IF \E y \in 1..H : \E x \in 1..term.w : ~TextEq(term.grid[y][x], Expected(e.cells[y][x])) THEN "cell_text"
     ELSE IF \E y \in 1..H : \E x \in 1..term.w : ~AttrEq(term.grid[y][x], Expected(e.cells[y][x]), bib) THEN "cell_attributes"
     ELSE IF e.cur = <<>> /\ term.curs THEN "cursor_hidden_when_canvas_has_none"
     ELSE IF e.cur # <<>> /\ (~term.curs \/ term.cx # e.cur[1] \/ term.cy # e.cur[2]) THEN "cursor_at_canvas_cursor"
     ELSE IF term.irm THEN "insert_mode_left_on"
     ELSE "-"

\* A forced clear (and a size change) exists because what the terminal shows is no longer known: every cell becomes junk that no
\* canvas contains, so only a complete repaint can satisfy the next frame.
Junk == [c |-> 65533, fg |-> 5, bg |-> 3, fl |-> {4}, p |-> 0]
Garble(t) == [t EXCEPT !.grid = [y \in 1..t.h |-> [x \in 1..t.w |-> Junk]]]

Apply(e) ==
  CASE e.t = "put"    -> Put(term, e.c, e.w)
    [] e.t = "zw"     -> PutZero(term, e.c)
    [] e.t = "cup"    -> CUP(term, e.x, e.y)
    [] e.t = "bs"     -> BS(term)
    [] e.t = "cr"     -> CR(term)
    [] e.t = "lf"     -> Index(term)
    [] e.t = "cuu"    -> CUU(term, e.n)
    [] e.t = "cud"    -> CUD(term, e.n)
    [] e.t = "cuf"    -> CUF(term, e.n)
    [] e.t = "cub"    -> CUB(term, e.n)
    [] e.t = "sgr"    -> SGR(term, e.ps)
    [] e.t = "el"     -> EL(term, e.n)
    [] e.t = "ed"     -> ED(term, e.n)
    [] e.t = "ich"    -> ICH(term, e.n)
    [] e.t = "irm"    -> SetIRM(term, e.on)
    [] e.t = "so"     -> ShiftOut(term)
    [] e.t = "si"     -> ShiftIn(term)
    [] e.t = "desig"  -> Designate(term, e.g, e.set)
    [] e.t = "decset" -> DecSet(term, e.n, e.on)
    [] e.t = "resize" -> Garble(Resize(term, e.w, e.h))
    [] e.t = "clear"  -> Garble(term)
    [] OTHER          -> term

\* back_color_erase = False tells the display that the terminal erases to its DEFAULT background whatever the current colours are:
\* such traces (nobce = 1) are run on a terminal that behaves so; everything else is the same terminal
NoBce(tr) == "nobce" \in DOMAIN tr /\ tr.nobce = 1
EraseNoBce(e) ==
  LET t0 == [term EXCEPT !.pen.bg = -1]
      r == CASE e.t = "el" -> EL(t0, e.n) [] e.t = "ed" -> ED(t0, e.n) [] OTHER -> ICH(t0, e.n)
  IN [r EXCEPT !.pen = term.pen]
ApplyT(tr, e) == IF NoBce(tr) /\ e.t \in {"el", "ed", "ich"} THEN EraseNoBce(e) ELSE Apply(e)

Known == {"put", "zw", "cup", "bs", "cr", "lf", "cuu", "cud", "cuf", "cub", "sgr", "el", "ed", "ich", "irm", "so", "si",
          "desig", "decset", "resize", "frame", "clear"}

\* A size change that overtakes a frame (event "interrupt": SIGWINCH delivered while the display was composing the frame, k rows
\* into the canvas).  The frame was composed for a size the terminal no longer has: whatever the display still wrote for it (the
\* tokens before this event) establishes nothing.  The terminal has the new size and unknown contents, exactly as after a size
\* change between two frames, so the next frame is only accepted when it paints every cell.
Interrupt(e) == Garble(Resize(term, e.w, e.h))
ApplyI(tr, e) == IF e.t = "interrupt" THEN Interrupt(e) ELSE ApplyT(tr, e)
KnownI == Known \cup {"interrupt"}

Step == /\ ok
        /\ l < Len(Traces[tid].ev)
        /\ l' = l + 1
        /\ tid' = tid
        /\ LET e == Traces[tid].ev[l + 1]
               v == IF e.t = "frame" THEN FrameVerdict(Traces[tid], e)
                    ELSE IF e.t = "exc" THEN "draw_raised"
                    ELSE IF e.t \notin KnownI THEN "unknown_control_sequence"
                    ELSE "-"
           IN /\ term' = ApplyI(Traces[tid], e)
              /\ why' = v
              /\ ok' = (v = "-")
Spec == Init /\ [][Step]_vars
Report == ok \/ PrintT(<<"REJECT", tid, l, why>>)
==============================================================================
