------------------------------ MODULE InputDecoder ------------------------------
(* C05 fragmentation model: a byte stream is delivered in arbitrary chunks to the            *)
(* parse_input algorithm as coded (decode with more_available = TRUE, keep the whole          *)
(* undecodable tail, re-parse it together with the next chunk; when the completion timeout    *)
(* fires decode the tail with more_available = FALSE).  TLC checks, for every stream over     *)
(* the alphabet and every way of cutting it, that the events equal those of the whole         *)
(* stream decoded at once, that no byte is lost or decoded twice, and termination.            *)
EXTENDS InputDecoderOps

CONSTANTS Alphabet, MaxLen, Mode, MidTimeouts

VARIABLES stream, pos, pending, out, timeouts, bad
vars == <<stream, pos, pending, out, timeouts, bad>>

Streams == UNION {[1..n -> Alphabet] : n \in 1..MaxLen}
Whole(s) == DecodeAll(s, FALSE, Mode, <<>>)

Init == /\ stream \in {s \in Streams : ~Whole(s).unspec}
        /\ pos = 0 /\ pending = <<>> /\ out = <<>> /\ timeouts = 0 /\ bad = FALSE

Read(n) ==
  /\ pos + n <= Len(stream) /\ n >= 1
  /\ LET r == DecodeAll(pending \o SubSeq(stream, pos + 1, pos + n), TRUE, Mode, <<>>)
     IN /\ out' = out \o r.evs
        /\ pending' = r.rest
        /\ bad' = (bad \/ r.unspec)
  /\ pos' = pos + n
  /\ UNCHANGED <<stream, timeouts>>

\* the completion timeout: decode what is pending as it stands
Timeout ==
  /\ pending # <<>>
  /\ (pos = Len(stream) \/ MidTimeouts)
  /\ LET r == DecodeAll(pending, FALSE, Mode, <<>>)
     IN out' = out \o r.evs /\ pending' = r.rest /\ bad' = (bad \/ r.unspec)
  /\ timeouts' = timeouts + (IF pos = Len(stream) THEN 0 ELSE 1)
  /\ UNCHANGED <<stream, pos>>

Next == (\E n \in 1..MaxLen : Read(n)) \/ Timeout
Spec == Init /\ [][Next]_vars

Finished == pos = Len(stream) /\ pending = <<>>
\* however the stream is cut (no timeout before the end), the events are those of the whole stream
SameAsWhole == (Finished /\ timeouts = 0 /\ ~bad) => ProjSeq(out) = ProjSeq(Whole(stream).evs)
\* nothing is held back for ever: the tail is always a suffix of what was delivered
TailIsSuffix == Len(pending) <= pos /\ pending = SubSeq(stream, pos - Len(pending) + 1, pos)
=================================================================================
