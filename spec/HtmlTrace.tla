------------------------------ MODULE HtmlTrace ------------------------------
(* C04, HTML screenshot back-end: the fragment, parsed back with an HTML parser (which     *)
(* undoes the escaping), must give exactly the canvas text row by row, and at most one     *)
(* cell may be drawn as the cursor: the cell of the canvas cursor.  The driver records,    *)
(* per row and per character of the fragment, the character's width in screen columns      *)
(* (widths) and whether it is drawn differently from the same canvas without a cursor      *)
(* (marks); the screen column of a character is counted here.                              *)
EXTENDS Integers, Sequences, FiniteSets, TLC, Json, IOUtils

Traces == JsonDeserialize(IOEnv.TRACE_FILE)
VARIABLES tid, l, ok, why
vars == <<tid, l, ok, why>>

Init == tid \in 1..Len(Traces) /\ l = 0 /\ ok = TRUE /\ why = "-"

RECURSIVE SumTo(_, _)
SumTo(ws, n) == IF n = 0 THEN 0 ELSE ws[n] + SumTo(ws, n - 1)
\* the characters drawn as the cursor: <<row, first screen column, columns>>, rows and columns 0-based as canvas cursors are
Marked(e) == UNION {{<<y - 1, SumTo(e.widths[y], i - 1), e.widths[y][i]>> : i \in {j \in 1..Len(e.marks[y]) : e.marks[y][j] = 1}} :
                    y \in 1..Len(e.marks)}
\* the one highlighted character is the glyph that covers the canvas cursor column (a wide glyph covers two)
CursorCellOk(e) ==
  LET m == Marked(e) IN
  /\ Cardinality(m) = 1
  /\ \E c \in m : c[1] = e.cur[2] /\ c[2] <= e.cur[1] /\ e.cur[1] < c[2] + c[3]

Verdict(e) ==
  IF e.exc # "" THEN "html_raised"
  ELSE IF Len(e.got) # Len(e.want) THEN "html_row_count"
  ELSE IF \E y \in 1..Len(e.want) : e.got[y] # e.want[y] THEN "html_text_row_by_row"
  ELSE IF e.cursor_cells > 1 \/ e.cursor_cells < 0 THEN "at_most_one_cursor_cell"
  ELSE IF e.wantcur = 0 /\ e.cursor_cells # 0 THEN "no_cursor_cell_without_cursor"
  ELSE IF e.cur # <<>> /\ ~CursorCellOk(e) THEN "cursor_cell_is_the_canvas_cursor_cell"
  ELSE "-"

Step == /\ ok /\ l < Len(Traces[tid].ev) /\ l' = l + 1 /\ tid' = tid
        /\ LET v == Verdict(Traces[tid].ev[l + 1]) IN why' = v /\ ok' = (v = "-")
Spec == Init /\ [][Step]_vars
Report == ok \/ PrintT(<<"REJECT", tid, l, why>>)
==============================================================================
