------------------------------ MODULE HtmlTrace ------------------------------
(* C04, HTML screenshot back-end: the fragment, parsed back with an HTML parser (which     *)
(* undoes the escaping), must give exactly the canvas text row by row, and at most one     *)
(* cell may be drawn as the cursor.                                                        *)
EXTENDS Integers, Sequences, TLC, Json, IOUtils

Traces == JsonDeserialize(IOEnv.TRACE_FILE)
VARIABLES tid, l, ok, why
vars == <<tid, l, ok, why>>

Init == tid \in 1..Len(Traces) /\ l = 0 /\ ok = TRUE /\ why = "-"

Verdict(e) ==
  IF e.exc # "" THEN "html_raised"
  ELSE IF Len(e.got) # Len(e.want) THEN "html_row_count"
  ELSE IF \E y \in 1..Len(e.want) : e.got[y] # e.want[y] THEN "html_text_row_by_row"
  ELSE IF e.cursor_cells > 1 \/ e.cursor_cells < 0 THEN "at_most_one_cursor_cell"
  ELSE IF e.wantcur = 0 /\ e.cursor_cells # 0 THEN "no_cursor_cell_without_cursor"
  ELSE "-"

Step == /\ ok /\ l < Len(Traces[tid].ev) /\ l' = l + 1 /\ tid' = tid
        /\ LET v == Verdict(Traces[tid].ev[l + 1]) IN why' = v /\ ok' = (v = "-")
Spec == Init /\ [][Step]_vars
Report == ok \/ PrintT(<<"REJECT", tid, l, why>>)
==============================================================================
