----------------------------- MODULE TreeBrowseOps -----------------------------
(* X04 "tree browsing": urwid/widget/treetools.py -- TreeNode / ParentNode (lazy loading of   *)
(* child keys and child nodes), TreeWidget (expanded flag, '+' / '-' / 'right', click on the    *)
(* expand icon, next_inorder / prev_inorder over EXPANDED nodes only), TreeWalker (positions    *)
(* are nodes) and TreeListBox ('left', '-', 'home', 'end') inside a real ListBox.               *)
(* Pure operators shared by the state machine (TreeBrowse.tla) and the trace specification      *)
(* (TreeBrowseTrace.tla).                                                                       *)
(*                                                                                             *)
(* Written from the docstrings of treetools.py (docs/manual says nothing about trees):          *)
(*   TreeWidget.selectable "Allow selection of non-leaf nodes so children may be (un)expanded", *)
(*     keypress "Handle expand & collapse requests (non-leaf nodes)", next_inorder / prev_inorder*)
(*     "Return the next / previous TreeWidget depth first from this one", first_child /         *)
(*     last_child "Return first / last child if expanded";                                      *)
(*   ParentNode "Maintain sort order for TreeNodes", get_child_keys "Return a possibly ordered  *)
(*     list of child keys", get_child_node "Return the child node for a given key.  Create if   *)
(*     necessary", next_child / prev_child "Return the next / previous child node in index      *)
(*     order from the given key", get_first_child / get_last_child, has_children;               *)
(*   TreeWalker "positions are TreeNodes", start_from "TreeNode with the initial focus";        *)
(*   TreeListBox "special handling for navigation and collapsing of TreeWidgets",               *)
(*     unhandled_input "Handle macro-navigation keys", collapse_focus_parent "Collapse parent   *)
(*     directory", move_focus_to_parent "Move focus to parent of widget in focus", focus_home   *)
(*     "Move focus to very top", focus_end "Move focus to far bottom".                          *)
(* Where nothing is documented the reference records what the code does (marked "as built"):   *)
(*   - 'left' never collapses anything: it always moves to the parent (a parent widget does not  *)
(*     use 'left', so it reaches unhandled_input); '-' on a collapsed parent stays where it is;  *)
(*   - a programmatic collapse (widget.expanded = False) of an ancestor of the focus leaves the  *)
(*     focus on a node that is no longer in the display order; the view then shows the chain of  *)
(*     get_prev / get_next neighbours of that node (TreeBrowse.tla: FocusShown is an invariant of *)
(*     user events only, and TLC's counterexample for the general case is replayed on the code);  *)
(*   - change_child_key does not touch the cached key list (see Rename);                         *)
(*   - the ListBox's 'up' / 'down' / 'page up' / 'page down' for one-line selectable rows.       *)
(* Two places where the code does NOT do what its docstring says are kept as wrong variants     *)
(* ("left_asbuilt": move_focus_to_parent with the parent scrolled off the top) or are judged     *)
(* against the docstring in a dedicated trace family (focus_end in a view taller than wide).     *)
(*                                                                                             *)
(* World W:                                                                                    *)
(*   t        the shape: t.par[n] parent of node n (0 for the root, node 1), siblings ordered  *)
(*            by id; plus tables derived from it once (Tree(par))                              *)
(*   isp[n]   1: node n is a ParentNode (it may have no children), 0: a plain TreeNode (leaf)   *)
(*   ic[n]    1: the widget of n is created collapsed (the examples' "starts_expanded" idiom)    *)
(*   exp[n]   expanded flag of n's TreeWidget (for a widget not created yet: what it will be)   *)
(*   focus    the walker's focus node;  off: row offset of the focus kept by the ListBox         *)
(*            (never above h - 1: the ListBox clamps it);  h: rows of the view                   *)
(*   hk[n]    1: n's child keys are cached (load_child_keys ran);  ldk[n] calls of it            *)
(*   hn[n]    1: the node object of n is cached in its parent (root: 1);  ldn[n] calls of        *)
(*            load_child_node for n                                                            *)
(*   key[n]   what n.get_key() returns;  stale: parent whose cached key list is out of date     *)
(*            (between change_child_key and get_child_keys(reload=True)), 0 if none              *)
(*   leafsel  1: leaf widgets are selectable (the examples' subclass), 0: stock TreeWidget      *)
(*   variant  "ok" or the name of a deliberately wrong variant                                  *)
EXTENDS Integers, Sequences, FiniteSets, TLC

SetMin(S) == CHOOSE x \in S : \A y \in S : x <= y
SetMax(S) == CHOOSE x \in S : \A y \in S : x >= y
Min2(a, b) == IF a < b THEN a ELSE b
Max2(a, b) == IF a > b THEN a ELSE b
Range(s) == {s[i] : i \in 1..Len(s)}
Rev(s) == [i \in 1..Len(s) |-> s[Len(s) + 1 - i]]
IndexOf(s, x) == IF \E i \in 1..Len(s) : s[i] = x THEN CHOOSE i \in 1..Len(s) : s[i] = x ELSE 0
RECURSIVE Asc(_)
Asc(S) == IF S = {} THEN <<>> ELSE <<SetMin(S)>> \o Asc(S \ {SetMin(S)})
RECURSIVE Cat(_)
Cat(ss) == IF ss = <<>> THEN <<>> ELSE Head(ss) \o Cat(Tail(ss))

INDENT == 3                                   \* TreeWidget.indent_cols
PressEvents == {"mouse press", "meta mouse press", "ctrl mouse press", "shift mouse press"}
IsPress(ev) == ev \in PressEvents

(* ------------------------------- the tree ------------------------------- *)
\* W.t: the shape, tabulated once from the parent vector (it never changes):
\*   par, kids[p] (the ordered child list), fkid / lkid (first / last child, 0: none), nsib / psib (next / previous
\*   sibling, 0: none), depth, anc[n] (proper ancestors), sub[n] (n and its descendants), pre (the full pre-order)
RECURSIVE DepthIn(_, _)
DepthIn(par, n) == IF par[n] = 0 THEN 0 ELSE 1 + DepthIn(par, par[n])
RECURSIVE AncIn(_, _)
AncIn(par, n) == IF par[n] = 0 THEN {} ELSE {par[n]} \cup AncIn(par, par[n])
RECURSIVE PreIn(_, _)
PreIn(kids, n) == <<n>> \o Cat([j \in 1..Len(kids[n]) |-> PreIn(kids, kids[n][j])])
Tree(par) ==
  LET n == Len(par)
      ks == [p \in 1..n |-> Asc({c \in 1..n : par[c] = p})]
      sibs(x) == {c \in 1..n : par[c] = par[x] /\ par[x] # 0}
      anc == [x \in 1..n |-> AncIn(par, x)]
  IN [par |-> par, kids |-> ks,
      fkid |-> [p \in 1..n |-> IF ks[p] = <<>> THEN 0 ELSE ks[p][1]],
      lkid |-> [p \in 1..n |-> IF ks[p] = <<>> THEN 0 ELSE ks[p][Len(ks[p])]],
      nsib |-> [x \in 1..n |-> LET S == {c \in sibs(x) : c > x} IN IF S = {} THEN 0 ELSE SetMin(S)],
      psib |-> [x \in 1..n |-> LET S == {c \in sibs(x) : c < x} IN IF S = {} THEN 0 ELSE SetMax(S)],
      depth |-> [x \in 1..n |-> DepthIn(par, x)],
      anc |-> anc,
      sub |-> [x \in 1..n |-> {m \in 1..n : m = x \/ x \in anc[m]}],
      pre |-> PreIn(ks, 1)]
NN(W) == Len(W.t.par)
Par(W, n) == W.t.par[n]
KidSet(W, p) == Range(W.t.kids[p])
Kids(W, p) == W.t.kids[p]                                          \* the ordered list of children
FirstKid(W, p) == W.t.fkid[p]
LastKid(W, p) == W.t.lkid[p]
NextSib(W, n) == W.t.nsib[n]
PrevSib(W, n) == W.t.psib[n]
Depth(W, n) == W.t.depth[n]
Anc(W, n) == W.t.anc[n]                                            \* proper ancestors
Sub(W, n) == W.t.sub[n]                                            \* n and its descendants
PreAll(W) == W.t.pre                                               \* the full pre-order (every node, whatever is expanded)

Open(W, n) == W.isp[n] = 1 /\ W.exp[n] = 1                         \* an expanded parent
InitExp(W, n) == IF W.isp[n] = 1 /\ W.ic[n] = 1 THEN 0 ELSE 1      \* TreeWidget.__init__: expanded = True

\* DOCUMENTED: what a tree display shows -- the pre-order restricted to nodes all of whose ancestors are expanded
Shown(W, n) == \A a \in Anc(W, n) : Open(W, a)
Pre(W) == SelectSeq(PreAll(W), LAMBDA n : Shown(W, n))

(* ---- the walker: TreeWidget.first_child / last_child / next_inorder / prev_inorder, structured like the code ---- *)
VFirst(W, n) ==                                                    \* "Return first child if expanded"
  IF W.isp[n] = 1 /\ (W.exp[n] = 1 \/ W.variant = "children_stay") THEN FirstKid(W, n) ELSE 0
RECURSIVE VLast(_, _)
VLast(W, n) ==                                                     \* "Return last child if expanded" (deepest last descendant)
  IF W.isp[n] = 1 /\ (W.exp[n] = 1 \/ W.variant = "prev_ignores_expanded") /\ LastKid(W, n) # 0
  THEN LET l == LastKid(W, n)  d == VLast(W, l) IN IF d # 0 THEN d ELSE l
  ELSE 0
RECURSIVE ClimbNext(_, _)
ClimbNext(W, n) == IF Par(W, n) = 0 THEN 0 ELSE IF NextSib(W, n) # 0 THEN NextSib(W, n) ELSE ClimbNext(W, Par(W, n))
NextOf(W, n) == LET f == VFirst(W, n) IN IF f # 0 THEN f ELSE ClimbNext(W, n)        \* TreeWalker.get_next (0: none)
PrevOf(W, n) ==                                                                       \* TreeWalker.get_prev
  LET ps == PrevSib(W, n) IN
  IF ps # 0 THEN (LET d == VLast(W, ps) IN IF d # 0 THEN d ELSE ps) ELSE Par(W, n)
RECURSIVE ChainDown(_, _, _)
ChainDown(W, n, k) == IF k <= 0 THEN <<>> ELSE LET x == NextOf(W, n) IN IF x = 0 THEN <<>> ELSE <<x>> \o ChainDown(W, x, k - 1)
RECURSIVE ChainUp(_, _, _)
ChainUp(W, n, k) == IF k <= 0 THEN <<>> ELSE LET x == PrevOf(W, n) IN IF x = 0 THEN <<>> ELSE <<x>> \o ChainUp(W, x, k - 1)   \* nearest first
\* the display order, obtained the way a ListBox obtains it: repeated get_next from the root
Vis(W) == <<1>> \o ChainDown(W, 1, NN(W))
LastVis(W) == LET v == Vis(W) IN v[Len(v)]
\* every node some get_next / get_prev walk from the root or from the focus can reach
Reach(W) == Range(Vis(W)) \cup Range(ChainUp(W, W.focus, NN(W))) \cup Range(ChainDown(W, W.focus, NN(W))) \cup {W.focus}
LastChain(W, x) == LET l == VLast(W, x) IN IF l = 0 THEN {} ELSE (Anc(W, l) \cup {l}) \ (Anc(W, x) \cup {x})

(* ---- the ListBox view (every row one line high): which rows show which nodes ---- *)
\* ListBox.calculate_visible: the focus is offered at row `off`; rows are filled upwards, then downwards, then the rest
\* upwards again (no blank rows while something could be shown).  Geo(W) = [eff: the row of the focus, win: the nodes on
\* display, top row first]
Geo(W) ==
  LET H == W.h
      up == ChainUp(W, W.focus, H - 1)
      dn == ChainDown(W, W.focus, H - 1)
      a == Len(up)
      b == Len(dn)
      o1 == Min2(Min2(W.off, H - 1), a)
      bt == Min2(b, H - 1 - o1)
      fill == H - 1 - o1 - bt
      e == o1 + Min2(fill, a - o1)
  IN [eff |-> e, win |-> Rev(SubSeq(up, 1, e)) \o <<W.focus>> \o SubSeq(dn, 1, Min2(b, H - 1 - e))]
Eff(W) == Geo(W).eff
Window(W) == Geo(W).win
RowNode(W, r) == LET win == Window(W) IN IF r >= 0 /\ r + 1 <= Len(win) THEN win[r + 1] ELSE 0           \* r: 0-based row
Selectable(W, n) == W.isp[n] = 1 \/ W.leafsel = 1

Spaces(n) == [j \in 1..n |-> 32]
PadTo(s, n) == IF Len(s) >= n THEN SubSeq(s, 1, n) ELSE s \o Spaces(n - Len(s))
\* the rendered row of node n: indentation by depth, the expand icon of a parent ('-' expanded, '+' collapsed), the text
RowOf(W, n, text, width) ==
  PadTo(Spaces(INDENT * Depth(W, n)) \o (IF W.isp[n] = 1 THEN <<IF W.exp[n] = 1 THEN 45 ELSE 43, 32>> ELSE <<>>) \o text, width)
IconCol(W, n) == INDENT * Depth(W, n)
\* the cursor: on the expand icon of a parent in focus; a leaf shows none
CursorOf(W) == IF W.isp[W.focus] = 1 THEN <<IconCol(W, W.focus), Eff(W)>> ELSE <<>>

(* ------------------------------- operations ------------------------------- *)
\* result of an operation: the new world, res (returned key, "" for None / "True" | "False" for mouse_event),
\* exc (exception class name), ret (a node id / number returned, 0 for None), info (get_depth & co.)
Done(W, res) == [w |-> W, res |-> res, exc |-> "", ret |-> 0, info |-> <<>>]
Ret(W, ret) == [w |-> W, res |-> "", exc |-> "", ret |-> ret, info |-> <<>>]

SetExp(W, n, v) == [W EXCEPT !.exp[n] = v]

\* loading through the ParentNode API: keys of the nodes in K, node objects of the nodes in S -- each only if not cached
\* ("Create if necessary")
LoadKeys(W, K) ==
  LET ld(x) == x \in K /\ (W.hk[x] = 0 \/ W.variant = "reload_always") IN
  [W EXCEPT !.hk = [x \in 1..NN(W) |-> IF x \in K THEN 1 ELSE W.hk[x]],
            !.ldk = [x \in 1..NN(W) |-> IF ld(x) THEN W.ldk[x] + 1 ELSE W.ldk[x]]]
LoadNodes(W, S) ==
  LET ld(x) == x \in S /\ x # 0 /\ (W.hn[x] = 0 \/ W.variant = "reload_always") IN
  [W EXCEPT !.hn = [x \in 1..NN(W) |-> IF x \in S THEN 1 ELSE W.hn[x]],
            !.ldn = [x \in 1..NN(W) |-> IF ld(x) THEN W.ldn[x] + 1 ELSE W.ldn[x]]]
\* a child node is always reached through its parent's key list (get_first_child, next_child, ... call get_child_keys)
Load(W, K, S) == LoadNodes(LoadKeys(W, K \cup {Par(W, x) : x \in {y \in S \ {0, 1} : W.hn[y] = 0}}), S \ {0})

\* TreeListBox.move_focus_to_parent: "Move focus to parent of widget in focus"; a parent that is on display above the
\* focus keeps its row, otherwise it is put on the top row.
\* Variant "left_asbuilt" is what the code does when the parent is NOT on display although rows above the focus are:
\* the loop variable `pos` has been overwritten, the focus goes to the parent of the TOP ROW's node.
MoveToParent(W) ==
  LET f == W.focus
      p == Par(W, f)
      g == Geo(W)
      win == g.win
      e == g.eff
      i == IndexOf(win, p)
  IN IF p = 0 THEN W
     ELSE IF i # 0 /\ i <= e THEN [W EXCEPT !.focus = p, !.off = i - 1]
     ELSE IF W.variant = "left_asbuilt" /\ e > 0 THEN [W EXCEPT !.focus = Par(W, win[1]), !.off = 0]
     ELSE [W EXCEPT !.focus = p, !.off = 0]

\* TreeWidget.keypress((maxcol,), key): a parent uses '+' / 'right' (expand) and '-' (collapse); everything else, and
\* every key on a leaf, is returned
WidgetUses(W, n, key) == W.isp[n] = 1 /\ key \in {"+", "right", "-"}
KeyWidget(W, n, key) ==
  IF W.isp[n] = 0 THEN Done(W, IF W.variant = "leaf_swallows" /\ key \in {"+", "-"} THEN "" ELSE key)
  ELSE IF key = "right" /\ W.variant = "right_toggles" THEN Done(SetExp(W, n, 1 - W.exp[n]), "")
  ELSE IF key \in {"+", "right"} THEN Done(SetExp(W, n, 1), "")
  ELSE IF key = "-" THEN Done(SetExp(W, n, 0), "")
  ELSE Done(W, key)

\* TreeListBox.keypress(size, key): the focus widget first (if selectable), then the ListBox ('up', 'down', 'page up',
\* 'page down', 'home', 'end'), then unhandled_input ('left': to the parent; '-': collapse the parent)
MoveKeys == {"up", "down", "page up", "page down"}
\* what the ListBox / TreeListBox does with a key the focus widget did not use
ListCmd(W, key) ==
  LET f == W.focus  H == W.h IN
       CASE key = "down" ->                              \* ListBox, one-line selectable rows (as built)
              (LET n == NextOf(W, f) IN IF n = 0 THEN Done(W, key) ELSE Done([W EXCEPT !.focus = n, !.off = Min2(Eff(W) + 1, H - 1)], ""))
         [] key = "up" ->
              (LET p == PrevOf(W, f) IN IF p = 0 THEN Done(W, key) ELSE Done([W EXCEPT !.focus = p, !.off = Max2(Eff(W) - 1, 0)], ""))
         [] key = "page down" ->                         \* a view's height of rows further (as built), clipped at the end
              (LET c == ChainDown(W, f, H) IN Done([W EXCEPT !.focus = IF c = <<>> THEN f ELSE c[Len(c)], !.off = H - 1], ""))
         [] key = "page up" ->
              (LET c == ChainUp(W, f, H) IN Done([W EXCEPT !.focus = IF c = <<>> THEN f ELSE c[Len(c)], !.off = 0], ""))
         [] key = "home" -> Done([W EXCEPT !.focus = 1, !.off = 0], "")                        \* focus_home: "Move focus to very top"
         [] key = "end" ->                                                                       \* focus_end: "Move focus to far bottom"
              (LET l == IF W.variant = "end_ignores_collapsed" THEN PreAll(W)[NN(W)] ELSE VLast(W, 1)
               IN IF l = 0 \/ l = 1 THEN Done(W, "") ELSE Done([W EXCEPT !.focus = l, !.off = H - 1], ""))
         [] key = "left" -> Done(MoveToParent(W), "")    \* move_focus_to_parent
         [] key = "-" ->                                 \* collapse_focus_parent: "Collapse parent directory"
              (IF W.variant = "minus_keeps_focus" THEN Done(IF Par(W, f) = 0 THEN W ELSE SetExp(W, Par(W, f), 0), "")
               ELSE LET W1 == MoveToParent(W) IN Done(IF W1.focus = f THEN W1 ELSE SetExp(W1, W1.focus, 0), ""))
         [] OTHER -> Done(W, key)                        \* "keys not used are returned"
\* TreeListBox.keypress(size, key): the focus widget first (if selectable), then the ListBox ('up', 'down', 'page up',
\* 'page down', 'home', 'end'), then unhandled_input ('left': to the parent; '-' (only a leaf lets it through): collapse
\* the parent)
KeyList(W, key) == IF WidgetUses(W, W.focus, key) THEN KeyWidget(W, W.focus, key) ELSE ListCmd(W, key)
\* the TreeListBox methods called directly: focus_home, focus_end, move_focus_to_parent, collapse_focus_parent (whatever
\* the focus is: from a parent it goes to ITS parent and collapses that), unhandled_input(size, data)
CallNames == {"focus_home", "focus_end", "move_focus_to_parent", "collapse_focus_parent"}
KeyOfCall(m) == CASE m = "focus_home" -> "home" [] m = "focus_end" -> "end" [] m = "move_focus_to_parent" -> "left" [] m = "collapse_focus_parent" -> "-"
CallList(W, m) == Done(ListCmd(W, KeyOfCall(m)).w, "")
Unhandled(W, data) == IF data \in {"left", "-"} THEN ListCmd(W, data) ELSE Done(W, data)
\* the TreeListBox command an operation amounts to ("": none)
CmdOf(W, op) ==
  CASE op.n = "key" -> (IF WidgetUses(W, W.focus, op.key) THEN "" ELSE op.key)
    [] op.n = "call" -> KeyOfCall(op.key)
    [] op.n = "unhandled" -> (IF op.key \in {"left", "-"} THEN op.key ELSE "")
    [] OTHER -> ""

\* TreeWidget.mouse_event((maxcol,), ev, btn, col, row, focus): a button-1 "mouse press" exactly on the icon of a parent
\* toggles it
IconHit(W, n, ev, btn, col, row) ==
  W.isp[n] = 1 /\ ev = "mouse press" /\ btn = 1 /\ row = 0 /\ (col = IconCol(W, n) \/ W.variant = "click_anywhere")
MouseWidget(W, n, ev, btn, col, row) ==
  IF IconHit(W, n, ev, btn, col, row) THEN Done(SetExp(W, n, 1 - W.exp[n]), "True") ELSE Done(W, "False")
\* TreeListBox.mouse_event(size, ev, btn, col, row, True): ListBox "May change focus on button 1 press" (to a selectable
\* row, which keeps its row), then the row's widget gets the event
MouseList(W, ev, btn, col, row) ==
  LET m == RowNode(W, row) IN
  IF m = 0 THEN Done(W, "False")
  ELSE LET W1 == IF IsPress(ev) /\ btn = 1 /\ Selectable(W, m) THEN [W EXCEPT !.focus = m, !.off = row] ELSE W
       IN MouseWidget(W1, m, ev, btn, col, 0)

\* ParentNode.change_child_key(old, new): the child is re-filed under the new key and told its new key; a key that is in
\* use by a cached child raises TreeWidgetError.  (as built: the cached key LIST is not touched -- the caller has to
\* refresh it with get_child_keys(reload=True) before navigating)
Rename(W, n, k) ==
  IF \E s \in KidSet(W, Par(W, n)) : W.hn[s] = 1 /\ W.key[s] = k
  THEN [w |-> W, res |-> "", exc |-> "TreeWidgetError", ret |-> 0, info |-> <<>>]
  ELSE Done([W EXCEPT !.key[n] = k, !.stale = Par(W, n)], "")
ReloadKeys(W, p) == Done([W EXCEPT !.hk[p] = 1, !.ldk[p] = @ + 1, !.stale = IF @ = p THEN 0 ELSE @], "")
\* ParentNode.get_child_node(key, reload=True): a fresh node object (fresh widget, nothing cached below it)
ReloadNode(W, n) ==
  LET S == Sub(W, n) IN
  Ret([W EXCEPT !.ldn[n] = @ + 1, !.hn = [x \in 1..NN(W) |-> IF x \in S \ {n} THEN 0 ELSE W.hn[x]],
                !.hk = [x \in 1..NN(W) |-> IF x \in S THEN 0 ELSE W.hk[x]],
                !.exp = [x \in 1..NN(W) |-> IF x \in S THEN InitExp(W, x) ELSE W.exp[x]]], n)

\* get_depth, get_index (None for the root: 0; else 1 + the index), get_parent, get_root, is_root
InfoOf(W, n) == <<Depth(W, n), IF Par(W, n) = 0 THEN 0 ELSE IndexOf(Kids(W, Par(W, n)), n), Par(W, n), 1, IF Par(W, n) = 0 THEN 1 ELSE 0>>

OpenOn(W, S) == {x \in S : Open(W, x)}
\* op: [n, a, v, key, ev, btn, col, row]
MkOp(n, a, v, key, ev, btn, col, row) == [n |-> n, a |-> a, v |-> v, key |-> key, ev |-> ev, btn |-> btn, col |-> col, row |-> row]
Apply(W, op) ==
  LET a == op.a IN
  CASE op.n = "key"          -> KeyList(W, op.key)
    [] op.n = "call"         -> CallList(W, op.key)
    [] op.n = "unhandled"    -> Unhandled(W, op.key)
    [] op.n = "wkey"         -> KeyWidget(W, a, op.key)
    [] op.n = "mouse"        -> MouseList(W, op.ev, op.btn, op.col, op.row)
    [] op.n = "wmouse"       -> MouseWidget(W, a, op.ev, op.btn, op.col, op.row)
    [] op.n = "set_focus"    -> Done([W EXCEPT !.focus = a], "")                 \* TreeWalker.set_focus(node)
    [] op.n = "set_exp"      -> Done(SetExp(W, a, op.v), "")                     \* widget.expanded = v; update_expanded_icon()
    [] op.n = "noop"         -> Done(W, "")
    (* TreeNode / ParentNode *)
    [] op.n = "next_sibling" -> Ret(Load(W, {}, {NextSib(W, a)}), NextSib(W, a))
    [] op.n = "prev_sibling" -> Ret(Load(W, {}, {PrevSib(W, a)}), PrevSib(W, a))
    [] op.n = "first_child"  -> Ret(Load(W, {a}, {FirstKid(W, a)}), FirstKid(W, a))
    [] op.n = "last_child"   -> Ret(Load(W, {a}, {LastKid(W, a)}), LastKid(W, a))
    [] op.n = "has_children" -> Ret(Load(W, {a}, {}), IF KidSet(W, a) = {} THEN 0 ELSE 1)
    [] op.n = "info"         -> [w |-> W, res |-> "", exc |-> "", ret |-> 0, info |-> InfoOf(W, a)]
    (* TreeWalker.get_next / get_prev, TreeWidget.first_child / last_child on any cached node *)
    [] op.n = "wnext"        -> Ret(Load(W, OpenOn(W, {a}), {NextOf(W, a)}), NextOf(W, a))
    [] op.n = "wprev"        -> (LET ps == PrevSib(W, a)
                                     S == IF ps = 0 THEN {} ELSE {ps} \cup LastChain(W, ps)
                                 IN Ret(Load(W, OpenOn(W, S), S), PrevOf(W, a)))
    [] op.n = "wfirst"       -> Ret(Load(W, OpenOn(W, {a}), {VFirst(W, a)}), VFirst(W, a))
    [] op.n = "wlast"        -> Ret(Load(W, OpenOn(W, {a} \cup LastChain(W, a)), LastChain(W, a)), VLast(W, a))
    (* mutation *)
    [] op.n = "rename"       -> Rename(W, a, op.v)
    [] op.n = "reload_keys"  -> ReloadKeys(W, a)
    [] op.n = "reload_node"  -> ReloadNode(W, a)

\* Keys whose effect is the ListBox's business and is modelled only in the simple case: 'up' / 'down' / 'page up' / 'page down'
\* with selectable rows (which row the ListBox picks among unselectable rows is not modelled), and the page keys only with
\* the focus in the display order (with a focus hidden by a programmatic collapse get_prev is not the inverse of get_next
\* and ListBox's search for the row a page further gives up early)
Modelled(W, key) == /\ key \in MoveKeys => W.leafsel = 1
                    /\ key \in {"page up", "page down"} => Shown(W, W.focus)
\* which operations make sense in W (the harness and the model only issue these)
Cached(W, n) == n \in 1..NN(W) /\ W.hn[n] = 1
Enabled(W, op) ==
  LET a == op.a IN
  IF W.stale # 0 THEN op.n = "reload_keys" /\ a = W.stale
  ELSE CASE op.n = "key" -> Modelled(W, op.key)
         [] op.n = "call" -> op.key \in CallNames
         [] op.n \in {"mouse", "noop", "unhandled"} -> TRUE
         [] op.n \in {"wkey", "wmouse", "set_focus", "next_sibling", "prev_sibling", "info", "wnext", "wprev", "wfirst", "wlast"} -> Cached(W, a)
         [] op.n \in {"set_exp", "has_children"} -> Cached(W, a) /\ W.isp[a] = 1
         [] op.n \in {"first_child", "last_child"} -> Cached(W, a) /\ W.isp[a] = 1 /\ KidSet(W, a) # {}
         [] op.n = "rename" -> Cached(W, a) /\ a # 1 /\ \A s \in KidSet(W, Par(W, a)) : W.key[s] = op.v => W.hn[s] = 1   \* sibling keys stay unique
         [] op.n = "reload_keys" -> Cached(W, a) /\ W.isp[a] = 1 /\ W.hk[a] = 1
         [] op.n = "reload_node" -> Cached(W, a) /\ a # 1 /\ W.focus \notin Sub(W, a)
         [] OTHER -> FALSE
UserOps == {"key", "mouse"}
ListOps == {"key", "mouse", "call", "unhandled"}        \* everything that goes through the TreeListBox
ApiOps == {"next_sibling", "prev_sibling", "first_child", "last_child", "has_children"}

(* ---- what a render and a full walk load ---- *)
\* rendering the view needs the nodes on display (and the child keys of every expanded parent that is followed by
\* another row); walking get_next from the root and get_prev back needs every node of the display order (and the child
\* keys of every expanded parent on it).  "eager_keys": child keys are fetched for collapsed parents too.
Settle(W, render, walk) ==
  LET win == IF render THEN Window(W) ELSE <<>>
      vis == IF walk THEN Range(Vis(W)) ELSE {}
      S == Range(win) \cup vis
      K == {x \in {win[i] : i \in 1..(Len(win) - 1)} \cup vis : Open(W, x) \/ (W.variant = "eager_keys" /\ W.isp[x] = 1)}
  IN Load(W, K, S)
=============================================================================
