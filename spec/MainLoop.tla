------------------------------- MODULE MainLoop -------------------------------
(* C12 generator + design model of urwid.MainLoop.run(): a session (timed inputs, alarms,   *)
(* pipe writes, resizes), a fault plan (callback kind, invocation index, ExitMainLoop or     *)
(* error) and the main loop's own control flow as coded (start, serve, idle redraw, the      *)
(* two ways out of _run).  Every event the model produces goes through the C12 monitor       *)
(* (MainLoopOps!JudgeM); TLC checks all sessions x fault points within bounds, and that      *)
(* deliberately wrong main loops (Bad) are refuted.  Sessions are exported to drive the      *)
(* real MainLoop (spec -> code).                                                             *)
EXTENDS MainLoopOps, FiniteSets

CONSTANTS MaxEvents, Kinds, Times, FaultKinds, Bad

VARIABLES scn, m, why, pc, rest, cnt, tty, sigs, steps
vars == <<scn, m, why, pc, rest, cnt, tty, sigs, steps>>

W == 12
H == 3
Callbacks == {"filter", "keypress", "mouse_event", "unhandled", "alarm", "pipe", "render"}

EventSeqs == UNION {[1..n -> [at : Times, kind : Kinds]] : n \in 0..MaxEvents}
Sorted(es) == \A i \in 1..(Len(es) - 1) : es[i].at <= es[i + 1].at
Faults == {[kind |-> "none", idx |-> 0, exc |-> "exit"]} \cup
          [kind : FaultKinds \ {"none"}, idx : 1..2, exc : {"exit", "error"}]
Scenarios == {[events |-> es, fault |-> f, popups |-> p] : es \in {e \in EventSeqs : Sorted(e)}, f \in Faults, p \in {FALSE}}

RECURSIVE FoldM(_, _, _)
FoldM(st, evs, i) ==
  IF i > Len(evs) THEN [m |-> st, why |-> "-"]
  ELSE LET r == JudgeM(st, evs[i]) IN IF r.why # "-" THEN r ELSE FoldM(r.m, evs, i + 1)

Key(k, h) == [cb |-> "keypress", ev |-> [t |-> "keypress", key |-> k, handled |-> h, w |-> 1]]
Mouse(k, h) == [cb |-> "mouse_event", ev |-> [t |-> "mouse_event", key |-> k, handled |-> h, w |-> 1]]
Unh(k) == [cb |-> "unhandled", ev |-> [t |-> "unhandled", key |-> k]]
Filt(ks, out) == [cb |-> "filter", ev |-> [t |-> "filter", keys |-> ks, out |-> out]]
Plain(e) == [cb |-> "", ev |-> e]
SkipU == Bad = "skipUnhandled"

\* what MainLoop does, callback by callback, for one environment event
Micro(kind) ==
  CASE kind = "keyH"   -> <<Plain([t |-> "arrive", keys |-> <<"a">>]), Filt(<<"a">>, <<"a">>), Key("a", TRUE)>>
    [] kind = "keyU"   -> <<Plain([t |-> "arrive", keys |-> <<"q">>]), Filt(<<"q">>, <<"q">>), Key("q", FALSE)>> \o (IF SkipU THEN <<>> ELSE <<Unh("q")>>)
    [] kind = "keyX"   -> <<Plain([t |-> "arrive", keys |-> <<"x">>]), Filt(<<"x">>, <<>>)>>
    [] kind = "up"     -> <<Plain([t |-> "arrive", keys |-> <<"up">>]), Filt(<<"up">>, <<"up">>), Key("up", FALSE), Unh("up")>>
    [] kind = "ctrlL"  -> <<Plain([t |-> "arrive", keys |-> <<"ctrl l">>]), Filt(<<"ctrl l">>, <<"ctrl l">>), Key("ctrl l", FALSE)>>
    [] kind = "two"    -> <<Plain([t |-> "arrive", keys |-> <<"a", "q">>]), Filt(<<"a", "q">>, <<"a", "q">>), Key("a", TRUE), Key("q", FALSE), Unh("q")>>
    [] kind = "mouseH" -> <<Plain([t |-> "arrive", keys |-> <<"mouse press 1 2 1">>]), Filt(<<"mouse press 1 2 1">>, <<"mouse press 1 2 1">>), Mouse("mouse press 1 2 1", TRUE)>>
    [] kind = "mouseU" -> <<Plain([t |-> "arrive", keys |-> <<"mouse press 3 3 0">>]), Filt(<<"mouse press 3 3 0">>, <<"mouse press 3 3 0">>), Mouse("mouse press 3 3 0", FALSE), Unh("mouse press 3 3 0")>>
    [] kind = "resize" -> <<Plain([t |-> "arrive_resize"]), Filt(<<"window resize">>, <<"window resize">>)>>
    [] kind = "alarm"  -> <<[cb |-> "alarm", ev |-> [t |-> "alarm"]]>>
    [] kind = "pipe"   -> <<[cb |-> "pipe", ev |-> [t |-> "pipe"]]>>
    [] kind = "exitalarm" -> <<Plain([t |-> "raise", kind |-> "exit"])>>
    [] OTHER -> <<>>

\* run micro-ops, counting callback invocations and injecting the planned fault
RECURSIVE RunMicro(_, _, _, _)
RunMicro(ops, i, c, acc) ==
  IF i > Len(ops) THEN [evs |-> acc, cnt |-> c, raised |-> ""]
  ELSE LET op == ops[i]
           c2 == IF op.cb = "" THEN c ELSE [c EXCEPT ![op.cb] = @ + 1]
           hit == op.cb # "" /\ scn.fault.kind = op.cb /\ scn.fault.idx = c2[op.cb]
           isExit == op.ev.t = "raise"
       IN IF hit THEN [evs |-> acc \o <<op.ev, [t |-> "raise", kind |-> scn.fault.exc]>>, cnt |-> c2, raised |-> scn.fault.exc]
          ELSE IF isExit THEN [evs |-> Append(acc, op.ev), cnt |-> c2, raised |-> "exit"]
          ELSE RunMicro(ops, i + 1, c2, Append(acc, op.ev))

StartTokens == <<[t |-> "decset", n |-> 1049, on |-> TRUE], [t |-> "decset", n |-> 1000, on |-> TRUE],
                 [t |-> "decset", n |-> 1002, on |-> TRUE], [t |-> "decset", n |-> 1006, on |-> TRUE],
                 [t |-> "decset", n |-> 25, on |-> FALSE]>>
StopTokens == <<[t |-> "decset", n |-> 1006, on |-> FALSE], [t |-> "decset", n |-> 1002, on |-> FALSE],
                [t |-> "decset", n |-> 1000, on |-> FALSE], [t |-> "si"], [t |-> "decset", n |-> 1049, on |-> FALSE],
                [t |-> "decset", n |-> 25, on |-> TRUE]>>

Init == /\ scn \in Scenarios
        /\ m = InitM(W, H) /\ why = "-" /\ pc = "init"
        /\ rest = scn.events \o <<[at |-> 200, kind |-> "exitalarm"]>>
        /\ cnt = [c \in Callbacks |-> 0]
        /\ tty = "cooked" /\ sigs = "orig" /\ steps = 0

Emit(evs) == LET r == FoldM(m, evs, 1) IN m' = r.m /\ why' = r.why

Start == /\ pc = "init"
         /\ Emit(StartTokens)
         /\ tty' = "cbreak" /\ sigs' = "ours" /\ pc' = "idle"
         /\ UNCHANGED <<scn, rest, cnt>>

\* entering_idle: render the top widget and draw it
Idle == /\ pc = "idle"
        /\ LET r == RunMicro(<<[cb |-> "render", ev |-> [t |-> "slow", d |-> 0]]>>, 1, cnt, <<>>)
           IN /\ cnt' = r.cnt
              /\ IF r.raised # "" THEN Emit(r.evs) /\ pc' = r.raised
                 ELSE Emit(r.evs \o (IF Bad = "noRedraw" THEN <<>> ELSE <<[t |-> "draw", gen |-> m.gen]>>)) /\ pc' = "wait"
        /\ UNCHANGED <<scn, rest, tty, sigs>>

Wait == /\ pc = "wait" /\ rest # <<>>
        /\ Emit(<<[t |-> "wait", timeout |-> 1000, ready |-> <<>>, grace |-> 0], [t |-> "advance", to |-> Head(rest).at]>>)
        /\ pc' = "serve"
        /\ UNCHANGED <<scn, rest, cnt, tty, sigs>>

Serve == /\ pc = "serve" /\ rest # <<>>
         /\ LET r == RunMicro(Micro(Head(rest).kind), 1, cnt, <<>>)
                more == Len(rest) > 1 /\ rest[2].at = Head(rest).at
            IN /\ Emit(r.evs) /\ cnt' = r.cnt
               /\ pc' = IF r.raised # "" THEN r.raised ELSE IF more THEN "serve" ELSE "idle"
         /\ rest' = Tail(rest)
         /\ UNCHANGED <<scn, tty, sigs>>

\* ExitMainLoop: event_loop.run() returns, MainLoop.stop() -> screen.stop()
ExitPath == /\ pc = "exit"
            /\ Emit(<<[t |-> "run_end", outcome |-> "return", exc |-> ""]>> \o StopTokens
                    \o <<[t |-> "final", termios_same |-> TRUE, signals_same |-> TRUE, started |-> FALSE]>>)
            /\ tty' = "cooked" /\ sigs' = "orig" /\ pc' = "done"
            /\ UNCHANGED <<scn, rest, cnt>>
\* any other exception: except: screen.stop(); raise
ErrorPath == /\ pc = "error"
             /\ LET stops == Bad # "noStopOnError"
                IN /\ Emit(<<[t |-> "run_end", outcome |-> "raise", exc |-> "VfError"]>> \o (IF stops THEN StopTokens ELSE <<>>)
                           \o <<[t |-> "final", termios_same |-> stops, signals_same |-> stops, started |-> ~stops]>>)
                   /\ tty' = IF stops THEN "cooked" ELSE tty
                   /\ sigs' = IF stops THEN "orig" ELSE sigs
             /\ pc' = "done"
             /\ UNCHANGED <<scn, rest, cnt>>

Next == /\ why = "-" /\ steps' = steps + 1
        /\ (Start \/ Idle \/ Wait \/ Serve \/ ExitPath \/ ErrorPath)
Spec == Init /\ [][Next]_vars

\* behaviour export: scenario drawn at random in the first step (see EventLoop.tla)
RandomEvents(n) == [i \in 1..n |-> [at |-> RandomElement(Times), kind |-> RandomElement(Kinds)]]
SortSeqBy(es) == SortSeq(es, LAMBDA a, b : a.at < b.at)
SimInit == /\ scn = [events |-> <<>>, fault |-> [kind |-> "none", idx |-> 0, exc |-> "exit"], popups |-> FALSE]
           /\ m = InitM(W, H) /\ why = "-" /\ pc = "choose" /\ rest = <<>>
           /\ cnt = [c \in Callbacks |-> 0] /\ tty = "cooked" /\ sigs = "orig" /\ steps = 0
Choose == /\ pc = "choose"
          /\ scn' = [events |-> SortSeqBy(RandomEvents(RandomElement(1..MaxEvents))), fault |-> RandomElement(Faults),
                     popups |-> RandomElement(BOOLEAN)]
          /\ rest' = scn'.events \o <<[at |-> 200, kind |-> "exitalarm"]>>
          /\ pc' = "init"
          /\ UNCHANGED <<m, why, cnt, tty, sigs, steps>>
SimSpec == SimInit /\ [][Choose \/ Next]_vars

MonitorAccepts == why = "-"
DoneMeansRestored == pc = "done" => (tty = "cooked" /\ sigs = "orig" /\ m.term.curs /\ m.term.modes = {})
===============================================================================
