------------------------------- MODULE MainLoop -------------------------------
(* C12 generator + design model of urwid.MainLoop.run(): a session (timed inputs, alarms,   *)
(* pipe writes, resizes; inputs may share one read of the terminal, or be cut in two reads   *)
(* with the screen's incomplete-sequence timer in between), a fault plan (callback kind,     *)
(* invocation index, ExitMainLoop or error), the callback from which the application swaps   *)
(* the topmost widget, and the main loop's own control flow as coded (start, serve, idle     *)
(* redraw, the two ways out of _run).  Every event the model produces goes through the C12  *)
(* monitor (MainLoopOps!JudgeM); TLC checks all sessions x fault points within bounds, and   *)
(* that deliberately wrong main loops (Bad: no stop on error, unhandled input skipped, no    *)
(* redraw, topmost widget looked up once per batch, incomplete-sequence timer left armed or  *)
(* never armed, signal dispositions "restored" to the default action, a forced repaint       *)
(* ignored because the canvas is the one drawn last, an event loop that cannot remove a      *)
(* watch on file descriptor 0) are refuted.  A session also fixes the signal dispositions    *)
(* found before run(), the descriptor the terminal input is on, and whether run() is called  *)
(* a second time on the same MainLoop.  The screen's buffer of what the terminal shows and   *)
(* the loop's table of watched descriptors are part of the state.                            *)
(* Sessions are exported to drive the real MainLoop (spec -> code).                          *)
EXTENDS MainLoopOps, FiniteSets

CONSTANTS MaxEvents, Kinds, Times, FaultKinds, Bad,
          Cuts,      \* 0: the bytes of an input arrive in one read; k > 0: its first k bytes arrive, the rest Gap later (a second read)
          Also,      \* "-", or an input that arrives just before the event's own input in the SAME read (typed ahead, pasted)
          Swaps,     \* "none", or the callback from which the application replaces the topmost widget (loop.widget = other view), once
          Sig0,      \* dispositions of SIGWINCH / SIGTSTP / SIGCONT before run(): "ign", "dfl", "py" (a Python handler)
          InFds,     \* file descriptors the terminal input may be on (0: standard input, how applications normally run)
          Again      \* subset of BOOLEAN: is run() called a second time on the same MainLoop once the first run is over

VARIABLES scn, m, why, pc, rest, cnt, tty, sigs, steps,
          pend,      \* the input whose first bytes the screen holds while it waits for the rest ("-": none)
          clock,     \* the time
          scr,       \* the screen's idea of what the terminal shows: valid (FALSE: a full repaint was asked for), gen (the canvas drawn last)
          cols,      \* columns of the terminal now
          hooks,     \* descriptors the event loop watches for the screen
          ran        \* run() has been called a second time
vars == <<scn, m, why, pc, rest, cnt, tty, sigs, steps, pend, clock, scr, cols, hooks, ran>>

W == 12
H == 3
Gap == 5                   \* time between the two reads of a split input: well within CompleteWait
CompleteWait == 125        \* Screen.complete_wait: how long the screen waits for the rest of an incomplete sequence
ExitAt == 200
Callbacks == {"filter", "keypress", "mouse_event", "unhandled", "alarm", "pipe", "render"}
InputKinds == {"keyH", "keyU", "keyX", "up", "ctrlL", "two", "mouseH", "mouseU", "meta", "esc"}
Splittable == {"up", "meta", "mouseH", "mouseU"}          \* inputs of more than one byte that decode to ONE event
NBytes(k) == CASE k = "up" -> 3 [] k = "meta" -> 2 [] k \in {"mouseH", "mouseU"} -> 9 [] OTHER -> 1
ASSUME "esc" \notin Also /\ "-" \in Also /\ 0 \in Cuts /\ "none" \in Swaps

KeysOf(k) ==
  CASE k = "keyH" -> <<"a">> [] k = "keyU" -> <<"q">> [] k = "keyX" -> <<"x">> [] k = "up" -> <<"up">> [] k = "ctrlL" -> <<"ctrl l">>
    [] k = "two" -> <<"a", "q">> [] k = "mouseH" -> <<"mouse press 1 2 1">> [] k = "mouseU" -> <<"mouse press 3 3 0">>
    [] k = "meta" -> <<"meta z">> [] k = "esc" -> <<"esc">> [] OTHER -> <<>>

Sorted(es) == \A i \in 1..(Len(es) - 1) : es[i].at <= es[i + 1].at
EvOK(e) == /\ (e.cut > 0 => e.kind \in Splittable /\ e.cut < NBytes(e.kind))
           /\ (e.also # "-" => e.kind \in InputKinds)
\* sessions in which what the user typed is unambiguous: nothing is typed after a lone ESC (it would read as a meta key or a
\* sequence), and nothing else is typed between the two chunks of a split input
Legal(es) ==
  /\ Sorted(es) /\ \A i \in 1..Len(es) : EvOK(es[i])
  /\ \A i, j \in 1..Len(es) : (i # j /\ es[j].kind \in InputKinds) =>
        /\ (es[i].kind = "esc" => j < i)
        /\ (es[i].cut > 0 => (es[j].at < es[i].at \/ es[j].at > es[i].at + Gap \/ (es[j].at = es[i].at /\ j < i)))
EventSeqs == UNION {[1..n -> [at : Times, kind : Kinds, cut : Cuts, also : Also]] : n \in 0..MaxEvents}
Faults == {[kind |-> "none", idx |-> 0, exc |-> "exit"]} \cup
          [kind : FaultKinds \ {"none"}, idx : 1..2, exc : {"exit", "error"}]
\* a second run() continues the session; what the screen keeps of a half-typed sequence across two runs is not part of the property
Plainly(es) == \A i \in 1..Len(es) : es[i].cut = 0 /\ es[i].kind # "esc"
Scenarios == {sc \in [events : {e \in EventSeqs : Legal(e)}, fault : Faults, popups : {FALSE}, swap : Swaps, sig0 : Sig0, infd : InFds, again : Again] :
                sc.again => Plainly(sc.events)}

\* the session as a timeline: one entry per read / alarm / pipe write / resize; ph = 1, 2: first and second read of a split input
Ph(e, p) == [at |-> IF p = 2 THEN e.at + Gap ELSE e.at, kind |-> e.kind, cut |-> e.cut, also |-> e.also, ph |-> p]
Entry(at, kind) == [at |-> at, kind |-> kind, cut |-> 0, also |-> "-", ph |-> 0]
InsertByTime(q, x) == LET k == Cardinality({i \in 1..Len(q) : q[i].at <= x.at}) IN SubSeq(q, 1, k) \o <<x>> \o SubSeq(q, k + 1, Len(q))
RECURSIVE AddSeconds(_, _, _)
AddSeconds(q, es, i) == IF i > Len(es) THEN q ELSE AddSeconds(IF es[i].cut > 0 THEN InsertByTime(q, Ph(es[i], 2)) ELSE q, es, i + 1)
Timeline(es) == AddSeconds([i \in 1..Len(es) |-> Ph(es[i], IF es[i].cut > 0 THEN 1 ELSE 0)], es, 1) \o <<Entry(ExitAt, "exitalarm")>>
\* the screen's one timer for an incomplete sequence: (re)armed by every read that leaves a sequence incomplete
WithoutTimer(q) == SelectSeq(q, LAMBDA x : x.kind # "itimer")
Arm(q, now) == IF Bad = "noInputTimer" THEN WithoutTimer(q) ELSE InsertByTime(WithoutTimer(q), Entry(now + CompleteWait, "itimer"))

RECURSIVE FoldM(_, _, _)
FoldM(st, evs, i) ==
  IF i > Len(evs) THEN [m |-> st, why |-> "-"]
  ELSE LET r == JudgeM(st, evs[i]) IN IF r.why # "-" THEN r ELSE FoldM(r.m, evs, i + 1)

Key(k, h) == [cb |-> "keypress", ev |-> [t |-> "keypress", key |-> k, handled |-> h, w |-> 1]]      \* w is filled in by RunMicro
Mouse(k, h) == [cb |-> "mouse_event", ev |-> [t |-> "mouse_event", key |-> k, handled |-> h, w |-> 1]]
Unh(k) == [cb |-> "unhandled", ev |-> [t |-> "unhandled", key |-> k]]
Filt(ks, out) == [cb |-> "filter", ev |-> [t |-> "filter", keys |-> ks, out |-> out]]
Plain(e) == [cb |-> "", ev |-> e]
SkipU == Bad = "skipUnhandled"

\* what process_input does with one filtered input
Dispatch(k) ==
  CASE k = "a" -> <<Key("a", TRUE)>>
    [] k = "q" -> <<Key("q", FALSE)>> \o (IF SkipU THEN <<>> ELSE <<Unh("q")>>)
    [] k = "ctrl l" -> <<Key("ctrl l", FALSE), Plain([t |-> "clear"])>>      \* REDRAW_SCREEN command: screen.clear(), not passed on
    [] k = "mouse press 1 2 1" -> <<Mouse(k, TRUE)>>
    [] k = "mouse press 3 3 0" -> <<Mouse(k, FALSE), Unh(k)>>
    [] OTHER -> <<Key(k, FALSE), Unh(k)>>
RECURSIVE DispatchAll(_)
DispatchAll(ks) == IF ks = <<>> THEN <<>> ELSE Dispatch(Head(ks)) \o DispatchAll(Tail(ks))
RECURSIVE Flat(_)
Flat(qs) == IF qs = <<>> THEN <<>> ELSE Head(qs) \o Flat(Tail(qs))
\* one read of the input descriptor: the complete inputs `atoms` (in the order typed), possibly followed by the first bytes of
\* another one (partial = "part"), or by a lone ESC ("esc").  Everything decoded goes to the filter in ONE call, then key by key
\* to the widget
Read(atoms, partial) ==
  LET ks == Flat([i \in 1..Len(atoms) |-> KeysOf(atoms[i])])
      out == SelectSeq(ks, LAMBDA k : k # "x")
  IN [i \in 1..Len(atoms) |-> Plain([t |-> "arrive", keys |-> KeysOf(atoms[i])])]
     \o (CASE partial = "part" -> <<Plain([t |-> "partial"])>>
           [] partial = "esc" -> <<Plain([t |-> "arrive_held", keys |-> <<"esc">>, wait |-> CompleteWait])>>
           [] OTHER -> <<>>)
     \o <<Filt(ks, out)>> \o DispatchAll(out)

\* a resize toggles the terminal between W and W - 2 columns
OtherCols == IF cols = W THEN W - 2 ELSE W
\* the canvas of the probe widget: "g<generation>" on the first row, blanks elsewhere (code points)
RECURSIVE Digits(_)
Digits(n) == IF n < 10 THEN <<48 + n>> ELSE Digits(n \div 10) \o <<48 + (n % 10)>>
Canvas(g, w) == LET t == <<103>> \o Digits(g) IN [y \in 1..H |-> [x \in 1..w |-> IF y = 1 /\ x <= Len(t) THEN t[x] ELSE 32]]

\* what Screen + MainLoop do, callback by callback, for one timeline entry
Micro(e) ==
  LET pre == IF e.also = "-" THEN <<>> ELSE <<e.also>>
  IN CASE e.kind = "esc" -> Read(pre, "esc")         \* ESC begins every escape sequence: the screen waits for more
       [] e.kind \in InputKinds /\ e.ph = 0 -> Read(pre \o <<e.kind>>, "")
       [] e.kind \in InputKinds /\ e.ph = 1 -> Read(pre, "part")
       [] e.kind \in InputKinds /\ e.ph = 2 -> Read(<<e.kind>>, "")
       \* the wait is over: what the screen holds is all there is.  A timer that was left armed although its sequence has
       \* been completed and delivered (Bad = "staleInputTimer") decodes its old bytes again: a key nobody typed
       [] e.kind = "itimer" -> <<Filt(<<"esc">>, <<"esc">>)>> \o Dispatch("esc")
       [] e.kind = "resize" -> <<Plain([t |-> "arrive_resize", w |-> OtherCols, h |-> H]), Filt(<<"window resize">>, <<"window resize">>)>>
       [] e.kind = "alarm"  -> <<[cb |-> "alarm", ev |-> [t |-> "alarm", changes |-> TRUE]]>>      \* changes is filled in by RunMicro
       [] e.kind = "pipe"   -> <<[cb |-> "pipe", ev |-> [t |-> "pipe", changes |-> TRUE]]>>
       [] e.kind = "exitalarm" -> <<Plain([t |-> "raise", kind |-> "exit"])>>
       [] OTHER -> <<>>

\* run micro-ops, counting callback invocations and injecting the planned fault.  top: the topmost widget now; top0: the one at
\* the beginning of the batch (what a main loop that looks it up once per batch, Bad = "staleTop", keeps using)
RECURSIVE RunMicro(_, _, _, _, _, _)
RunMicro(ops, i, c, acc, top, top0) ==
  IF i > Len(ops) THEN [evs |-> acc, cnt |-> c, raised |-> ""]
  ELSE LET op == ops[i]
           c2 == IF op.cb = "" THEN c ELSE [c EXCEPT ![op.cb] = @ + 1]
           hit == op.cb # "" /\ scn.fault.kind = op.cb /\ scn.fault.idx = c2[op.cb]
           isExit == op.ev.t = "raise"
           ev == IF op.cb \in {"keypress", "mouse_event"} THEN [op.ev EXCEPT !.w = IF Bad = "staleTop" THEN top0 ELSE top]
                 ELSE IF op.cb \in {"alarm", "pipe"} THEN [op.ev EXCEPT !.changes = ~hit]      \* a callback that raises changes nothing
                 ELSE op.ev
           swaps == op.cb # "" /\ op.cb = scn.swap /\ top = 1 /\ ~hit
       IN IF hit THEN [evs |-> acc \o <<ev, [t |-> "raise", kind |-> scn.fault.exc]>>, cnt |-> c2, raised |-> scn.fault.exc]
          ELSE IF isExit THEN [evs |-> Append(acc, ev), cnt |-> c2, raised |-> "exit"]
          ELSE RunMicro(ops, i + 1, c2, acc \o <<ev>> \o (IF swaps THEN <<[t |-> "swap", w |-> 2]>> ELSE <<>>), IF swaps THEN 2 ELSE top, top0)

StartTokens == <<[t |-> "decset", n |-> 1049, on |-> TRUE], [t |-> "decset", n |-> 1000, on |-> TRUE],
                 [t |-> "decset", n |-> 1002, on |-> TRUE], [t |-> "decset", n |-> 1006, on |-> TRUE],
                 [t |-> "decset", n |-> 25, on |-> FALSE]>>
StopTokens == <<[t |-> "decset", n |-> 1006, on |-> FALSE], [t |-> "decset", n |-> 1002, on |-> FALSE],
                [t |-> "decset", n |-> 1000, on |-> FALSE], [t |-> "si"], [t |-> "decset", n |-> 1049, on |-> FALSE],
                [t |-> "decset", n |-> 25, on |-> TRUE]>>

NoScreen == [valid |-> FALSE, gen |-> -1]
Init == /\ scn \in Scenarios
        /\ m = InitM(W, H) /\ why = "-" /\ pc = "init"
        /\ rest = Timeline(scn.events)
        /\ cnt = [c \in Callbacks |-> 0]
        /\ tty = "cooked" /\ sigs = scn.sig0 /\ steps = 0 /\ pend = "-" /\ clock = 0
        /\ scr = NoScreen /\ cols = W /\ hooks = {} /\ ran = FALSE

Emit(evs) == LET r == FoldM(m, evs, 1) IN m' = r.m /\ why' = r.why

\* the event loop's table of watched descriptors.  The wrong loop "fdZeroIsNone" tests the descriptor it looks up for truth
\* before it removes the watch: descriptor 0 is forgotten by the adapter but stays registered underneath
Unhook(hs, fd) == IF Bad = "fdZeroIsNone" /\ fd = 0 THEN hs ELSE hs \ {fd}
\* screen.start(): modes, tty, signal handlers; MainLoop.start(): the input descriptor is watched (anything left from an earlier
\* run is unhooked first)
Start == /\ pc = "init"
         /\ Emit(StartTokens)
         /\ tty' = "cbreak" /\ sigs' = "ours" /\ pc' = "idle"
         /\ scr' = NoScreen /\ hooks' = Unhook(hooks, scn.infd) \cup {scn.infd}
         /\ UNCHANGED <<scn, rest, cnt, pend, clock, cols, ran>>

\* entering_idle: render the top widget and draw it.  draw_screen returns at once when it is handed the very canvas it drew last
\* AND still knows what the terminal shows; the wrong screen "cachedCanvasOnly" looks at the canvas only, so a forced repaint
\* (ctrl-L, a new alternate buffer, a resize to the same size) of an unchanged widget paints nothing
Idle == /\ pc = "idle"
        /\ LET r == RunMicro(<<[cb |-> "render", ev |-> [t |-> "slow", d |-> 0]]>>, 1, cnt, <<>>, m.top, m.top)
               rows == Canvas(m.gen, cols)
               quick == scr.gen = m.gen /\ (scr.valid \/ Bad = "cachedCanvasOnly")
           IN /\ cnt' = r.cnt
              /\ IF r.raised # "" THEN Emit(r.evs) /\ pc' = r.raised /\ scr' = scr
                 ELSE IF Bad = "noRedraw" THEN Emit(r.evs) /\ pc' = "wait" /\ scr' = scr
                 ELSE /\ Emit(r.evs \o (IF quick THEN <<>> ELSE <<[t |-> "paint", rows |-> rows]>>) \o <<[t |-> "draw", gen |-> m.gen, rows |-> rows]>>)
                      /\ pc' = "wait" /\ scr' = [valid |-> TRUE, gen |-> m.gen]
        /\ UNCHANGED <<scn, rest, tty, sigs, pend, clock, cols, hooks, ran>>

Wait == /\ pc = "wait" /\ rest # <<>>
        /\ Emit(<<[t |-> "wait", timeout |-> Head(rest).at - clock, ready |-> <<>>, grace |-> 0], [t |-> "advance", to |-> Head(rest).at]>>)
        /\ pc' = "serve" /\ clock' = IF Head(rest).at > clock THEN Head(rest).at ELSE clock
        /\ UNCHANGED <<scn, rest, cnt, tty, sigs, pend, scr, cols, hooks, ran>>

Serve == /\ pc = "serve" /\ rest # <<>>
         /\ LET e == Head(rest)
                r == RunMicro(Micro(e), 1, cnt, <<>>, m.top, m.top)
                starts == e.kind = "esc" \/ (e.kind \in InputKinds /\ e.ph = 1)      \* this read leaves an incomplete sequence with the screen
                completes == e.kind \in InputKinds /\ e.ph = 2
                \* every read cancels the pending timer first and arms a new one if a sequence is (still) incomplete
                rest2 == IF starts THEN Arm(Tail(rest), e.at)
                         ELSE IF completes THEN (IF Bad = "staleInputTimer" THEN Tail(rest) ELSE WithoutTimer(Tail(rest)))
                         ELSE IF e.kind = "resize" /\ pend # "-" THEN Arm(Tail(rest), e.at)
                         ELSE Tail(rest)
                more == rest2 # <<>> /\ Head(rest2).at = e.at
            IN /\ Emit(r.evs) /\ cnt' = r.cnt
               /\ pc' = IF r.raised # "" THEN r.raised ELSE IF more THEN "serve" ELSE "idle"
               /\ rest' = rest2
               /\ pend' = IF starts THEN e.kind ELSE IF completes \/ e.kind = "itimer" THEN "-" ELSE pend
               \* screen.clear() and the SIGWINCH handler make the screen forget what the terminal shows
               /\ scr' = IF \E i \in 1..Len(r.evs) : r.evs[i].t \in {"clear", "arrive_resize"} THEN [scr EXCEPT !.valid = FALSE] ELSE scr
               /\ cols' = IF e.kind = "resize" THEN OtherCols ELSE cols
         /\ UNCHANGED <<scn, tty, sigs, clock, hooks, ran>>

\* signal_restore(): what was found before run() comes back.  The wrong screen "restoreDefault" puts back only what is callable
RestoredSig == IF Bad = "restoreDefault" /\ scn.sig0 # "py" THEN "dfl" ELSE scn.sig0
Final(ok, sg) == [t |-> "final", termios_same |-> ok, sigs_before |-> <<scn.sig0, scn.sig0, scn.sig0>>, sigs_after |-> <<sg, sg, sg>>, started |-> ~ok]
After == IF scn.again /\ ~ran THEN "again" ELSE "done"
\* ExitMainLoop: event_loop.run() returns, MainLoop.stop(): the input descriptor is unhooked, then screen.stop()
ExitPath == /\ pc = "exit"
            /\ Emit(<<[t |-> "run_end", outcome |-> "return", exc |-> ""]>> \o StopTokens \o <<Final(TRUE, RestoredSig)>>)
            /\ tty' = "cooked" /\ sigs' = RestoredSig /\ pc' = After
            /\ hooks' = Unhook(hooks, scn.infd)
            /\ UNCHANGED <<scn, rest, cnt, pend, clock, scr, cols, ran>>
\* any other exception: except: screen.stop(); raise.  MainLoop is still listening for "input descriptors changed", which
\* screen.stop() announces first of all: the descriptor is unhooked and hooked again -- and a loop that still has it fails there,
\* in the middle of screen.stop(), with an exception of its own
ErrorPath == /\ pc = "error"
             /\ LET left == Unhook(hooks, scn.infd)
                    twice == scn.infd \in left
                    stops == Bad # "noStopOnError" /\ ~twice
                IN /\ Emit(<<[t |-> "run_end", outcome |-> "raise", exc |-> IF twice THEN "ValueError" ELSE "VfError"]>> \o (IF stops THEN StopTokens ELSE <<>>)
                           \o <<Final(stops, IF stops THEN RestoredSig ELSE "ours")>>)
                   /\ tty' = IF stops THEN "cooked" ELSE tty
                   /\ sigs' = IF stops THEN RestoredSig ELSE sigs
                   /\ hooks' = left \cup {scn.infd}
             /\ pc' = After
             /\ UNCHANGED <<scn, rest, cnt, pend, clock, scr, cols, ran>>
\* run() is called again on the same MainLoop object: the session goes on (what was scheduled and has not happened yet still
\* happens), with an exit alarm of its own
Rerun == /\ pc = "again"
         /\ Emit(<<[t |-> "rerun"]>>)
         /\ rest' = InsertByTime(rest, Entry(clock + ExitAt, "exitalarm"))
         /\ ran' = TRUE /\ pc' = "init"
         /\ UNCHANGED <<scn, cnt, tty, sigs, pend, clock, scr, cols, hooks>>

Next == /\ why = "-" /\ steps' = steps + 1
        /\ (Start \/ Idle \/ Wait \/ Serve \/ ExitPath \/ ErrorPath \/ Rerun)
Spec == Init /\ [][Next]_vars

\* behaviour export: scenario drawn at random in the first step (see EventLoop.tla)
\* (operators with a parameter that the body uses: a constant-level expression is evaluated once per TLC run, see EventLoop.tla)
Pick(S, k) == RandomElement({x \in S : k >= 0})
RandomEvents(n, k) == [i \in 1..n |-> [at |-> Pick(Times, k), kind |-> Pick(Kinds, k), cut |-> Pick(Cuts, k), also |-> Pick(Also, k)]]
SortSeqBy(es) == SortSeq(es, LAMBDA a, b : a.at < b.at)
\* a random draw is made legal: impossible cuts / companions are dropped; if what is left is still ambiguous, the session is typed plainly
Norm(e) == [e EXCEPT !.cut = IF e.kind \in Splittable /\ @ < NBytes(e.kind) THEN @ ELSE 0, !.also = IF e.kind \in InputKinds THEN @ ELSE "-"]
PlainEv(e) == [e EXCEPT !.cut = 0, !.also = "-", !.kind = IF @ = "esc" THEN "keyU" ELSE @]
Sanitize(es) == LET n == [i \in DOMAIN es |-> Norm(es[i])] IN IF Legal(n) THEN n ELSE [i \in DOMAIN es |-> PlainEv(n[i])]
SimInit == /\ scn = [events |-> <<>>, fault |-> [kind |-> "none", idx |-> 0, exc |-> "exit"], popups |-> FALSE, swap |-> "none",
                     sig0 |-> "dfl", infd |-> 3, again |-> FALSE]
           /\ m = InitM(W, H) /\ why = "-" /\ pc = "choose" /\ rest = <<>>
           /\ cnt = [c \in Callbacks |-> 0] /\ tty = "cooked" /\ sigs = "dfl" /\ steps = 0 /\ pend = "-" /\ clock = 0
           /\ scr = NoScreen /\ cols = W /\ hooks = {} /\ ran = FALSE
Choose == /\ pc = "choose"
          \* (a session drawn with `again` and a half-typed sequence is run once: the driver drops `again`, as Scenarios does)
          /\ scn' = [events |-> Sanitize(SortSeqBy(RandomEvents(Pick(1..MaxEvents, steps), steps))), fault |-> Pick(Faults, steps),
                     popups |-> Pick(BOOLEAN, steps), swap |-> Pick(Swaps, steps), sig0 |-> Pick(Sig0, steps), infd |-> Pick(InFds, steps),
                     again |-> Pick(Again, steps)]
          /\ rest' = Timeline(scn'.events)
          /\ sigs' = scn'.sig0
          /\ pc' = "init"
          /\ UNCHANGED <<m, why, cnt, tty, steps, pend, clock, scr, cols, hooks, ran>>
SimSpec == SimInit /\ [][Choose \/ Next]_vars

MonitorAccepts == why = "-"
DoneMeansRestored == pc \in {"done", "again"} => (tty = "cooked" /\ sigs = scn.sig0 /\ m.term.curs /\ m.term.modes = {})
===============================================================================
