----------------------------- MODULE CanvasCache -----------------------------
(* C06 design model: urwid's CanvasCache (store / fetch / invalidate / cleanup with the         *)
(* dependency cascade) under every bounded history of renders, mutations, focus changes and     *)
(* garbage collection of canvases the environment no longer holds.                              *)
(*                                                                                             *)
(* The algorithm is written as the code does it (urwid/canvas.py CanvasCache and                *)
(* urwid/widget/widget.py cache_widget_render), next to the contract of CanvasCacheOps.         *)
(* Variant = "as_coded" must satisfy the invariants; every other Variant is a deliberately      *)
(* wrong design and must be refuted by TLC.                                                     *)
EXTENDS CanvasCacheOps

CONSTANTS Sizes,        \* abstract render sizes, e.g. {1, 2}
          MaxVer,       \* each widget is changed at most MaxVer times
          MaxHeld,      \* the environment holds at most MaxHeld canvases
          NoCache,      \* leaves whose canvases are never stored (no_cache render / cacheable = False)
          IgnoreFocus,  \* widgets whose class sets ignore_focus (Text): the focus flag is dropped from the key
          Layout,       \* widgets that keep LAYOUT STATE next to their content: a stored scroll offset that every sized call
                        \* resolves for its own size (ListBox.offset_rows) and a layout remembered per size (Columns._cache_maxcol /
                        \* _cache_column_widths, worked out from the focus position)
          Frozen,       \* widgets that are never changed (bounds a run: the other widgets are changed up to MaxVer times)
          Variant,      \* "as_coded", an accepted alternative design, or the name of a broken design
          MaxOps        \* > 0: behaviours of at most MaxOps actions with the history component `last` (export)

(* A canvas object is identified by what it is: c = [key |-> <<widget, size, focus>>, seen |-> stamps it shows].   *)
(* Versions only grow, so two live canvases of a cacheable widget never have the same key and the same stamps;     *)
(* (equal canvases of a never-cached widget are indistinguishable and are merged).  The child canvases a canvas    *)
(* is built from (Canvas.children / shards: strong references) are a function of the canvas, see KidsOf.           *)
(* Layout state (widgets in Layout).  What a canvas of w made at size s shows of w itself is the pair                  *)
(*   v = the version / focus position the layout was worked out from,  p = the offset actually displayed = Min(pos, s-1) *)
(*   ("force at least one line of focus to be visible": a view of s rows cannot show an offset beyond s - 1).            *)
(* A sized call is a QUESTION: as coded it resolves the stored offset in a local and leaves `pos` alone, and the        *)
(* remembered layout is dropped by every _invalidate().  Broken designs: "query_moves_layout_state" writes the          *)
(* clamped offset back without invalidating; "layout_cache_survives_invalidate" drops the remembered layout only when   *)
(* the contents list changes, not on a focus change.  Accepted alternative (what Scrollable does):                      *)
(* "clamp_stored_and_invalidated" writes the resolved offset back and calls _invalidate().                              *)
(* (pos toggles between 0 and 1, so a canvas made before two scrolls equals a canvas made after them: the model merges   *)
(* the two objects; this can only hide a cleanup difference, never produce a false alarm.)                              *)
VARIABLES ver,     \* [Widgets -> 0..MaxVer]      leaf: content version; container: number of focus changes
          pos,     \* [Widgets -> 0..1]           stored scroll offset (0 outside Layout)
          lc,      \* [Widgets -> [size, v]]      layout remembered for one size (size 0: none)
          canv,    \* set of canvases             canvas objects that exist
          cached,  \* subset of canv              CanvasCache._widgets / _refs (at most one canvas per key)
          deps,    \* [Widgets -> SUBSET Widgets] CanvasCache._deps (absent = {})
          held,    \* subset of canv              canvases the environment keeps a reference to
          stale,   \* the last action fetched a canvas that a fresh rendering would not reproduce
          nops,
          last     \* history component for behaviour export
vars == <<ver, pos, lc, canv, cached, deps, held, stale, nops, last>>

Min(a, b) == IF a < b THEN a ELSE b
NoLc == [size |-> 0, v |-> 0]
\* what a fresh rendering at size s shows of every widget, given the stored offsets p
StampOf(p, s) == [x \in Widgets |-> [v |-> ver[x], p |-> IF x \in Layout THEN Min(p[x], s - 1) ELSE 0]]
Stamp(s) == StampOf(pos, s)
FocusPos(v) == (v % 2) + 1                                 \* focus position of a container after v focus changes
Key(w, s, f) == <<w, s, f /\ w \notin IgnoreFocus>>
WidgetOf(c) == c.key[1]
HasEntry(ch, w) == \E c \in ch : WidgetOf(c) = w          \* "w in CanvasCache._widgets"
Entry(ch, k) == CHOOSE c \in ch : c.key = k
KidsOf(c) ==
  LET w == WidgetOf(c) IN
  {[key |-> Key(Kids(w)[i], c.key[2], c.key[3] /\ FocusPos(c.seen[w].v) = i),
    seen |-> [x \in Below(Kids(w)[i]) |-> c.seen[x]]] : i \in 1..Len(Kids(w))}

(* the pieces of state the cache algorithms thread through *)
St == [canv |-> canv, cached |-> cached, deps |-> deps, pos |-> pos, lc |-> lc, stale |-> FALSE, hits |-> 0, made |-> 0]

(* ---- CanvasCache.store as coded ------------------------------------------------------------ *)
Store(st, c) ==
  LET w == WidgetOf(c)
      dependsOn == {WidgetOf(j) : j \in KidsOf(c)}     \* walk_depends: the widgets of the child canvases
      registered == IF Variant = "store_ignores_uncached" THEN {d \in dependsOn : HasEntry(st.cached, d)} ELSE dependsOn
  IN IF w \in NoCache THEN st
     ELSE IF Variant # "store_ignores_uncached" /\ \E d \in dependsOn : ~HasEntry(st.cached, d)
          THEN st                                      \* "skip storing if any dependency is not itself cached"
     ELSE [st EXCEPT !.deps = IF Variant = "no_deps" THEN @
                               ELSE [d \in Widgets |-> IF d \in registered THEN @[d] \cup {w} ELSE @[d]],
                     !.cached = @ \cup {c}]

(* ---- CanvasCache.invalidate as coded ---------------------------------------------------------- *)
RECURSIVE Inval(_, _), InvalAll(_, _)
Inval(st, w) ==
  LET st1 == [st EXCEPT !.cached = {c \in @ : WidgetOf(c) # w}]
      D == st1.deps[w]
      st2 == [st1 EXCEPT !.deps[w] = {}]
  IN IF Variant = "no_cascade" THEN st2 ELSE InvalAll(st2, D)
InvalAll(st, D) ==
  IF D = {} THEN st ELSE LET d == CHOOSE x \in D : TRUE IN InvalAll(Inval(st, d), D \ {d})

(* ---- cache_widget_render as coded: fetch, else render the children, finalize, store ----------- *)
(* A widget with layout state first resolves it for this size (ListBox.calculate_visible, Columns.column_widths).       *)
RECURSIVE Rend(_, _, _, _), RendKids(_, _, _, _, _)
Rend(st, w, s, f) ==
  LET k == Key(w, s, f) IN
  IF \E c \in st.cached : c.key = k
  THEN LET c == Entry(st.cached, k) IN
       [st |-> [st EXCEPT !.stale = @ \/ ~NotStale([w |-> w, seen |-> c.seen], StampOf(st.pos, s)), !.hits = @ + 1], c |-> c]
  ELSE LET lay == w \in Layout
           shownV == IF lay /\ st.lc[w].size = s THEN st.lc[w].v ELSE ver[w]    \* "if maxcol == self._cache_maxcol: return the remembered widths"
           shownP == IF lay THEN Min(st.pos[w], s - 1) ELSE 0                   \* the clamp
           moved == lay /\ shownP # st.pos[w]
           st0 == IF moved /\ Variant = "query_moves_layout_state" THEN [st EXCEPT !.pos[w] = shownP]
                  ELSE IF moved /\ Variant = "clamp_stored_and_invalidated"
                       THEN [Inval([st EXCEPT !.pos[w] = shownP], w) EXCEPT !.lc[w] = NoLc]        \* _invalidate()
                  ELSE st
           st1 == IF lay THEN [st0 EXCEPT !.lc[w] = [size |-> s, v |-> IF @.size = s THEN @.v ELSE ver[w]]] ELSE st0
           rk == RendKids(st1, w, s, k[3], 1)
           \* the new canvas shows its own state and whatever the child canvases show
           seen == [x \in Below(w) |->
                      IF x = w THEN [v |-> shownV, p |-> shownP]
                      ELSE LET j == CHOOSE j \in rk.cs : x \in Below(WidgetOf(j)) IN j.seen[x]]
           c == [key |-> k, seen |-> seen]
       IN [st |-> Store([rk.st EXCEPT !.canv = @ \cup {c}, !.made = @ + 1], c), c |-> c]
RendKids(st, w, s, f, i) ==
  IF i > Len(Kids(w)) THEN [st |-> st, cs |-> {}]
  ELSE LET r == Rend(st, Kids(w)[i], s, f /\ FocusPos(ver[w]) = i)      \* only the focus child is rendered with focus
           rest == RendKids(r.st, w, s, f, i + 1)
       IN [st |-> rest.st, cs |-> {r.c} \cup rest.cs]

(* ---- CanvasCache.cleanup as coded: the weak reference callback of a dying canvas --------------- *)
Cleanup(st, c) ==
  IF c \notin st.cached THEN st       \* never stored, or invalidate() discarded the weak reference: no callback
  ELSE LET w == WidgetOf(c)
           cached1 == st.cached \ {c}
           lastSize == ~HasEntry(cached1, w)
       IN [st EXCEPT !.cached = cached1,
                     \* as coded: "del cls._deps[widget]" when the last size of the widget goes
                     !.deps[w] = IF lastSize \/ Variant = "cleanup_drops_deps" THEN {} ELSE @]

RECURSIVE Reach(_), CleanupAll(_, _)
Reach(S) == LET T == S \cup UNION {KidsOf(c) : c \in S} IN IF T = S THEN S ELSE Reach(T)
CleanupAll(st, D) ==
  IF D = {} THEN st ELSE LET d == CHOOSE x \in D : TRUE IN CleanupAll(Cleanup(st, d), D \ {d})
\* CPython reference counting: every canvas not reachable from a held canvas dies now
Collect(st, h) ==
  LET live == Reach(h) \cap st.canv
      dead == st.canv \ live
      st1 == CleanupAll(st, dead)
  IN [st1 EXCEPT !.canv = live]

Install(st, h) == canv' = st.canv /\ cached' = st.cached /\ deps' = st.deps /\ pos' = st.pos /\ lc' = st.lc /\ held' = h

(* ---- actions ---------------------------------------------------------------------------------- *)
NoOp == [n |-> "init", w |-> "-", s |-> 0, f |-> FALSE, keep |-> FALSE, hit |-> FALSE, hits |-> 0, made |-> 0]
Init == /\ ver = [x \in Widgets |-> 0]
        /\ pos = [x \in Widgets |-> 0] /\ lc = [x \in Widgets |-> NoLc]
        /\ canv = {} /\ cached = {} /\ deps = [w \in Widgets |-> {}]
        /\ held = {} /\ stale = FALSE /\ nops = 0 /\ last = NoOp

Count == /\ (MaxOps = 0 \/ nops < MaxOps) /\ nops' = IF MaxOps = 0 THEN 0 ELSE nops + 1
\* the history component is only kept when behaviours are exported (MaxOps > 0): it would multiply the state space
Log(rec) == last' = IF MaxOps = 0 THEN last ELSE rec

Render(w, s, f, keep) ==
  /\ Count
  /\ keep => Cardinality(held) < MaxHeld
  /\ LET r == Rend(St, w, s, f)
         h == IF keep THEN held \cup {r.c} ELSE held
     IN /\ Install(Collect(r.st, h), h)
        /\ stale' = r.st.stale
        /\ Log([NoOp EXCEPT !.n = "render", !.w = w, !.s = s, !.f = f, !.keep = keep,
                            !.hit = (\E c \in cached : c.key = Key(w, s, f)), !.hits = r.st.hits, !.made = r.st.made])
  /\ UNCHANGED ver

\* a public mutator of leaf x (new content) or container x (focus_position assignment; the contents list's
\* focus callback): changes the widget, then calls _invalidate()
Mutate(x) ==
  /\ Count
  /\ ver[x] < MaxVer /\ x \notin Frozen
  /\ ver' = [ver EXCEPT ![x] = @ + 1]
  /\ LET st1 == IF Variant = "mutator_forgets_invalidate" THEN St ELSE Inval(St, x)
         \* Columns._invalidate() also forgets the remembered layout
     IN Install(IF Variant = "layout_cache_survives_invalidate" THEN st1 ELSE [st1 EXCEPT !.lc[x] = NoLc], held)
  /\ stale' = FALSE
  /\ Log([NoOp EXCEPT !.n = "mutate", !.w = x, !.s = ver'[x]])

\* a public mutator that moves the stored scroll offset of x (set_focus_valign, set_focus with an offset, a key):
\* changes the state, then calls _invalidate()
Scroll(x) ==
  /\ Count
  /\ x \in Layout
  /\ Install([Inval([St EXCEPT !.pos[x] = 1 - @], x) EXCEPT !.lc[x] = NoLc], held)
  /\ stale' = FALSE
  /\ Log([NoOp EXCEPT !.n = "scroll", !.w = x, !.s = 1 - pos[x]])
  /\ UNCHANGED ver

\* the environment releases a canvas it held
Drop(c) ==
  /\ Count
  /\ c \in held
  /\ LET h == held \ {c} IN Install(Collect(St, h), h)
  /\ stale' = FALSE
  /\ Log([NoOp EXCEPT !.n = "drop", !.w = WidgetOf(c), !.s = c.key[2], !.f = c.key[3]])
  /\ UNCHANGED ver

Next == \/ \E w \in Widgets, s \in Sizes, f \in BOOLEAN, keep \in BOOLEAN : Render(w, s, f, keep)
        \/ \E x \in Widgets : Mutate(x)
        \/ \E x \in Layout : Scroll(x)
        \/ \E c \in held : Drop(c)
Spec == Init /\ [][Next]_vars

\* behaviour export (tlc -simulate): one weighted random action per step, so that histories mix renders of the
\* upper widgets (where staleness would show), mutations below them and releases instead of mostly leaf renders
SimNext ==
  LET c == RandomElement(1..20)
      Pick(seq) == seq[RandomElement(1..Len(seq))]
      w == Pick(<<"R", "R", "R", "R", "I", "I", "I", "A", "B", "C">>)
      s == RandomElement(Sizes)
      x == Pick(<<"A", "B", "C", "B", "C", "I", "R">>)
  IN IF c <= 4 /\ held # {} THEN Drop(RandomElement(held))
     ELSE IF c <= 11 /\ ver[x] < MaxVer THEN Mutate(x)
     ELSE Render(w, s, RandomElement(BOOLEAN), Cardinality(held) < MaxHeld /\ RandomElement(1..3) > 1)
SimSpec == Init /\ [][SimNext]_vars

(* ---- properties ------------------------------------------------------------------------------- *)
\* every fetch returned a canvas recording the current stamps of all widgets at or below it
NoStaleFetch == ~stale
\* stronger, as a state invariant: no cache entry could ever answer with an outdated canvas
NoStale == \A c \in cached : NotStale([w |-> WidgetOf(c), seen |-> c.seen], Stamp(c.key[2]))
\* sentence 2 of the property: a changed widget is visible through every ancestor's cached canvases
ChangeVisibleInv == \A x \in Widgets, s \in Sizes :
                      ChangeVisible({[w |-> WidgetOf(c), seen |-> c.seen] : c \in {d \in cached : d.key[2] = s}}, x, Stamp(s))
\* a sized call is a question: as coded no render / rows / cursor query moves the stored offset, and a remembered layout
\* is always the layout of the present focus position
LayoutSane ==
  \A x \in Widgets :
     /\ (x \notin Layout) => (pos[x] = 0 /\ lc[x] = NoLc)
     /\ (lc[x].size # 0) => (lc[x].v = ver[x])
\* weak references never dangle, one canvas per key
CacheSane == /\ cached \subseteq canv
             /\ \A c, d \in cached : c.key = d.key => c = d
\* why it works: a cached canvas of a container is registered as dependant of every widget it shows
DepsRegistered == \A c \in cached : \A j \in KidsOf(c) : WidgetOf(c) \in deps[WidgetOf(j)]
\* the store rule: a cached canvas is built only from child canvases whose widgets are cached
StoredOnlyOverCached == \A c \in cached : \A j \in KidsOf(c) : HasEntry(cached, WidgetOf(j))
\* only held canvases and what they are built from stay alive (strong references parent -> child)
OnlyLive == canv = Reach(held)
==============================================================================
