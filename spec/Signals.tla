------------------------------- MODULE Signals -------------------------------
(* C14 state machine: connect / disconnect / disconnect-by-key / emit over several        *)
(* senders and names, handlers with scripted behaviours that edit the handler list        *)
(* while an emit is in progress, weak arguments collected at any moment.                  *)
(* Mode = "snapshot": emit walks a copy of the handler list (the code after the fix:      *)
(* commit); Mode = "live": emit walks the live list by index (the code before it).        *)
EXTENDS SignalsOps

CONSTANTS NS, NN, NH, NW,   \* senders 1..NS, registered names 1..NN, handlers 1..NH, weak args 1..NW
          Behaviours,       \* set of handler behaviours explored
          MaxOps,           \* top-level operations per behaviour
          MaxConn,          \* handler-list length bound
          Mode

VARIABLES conn, alive, nextk, stack, beh, nops, last
vars == <<conn, alive, nextk, stack, beh, nops, last>>

S == 1..NS
N == 1..NN
H == 1..NH
W == 1..NW
Unregistered == NN + 1

Init == /\ conn = [p \in S \X N |-> <<>>]
        /\ alive = W
        /\ nextk = 1
        /\ stack = <<>>
        /\ beh \in [H -> Behaviours]
        /\ nops = 0
        /\ last = [op |-> "init", a |-> <<>>, verdict |-> "-"]

Idle == stack = <<>>

DoConnect(s, n, h, w, stk) ==
  /\ conn' = [conn EXCEPT ![<<s, n>>] = Append(@, Entry(nextk, h, w))]
  /\ nextk' = nextk + 1
  /\ stack' = NoteAdd(stk, nextk)

Connect(s, n, h, w) ==
  /\ Idle /\ nops < MaxOps /\ Len(conn[<<s, n>>]) < MaxConn
  /\ (w = 0 \/ w \in alive)
  /\ DoConnect(s, n, h, w, stack)
  /\ nops' = nops + 1
  /\ last' = [op |-> "connect", a |-> <<s, n, h, w, nextk>>, verdict |-> "-"]
  /\ UNCHANGED <<alive, beh>>

ConnectUnregistered(s, h) ==   \* rejected with NameError: no change
  /\ Idle /\ nops < MaxOps
  /\ nops' = nops + 1
  /\ last' = [op |-> "connect_unregistered", a |-> <<s, Unregistered, h>>, verdict |-> "-"]
  /\ UNCHANGED <<conn, alive, nextk, stack, beh>>

Disconnect(s, n, h, w) ==      \* by arguments; not connected => nothing happens
  /\ Idle /\ nops < MaxOps
  /\ LET k == FirstMatch(conn[<<s, n>>], h, w) IN
       /\ conn' = IF k = 0 THEN conn ELSE [conn EXCEPT ![<<s, n>>] = RemoveKey(@, k)]
       /\ last' = [op |-> "disconnect", a |-> <<s, n, h, w, k>>, verdict |-> "-"]
  /\ nops' = nops + 1
  /\ UNCHANGED <<alive, nextk, stack, beh>>

DisconnectByKey(s, n, k) ==
  /\ Idle /\ nops < MaxOps
  /\ conn' = [conn EXCEPT ![<<s, n>>] = RemoveKey(@, k)]
  /\ nops' = nops + 1
  /\ last' = [op |-> "disconnect_by_key", a |-> <<s, n, k>>, verdict |-> "-"]
  /\ UNCHANGED <<alive, nextk, stack, beh>>

\* weak argument w dies: every handler registered with it vanishes, everywhere
KillIn(c, w) == [p \in S \X N |-> RemoveWeak(c[p], w)]
KilledKeys(c, w) == UNION {{c[p][j].k : j \in {j \in 1..Len(c[p]) : c[p][j].w = w}} : p \in S \X N}

Collect(w) ==
  /\ w \in alive /\ nops < MaxOps
  /\ alive' = alive \ {w}
  /\ stack' = NoteDisc(stack, KilledKeys(conn, w))
  /\ conn' = KillIn(conn, w)
  /\ nops' = nops + 1
  /\ last' = [op |-> "collect", a |-> <<w>>, verdict |-> "-"]
  /\ UNCHANGED <<nextk, beh>>

EmitBegin(s, n) ==
  /\ Idle /\ nops < MaxOps
  /\ stack' = <<NewFrame(s, n, conn[<<s, n>>])>>
  /\ nops' = nops + 1
  /\ last' = [op |-> "emit", a |-> <<s, n>>, verdict |-> "-"]
  /\ UNCHANGED <<conn, alive, nextk, beh>>

Top == stack[Len(stack)]
SetTop(stk, f) == [stk EXCEPT ![Len(stk)] = f]

\* the entry the dispatch loop looks at next, per Mode
Source(f) == IF Mode = "live" THEN conn[<<f.s, f.n>>] ELSE f.snap
HasNext(f) == f.i <= Len(Source(f))

\* effect of calling the handler of entry e from frame f (f already advanced and recorded)
Effect(e, f, stk) ==
  LET b == beh[e.h]
      p == <<f.s, f.n>>
      live == conn[p]
      me == PosIn([j \in 1..Len(live) |-> live[j].k], e.k)
  IN CASE b = "discSelf" ->
            /\ conn' = [conn EXCEPT ![p] = RemoveKey(@, e.k)]
            /\ stack' = NoteDisc(stk, {e.k})
            /\ UNCHANGED <<alive, nextk>>
       [] b = "discEarlier" /\ me > 1 ->
            /\ conn' = [conn EXCEPT ![p] = RemoveKey(@, live[me - 1].k)]
            /\ stack' = NoteDisc(stk, {live[me - 1].k})
            /\ UNCHANGED <<alive, nextk>>
       [] b = "discLater" /\ me > 0 /\ me < Len(live) ->
            /\ conn' = [conn EXCEPT ![p] = RemoveKey(@, live[me + 1].k)]
            /\ stack' = NoteDisc(stk, {live[me + 1].k})
            /\ UNCHANGED <<alive, nextk>>
       [] b = "connectNew" /\ Len(live) < MaxConn ->
            /\ DoConnect(f.s, f.n, NH, 0, stk)
            /\ UNCHANGED alive
       [] b = "emitAgain" /\ Len(stk) < 2 ->
            /\ stack' = Append(stk, NewFrame(f.s, (f.n % NN) + 1, conn[<<f.s, (f.n % NN) + 1>>]))
            /\ UNCHANGED <<conn, alive, nextk>>
       [] b = "killWeak" /\ 1 \in alive ->
            /\ alive' = alive \ {1}
            /\ stack' = NoteDisc(stk, KilledKeys(conn, 1))
            /\ conn' = KillIn(conn, 1)
            /\ UNCHANGED nextk
       [] OTHER -> stack' = stk /\ UNCHANGED <<conn, alive, nextk>>

EmitStep ==
  /\ ~Idle /\ HasNext(Top)
  /\ LET f == Top
         e == Source(f)[f.i]
         dead == e.w # 0 /\ e.w \notin alive
         f1 == IF dead THEN [f EXCEPT !.i = @ + 1]
               ELSE [f EXCEPT !.i = @ + 1, !.called = Append(@, e.k), !.rets = Append(@, beh[e.h] = "true")]
     IN IF dead
        THEN /\ stack' = SetTop(stack, f1)
             /\ last' = [op |-> "skip_dead", a |-> <<e.k>>, verdict |-> "-"]
             /\ UNCHANGED <<conn, alive, nextk>>
        ELSE /\ Effect(e, f1, SetTop(stack, f1))
             /\ last' = [op |-> "call", a |-> <<e.k, e.h, e.w>>, verdict |-> "-"]
  /\ UNCHANGED <<beh, nops>>

EmitEnd ==
  /\ ~Idle /\ ~HasNext(Top)
  /\ stack' = SubSeq(stack, 1, Len(stack) - 1)
  /\ last' = [op |-> "emit_end", a |-> <<Top.s, Top.n, Top.called>>, verdict |-> FirstBroken(Top, AnyTrue(Top.rets))]
  /\ UNCHANGED <<conn, alive, nextk, beh, nops>>

Next ==
  \/ \E s \in S, n \in N, h \in H, w \in 0..NW : Connect(s, n, h, w)
  \/ \E s \in S, h \in H : ConnectUnregistered(s, h)
  \/ \E s \in S, n \in N, h \in H, w \in 0..NW : Disconnect(s, n, h, w)
  \/ \E s \in S, n \in N, k \in 1..(nextk - 1) : DisconnectByKey(s, n, k)
  \/ \E w \in W : Collect(w)
  \/ \E s \in S, n \in N : EmitBegin(s, n)
  \/ EmitStep
  \/ EmitEnd
Spec == Init /\ [][Next]_vars

(* ---- properties ---- *)
EmitContract == last.verdict = "-"
\* a handler whose weak argument is dead is not in any list (so it can never be called)
DeadWeakGone == \A p \in S \X N : \A j \in 1..Len(conn[p]) : conn[p][j].w = 0 \/ conn[p][j].w \in alive
KeysUnique == \A p, q \in S \X N : \A i \in 1..Len(conn[p]), j \in 1..Len(conn[q]) : conn[p][i].k = conn[q][j].k => (p = q /\ i = j)
\* every emit terminates: the cursor is bounded by the list it walks (MaxConn) ...
Terminates == \A j \in 1..Len(stack) : stack[j].i <= MaxConn + 2
=============================================================================
