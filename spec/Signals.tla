------------------------------- MODULE Signals -------------------------------
(* C14 state machine: connect / disconnect / disconnect-by-key / emit over several        *)
(* senders and names, handlers with scripted behaviours that edit the handler list        *)
(* while an emit is in progress, weak arguments collected at any moment.                  *)
(*                                                                                        *)
(* Connections are made with a DESCRIPTOR <<h, ws, us>>: callback, 0..MaxWA weak          *)
(* arguments, user arguments.  The user arguments are handed over as a tuple literal      *)
(* ("t"), a fresh list ("f") or THE CALLER'S OWN LIST ("c"), which the caller goes on     *)
(* changing afterwards (Mutate) and re-uses for further connects and disconnects.         *)
(* The CALLBACK <<h, r>> is a plain function (r = 0) or the method h of receiver object   *)
(* r (r in 1..NR); a bound method is handed over as an object the caller kept ("s") or    *)
(* fetched afresh with `obj.h` ("n": a new object, equal to every other `obj.h`).  The    *)
(* deprecated positional user_arg ua is 0 (None: not given) or one of the values UAs, of  *)
(* which those in Falsy are false values (0, "", False, () ...): given all the same.      *)
(* The caller keeps the keys returned by connect (held) and may let go of a sender        *)
(* (DropSender) while still holding them; a fresh sender then takes the slot, so the      *)
(* stale keys name nothing any more.                                                      *)
(*                                                                                        *)
(* Mode = "snapshot": the contract-conforming machinery (emit walks a copy of the list,   *)
(*   arguments are copied at connect time, disconnect compares whole descriptors, keys    *)
(*   reference nothing).  The other modes are deliberately wrong machineries that the     *)
(*   contract must refute (non-vacuity):                                                  *)
(*   "live"    emit walks the live list by index (the code before commit 5430f18);        *)
(*   "alias"   a list given as user arguments is stored as the caller's object;           *)
(*   "prefix"  disconnect compares the weak arguments pairwise up to the shorter length;  *)
(*   "keyref"  the key returned by connect references its sender;                         *)
(*   "strongargs" the handler entry references its weak arguments strongly;               *)
(*   "cbident" disconnect looks for the callback OBJECT it is given (identity);            *)
(*   "samefunc" disconnect compares the function of a bound method, not its receiver;     *)
(*   "truthyarg" user_arg is passed on only when it is a true value.                      *)
EXTENDS SignalsOps

CONSTANTS NS, NN, NH, NW,   \* senders 1..NS, registered names 1..NN, handlers 1..NH, weak args 1..NW
          MaxWA,            \* weak arguments per connection: 0..MaxWA
          NU,               \* distinct user tags
          UKinds,           \* subset of {"t", "f", "c"}: how user arguments are handed over
          Mem,              \* BOOLEAN: the caller drops senders (keeping or forgetting their keys)
          NR,               \* receiver objects 1..NR whose bound methods serve as callbacks (0 = plain functions only)
          CKinds,           \* subset of {"s", "n"}: a bound method is handed over as the object the caller kept / fetched afresh
          UAs,              \* values of the deprecated user_arg explored (0 = None = not given)
          Falsy,            \* those of UAs that are false values
          Behaviours,       \* set of handler behaviours explored
          MaxOps,           \* top-level operations per behaviour
          MaxConn,          \* handler-list length bound
          Mode

VARIABLES conn, alive, nextk, stack, beh, nops, last,
          clist,            \* current content of the caller's own list
          held,             \* keys the caller still holds
          mine              \* mine[s] = keys handed out for the sender currently in slot s
vars == <<conn, alive, nextk, stack, beh, nops, last, clist, held, mine>>

S == 1..NS
N == 1..NN
H == 1..NH
W == 1..NW
Unregistered == NN + 1

WSeqs(a) == {<<>>} \cup (IF MaxWA >= 1 THEN {<<x>> : x \in a} ELSE {})
                   \cup (IF MaxWA >= 2 THEN {z \in a \X a : z[1] # z[2]} ELSE {})
CL == {<<t>> : t \in 1..NU} \cup {<<t, 9>> : t \in 1..NU}          \* contents the caller's list goes through
Lit == IF "c" \in UKinds THEN CL ELSE {<<t>> : t \in 1..NU}         \* literals
UChoices == {z \in UKinds \X CL : IF z[1] = "c" THEN z[2] = clist ELSE z[2] \in Lit}

\* a plain function is always the same object; so is a bound method the caller kept ("s"); `obj.h` fetched afresh is a new object
CBChoices == {z \in (0..NR) \X CKinds : z[1] = 0 => z[2] = "s"}
ASSUME "s" \in CKinds /\ 0 \in UAs /\ Falsy \subseteq UAs \ {0}

\* co = which callback OBJECT the machinery was given: 0 = the one the caller keeps, otherwise a number no other object has
MEntry(k, h, r, co, ua, ws, uk, us) == [k |-> k, h |-> h, r |-> r, co |-> co, ua |-> ua, ws |-> ws, us |-> us, uk |-> uk]

Init == /\ conn = [p \in S \X N |-> <<>>]
        /\ alive = W
        /\ nextk = 1
        /\ stack = <<>>
        /\ beh = [h \in H |-> "unset"]      \* a handler's behaviour is fixed when it is first connected
        /\ nops = 0
        /\ last = [op |-> "init", a |-> <<>>, verdict |-> "-"]
        /\ clist = <<1>>
        /\ held = {}
        /\ mine = [s \in S |-> {}]

Idle == stack = <<>>
BehOf(h) == IF beh[h] = "unset" THEN "plain" ELSE beh[h]

DoConnect(s, n, h, r, ck, ua, ws, uk, us, stk) ==
  /\ conn' = [conn EXCEPT ![<<s, n>>] = Append(@, MEntry(nextk, h, r, IF ck = "s" THEN 0 ELSE nextk, ua, ws, uk, us))]
  /\ nextk' = nextk + 1
  /\ stack' = NoteAdd(stk, nextk)
  /\ held' = held \cup {nextk}
  /\ mine' = [mine EXCEPT ![s] = @ \cup {nextk}]

Connect(s, n, h, r, ck, ua, ws, uk, us) ==
  /\ Idle /\ nops < MaxOps /\ Len(conn[<<s, n>>]) < MaxConn
  /\ DoConnect(s, n, h, r, ck, ua, ws, uk, us, stack)
  /\ \E b \in (IF beh[h] = "unset" THEN Behaviours ELSE {beh[h]}) : beh' = [beh EXCEPT ![h] = b]
  /\ nops' = nops + 1
  /\ last' = [op |-> "connect", a |-> <<s, n, h, ws, uk, us, nextk, r, ck, ua>>, verdict |-> "-"]
  /\ UNCHANGED <<alive, clist>>

ConnectUnregistered(s, h) ==   \* rejected with NameError: no change
  /\ Idle /\ nops < MaxOps
  /\ nops' = nops + 1
  /\ last' = [op |-> "connect_unregistered", a |-> <<s, Unregistered, h>>, verdict |-> "-"]
  /\ UNCHANGED <<conn, alive, nextk, stack, beh, clist, held, mine>>

\* what the machinery has stored as user arguments of entry e, per Mode
StoredUs(e) == IF Mode = "alias" /\ e.uk = "c" THEN clist ELSE e.us
IsList(uk) == uk \in {"f", "c"}
Matches(e, h, r, ck, ua, ws, uk, us) ==
  LET cb == e.h = h /\ e.r = r /\ e.ua = ua IN
  CASE Mode = "prefix"   -> cb /\ e.us = us /\ (IsPrefix(e.ws, ws) \/ IsPrefix(ws, e.ws))
    [] Mode = "alias"    -> cb /\ e.ws = ws /\ StoredUs(e) = us /\ IsList(e.uk) = IsList(uk)
    [] Mode = "cbident"  -> cb /\ e.ws = ws /\ e.us = us /\ (ck = "s" /\ e.co = 0)     \* the very object given at connect time
    [] Mode = "samefunc" -> e.h = h /\ (e.r = 0) = (r = 0) /\ e.ua = ua /\ e.ws = ws /\ e.us = us
    [] OTHER             -> cb /\ e.ws = ws /\ e.us = us
FoundBy(seq, h, r, ck, ua, ws, uk, us) ==
  LET m == SelectSeq(seq, LAMBDA e : Matches(e, h, r, ck, ua, ws, uk, us)) IN IF m = <<>> THEN 0 ELSE m[1].k

Disconnect(s, n, h, r, ck, ua, ws, uk, us) ==      \* by arguments; not connected => nothing happens
  /\ Idle /\ nops < MaxOps
  /\ LET k == FoundBy(conn[<<s, n>>], h, r, ck, ua, ws, uk, us) IN
       /\ conn' = IF k = 0 THEN conn ELSE [conn EXCEPT ![<<s, n>>] = RemoveKey(@, k)]
       /\ last' = [op |-> "disconnect", a |-> <<s, n, h, ws, uk, us, k, r, ck, ua>>,
                   verdict |-> DisconnectVerdict(conn[<<s, n>>], k, h, r, ua, ws, us)]
  /\ nops' = nops + 1
  /\ UNCHANGED <<alive, nextk, stack, beh, clist, held, mine>>

DisconnectByKey(s, n, k) ==
  /\ Idle /\ nops < MaxOps /\ k \in held
  /\ conn' = [conn EXCEPT ![<<s, n>>] = RemoveKey(@, k)]
  /\ nops' = nops + 1
  /\ last' = [op |-> "disconnect_by_key", a |-> <<s, n, k>>, verdict |-> "-"]
  /\ UNCHANGED <<alive, nextk, stack, beh, clist, held, mine>>

\* the caller changes its own list after having passed it to connect: no connection changes
Mutate(c) ==
  /\ Idle /\ nops < MaxOps /\ "c" \in UKinds /\ c # clist
  /\ clist' = c
  /\ nops' = nops + 1
  /\ last' = [op |-> "mutate", a |-> <<c>>, verdict |-> "-"]
  /\ UNCHANGED <<conn, alive, nextk, stack, beh, held, mine>>

Top == stack[Len(stack)]
SetTop(stk, f) == [stk EXCEPT ![Len(stk)] = f]

\* the entry the dispatch loop looks at next, per Mode
Source(f) == IF Mode = "live" THEN conn[<<f.s, f.n>>] ELSE f.snap
HasNext(f) == f.i <= Len(Source(f))

\* a handler that received weak argument w is running (its frame keeps the object alive: it cannot be collected now)
HeldByRunning(stk, w) ==
  \E j \in 1..Len(stk) : LET g == stk[j]
                              src == Source(g)
                          IN g.i > 1 /\ g.i - 1 <= Len(src) /\ HasWeak(src[g.i - 1], w)

\* weak argument w dies: every handler registered with it vanishes, everywhere
KillIn(c, w) == [p \in S \X N |-> RemoveWeak(c[p], w)]
KilledKeys(c, w) == UNION {{c[p][j].k : j \in {j \in 1..Len(c[p]) : HasWeak(c[p][j], w)}} : p \in S \X N}
ConnKeys(s) == UNION {Keys(conn[<<s, n>>]) : n \in N}

\* strong references of the machinery around weak argument w (the senders themselves are held by the application)
WeakHeapVerdict(w) ==
  LET roots == {<<"C">>} \cup {<<"S", s>> : s \in S}
      E == IF Mode = "strongargs" THEN {<<<<"S", s>>, <<"W", w>>>> : s \in {s \in S : \E n \in N : \E j \in 1..Len(conn[<<s, n>>]) : HasWeak(conn[<<s, n>>][j], w)}} ELSE {}
  IN FreedVerdict(<<"W", w>>, {<<"W", w>>}, roots, E, "weak_arg")

Collect(w) ==      \* at any moment, also between two handler calls of an emit in progress
  /\ w \in alive /\ nops < MaxOps
  /\ ~HeldByRunning(SubSeq(stack, 1, Len(stack) - 1), w)
  /\ alive' = alive \ {w}
  /\ stack' = NoteDisc(stack, KilledKeys(conn, w))
  /\ conn' = KillIn(conn, w)
  /\ nops' = nops + 1
  /\ last' = [op |-> "collect", a |-> <<w>>, verdict |-> WeakHeapVerdict(w)]
  /\ UNCHANGED <<nextk, beh, clist, held, mine>>

\* the caller lets go of the sender in slot s (keeping or forgetting the keys it got for it)
SenderHeapVerdict(s, heldAfter) ==
  LET x == <<"S", s>>
      objs == {x} \cup {<<"K", k>> : k \in mine[s]}
      E == {<<<<"C">>, <<"K", k>>>> : k \in heldAfter \cap mine[s]}
           \cup {<<x, <<"K", k>>>> : k \in ConnKeys(s)}
           \cup (IF Mode = "keyref" THEN {<<<<"K", k>>, x>> : k \in mine[s]} ELSE {})
  IN FreedVerdict(x, objs, {<<"C">>}, E, "sender")

DropSender(s, keep) ==
  /\ Mem /\ Idle /\ nops < MaxOps
  /\ LET h1 == IF keep THEN held ELSE held \ mine[s] IN
       /\ held' = h1
       /\ last' = [op |-> "drop_sender", a |-> <<s, keep>>, verdict |-> SenderHeapVerdict(s, h1)]
  /\ conn' = [p \in S \X N |-> IF p[1] = s THEN <<>> ELSE conn[p]]
  /\ mine' = [mine EXCEPT ![s] = {}]
  /\ nops' = nops + 1
  /\ UNCHANGED <<alive, nextk, stack, beh, clist>>

EmitBegin(s, n) ==
  /\ Idle /\ nops < MaxOps
  /\ stack' = <<NewFrame(s, n, conn[<<s, n>>])>>
  /\ nops' = nops + 1
  /\ last' = [op |-> "emit", a |-> <<s, n>>, verdict |-> "-"]
  /\ UNCHANGED <<conn, alive, nextk, beh, clist, held, mine>>

\* effect of calling the handler of entry e from frame f (f already advanced and recorded)
Effect(e, f, stk) ==
  LET b == BehOf(e.h)
      p == <<f.s, f.n>>
      live == conn[p]
      me == PosIn([j \in 1..Len(live) |-> live[j].k], e.k)
  IN CASE b = "discSelf" ->
            /\ conn' = [conn EXCEPT ![p] = RemoveKey(@, e.k)]
            /\ stack' = NoteDisc(stk, {e.k})
            /\ UNCHANGED <<alive, nextk, beh, held, mine>>
       [] b = "discEarlier" /\ me > 1 ->
            /\ conn' = [conn EXCEPT ![p] = RemoveKey(@, live[me - 1].k)]
            /\ stack' = NoteDisc(stk, {live[me - 1].k})
            /\ UNCHANGED <<alive, nextk, beh, held, mine>>
       [] b = "discLater" /\ me > 0 /\ me < Len(live) ->
            /\ conn' = [conn EXCEPT ![p] = RemoveKey(@, live[me + 1].k)]
            /\ stack' = NoteDisc(stk, {live[me + 1].k})
            /\ UNCHANGED <<alive, nextk, beh, held, mine>>
       [] b = "connectNew" /\ Len(live) < MaxConn ->
            /\ DoConnect(f.s, f.n, NH, 0, "s", NoUA, <<>>, "t", <<1>>, stk)
            /\ beh' = IF beh[NH] = "unset" THEN [beh EXCEPT ![NH] = "plain"] ELSE beh
            /\ UNCHANGED alive
       [] b = "emitAgain" /\ Len(stk) < 2 ->
            /\ stack' = Append(stk, NewFrame(f.s, (f.n % NN) + 1, conn[<<f.s, (f.n % NN) + 1>>]))
            /\ UNCHANGED <<conn, alive, nextk, beh, held, mine>>
       [] b = "killWeak" /\ 1 \in alive /\ ~HeldByRunning(stk, 1) ->
            /\ alive' = alive \ {1}
            /\ stack' = NoteDisc(stk, KilledKeys(conn, 1))
            /\ conn' = KillIn(conn, 1)
            /\ UNCHANGED <<nextk, beh, held, mine>>
       [] OTHER -> stack' = stk /\ UNCHANGED <<conn, alive, nextk, beh, held, mine>>

EmitStep ==
  /\ ~Idle /\ HasNext(Top)
  /\ LET f == Top
         e == Source(f)[f.i]
         dead == ~WeakAlive(e, alive)
         tail == IF Mode = "truthyarg" /\ e.ua \in Falsy THEN <<>> ELSE UATail(e.ua)   \* what follows the emitted arguments
         f1 == IF dead THEN [f EXCEPT !.i = @ + 1]
               ELSE [f EXCEPT !.i = @ + 1, !.called = Append(@, e.k), !.rets = Append(@, BehOf(e.h) = "true")]
     IN IF dead
        THEN /\ stack' = SetTop(stack, f1)
             /\ last' = [op |-> "skip_dead", a |-> <<e.k>>, verdict |-> "-"]
             /\ UNCHANGED <<conn, alive, nextk, beh, held, mine>>
        ELSE /\ Effect(e, f1, SetTop(stack, f1))
             /\ last' = [op |-> "call", a |-> <<e.k, e.h, e.ws, StoredUs(e), e.r, tail>>, verdict |-> ArgsVerdict(e, e.ws, StoredUs(e), tail)]
  /\ UNCHANGED <<nops, clist>>

EmitEnd ==
  /\ ~Idle /\ ~HasNext(Top)
  /\ stack' = SubSeq(stack, 1, Len(stack) - 1)
  /\ last' = [op |-> "emit_end", a |-> <<Top.s, Top.n, Top.called>>, verdict |-> FirstBroken(Top, AnyTrue(Top.rets))]
  /\ UNCHANGED <<conn, alive, nextk, beh, nops, clist, held, mine>>

Next ==
  \/ \E s \in S, n \in N, h \in H, ws \in WSeqs(alive), u \in UChoices, c \in CBChoices, ua \in UAs :
        Connect(s, n, h, c[1], c[2], ua, ws, u[1], u[2])
  \/ \E s \in S, h \in H : ConnectUnregistered(s, h)
  \/ \E s \in S, n \in N, h \in H, ws \in WSeqs(alive), u \in UChoices, c \in CBChoices, ua \in UAs :
        Disconnect(s, n, h, c[1], c[2], ua, ws, u[1], u[2])
  \/ \E s \in S, n \in N, k \in 1..(nextk - 1) : DisconnectByKey(s, n, k)
  \/ \E c \in CL : Mutate(c)
  \/ \E w \in W : Collect(w)
  \/ \E s \in S, keep \in BOOLEAN : DropSender(s, keep)
  \/ \E s \in S, n \in N : EmitBegin(s, n)
  \/ EmitStep
  \/ EmitEnd
Spec == Init /\ [][Next]_vars

(* ---- the same machine for `tlc -simulate` (spec -> code scripts) ----                     *)
(* In simulation TLC builds EVERY successor of a state before it picks one; Connect and     *)
(* Disconnect have thousands (senders x names x callbacks x user_arg x weak sequences x     *)
(* user arguments).  SimNext draws their parameters at random instead (one successor per    *)
(* action), and every other disconnect names a connection that exists, handing its callback *)
(* and user arguments over in a randomly chosen way.  (RandomElement must see a state       *)
(* variable in its argument, or TLC evaluates it once for the whole run.)                   *)
RE(set) == RandomElement({x \in set : nops >= 0})
Rarely(n) == RE(1..n) = 1
Busy == {p \in S \X N : conn[p] # <<>>}      \* emits go where something is connected, mostly
SimConnect ==
  \E s \in {RE(S)}, n \in {RE(N)}, h \in {RE(H)}, ws \in {RE(WSeqs(alive))}, u \in {RE(UChoices)}, c \in {RE(CBChoices)}, ua \in {RE(UAs)} :
     Connect(s, n, h, c[1], c[2], IF Rarely(2) THEN ua ELSE NoUA, IF Rarely(2) THEN ws ELSE <<>>, u[1], u[2])
SimDisconnect ==
  \E hit \in {RE(BOOLEAN)} : \E p \in {RE(IF hit /\ Busy # {} THEN Busy ELSE S \X N)} :
     IF hit /\ conn[p] # <<>>
     THEN \E e \in {RE(Range(conn[p]))} :
            \E ck \in {RE({k \in CKinds : e.r = 0 => k = "s"})}, uk \in {RE({k \in UKinds : k = "c" => e.us = clist})} :
               Disconnect(p[1], p[2], e.h, e.r, ck, e.ua, e.ws, uk, e.us)
     ELSE \E h \in {RE(H)}, ws \in {RE(WSeqs(alive))}, u \in {RE(UChoices)}, c \in {RE(CBChoices)}, ua \in {RE(UAs)} :
             Disconnect(p[1], p[2], h, c[1], c[2], ua, ws, u[1], u[2])
SimNext ==
  \/ \E i \in 1..5 : SimConnect          \* (TLC picks among the successors it finds: the number of draws is the weight of an action)
  \/ Rarely(3) /\ \E s \in {RE(S)}, h \in {RE(H)} : ConnectUnregistered(s, h)
  \/ \E i \in 1..2 : SimDisconnect
  \/ \E p \in {RE(S \X N)}, k \in {RE(0..(nextk - 1))} : DisconnectByKey(p[1], p[2], k)
  \/ Rarely(2) /\ \E c \in {RE(CL)} : Mutate(c)
  \/ Rarely(2) /\ \E w \in {RE(W)} : Collect(w)
  \/ Rarely(2) /\ \E s \in {RE(S)}, keep \in {RE(BOOLEAN)} : DropSender(s, keep)
  \/ \E i \in 1..4 : \E p \in {RE(IF Busy = {} \/ Rarely(5) THEN S \X N ELSE Busy)} : EmitBegin(p[1], p[2])
  \/ EmitStep
  \/ EmitEnd
SimSpec == Init /\ [][SimNext]_vars

(* ---- properties ---- *)
\* every step keeps its sentence of the contract: finished emits (FirstBroken), the arguments of each call (ArgsVerdict),
\* disconnects by arguments (DisconnectVerdict), what is freed when the caller lets go of it (FreedVerdict)
EmitContract == last.verdict = "-"
\* a handler whose weak argument is dead is not in any list (so it can never be called)
DeadWeakGone == \A p \in S \X N : \A j \in 1..Len(conn[p]) : WeakAlive(conn[p][j], alive)
KeysUnique == \A p, q \in S \X N : \A i \in 1..Len(conn[p]), j \in 1..Len(conn[q]) : conn[p][i].k = conn[q][j].k => (p = q /\ i = j)
\* only keys handed out for the sender now in the slot are connected to it
NoStaleKeys == \A s \in S : ConnKeys(s) \subseteq mine[s]
\* every emit terminates: the cursor is bounded by the list it walks (MaxConn) ...
Terminates == \A j \in 1..Len(stack) : stack[j].i <= MaxConn + 2
=============================================================================
