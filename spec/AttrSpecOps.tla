---------------------------- MODULE AttrSpecOps ----------------------------
(* C18 contract: colour specifications of urwid.display.common.AttrSpec, written from the     *)
(* property statement and the AttrSpec documentation, NOT from the lookup tables of the code.  *)
(*                                                                                             *)
(* A colour DESCRIPTION is a structured value [k, a, b, c] (the harness renders it to text):   *)
(*   "none" (empty string) / "default"        the terminal's default colour                    *)
(*   "basic"   a = 0..15                      'black' .. 'white'                               *)
(*   "h"       a = 0..                        'h<a>'  palette entry number a                   *)
(*   "rgb3"    a,b,c = 0..15                  '#abc'  colour-cube value, one hex digit each     *)
(*   "gray"    a = 0..100                     'g<a>'  per-cent gray                            *)
(*   "grayhex" a = 0..255                     'g#aa'  8-bit gray                               *)
(*   "rgb6"    a,b,c = 0..255                 '#aabbcc' 24-bit colour                          *)
(*   "word"                                   a name that is no documented colour              *)
(*   "raw"                                    malformed text: nothing is demanded of the result *)
(* A COLOUR (what a specification stores) is [k, n, r, g, b]: "default", "basic" n, "high" n    *)
(* (entry n of the 88- or 256-colour palette), "true" r g b.                                    *)
(* Where the statement leaves freedom (ties between two equally near entries, the rounding of a *)
(* per-cent gray to 8 bits) ColourSet is the SET of acceptable results.                        *)
EXTENDS Integers, Sequences, FiniteSets

TRUEC == 16777216
Depths == {1, 16, 88, 256, TRUEC}
Abs(x) == IF x < 0 THEN 0 - x ELSE x
SeqSet(s) == {s[i] : i \in 1..Len(s)}

(* ---- xterm colour tables, by formula (256colres.pl / 88colres.pl / XTerm-col.ad) ---------- *)
Basic == << <<0, 0, 0>>, <<205, 0, 0>>, <<0, 205, 0>>, <<205, 205, 0>>, <<0, 0, 238>>, <<205, 0, 205>>, <<0, 205, 205>>,
            <<229, 229, 229>>, <<127, 127, 127>>, <<255, 0, 0>>, <<0, 255, 0>>, <<255, 255, 0>>, <<92, 92, 255>>,
            <<255, 0, 255>>, <<0, 255, 255>>, <<255, 255, 255>> >>
CubeSize(P) == IF P = 88 THEN 4 ELSE 6
GraySize(P) == IF P = 88 THEN 8 ELSE 24
CubeStart == 16
GrayStart(P) == CubeStart + CubeSize(P) * CubeSize(P) * CubeSize(P)
CubeBlack == CubeStart
CubeWhite(P) == GrayStart(P) - 1
\* 256: 0, 95, 135, 175, 215, 255 (0 then 55+40i);  88: 0, 0x8b, 0xcd, 0xff
CubeStep(P, i) == IF P = 88 THEN (CASE i = 0 -> 0 [] i = 1 -> 139 [] i = 2 -> 205 [] OTHER -> 255)
                  ELSE IF i = 0 THEN 0 ELSE 55 + 40 * i
\* 256: 8 + 10 i (i = 0..23);  88: int(23.18 i + 46.36 (+ 23.18 when i > 0)) = ((i=0 ? 2 : i+3) * 255) div 11
GrayStep(P, i) == IF P = 88 THEN ((IF i = 0 THEN 2 ELSE i + 3) * 255) \div 11 ELSE 8 + 10 * i
CubeEntry(P, ri, gi, bi) == CubeStart + (ri * CubeSize(P) + gi) * CubeSize(P) + bi

\* RGB components of entry n of the P-colour palette (P = 88 or 256)
RGBf(P, n) ==
  IF n < CubeStart THEN Basic[n + 1]
  ELSE IF n < GrayStart(P)
       THEN LET m == n - CubeStart  S == CubeSize(P)
            IN <<CubeStep(P, m \div (S * S)), CubeStep(P, (m \div S) % S), CubeStep(P, m % S)>>
       ELSE LET v == GrayStep(P, n - GrayStart(P)) IN <<v, v, v>>

\* the two palettes as tables (constant definitions: TLC evaluates them once)
Pal256 == [n \in 0..255 |-> RGBf(256, n)]
Pal88 == [n \in 0..87 |-> RGBf(88, n)]
RGB(P, n) == IF P = 88 THEN Pal88[n] ELSE Pal256[n]
Pal256Set == {Pal256[n] : n \in 0..255}

(* ---- nearest entries ----------------------------------------------------------------------- *)
NearCubeF(P, v) == {i \in 0..CubeSize(P) - 1 : \A j \in 0..CubeSize(P) - 1 : Abs(v - CubeStep(P, i)) <= Abs(v - CubeStep(P, j))}
\* the gray scale a gray value may use: cube black, the gray ramp, cube white (documented: "g0 ... g100 -> 16, 232..255, 231")
GScaleVal(P, j) == IF j = 0 THEN 0 ELSE IF j = GraySize(P) + 1 THEN 255 ELSE GrayStep(P, j - 1)
GScaleEntry(P, j) == IF j = 0 THEN CubeBlack ELSE IF j = GraySize(P) + 1 THEN CubeWhite(P) ELSE GrayStart(P) + j - 1
NearGrayF(P, v) == {i \in 0..GraySize(P) + 1 : \A j \in 0..GraySize(P) + 1 : Abs(v - GScaleVal(P, i)) <= Abs(v - GScaleVal(P, j))}
\* tabulated over 0..255 (constant definitions: TLC evaluates each table once)
NearCube256 == [v \in 0..255 |-> NearCubeF(256, v)]
NearCube88 == [v \in 0..255 |-> NearCubeF(88, v)]
NearGray256 == [v \in 0..255 |-> NearGrayF(256, v)]
NearGray88 == [v \in 0..255 |-> NearGrayF(88, v)]
NearCube(P, v) == IF P = 88 THEN NearCube88[v] ELSE NearCube256[v]
NearGray(P, v) == IF P = 88 THEN NearGray88[v] ELSE NearGray256[v]
IsCubeStep(P, v) == \E i \in 0..CubeSize(P) - 1 : CubeStep(P, i) = v
\* a 24-bit channel at a palette depth ("map to the nearest entry of the 256- or 88-colour palette"): an exact cube step keeps
\* its index; otherwise the nearest cube step of the 8-bit value, or of the value cut to its leading hex digit (the '#rgb' value
\* 17 * (v div 16): urwid reads '#rrggbb' at a palette depth as the '#rgb' of the leading digits).  Nothing else: in particular
\* not a colour snapped to one cube first and to the other cube afterwards.
Chan6(P, v) == IF IsCubeStep(P, v) THEN {i \in 0..CubeSize(P) - 1 : CubeStep(P, i) = v}
               ELSE NearCube(P, v) \cup NearCube(P, 17 * (v \div 16))
\* 8-bit value(s) of a per-cent gray: p * 255 / 100 rounded either way
PctVals(p) == {(p * 255) \div 100, (p * 255 + 99) \div 100}

\* acceptable palette entries for description d in the P-colour palette
Entries(P, d) ==
  CASE d.k = "h" -> IF d.a < P THEN {d.a} ELSE {}
    [] d.k = "rgb3" -> {CubeEntry(P, x[1], x[2], x[3]) : x \in NearCube(P, 17 * d.a) \X NearCube(P, 17 * d.b) \X NearCube(P, 17 * d.c)}
    [] d.k = "grayhex" -> {GScaleEntry(P, j) : j \in NearGray(P, d.a)}
    [] d.k = "gray" -> {GScaleEntry(P, j) : j \in UNION {NearGray(P, v) : v \in PctVals(d.a)}}
    [] d.k = "rgb6" -> {CubeEntry(P, x[1], x[2], x[3]) : x \in Chan6(P, d.a) \X Chan6(P, d.b) \X Chan6(P, d.c)}
    [] OTHER -> {}
\* beyond the statement (reported as DIVERGENCE only): a 24-bit colour at a palette depth goes to the nearest cube entry
Rgb6Nearest(P, d) == {CubeEntry(P, x[1], x[2], x[3]) : x \in NearCube(P, d.a) \X NearCube(P, d.b) \X NearCube(P, d.c)}

(* ---- colours -------------------------------------------------------------------------------- *)
Col(k, n, t) == [k |-> k, n |-> n, r |-> t[1], g |-> t[2], b |-> t[3]]
Default == Col("default", 0, <<0, 0, 0>>)
BasicC(i) == Col("basic", i, <<0, 0, 0>>)
High(n) == Col("high", n, <<0, 0, 0>>)
TrueCol(t) == Col("true", 0, t)
D(k, a, b, c) == [k |-> k, a |-> a, b |-> b, c |-> c]

\* Parse: the colours a valid description may denote at a depth; {} = the description must be rejected
ColourSet(depth, d) ==
  IF d.k \in {"default", "none"} THEN {Default}
  ELSE IF d.k = "basic" THEN (IF depth >= 16 THEN {BasicC(d.a)} ELSE {})
  ELSE IF d.k \notin {"h", "rgb3", "gray", "grayhex", "rgb6"} THEN {}
  ELSE IF depth <= 16 THEN {}
  ELSE IF depth = TRUEC THEN (IF d.k = "rgb6" THEN {TrueCol(<<d.a, d.b, d.c>>)} ELSE {TrueCol(RGB(256, n)) : n \in Entries(256, d)})
  ELSE {High(n) : n \in Entries(depth, d)}
\* which descriptions a depth accepts at all (AttrSpec.tla checks: Expressible <=> ColourSet # {})
Expressible(depth, d) ==
  CASE d.k \in {"default", "none"} -> TRUE
    [] d.k = "basic" -> depth >= 16
    [] d.k = "h" -> depth > 16 /\ d.a < (IF depth = 88 THEN 88 ELSE 256)
    [] d.k \in {"rgb3", "gray", "grayhex", "rgb6"} -> depth > 16
    [] OTHER -> FALSE
\* reference parser: ties resolved upwards
RefParse(depth, d) == LET S == ColourSet(depth, d) IN CHOOSE c \in S : \A c2 \in S : c2.n <= c.n

\* the description is an exact palette value (its result is fixed: "exact palette values preserved")
IsExact(P, d) ==
  CASE d.k = "h" -> TRUE
    [] d.k = "rgb3" -> IsCubeStep(P, 17 * d.a) /\ IsCubeStep(P, 17 * d.b) /\ IsCubeStep(P, 17 * d.c)
    [] d.k = "grayhex" -> \E j \in 0..GraySize(P) + 1 : GScaleVal(P, j) = d.a
    [] d.k = "gray" -> d.a \in {0, 100}
    [] d.k = "rgb6" -> TRUE
    [] OTHER -> TRUE

\* Describe: reference normal form of a colour (one hex digit per cube coordinate, per-cent for grays)
Round(num, den) == (2 * num + den) \div (2 * den)
Describe(depth, c) ==
  CASE c.k = "default" -> D("default", 0, 0, 0)
    [] c.k = "basic" -> D("basic", c.n, 0, 0)
    [] c.k = "true" -> D("rgb6", c.r, c.g, c.b)
    [] OTHER -> IF c.n < CubeStart THEN D("h", c.n, 0, 0)
                ELSE IF c.n < GrayStart(depth)
                     THEN LET t == RGB(depth, c.n) IN D("rgb3", Round(t[1] * 15, 255), Round(t[2] * 15, 255), Round(t[3] * 15, 255))
                     ELSE D("gray", Round(GrayStep(depth, c.n - GrayStart(depth)) * 100, 255), 0, 0)

\* RGB components reported for a stored colour: <<>> for default, the xterm tables otherwise
ColourRGB(depth, c) ==
  CASE c.k = "default" -> <<>>
    [] c.k = "basic" -> Basic[c.n + 1]
    [] c.k = "true" -> <<c.r, c.g, c.b>>
    [] OTHER -> RGB(IF depth = 88 THEN 88 ELSE 256, c.n)
InPalette256(t) == t \in Pal256Set

(* ---- smallest depth ------------------------------------------------------------------------- *)
\* by the kinds of colour used: nothing but settings 1, basic names 16, palette entries the palette, 24-bit 2^24
SemDepth(depth, fc, bc) ==
  IF "true" \in {fc.k, bc.k} THEN TRUEC
  ELSE IF "high" \in {fc.k, bc.k} THEN (IF depth = 88 THEN 88 ELSE 256)
  ELSE IF "basic" \in {fc.k, bc.k} THEN 16
  ELSE 1
\* reading 2: an 88-colour / 24-bit specification is a different object from the same text at another depth, so the
\* smallest depth at which an EQUAL specification can be built is its own mode
ModeDepth(depth, fc, bc) == IF depth \in {88, TRUEC} THEN depth ELSE SemDepth(depth, fc, bc)
=============================================================================
