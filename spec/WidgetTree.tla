----------------------------- MODULE WidgetTree -----------------------------
(* C01 / C09 generator model.  A builder state machine over a stack of finished terms:        *)
(*   Leaf(t)              push a leaf term                                                     *)
(*   Wrap(d, o)           replace the top of the stack by decoration d(o) around it            *)
(*   Compose(K, k, o)     replace the top k terms by container K(o) with those children        *)
(* Every action is guarded by WellFormed (the composition contract of WidgetTreeOps), so TLC   *)
(* ENUMERATES exactly the well-formed terms within the bounds: exhaustively with -dump (every  *)
(* state whose stack holds one term is one generated configuration), randomly with -simulate   *)
(* for deeper terms.  The invariants are the type-correctness laws of the sizing calculus.     *)
EXTENDS WidgetTreeOps, TLC

CONSTANTS Profile,      \* "full" | "rep" | "tiny" | "wt" (wide item-option alphabets of Pile / Columns, everything else tiny)
                        \* | "min" (tiny with one way of sharing the columns: shapes matter, not options)
                        \* | "pad" (Padding: every way of deriving the total width from the width of the child, see the "pad" family)
          LeafSet,      \* "full" | "rep" | "tiny" | "probe" | "wt" | "shards" | "widths": which leaves may be pushed
          MaxDepth,     \* bound on the depth of the finished term
          MaxKids,      \* bound on the number of children of a container
          SibDepth,     \* all stack entries except one must have depth <= SibDepth (exhaustive runs: 0)
          MaxNodes,     \* bound on the number of nodes of a term
          Sim,          \* TRUE: options are drawn with RandomElement (for -simulate)
          Kinds         \* "all" | "geom" (the decorations / containers C09 quantifies over) | "scroll" (ScrollBar stacks)
                        \* | "wt" (Pile / Columns only: the space-sharing options, see Profile "wt")
                        \* | "shards" (stackers over clippers over rows of unequal cells: canvases cut through and stacked again)
                        \* | "pad" (Padding only)

VARIABLES stack, lastop
vars == <<stack, lastop>>

\* Sim: one random element per evaluation.  The filter mentions the state on purpose: TLC evaluates a constant-level
\* RandomElement(S) ONCE per run (constant folding), which would give every step of a simulation the same leaf / kind.
Pick(S) == IF Sim /\ S # {} THEN {RandomElement({x \in S : Len(stack) >= 0})} ELSE S
T(k, o, c) == Mk(k, o, c)

(* ---- leaf alphabets ----------------------------------------------------------------------- *)
Wraps == {"space", "any", "clip", "ellipsis"}
Aligns == {"left", "center", "right"}
TextIdsFull == {"empty", "a", "ab", "ascii", "long", "nl", "nlw", "nlwb", "nlz", "sp", "cjk", "cjk1", "acjk", "comb", "comb0", "dec", "mixed", "mk1", "mk2"}
TextLeavesFull == {T("Text", <<x, w, a, b>>, <<>>) : x \in TextIdsFull, w \in Wraps, a \in Aligns, b \in {0, 1}}
EditLeavesFull == {T("Edit", <<cap, x, ml, pos, a, w>>, <<>>) :
                     cap \in {"empty", "ab", "cjk1"}, x \in {"empty", "ascii", "nl", "acjk", "comb", "long"}, ml \in {0, 1},
                     pos \in {"start", "mid", "end"}, a \in {"left", "right"}, w \in {"space", "any", "clip"}}
WimpLeavesFull == {T("Button", <<x>>, <<>>) : x \in {"empty", "ab", "ascii", "cjk", "comb", "nl"}}
                  \cup {T(k, <<x, s>>, <<>>) : k \in {"CheckBox", "RadioButton"}, x \in {"empty", "ab", "cjk", "long", "mixed"}, s \in {0, 1}}
                  \cup {T("SelectableIcon", <<x, p>>, <<>>) : x \in {"empty", "ab", "cjk", "nl", "nlw", "comb"}, p \in {0, 1, 3}}
MiscLeavesFull == {T("Divider", <<ch, tp, bt>>, <<>>) : ch \in {"sp", "dash", "line"}, tp \in {0, 1}, bt \in {0, 2}}
                  \cup {T("SolidFill", <<ch>>, <<>>) : ch \in {"sp", "dash", "line"}}
                  \cup {T("BigText", <<x, f>>, <<>>) : x \in {"1", "12", "0:9"}, f \in {"thin3", "half54", "thin43"}}
                  \cup {T("ProgressBar", <<cur, s>>, <<>>) : cur \in {0, 37, 50, 99, 100}, s \in {0, 1}}
                  \cup {T("BarGraph", <<n, top, s, hl>>, <<>>) : n \in {1, 3}, top \in {3, 5}, s \in {0, 1}, hl \in {0, 1}}
ProbeLeaves == {T("Probe", <<1, "box", 1, 1, 1, "all">>, <<>>), T("Probe", <<2, "flow", 3, 2, 1, "even">>, <<>>),
                T("Probe", <<3, "fixed", 3, 2, 1, "norow0">>, <<>>), T("Probe", <<4, "flow", 1, 1, 0, "all">>, <<>>),
                T("Probe", <<5, "box", 1, 1, 0, "all">>, <<>>), T("Probe", <<6, "fixed", 2, 1, 1, "all">>, <<>>),
                T("Probe", <<7, "flow", 2, 3, 1, "all">>, <<>>)}
\* TEdit: <<id, caption, text, multiline, cursor, wrap>>.  The last two are the layouts in which the VIEW follows the cursor: a text that
\* fills its line exactly (2 columns: a ("given", 2) column, the width pack() asks for) with the cursor behind it, and a clipped
\* line longer than most widths it is given
RealCursorLeaves == {T("TEdit", <<8, "ab", "ascii", 0, "mid", "space">>, <<>>), T("TEdit", <<9, "empty", "nl", 1, "end", "space">>, <<>>),
                     T("TIcon", <<10, "ab", 1>>, <<>>),
                     T("TEdit", <<11, "empty", "ab", 0, "end", "space">>, <<>>), T("TEdit", <<12, "empty", "ascii", 0, "end", "clip">>, <<>>)}
LeavesFull == TextLeavesFull \cup EditLeavesFull \cup WimpLeavesFull \cup MiscLeavesFull \cup ProbeLeaves
LeavesRep == {T("Text", <<"ascii", "space", "left", 0>>, <<>>), T("Text", <<"cjk", "any", "center", 0>>, <<>>),
              T("Text", <<"nl", "clip", "right", 1>>, <<>>), T("Text", <<"acjk", "ellipsis", "left", 0>>, <<>>),
              T("Text", <<"dec", "space", "left", 0>>, <<>>), T("Text", <<"empty", "space", "left", 0>>, <<>>),
              T("Edit", <<"ab", "ascii", 0, "end", "left", "space">>, <<>>), T("Edit", <<"empty", "nl", 1, "mid", "left", "clip">>, <<>>),
              T("Button", <<"ab">>, <<>>), T("CheckBox", <<"cjk", 1>>, <<>>), T("SelectableIcon", <<"ab", 1>>, <<>>),
              T("Divider", <<"dash", 0, 1>>, <<>>), T("SolidFill", <<"line">>, <<>>), T("BigText", <<"12", "thin3">>, <<>>),
              T("ProgressBar", <<37, 0>>, <<>>), T("BarGraph", <<3, 5, 0, 1>>, <<>>),
              T("Probe", <<1, "box", 1, 1, 1, "all">>, <<>>), T("Probe", <<2, "flow", 3, 2, 1, "even">>, <<>>),
              T("Probe", <<3, "fixed", 3, 2, 1, "norow0">>, <<>>)}
LeavesTiny == {T("Text", <<"ascii", "space", "left", 0>>, <<>>), T("Text", <<"cjk", "any", "center", 0>>, <<>>),
               T("Text", <<"nlw", "space", "left", 0>>, <<>>),
               T("Edit", <<"ab", "ascii", 0, "end", "left", "space">>, <<>>), T("SolidFill", <<"line">>, <<>>),
               T("BigText", <<"12", "thin3">>, <<>>), T("Probe", <<2, "flow", 3, 2, 1, "even">>, <<>>)}
\* "wt": one leaf per sizing (flow+fixed, box); the sharing rules of Pile / Columns do not look inside the leaf
LeavesWt == {T("Text", <<"ascii", "space", "left", 0>>, <<>>), T("SolidFill", <<"line">>, <<>>)}
\* "shards": cells of different heights (one line, three lines; simulation adds a divider with a blank row above and below and a three-line Edit) and a box cell
LeavesShards == {T("Text", <<"a", "space", "left", 0>>, <<>>), T("Text", <<"nl", "clip", "left", 0>>, <<>>), T("SolidFill", <<"line">>, <<>>)}
                \cup (IF Sim THEN {T("Divider", <<"dash", 1, 1>>, <<>>), T("Edit", <<"empty", "nl", 1, "end", "left", "clip">>, <<>>)} ELSE {})
\* "widths": fixed-capable leaves of as many different widths as the text alphabet has (0, 1, 2, 4, 5, 6, 7, 8, 10, 11, 30 columns ...):
\* a widget that derives its own size from its child's (Padding with a relative width used as a FIXED widget) computes with them
LeavesWidths == {T("Text", <<x, "space", "left", 0>>, <<>>) : x \in TextIdsFull}
                \cup {T("BigText", <<x, "thin3">>, <<>>) : x \in {"1", "12"}}
                \cup {T("Button", <<"ab">>, <<>>), T("CheckBox", <<"cjk", 1>>, <<>>), T("SelectableIcon", <<"nlw", 1>>, <<>>),
                      T("Probe", <<3, "fixed", 3, 2, 1, "norow0">>, <<>>), T("Probe", <<6, "fixed", 2, 1, 1, "all">>, <<>>)}
\* "progress": every percentage with and without the smoothing attribute.  The bar is drawn from three attribute runs (completed part,
\* partial-block glyph, rest) whose lengths depend on where the percentage falls in the width: each boundary case (glyph in the first,
\* last and second-to-last column, an empty completed part, a one-column rest) is reached by some percentage at some width
LeavesProgress == {T("ProgressBar", <<cur, s>>, <<>>) : cur \in 0..100, s \in {0, 1}}
Leaves == CASE LeafSet = "full" -> LeavesFull
            [] LeafSet = "widths" -> LeavesWidths
            [] LeafSet = "rep" -> LeavesRep
            [] LeafSet = "tiny" -> LeavesTiny
            [] LeafSet = "wt" -> LeavesWt
            [] LeafSet = "shards" -> LeavesShards
            [] LeafSet = "probe" -> ProbeLeaves \cup RealCursorLeaves
            [] LeafSet = "progress" -> LeavesProgress

(* ---- decoration option alphabets ---------------------------------------------------------- *)
HAligns == {"left", "center", "right", "rel30"}
VAligns == {"top", "middle", "bottom", "rel30"}
PaddingOpts ==
  CASE Profile = "full" -> {<<a, w, mw, l, r>> : a \in HAligns, w \in {"rel100", "rel60", "pack", "clip", "g3", "g1"},
                                                mw \in {0, 2}, l \in {0, 1, 2}, r \in {0, 1}}
    \* the "pad" family: total width = child width * 100 / percentage, a fraction for most pairs and exactly k + 1/2 for some
    \* (80 %: 2, 6, 10 columns; 40 %: 1, 3, 5 ...; 8 %: every odd width), with and without a minimum and fixed margins
    [] Profile = "pad" -> {<<a, w, mw, l, r>> : a \in {"left"}, w \in {"rel100", "rel80", "rel60", "rel40", "rel30", "rel8", "pack"},
                                               mw \in {0, 2}, l \in {0, 1}, r \in {0, 1}}
    [] Profile = "rep" -> {<<"left", "rel100", 0, 1, 1>>, <<"center", "rel60", 0, 0, 0>>, <<"right", "pack", 0, 0, 1>>,
                           <<"rel30", "g3", 0, 1, 0>>, <<"right", "clip", 0, 0, 0>>, <<"center", "pack", 2, 2, 0>>,
                           <<"left", "g1", 2, 0, 0>>, <<"right", "rel60", 2, 0, 2>>}
    [] OTHER -> {<<"center", "rel60", 0, 1, 0>>, <<"right", "pack", 0, 0, 1>>, <<"left", "g3", 0, 0, 0>>}
FillerOpts ==
  CASE Profile = "full" -> {<<a, h, mh, tp, bt>> : a \in VAligns, h \in {"pack", "g2", "rel60", "rel100"}, mh \in {0, 2},
                                                   tp \in {0, 1}, bt \in {0, 1}}
    [] Profile = "rep" -> {<<"top", "pack", 0, 0, 0>>, <<"middle", "pack", 0, 1, 0>>, <<"bottom", "g2", 0, 0, 1>>,
                           <<"rel30", "rel60", 2, 0, 0>>, <<"middle", "rel100", 0, 1, 1>>, <<"bottom", "pack", 0, 0, 0>>}
    [] OTHER -> {<<"middle", "pack", 0, 0, 0>>, <<"top", "g2", 0, 1, 0>>, <<"bottom", "rel60", 0, 0, 0>>}
LineBoxOpts ==
  CASE Profile = "full" -> {<<x, a, s>> : x \in {"empty", "a", "cjk1"}, a \in Aligns, s \in {"all", "notop", "noleft", "nobr", "none", "ascii"}}
    [] Profile = "rep" -> {<<"empty", "center", "all">>, <<"a", "left", "all">>, <<"cjk1", "right", "noleft">>,
                           <<"empty", "center", "notop">>, <<"a", "center", "ascii">>, <<"empty", "center", "nobr">>}
    [] OTHER -> {<<"empty", "center", "all">>, <<"a", "left", "notop">>}
DecoOpts(d) ==
  CASE d = "Padding" -> PaddingOpts
    [] d = "Filler" -> FillerOpts
    [] d = "LineBox" -> LineBoxOpts
    [] d = "AttrMap" -> IF Profile = "tiny" THEN {<<1>>} ELSE {<<0>>, <<1>>}
    [] d = "BoxAdapter" -> IF Profile = "tiny" THEN {<<2>>} ELSE {<<1>>, <<2>>, <<3>>}
    [] d \in {"WidgetDisable", "WidgetPlaceholder"} -> {<<>>}
    [] d = "Scrollable" -> IF Profile = "tiny" THEN {<<1>>} ELSE {<<0>>, <<1>>, <<2>>}
    [] d = "ScrollBar" -> IF Profile = "tiny" THEN {<<"right", 1>>} ELSE {<<"left", 1>>, <<"right", 1>>, <<"right", 2>>}

(* ---- container option alphabets ----------------------------------------------------------- *)
\* ("weight", 0): the item takes no share of the rows that are divided; unequal weights in both orders
PileItemOpts == CASE Profile = "full" -> {<<"pack", 0>>, <<"given", 1>>, <<"given", 2>>, <<"weight", 0>>, <<"weight", 1>>, <<"weight", 2>>, <<"weight", 5>>}
                  [] Profile = "wt" -> {<<"pack", 0>>, <<"given", 1>>, <<"weight", 0>>, <<"weight", 1>>, <<"weight", 3>>}
                  [] Profile = "rep" -> {<<"pack", 0>>, <<"given", 2>>, <<"weight", 1>>, <<"weight", 2>>}
                  [] OTHER -> {<<"pack", 0>>, <<"given", 2>>, <<"weight", 1>>}
ColItemOpts == CASE Profile = "full" -> {<<"pack", 0, 0>>, <<"given", 2, 0>>, <<"given", 3, 1>>, <<"weight", 0, 0>>,
                                         <<"weight", 1, 0>>, <<"weight", 2, 0>>, <<"weight", 1, 1>>, <<"weight", 5, 0>>, <<"weight", 9, 0>>}
                 [] Profile = "wt" -> {<<"pack", 0, 0>>, <<"given", 2, 0>>, <<"weight", 0, 0>>, <<"weight", 1, 0>>, <<"weight", 2, 0>>,
                                       <<"weight", 5, 0>>, <<"weight", 1, 1>>}
                 [] Profile = "min" -> {<<"weight", 1, 0>>}
                 [] Profile = "rep" -> {<<"pack", 0, 0>>, <<"given", 2, 0>>, <<"weight", 1, 0>>, <<"weight", 2, 1>>}
                 [] OTHER -> {<<"pack", 0, 0>>, <<"given", 2, 0>>, <<"weight", 1, 0>>, <<"weight", 1, 1>>}
Focuses(k) == IF Profile # "full" THEN {-1} ELSE {-1} \cup (IF k > 1 THEN {k - 1} ELSE {})
ContOpts(K, k) ==
  CASE K = "Pile" -> {<<f, io>> : f \in Focuses(k), io \in [1..k -> PileItemOpts]}
    [] K = "Columns" -> {<<dc, mw, f, io>> : dc \in (CASE Profile = "tiny" -> (IF Kinds = "geom" THEN {0, 1} ELSE {1}) [] Profile = "min" -> {1} [] Profile = "rep" -> {0, 1} [] OTHER -> {0, 1, 2}), mw \in (IF Profile \in {"full", "wt"} THEN {1, 2, 3} ELSE {1}),
                                             f \in Focuses(k), io \in [1..k -> ColItemOpts]}
    [] K = "Frame" -> {<<h, f, fp>> \in {0, 1} \X {0, 1} \X {"body", "header", "footer"} :
                         /\ 1 + h + f = k /\ (fp = "header" => h = 1) /\ (fp = "footer" => f = 1) /\ (Profile = "tiny" => fp = "body")}
    [] K = "Overlay" -> IF k # 2 THEN {}
                        ELSE CASE Profile = "full" -> {<<a, w, va, h, mw, mh, l, r, tp, bt>> :
                                     a \in {"left", "center", "rel30"}, w \in {"pack", "g3", "rel60"}, va \in {"top", "middle", "bottom"},
                                     h \in {"pack", "g2", "rel60"}, mw \in {0, 2}, mh \in {0, 2}, l \in {0, 1}, r \in {0, 1}, tp \in {0, 1}, bt \in {0}}
                               [] Profile = "rep" -> {<<"center", "rel60", "middle", "rel60", 0, 0, 0, 0, 0, 0>>, <<"left", "g3", "top", "pack", 0, 0, 1, 0, 0, 0>>,
                                                      <<"rel30", "pack", "bottom", "pack", 0, 0, 0, 1, 1, 0>>, <<"center", "g3", "middle", "g2", 0, 0, 0, 0, 0, 0>>,
                                                      <<"right", "rel60", "bottom", "g2", 2, 0, 0, 0, 0, 1>>, <<"left", "rel60", "top", "rel60", 2, 2, 1, 1, 1, 1>>}
                               [] OTHER -> {<<"center", "rel60", "middle", "rel60", 0, 0, 0, 0, 0, 0>>, <<"left", "g3", "top", "pack", 0, 0, 1, 0, 0, 0>>}
    [] K = "GridFlow" -> {<<cw, hs, vs, a, f>> : cw \in (CASE Profile = "tiny" -> {3} [] Profile = "rep" -> {1, 3} [] OTHER -> {1, 3, 4}), hs \in (CASE Profile = "tiny" -> {1} [] Profile = "rep" -> {0, 1} [] OTHER -> {0, 1, 2}),
                                                 vs \in (IF Profile = "full" THEN {0, 1} ELSE {0}), a \in (CASE Profile = "tiny" -> {"left"} [] Profile = "rep" -> {"left", "center"} [] OTHER -> Aligns), f \in Focuses(k)}
    [] K = "ListBox" -> {<<f>> : f \in Focuses(k)}

DecoUsed == CASE Kinds = "geom" -> {"Padding", "Filler", "LineBox", "AttrMap", "BoxAdapter"}
              [] Kinds = "scroll" -> {"Scrollable", "ScrollBar"}
              [] Kinds = "wt" -> {}
              [] Kinds = "pad" -> {"Padding"}
              [] Kinds = "shards" -> {"Filler", "BoxAdapter"}                    \* the decorations that cut a canvas at the bottom
              [] OTHER -> DecoKinds
ContUsed == CASE Kinds = "scroll" -> {"ListBox"}
              [] Kinds = "wt" -> {"Pile", "Columns"}
              [] Kinds = "pad" -> {}
              [] Kinds = "shards" -> {"Pile", "Columns", "ListBox", "Frame", "Overlay"}
              [] OTHER -> ContKinds
\* the number of children of a Frame is fixed by its options (body, header?, footer?), not by the bound on list-like containers
Arity(K) == IF K = "Frame" /\ MaxKids >= 2 THEN 3 ELSE MaxKids

(* ---- the "wt" family: sharing the width among weighted columns ---------------------------- *)
(* Reference share-out for a Columns whose columns are all WEIGHT columns that fit: the columns  *)
(* left after the dividers are divided in proportion to the weights, each share rounded and      *)
(* raised to min_width, the LIGHTEST column first, so that the columns raised to min_width are   *)
(* served before the heavy ones take what is left.  ShareOut(.., FALSE) is the deliberately      *)
(* wrong variant that serves the columns in column order: a heavy column in front rounds up to   *)
(* everything that is left and the light ones behind it are still raised to min_width.           *)
Round(a, b) == (2 * a + b) \div (2 * b)                  \* a / b rounded half up
RECURSIVE SumOver(_, _)
SumOver(f, S) == IF S = {} THEN 0 ELSE LET i == CHOOSE j \in S : TRUE IN f[i] + SumOver(f, S \ {i})
Lightest(rem, wt) == CHOOSE j \in rem : \A k \in rem : wt[j] < wt[k] \/ (wt[j] = wt[k] /\ j <= k)
RECURSIVE ShareOut(_, _, _, _, _)
ShareOut(rem, grow, wt, minw, asc) ==
  IF rem = {} THEN <<>>
  ELSE LET i == IF asc THEN Lightest(rem, wt) ELSE MinOf(rem)
           tot == SumOver(wt, rem)
           width == IF tot = 0 THEN minw ELSE MaxOf({Round(grow * wt[i], tot), minw})
       IN (i :> width) @@ ShareOut(rem \ {i}, grow - width, wt, minw, asc)
\* <<number of columns, weights, min_width, dividechars, columns beyond the minimum>>
ShareInstances == UNION {{<<n, wt, minw, dc, extra>> : wt \in [1..n -> {0, 1, 2, 5}], minw \in 1..2, dc \in 0..1, extra \in 0..5} : n \in 1..3}
ShareLaw(x, asc) ==
  LET n == x[1]  wt == x[2]  minw == x[3]  dc == x[4]
      maxcol == n * minw + dc * (n - 1) + x[5]
      w == ShareOut(1..n, maxcol - dc * (n - 1), wt, minw, asc)
      o == <<dc, minw, -1, [i \in 1..n |-> <<"weight", wt[i], 0>>]>>
  IN /\ ColumnsLayoutOK(o, w, maxcol)
     /\ (SumOver(wt, 1..n) > 0 => SumSeq(w) + dc * (n - 1) = maxcol)          \* positive weights share out ALL the columns
\* checked by TLC when the family is generated: the reference keeps the contract, the wrong variant is refuted
ASSUME Kinds = "wt" => \A x \in ShareInstances : ShareLaw(x, TRUE)
ASSUME Kinds = "wt" => \E x \in ShareInstances : ~ShareLaw(x, FALSE)
ASSUME ShareOut(1..2, 3, <<5, 1>>, 1, TRUE) = <<2, 1>> /\ ShareOut(1..2, 3, <<5, 1>>, 1, FALSE) = <<3, 1>>

(* ---- the "shards" family ------------------------------------------------------------------ *)
(* A canvas is a stack of shards (horizontal bands), each a row of views into the canvases of  *)
(* the cells; a cell taller than its neighbours spans several shards.  The family holds the    *)
(* terms in which such a canvas is CUT through by a clipper and then STACKED with more canvas: *)
(*   cell   a leaf, or a Pile of leaves (a stack of short cells)                               *)
(*   row    a Columns of cells (cells of different heights side by side)                       *)
(*   clip   a ListBox holding a row (its last visible item is cut), a Filler around a row      *)
(*          (cut when it gets fewer rows), a BoxAdapter around a clip                          *)
(*   stack  a Frame or a Pile holding a clip next to cells (header / footer / following item), *)
(*          an Overlay of a cell over a clip or over a (box) row                               *)
RECURSIVE Role(_)
Role(t) ==
  LET n == Len(t.c)
      R == [i \in 1..n |-> Role(t.c[i])]
      all(S) == \A i \in 1..n : R[i] \in S
      one(r) == \E i \in 1..n : R[i] = r
  IN CASE t.k \in LeafKinds -> "cell"
       [] t.k = "Pile" /\ n > 0 /\ (\A i \in 1..n : t.c[i].k \in LeafKinds) -> "cell"
       [] t.k = "Columns" /\ n > 0 /\ all({"cell"}) -> "row"
       [] t.k = "ListBox" /\ all({"cell", "row"}) /\ one("row") -> "clip"
       [] t.k = "Filler" /\ R[1] = "row" -> "clip"
       [] t.k = "BoxAdapter" /\ R[1] = "clip" -> "clip"
       [] t.k \in {"Frame", "Pile"} /\ all({"cell", "clip"}) /\ one("clip") -> "stack"
       [] t.k = "Overlay" /\ R[1] = "cell" /\ R[2] \in {"clip", "row"} -> "stack"
       [] OTHER -> "other"
InFamily(t) == Kinds = "shards" => Role(t) # "other"

(* ---- the builder -------------------------------------------------------------------------- *)
Top == stack[Len(stack)]
RECURSIVE HasEmpty(_)
\* an empty container somewhere inside: such terms are generated only as (decorated) whole terms, never as children
HasEmpty(t) == (t.k \in ContKinds /\ Len(t.c) = 0) \/ \E i \in 1..Len(t.c) : HasEmpty(t.c[i])
Deep(s) == {i \in 1..Len(s) : s[i].d > SibDepth}
StackOK(s) == /\ Len(s) <= MaxKids + 1
              /\ Cardinality(Deep(s)) <= 1
              /\ \A i \in 1..Len(s) : s[i].d <= MaxDepth /\ s[i].n <= MaxNodes
              /\ (Len(s) > 1 => \A i \in 1..Len(s) : s[i].d < MaxDepth /\ ~HasEmpty(s[i]))

Init == stack = <<>> /\ lastop = "init"

Leaf == \E t \in Pick(Leaves) :
          /\ StackOK(Append(stack, t))
          /\ stack' = Append(stack, t) /\ lastop' = "Leaf"

Wrap == /\ Len(stack) >= 1
        /\ \E d \in Pick(DecoUsed) : \E o \in Pick(DecoOpts(d)) :
             LET t == T(d, o, <<Top>>)
                 s == [stack EXCEPT ![Len(stack)] = t]
             IN /\ ~HasEmpty(Top) /\ StackOK(s) /\ WellFormed(t) /\ InFamily(t)
                /\ stack' = s /\ lastop' = "Wrap"

Compose == \E K \in Pick(ContUsed) : \E k \in Pick(0..(IF Len(stack) < Arity(K) THEN Len(stack) ELSE Arity(K))) :
             \E o \in Pick(ContOpts(K, k)) :
               LET kids == SubSeq(stack, Len(stack) - k + 1, Len(stack))
                   t == T(K, o, kids)
                   s == Append(SubSeq(stack, 1, Len(stack) - k), t)
               IN /\ (k = 0 => stack = <<>>)          \* empty containers only as the whole term
                  /\ \A i \in 1..k : ~HasEmpty(kids[i])
                  /\ StackOK(s) /\ WellFormed(t) /\ InFamily(t)
                  /\ stack' = s /\ lastop' = "Compose"

Next == Leaf \/ Wrap \/ Compose
Spec == Init /\ [][Next]_vars

(* ---- type-correctness laws of the sizing calculus ----------------------------------------- *)
OnStack(P(_)) == \A i \in 1..Len(stack) : P(stack[i])
SizingWithinModes(t) == Sizing(t) # {} /\ Sizing(t) \subseteq Modes
TransparentDeco(t) == t.k \in {"LineBox", "AttrMap", "WidgetDisable", "WidgetPlaceholder"} => Sizing(t) = Sizing(t.c[1])
BoxOnlyKinds(t) == t.k \in {"Frame", "ListBox", "Scrollable", "ScrollBar", "SolidFill", "BarGraph"} => Sizing(t) = {"box"}
FillerAlwaysBox(t) == t.k \in {"Filler", "Overlay"} => "box" \in Sizing(t)
ClipIsFlowOnly(t) == t.k = "Padding" /\ t.o[2] = "clip" => Sizing(t) = {"flow"} /\ "fixed" \in Sizing(t.c[1])
ColumnsBoxNeedsAllBox(t) == t.k = "Columns" /\ Len(t.c) > 0 /\ "box" \in Sizing(t) /\ Sizing(t) # {"box", "flow"}
                            => \A i \in 1..Len(t.c) : "box" \in Sizing(t.c[i])
UsableSomehow(t) == t.u # {} /\ t.u \subseteq t.s

TypeOK == OnStack(LAMBDA t : WellFormed(t))
SizingLaws == OnStack(LAMBDA t : /\ SizingWithinModes(t) /\ TransparentDeco(t) /\ BoxOnlyKinds(t) /\ FillerAlwaysBox(t)
                                 /\ ClipIsFlowOnly(t) /\ ColumnsBoxNeedsAllBox(t) /\ UsableSomehow(t))
\* NOT an invariant of the documented rules (urwid documents sizing() as an over-approximation); TLC's counterexample
\* is the witness that is then rendered by the real code
NoOverClaim == OnStack(LAMBDA t : OverClaimed(t) = {})
=============================================================================
