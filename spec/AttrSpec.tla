------------------------------- MODULE AttrSpec -------------------------------
(* C18 model: every (depth, description) of the finite domain is one initial state; TLC checks  *)
(* the laws of the contract of AttrSpecOps on all of them:                                      *)
(*   Idempotent        Parse(Describe(Parse d)) = Parse d, whichever acceptable result is taken *)
(*   ExactPreserved    exact palette values have exactly one acceptable result, itself          *)
(*   EuclidNearest     the per-channel nearest cube entry is the Euclidean-nearest cube entry   *)
(*   GrayNearest       no entry of the gray scale is nearer than an accepted one                *)
(*   MinDepthMinimal   the smallest depth expresses the colour and no smaller depth does        *)
(*   RefSatisfies      the reference parser satisfies the predicate; Expressible <=> a result    *)
(*                     exists                                                                   *)
(*   MidpointLookupOK  a midpoint lookup table over `GrayTable` (the way the code finds nearest *)
(*                     values) agrees with the contract                                         *)
(*   Rgb6ReductionOK   reading '#rrggbb' at a palette depth as the '#rgb' of the leading hex     *)
(*                     digits (the way the code reduces it) gives a result the contract accepts  *)
(* Variant = "ref" must pass.  Deliberately wrong variants must be refuted:                     *)
(*   "desc88_uses_256_steps"  88-colour normal forms taken from the 256-colour cube steps -> Idempotent fails *)
(*   "gray245_typo"    gray ramp entry 13 = 0x84 (as in the code) -> MidpointLookupOK fails      *)
(*   "rgb6_snapped_twice"  at 88 colours '#rrggbb' is first snapped to the 256-colour cube and   *)
(*                     the normal form of that entry is then read in the 88-colour cube          *)
(*                     -> Rgb6ReductionOK fails (leading digit 3, 4 or b)                        *)
EXTENDS AttrSpecOps

CONSTANTS Variant, Rgb6Vals

VARIABLES depth, d, ph
vars == <<depth, d, ph>>

\* the domain is unfolded in two steps (first field, then the other two) so that TLC's workers share the states
Heads == {D("default", 0, 0, 0), D("none", 0, 0, 0), D("word", 0, 0, 0)}
         \cup {D("basic", i, 0, 0) : i \in 0..15}
         \cup {D("h", n, 0, 0) : n \in 0..256}
         \cup {D("rgb3", a, 0, 0) : a \in 0..15}
         \cup {D("gray", p, 0, 0) : p \in 0..100}
         \cup {D("grayhex", v, 0, 0) : v \in 0..255}
         \cup {D("rgb6", a, 0, 0) : a \in Rgb6Vals}
Tails(h) == IF h.k = "rgb3" THEN {D("rgb3", h.a, x[1], x[2]) : x \in (0..15) \X (0..15)}
            ELSE IF h.k = "rgb6" THEN {D("rgb6", h.a, x[1], x[2]) : x \in Rgb6Vals \X Rgb6Vals}
            ELSE {}

Init == depth \in Depths /\ d = D("none", 0, 0, 0) /\ ph = 0
Next == /\ depth' = depth
        /\ \/ ph = 0 /\ ph' = 1 /\ d' \in Heads
           \/ ph = 1 /\ ph' = 2 /\ d' \in Tails(d)
Spec == Init /\ [][Next]_vars

P == IF depth = 88 THEN 88 ELSE 256

DescribeM(dp, c) ==
  IF Variant = "desc88_uses_256_steps" /\ dp = 88 /\ c.k = "high" /\ c.n >= CubeStart /\ c.n < GrayStart(88)
  THEN LET m == c.n - CubeStart
           dig(i) == Round(CubeStep(256, i) * 15, 255)
       IN D("rgb3", dig(m \div 16), dig((m \div 4) % 4), dig(m % 4))
  ELSE Describe(dp, c)

Idempotent == \A c \in ColourSet(depth, d) : ColourSet(depth, DescribeM(depth, c)) = {c}

ExactPreserved ==
  (depth \in {88, 256, TRUEC} /\ Expressible(depth, d)) =>
    /\ (d.k = "h" /\ depth # TRUEC => ColourSet(depth, d) = {High(d.a)})
    /\ (d.k = "h" /\ depth = TRUEC => ColourSet(depth, d) = {TrueCol(RGB(256, d.a))})
    /\ (d.k = "rgb6" /\ depth = TRUEC => ColourSet(depth, d) = {TrueCol(<<d.a, d.b, d.c>>)})
    /\ (d.k = "rgb6" /\ depth # TRUEC /\ IsCubeStep(P, d.a) /\ IsCubeStep(P, d.b) /\ IsCubeStep(P, d.c) =>
          \A c \in ColourSet(depth, d) : RGB(P, c.n) = <<d.a, d.b, d.c>>)
    /\ (d.k = "rgb6" /\ depth # TRUEC => Rgb6Nearest(P, d) \subseteq Entries(P, d))
    /\ (d.k = "rgb3" /\ depth # TRUEC /\ IsExact(P, d) =>
          \A c \in ColourSet(depth, d) : RGB(P, c.n) = <<17 * d.a, 17 * d.b, 17 * d.c>>)
    /\ (d.k = "grayhex" /\ depth # TRUEC /\ IsExact(P, d) =>
          Cardinality(ColourSet(depth, d)) = 1 /\ \A c \in ColourSet(depth, d) : RGB(P, c.n) = <<d.a, d.a, d.a>>)
    /\ (d.k \in {"gray", "grayhex", "rgb3"} /\ IsExact(P, d) => Cardinality(ColourSet(depth, d)) = 1)

\* how a 24-bit colour is reduced before the cube of a palette depth is looked up
Lead(x) == D("rgb3", x.a \div 16, x.b \div 16, x.c \div 16)
Reduced(x) == IF Variant = "rgb6_snapped_twice" /\ P = 88
              THEN {Describe(256, High(n)) : n \in Entries(256, Lead(x))}
              ELSE {Lead(x)}
Rgb6ReductionOK ==
  (d.k = "rgb6" /\ depth \in {88, 256}) => \A x \in Reduced(d) : Entries(P, x) # {} /\ Entries(P, x) \subseteq Entries(P, d)

Dist2(t, u) == (t[1] - u[1]) * (t[1] - u[1]) + (t[2] - u[2]) * (t[2] - u[2]) + (t[3] - u[3]) * (t[3] - u[3])
EuclidNearest ==
  (d.k = "rgb3" /\ depth \in {88, 256}) =>
    LET want == <<17 * d.a, 17 * d.b, 17 * d.c>>
    IN \A n \in Entries(P, d) : \A m \in CubeStart..CubeWhite(P) : Dist2(RGB(P, n), want) <= Dist2(RGB(P, m), want)
GrayNearest ==
  (d.k \in {"gray", "grayhex"} /\ depth \in {88, 256}) =>
    LET scale == {CubeBlack, CubeWhite(P)} \cup GrayStart(P)..(GrayStart(P) + GraySize(P) - 1)
        vals == IF d.k = "gray" THEN PctVals(d.a) ELSE {d.a}
    IN \A n \in Entries(P, d) : n \in scale /\ \E v \in vals : \A m \in scale : Abs(RGB(P, n)[1] - v) <= Abs(RGB(P, m)[1] - v)

RefSatisfies == /\ Expressible(depth, d) <=> ColourSet(depth, d) # {}
                /\ Expressible(depth, d) => RefParse(depth, d) \in ColourSet(depth, d)

\* smallest depth: by kind hierarchy 1 < 16 < palette < 24-bit (the 88 and 256 palettes are two incomparable palettes)
MinDepthMinimal ==
  \A c \in ColourSet(depth, d) :
    LET m == SemDepth(depth, c, Default)
    IN /\ m <= depth /\ m \in Depths
       /\ Expressible(m, DescribeM(depth, c))
       /\ \A m2 \in {1, 16} : m2 < m => ~Expressible(m2, DescribeM(depth, c))
       /\ (c.k = "true" /\ ~InPalette256(<<c.r, c.g, c.b>>) => \A m2 \in Depths : m2 < m => TrueCol(<<c.r, c.g, c.b>>) \notin ColourSet(m2, d))
       /\ ModeDepth(depth, c, Default) \in {m, depth}

\* the code's way of finding the nearest value: a table of midpoints (a + b + 1) div 2, value >= midpoint goes up
GrayTable(i) == IF Variant = "gray245_typo" /\ i = 13 THEN 132 ELSE GrayStep(256, i)
GScaleValT(j) == IF j = 0 THEN 0 ELSE IF j = 25 THEN 255 ELSE GrayTable(j - 1)
MidLookup(v) == Cardinality({j \in 0..24 : (GScaleValT(j) + GScaleValT(j + 1) + 1) \div 2 <= v})
MidpointLookupOK == (d.k = "grayhex" /\ depth = 256) => GScaleEntry(256, MidLookup(d.a)) \in Entries(256, d)

(* ---- the tables themselves (checked once) --------------------------------------------------- *)
ASSUME TablesOK ==
  /\ GrayStart(256) = 232 /\ CubeWhite(256) = 231 /\ GrayStart(88) = 80 /\ CubeWhite(88) = 79
  /\ Cardinality({RGB(256, n) : n \in 16..231}) = 216 /\ Cardinality({RGB(88, n) : n \in 16..79}) = 64
  /\ RGB(256, 16) = <<0, 0, 0>> /\ RGB(256, 231) = <<255, 255, 255>> /\ RGB(88, 16) = <<0, 0, 0>> /\ RGB(88, 79) = <<255, 255, 255>>
  /\ \A i \in 0..22 : GrayStep(256, i + 1) - GrayStep(256, i) = 10
  \* spot values from xterm's 256colres.h / 88colres.h
  /\ RGB(256, 59) = <<95, 95, 95>> /\ RGB(256, 196) = <<255, 0, 0>> /\ RGB(256, 110) = <<135, 175, 215>>
  /\ RGB(256, 232) = <<8, 8, 8>> /\ RGB(256, 244) = <<128, 128, 128>> /\ RGB(256, 245) = <<138, 138, 138>> /\ RGB(256, 255) = <<238, 238, 238>>
  /\ RGB(88, 64) = <<255, 0, 0>> /\ RGB(88, 37) = <<139, 139, 139>> /\ RGB(88, 58) = <<205, 205, 205>>
  /\ <<RGB(88, 80)[1], RGB(88, 81)[1], RGB(88, 82)[1], RGB(88, 83)[1], RGB(88, 84)[1], RGB(88, 85)[1], RGB(88, 86)[1], RGB(88, 87)[1]>>
       = <<46, 92, 115, 139, 162, 185, 208, 231>>
=================================================================================
