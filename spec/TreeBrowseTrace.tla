--------------------------- MODULE TreeBrowseTrace ---------------------------
(* X04 trace validation: one event per public call on the real TreeListBox / TreeWalker /        *)
(* TreeWidget / TreeNode / ParentNode objects, recorded at its return: arguments, result /        *)
(* exception, the walker's focus node, the ListBox row offset, the expanded flag and key of every  *)
(* loaded node, how often load_child_keys / load_child_node ran for every node (counted by a       *)
(* recording subclass), and -- when the harness rendered / walked after the call -- the rendered    *)
(* rows, the cursor and the display order obtained with get_next from the root and get_prev back.  *)
(* The abstract world of TreeBrowseOps is carried in `world`; every clause is evaluated at every   *)
(* event and the first broken one is named in `why`.                                               *)
(*                                                                                               *)
(* Loading is judged by bounds, not by equality: what is on display / in the walked order MUST be  *)
(* loaded; beyond that a ListBox-level call MAY load only nodes that a get_next / get_prev walk      *)
(* over EXPANDED nodes can reach (lazy), and every load happens at most once per cached object.    *)
(* Not demanded (nothing is documented): which focus 'up' / 'down' / 'page up' / 'page down' pick  *)
(* when leaf rows are not selectable (tr.leafsel = 0: only the direction and the result are          *)
(* checked, the recorded focus is carried forward); the same for the page keys while the focus is   *)
(* not in the display order (hidden by a programmatic collapse).                                    *)
(* tr.left = "asbuilt": 'left' / '-' with the parent off screen are judged against what the code    *)
(* does (variant "left_asbuilt" of TreeBrowseOps, refuted by TLC in TreeBrowse.tla); "doc": against *)
(* the docstring "Move focus to parent of widget in focus".                                        *)
EXTENDS TreeBrowseOps, Json, IOUtils

Traces == JsonDeserialize(IOEnv.TRACE_FILE)

VARIABLES tid, l, world, ok, why
vars == <<tid, l, world, ok, why>>

World0(tr) ==
  LET n == Len(tr.par)  z == [x \in 1..n |-> 0] IN
  [t |-> Tree(tr.par), isp |-> tr.isp, ic |-> tr.ic, exp |-> [x \in 1..n |-> IF tr.isp[x] = 1 /\ tr.ic[x] = 1 THEN 0 ELSE 1],
   focus |-> 1, off |-> 0, h |-> tr.h, hk |-> z, hn |-> [x \in 1..n |-> IF x = 1 THEN 1 ELSE 0], ldk |-> z, ldn |-> z,
   key |-> [x \in 1..n |-> x], stale |-> 0, leafsel |-> tr.leafsel, variant |-> IF tr.left = "asbuilt" THEN "left_asbuilt" ELSE "ok"]

Init == /\ tid \in 1..Len(Traces)
        /\ l = 0
        /\ world = World0(Traces[tid])
        /\ ok = TRUE
        /\ why = "-"

LeadSpaces(s) == LET bad == {i \in 1..Len(s) : s[i] # 32} IN IF bad = {} THEN Len(s) ELSE SetMin(bad) - 1
\* first difference between the rendered rows and the expected ones, classified
RowVerdict(tr, W, rows) ==
  LET win == Window(W)
      want(i) == IF i <= Len(win) THEN RowOf(W, win[i], tr.labels[win[i]], tr.width) ELSE Spaces(tr.width)
      got(i) == tr.rowtab[rows[i]]
      bad == {i \in 1..Len(rows) : got(i) # want(i)}
  IN IF Len(rows) # W.h THEN "view_has_h_rows"
     ELSE IF bad = {} THEN "-"
     ELSE LET i == SetMin(bad)  g == got(i)  w == want(i)  lg == LeadSpaces(g)  lw == LeadSpaces(w) IN
          IF i > Len(win) THEN "rows_below_the_last_node_are_blank"
          ELSE IF lg # lw /\ SubSeq(g, lg + 1, Min2(Len(g), lg + Len(w) - lw)) = SubSeq(w, lw + 1, Min2(Len(w), lw + Len(g) - lg))
               THEN "row_indentation_is_three_columns_per_depth"
          ELSE IF lg = lw /\ W.isp[win[i]] = 1 /\ g[lg + 1] # w[lw + 1] /\ g[lg + 1] \in {43, 45} /\ SubSeq(g, lg + 2, Len(g)) = SubSeq(w, lw + 2, Len(w))
               THEN "expand_icon_shows_expanded_flag"
          ELSE IF lg = lw /\ W.isp[win[i]] = 0 /\ g[lg + 1] \in {43, 45} /\ g[lg + 2] = 32 THEN "leaf_rows_have_no_expand_icon"
          ELSE "view_rows_follow_display_order"

KeyClause(W, op, dflt) ==
  LET c == CmdOf(W, op) IN
  IF op.n \in {"key", "call", "unhandled"}
  THEN (CASE c = "left" -> "left_moves_focus_to_parent_of_focus"
          [] c = "-" -> "minus_on_leaf_moves_to_parent_and_collapses_it"
          [] c = "home" -> "home_moves_focus_to_root"
          [] c = "end" -> "end_moves_focus_to_last_shown_node"
          [] c \in {"up", "down"} -> "up_down_follow_display_order"
          [] c \in {"page up", "page down"} -> "page_keys_move_one_view_height_asbuilt"
          [] OTHER -> dflt)
  ELSE IF op.n = "mouse" THEN "button1_press_focuses_the_selectable_row_it_hits"
  ELSE dflt
ExpClause(W, op) ==
  IF op.n \in {"key", "wkey"} /\ op.key \in {"+", "right"} THEN "plus_and_right_expand_the_parent"
  ELSE IF op.n \in {"key", "wkey", "unhandled"} /\ op.key = "-" THEN "minus_collapses_the_parent"
  ELSE IF op.n = "call" /\ op.key = "collapse_focus_parent" THEN "collapse_focus_parent_collapses_the_parent"
  ELSE IF op.n \in {"mouse", "wmouse"} THEN "click_on_expand_icon_toggles_only_that_parent"
  ELSE IF op.n = "set_exp" THEN "expanded_attribute_roundtrip"
  ELSE IF op.n = "reload_node" THEN "reloaded_subtree_gets_fresh_widgets"
  ELSE "expanded_flags_untouched"
OffClause(W, op) ==
  LET c == CmdOf(W, op) IN
  CASE c = "left" -> "left_keeps_parent_row_or_puts_it_on_top"
    [] c = "home" -> "home_puts_root_on_top_row"
    [] c = "end" -> "end_puts_last_node_on_bottom_row"
    [] OTHER -> "listbox_row_offset_asbuilt"
RetClause(op) ==
  CASE op.n \in {"next_sibling", "prev_sibling"} -> "siblings_in_index_order"
    [] op.n \in {"first_child", "last_child", "has_children"} -> "first_and_last_child_of_key_list"
    [] op.n \in {"wnext", "wprev"} -> "get_next_get_prev_follow_display_order"
    [] op.n \in {"wfirst", "wlast"} -> "first_child_last_child_only_if_expanded"
    [] op.n = "reload_node" -> "reload_returns_the_child"
    [] OTHER -> "return_value"

\* the verdict and the world after the event: [why, w]
Judge(tr, W, e) ==
  LET op == e.op
      n == NN(W)
      R == Apply(W, op)
      Rw == R.w
      loose == op.n = "key" /\ ~WidgetUses(W, W.focus, op.key) /\ ~Modelled(W, op.key)
      \* the ListBox's choice is not modelled there (see Modelled): take the recorded focus / offset
      Rx == IF loose THEN [Rw EXCEPT !.focus = e.focus, !.off = e.off] ELSE Rw
      rendered == e.rendered = 1
      walked == e.walked = 1
      M == IF Rx.stale = 0 THEN Settle(Rx, rendered, walked) ELSE Rx
      listlevel == op.n \in ListOps
      reach == IF listlevel \/ rendered THEN Reach(W) \cup Reach(Rx) ELSE {}
      mayN == {x \in 1..n : M.hn[x] = 1} \cup reach
      mayK == {x \in 1..n : M.hk[x] = 1} \cup {x \in reach : W.isp[x] = 1 /\ (W.exp[x] = 1 \/ Rx.exp[x] = 1)}
      xn(x) == e.ldn[x] - Rw.ldn[x]                       \* loads beyond what the operation itself does explicitly
      xk(x) == e.ldk[x] - Rw.ldk[x]
      hn1 == [x \in 1..n |-> IF Rw.hn[x] = 1 \/ xn(x) = 1 THEN 1 ELSE 0]
      hk1 == [x \in 1..n |-> IF Rw.hk[x] = 1 \/ xk(x) = 1 THEN 1 ELSE 0]
      Wn == [Rx EXCEPT !.hn = hn1, !.hk = hk1, !.ldn = e.ldn, !.ldk = e.ldk]
      dirOK == CASE op.key \in {"down", "page down"} -> e.focus \in {W.focus} \cup Range(ChainDown(W, W.focus, n))
                 [] OTHER -> e.focus \in {W.focus} \cup Range(ChainUp(W, W.focus, n))
      v ==
        IF ~loose /\ ~Enabled(W, op) THEN "harness_issued_an_operation_the_model_does_not_allow"
        ELSE IF Len(e.ldn) # n \/ Len(e.ldk) # n \/ Len(e.exp) # n \/ Len(e.key) # n THEN "event_shape"
        (* ---- exceptions and results ---- *)
        ELSE IF R.exc = "" /\ e.exc # "" THEN "call_does_not_raise"
        ELSE IF R.exc # "" /\ e.exc # R.exc THEN "key_in_use_raises_TreeWidgetError"
        ELSE IF R.exc # "" /\ (e.focus # W.focus \/ \E x \in 1..n : W.hn[x] = 1 /\ e.key[x] # W.key[x]) THEN "rejected_call_changes_nothing"
        ELSE IF loose /\ e.res \notin {"", op.key} THEN "key_result_is_None_or_the_key"
        ELSE IF loose /\ ~dirOK THEN "up_down_follow_display_order"
        ELSE IF loose /\ e.res = op.key /\ e.focus # W.focus THEN "returned_key_changed_nothing"
        ELSE IF ~loose /\ op.n \in {"key", "wkey", "call", "unhandled"} /\ e.res # R.res
             THEN (IF R.res = "" THEN "used_key_returns_None"
                   ELSE IF op.n = "wkey" /\ W.isp[op.a] = 0 THEN "leaf_widget_returns_every_key" ELSE "unused_key_is_returned")
        ELSE IF op.n \in {"mouse", "wmouse"} /\ e.res # R.res THEN "mouse_handled_iff_button1_press_on_expand_icon"
        ELSE IF e.ret # R.ret THEN RetClause(op)
        ELSE IF op.n = "info" /\ e.info # R.info THEN "depth_index_parent_root"
        (* ---- focus ---- *)
        ELSE IF e.focus # Rx.focus THEN KeyClause(W, op, "focus_untouched")
        (* ---- loading: at most once, lazily ---- *)
        ELSE IF \E x \in 1..n : xn(x) \notin {0, 1} \/ (xn(x) = 1 /\ Rw.hn[x] = 1) THEN "child_node_loaded_at_most_once"
        ELSE IF \E x \in 1..n : xk(x) \notin {0, 1} \/ (xk(x) = 1 /\ Rw.hk[x] = 1) THEN "child_keys_loaded_at_most_once"
        ELSE IF \E x \in 1..n : xn(x) = 1 /\ x \notin mayN THEN "lazy_node_loaded_that_no_walk_over_expanded_nodes_reaches"
        ELSE IF \E x \in 1..n : xk(x) = 1 /\ x \notin mayK THEN "lazy_child_keys_loaded_for_a_collapsed_or_unreachable_parent"
        ELSE IF \E x \in 1..n : M.hn[x] = 1 /\ hn1[x] = 0 THEN "shown_node_is_loaded"
        ELSE IF \E x \in 1..n : M.hk[x] = 1 /\ hk1[x] = 0 THEN "children_of_shown_expanded_parent_need_its_keys"
        ELSE IF \E x \in 1..n : xk(x) = 1 /\ W.isp[x] = 0 THEN "leaf_has_no_child_keys"
        (* ---- flags and keys of the loaded nodes ---- *)
        ELSE IF \E x \in 1..n : (hn1[x] = 0) # (e.exp[x] = 2) THEN "node_object_exists_iff_loaded"
        ELSE IF \E x \in 1..n : hn1[x] = 1 /\ e.exp[x] # Rx.exp[x] THEN ExpClause(W, op)
        ELSE IF \E x \in 1..n : e.key[x] # (IF hn1[x] = 1 THEN Rx.key[x] ELSE 0) THEN "change_child_key_renames_only_that_child"
        ELSE IF e.off # Rx.off THEN OffClause(W, op)
        (* ---- the display order (walked with get_next from the root, back with get_prev) ---- *)
        ELSE IF walked /\ e.vis # Pre(Wn) THEN "display_order_is_preorder_over_expanded_ancestors"
        ELSE IF walked /\ e.rvis # Rev(e.vis) THEN "get_prev_is_inverse_of_get_next"
        (* ---- the rendered view ---- *)
        ELSE IF rendered /\ RowVerdict(tr, Wn, e.rows) # "-" THEN RowVerdict(tr, Wn, e.rows)
        ELSE IF rendered /\ e.cur # CursorOf(Wn) THEN "cursor_on_expand_icon_of_focused_parent"
        ELSE "-"
  IN [why |-> v, w |-> Wn]

Step == /\ ok
        /\ l < Len(Traces[tid].ev)
        /\ l' = l + 1
        /\ tid' = tid
        /\ LET tr == Traces[tid]
               j == Judge(tr, world, tr.ev[l + 1])
           IN /\ why' = j.why
              /\ ok' = (j.why = "-")
              /\ world' = IF j.why = "-" THEN j.w ELSE world
Spec == Init /\ [][Step]_vars

Report == ok \/ PrintT(<<"REJECT", tid, l, why>>)
=============================================================================
