--------------------------- MODULE MonitoredList ---------------------------
(* C16 state machine.  State: contents, focus; history component `last` carries the     *)
(* operation and its outcome so that every distinct state is one (pre, op, post)          *)
(* transition for behaviour export.                                                       *)
EXTENDS MonitoredListOps

CONSTANTS MaxLen,      \* initial lists have length 0..MaxLen
          MaxVal,      \* over values 1..MaxVal (duplicates allowed)
          MaxIdx,      \* indices range over -MaxIdx..MaxIdx
          MaxStep,     \* steps over -MaxStep..MaxStep \ {0}, plus None and the illegal 0
          MaxNew,      \* replacement lists of length 0..MaxNew
          Depth        \* behaviours of at most Depth operations from each initial state

VARIABLES items, focus, last, depth
vars == <<items, focus, last, depth>>

Idx == (-MaxIdx)..MaxIdx
Steps == {s \in (-MaxStep)..MaxStep : s # 0}
Ops == OpsFor(Idx, Steps, 0..MaxNew, 1..MaxVal) \cup {MkOp("setfocus", a, 0, 0, <<>>) : a \in Idx}

SeqsUpTo(S, n) == UNION {[1..k -> S] : k \in 0..n}

Init == /\ items \in SeqsUpTo(1..MaxVal, MaxLen)
        /\ focus \in (IF items = <<>> THEN {NoFocus} ELSE 0..(Len(items) - 1))
        /\ last = [op |-> MkOp("init", 0, 0, 0, <<>>), err |-> "", pre |-> <<>>, pref |-> NoFocus, mod |-> 0, fch |-> FALSE, asok |-> TRUE]
        /\ depth = 0

\* the transcribed algorithm (MonitoredListOps!AsCodedFocus) yields the focus the contract demands
AsCodedAgrees(op, r) ==
  r.err = "" =>
    LET c == AsCodedFocus(items, focus, op) IN
      \/ c = FocusRule(focus, r.pos, Len(r.items))
      \/ (focus = NoFocus /\ c >= 0 /\ c < Len(r.items))   \* list was empty: only "in range" is demanded
      \/ (op.n = "sort" /\ c >= 0 /\ c < Len(r.items) /\ r.items[c + 1] = items[focus + 1])

Do(op) ==
  IF op.n = "setfocus"
  THEN LET n == Len(items)
           bad == n > 0 /\ (op.a < 0 \/ op.a >= n)
       IN /\ items' = items
          /\ focus' = IF n = 0 \/ bad THEN focus ELSE op.a
          /\ last' = [op |-> op, err |-> IF bad THEN "IndexError" ELSE "", pre |-> items, pref |-> focus, mod |-> 0,
                      fch |-> (focus' # focus), asok |-> TRUE]
  ELSE LET r == ListApply(items, op) IN
       /\ items' = r.items
       /\ focus' = IF r.err # "" THEN focus ELSE FocusRule(focus, r.pos, Len(r.items))
       /\ last' = [op |-> op, err |-> r.err, pre |-> items, pref |-> focus,
                   mod |-> IF r.err = "" /\ Changed(items, r) THEN 1 ELSE 0,
                   fch |-> (focus # NoFocus /\ focus' # NoFocus /\ focus' # focus),
                   asok |-> AsCodedAgrees(op, r)]

Step == /\ depth < Depth
        /\ depth' = depth + 1
        /\ \E op \in Ops : Do(op)
Next == Step
Spec == Init /\ [][Next]_vars

\* behaviour export (tlc -simulate): one randomly chosen operation per step instead of
\* enumerating every successor, which is what makes long behaviours cheap to generate
SimNext == /\ depth < Depth
           /\ depth' = depth + 1
           /\ Do(RandomElement(Ops))
SimSpec == Init /\ [][SimNext]_vars

(* ---- properties of the contract itself ---- *)
FocusInv == (focus = NoFocus) <=> (items = <<>>)
FocusInRange == focus # NoFocus => (focus >= 0 /\ focus < Len(items))
ErrLeavesUnchanged == last.err # "" => (items = last.pre /\ focus = last.pref)
ModifiedOnlyOnSuccess == last.mod = 1 => last.err = ""
\* the item designated by the focus is preserved while it survives (distinct-valued lists)
IsInjective(s) == \A i, j \in 1..Len(s) : s[i] = s[j] => i = j
FocusFollowsItem ==
  (last.err = "" /\ last.pref # NoFocus /\ focus # NoFocus /\ IsInjective(last.pre) /\ IsInjective(items)
     /\ \E j \in 1..Len(items) : items[j] = last.pre[last.pref + 1])
  => (last.op.n \in {"setslice", "setitem", "setfocus"} \/ items[focus + 1] = last.pre[last.pref + 1])

(* ---- design-level obligation: the algorithm as coded implements the contract ---- *)
AsCodedOK == last.asok

StateBound == Len(items) <= MaxLen + 2 * MaxNew
============================================================================
