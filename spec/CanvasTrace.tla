----------------------------- MODULE CanvasTrace -----------------------------
(* C02 trace validation.  One trace = one program of canvas operations executed on the real     *)
(* urwid.canvas classes (vf/props/c02.py).  Event k records operation k, the result's cols(),    *)
(* rows(), content() projected to cells, cursor, pop-up, and the re-read state of the operands   *)
(* (and of every earlier value still needed).  Value k = result of event k.  The expected grid   *)
(* is recomputed here with the GridOps operators from the operands' RECORDED grids, so each      *)
(* event is judged on its own.  Cells and grids are interned per trace: tr.cells is the table of *)
(* distinct cells, tr.grids the table of distinct grids as rows of cell indices.                 *)
EXTENDS GridOps, Json, IOUtils, TLC

Traces == JsonDeserialize(IOEnv.TRACE_FILE)
VARIABLES tid, l, ok, why
vars == <<tid, l, ok, why>>

Init == tid \in 1..Len(Traces) /\ l = 0 /\ ok = TRUE /\ why = "-"

Grid(tr, k) == IF k = 0 THEN <<>>
               ELSE [y \in 1..Len(tr.grids[k]) |-> [x \in 1..Len(tr.grids[k][y]) |-> tr.cells[tr.grids[k][y][x]]]]
Val(tr, i) == LET e == tr.ev[i] IN [g |-> Grid(tr, e.g), cur |-> e.cur, pop |-> e.pop, w |-> e.cols, h |-> e.rows]

\* an earlier value re-read after this operation is exactly what was recorded when it was made
Unchanged(tr, x) ==
  LET o == tr.ev[x.id] IN
    x.exc = "" /\ x.cols = o.cols /\ x.rows = o.rows /\ x.cur = o.cur /\ x.pop = o.pop /\ Grid(tr, x.g) = Grid(tr, o.g)

Verdict(tr, k) ==
  LET e == tr.ev[k]
      op == e.op
      vs == [j \in 1..Len(op.ids) |-> Val(tr, op.ids[j])]
      ds == [j \in 1..Len(op.ids) |-> <<vs[j].w, vs[j].h>>]
      got == Grid(tr, e.g)
  IN IF ~(\A j \in 1..Len(op.ids) : op.ids[j] >= 1 /\ op.ids[j] < k) \/ ~InDomain(op, ds) THEN "no_action"   \* driver error, not urwid's
     ELSE IF e.exc # "" THEN "operation_defined_inside_its_domain"
     ELSE IF op.n = "delta"
          THEN LET d == Grid(tr, e.delta) IN
               IF H(d) # vs[1].h \/ \E y \in 1..H(d) : Len(d[y]) # vs[1].w THEN "delta_covers_every_cell"
               ELSE IF ApplyDelta(vs[2].g, d) # vs[1].g THEN "delta_applied_to_old_reproduces_new"
               ELSE IF \E i \in 1..Len(e.live) : ~Unchanged(tr, e.live[i]) THEN "operands_left_unchanged"
               ELSE "-"
     ELSE LET r == OpResult(op, vs) IN
          IF <<e.cols, e.rows>> # OpDims(op, ds) THEN "reports_width_and_height"
          ELSE IF H(got) # e.rows \/ \E y \in 1..H(got) : Len(got[y]) # e.cols THEN "content_fills_reported_size"
          ELSE IF ~WellFormed(got) THEN "no_half_character"
          ELSE IF got # r.g THEN "content_cell_for_cell"
          ELSE IF e.cur \notin r.curok THEN "cursor_moves_with_content"
          ELSE IF e.pop \notin r.popok THEN "popup_moves_with_content"
          ELSE IF \E i \in 1..Len(e.live) : ~Unchanged(tr, e.live[i]) THEN "operands_left_unchanged"
          ELSE "-"

Step == /\ ok /\ l < Len(Traces[tid].ev) /\ l' = l + 1 /\ tid' = tid
        /\ LET v == Verdict(Traces[tid], l + 1) IN why' = v /\ ok' = (v = "-")
Spec == Init /\ [][Step]_vars
Report == ok \/ PrintT(<<"REJECT", tid, l, why>>)
===============================================================================
