------------------------------- MODULE ListBoxTrace -------------------------------
(* C07 trace validation: histories executed on real ListBox widgets over row-labelled items.   *)
EXTENDS ListBoxOps, Json, IOUtils

Traces == JsonDeserialize(IOEnv.TRACE_FILE)
VARIABLES tid, l, ok, why
vars == <<tid, l, ok, why>>
Init == tid \in 1..Len(Traces) /\ l = 0 /\ ok = TRUE /\ why = "-"

\* e: exc, view (sequence of <<item,row>>), heights, focus, crow, h, click = <<item, selectable(0/1)>> or <<>>,
\*    cc = what get_cursor_coords answered just before this rendering (<<>> not asked, <<-1,-1>> None, <<col,row>>)
\* The exception of a render / get_cursor_coords call (with any box height, zero rows included, and whatever requests are
\* still pending) is a violation; an exception raised by the walker's own list operation is not recorded here (not a C07
\* matter) but the rendering that follows it is judged like any other.
Verdict(e) ==
  IF e.exc # "" THEN "never_raises"
  ELSE IF ~FocusIsItem(e.focus, e.heights) THEN "focus_is_an_item_of_the_list"
  ELSE LET v == ViewVerdict(e.view, e.heights, e.focus, e.crow, e.h) IN
       IF v # "-" THEN v
       ELSE IF ~CursorCoordsAgree(e.view, e.focus, e.crow, e.cc) THEN "cursor_coords_agree_with_rendering"
       ELSE IF e.click # <<>> /\ e.click[2] = 1 /\ e.focus # e.click[1] THEN "press_on_visible_selectable_item_focuses_it"
       ELSE "-"

Step == /\ ok /\ l < Len(Traces[tid].ev) /\ l' = l + 1 /\ tid' = tid
        /\ LET v == Verdict(Traces[tid].ev[l + 1]) IN why' = v /\ ok' = (v = "-")
Spec == Init /\ [][Step]_vars
Report == ok \/ PrintT(<<"REJECT", tid, l, why>>)
===================================================================================
