------------------------------ MODULE EventLoop ------------------------------
(* C13 generator model: a scenario (alarms with delays, watched descriptors with the time  *)
(* they become readable, idle callbacks, one scripted behaviour per callback) is chosen at *)
(* Init; an abstract event loop then serves it with every service order the contract       *)
(* allows.  Every event it produces is run through the contract monitor (EventLoopOps!     *)
(* Judge), so TLC checks that the contract is satisfiable by a correct loop for every      *)
(* scenario, and -- with Bad set -- that it refutes loops that block before running idle   *)
(* callbacks, run removed callbacks, fire alarms out of order, or let a zero-delay alarm   *)
(* overtake an alarm that is already overdue (busy start-up before run(), slow callback),  *)
(* call the callback it captured when a descriptor became ready although that watch has    *)
(* been replaced since ("staleWatch"), only log a BaseException that is not an Exception    *)
(* ("swallowBase"), or hand out idle handles that are still in use ("idleHandleReuse").     *)
(* The program may call the API between the registrations and run() (scn.pre), callbacks    *)
(* may watch a descriptor again after removing its watch and replace idle callbacks.        *)
(* The scenarios double as test scripts for the six real loops (spec -> code).             *)
EXTENDS EventLoopOps

CONSTANTS NA, NF, NI,      \* scripted alarms 1..NA (alarm NA+1 is the final exit alarm), descriptors, idle callbacks
          Delays, Ats,     \* alarm delays; times at which a descriptor becomes readable (9999 = never within a session)
          ABeh, WBeh, IBeh,\* behaviours for alarm / watch / idle callbacks
          Busy,            \* subset of 0..NA: the program is busy (BusyD) right after registering alarm k, before run() (0 = no busy start-up)
          Pre, MaxPre,     \* what the program may do after the registrations and before run(): up to MaxPre behaviours out of Pre
          Bad              \* "" for the correct loop, else the name of a deliberately wrong loop

VARIABLES scn, s, nextid, why, phase, steps,
          zero,            \* ids of the alarms registered with delay 0 (what the wrong loop "zeroDelayFirst" serves from a ready queue)
          ih,              \* the loop's registry of idle callbacks: tab: handle -> idle callback (0: free), of: idle callback -> the handle
                           \* enter_idle() returned for it, ctr: handles given out so far; clean: the loop's own "idle pass done" flag
          snap,            \* descriptor -> generation of the watch when the loop was told it is ready (only the wrong loop "staleWatch" keeps it)
          todo             \* what is left of scn.pre
vars == <<scn, s, nextid, why, phase, steps, zero, ih, snap, todo>>

ExitAlarm == NA + 1
ExitDelay == 100
BusyD == 15                \* length of a busy period (start-up, or a slow callback)

Scenarios ==
  [alarms : [1..NA -> [delay : Delays, beh : ABeh]],
   watches : [1..NF -> [at : Ats, beh : WBeh]],
   idles : [1..NI -> IBeh],
   busy : Busy,
   pre : UNION {[1..n -> Pre] : n \in 0..MaxPre}]

RECURSIVE Fold(_, _, _)
Fold(st, evs, i) ==    \* run events through the monitor; stop at the first broken clause
  IF i > Len(evs) THEN [s |-> st, why |-> "-"]
  ELSE LET r == Judge(st, evs[i]) IN IF r.why # "-" THEN r ELSE Fold(r.s, evs, i + 1)

\* alarms are registered one after the other before run(); after alarm sc.busy the program is busy for BusyD (slow start-up),
\* so the alarms registered before it may already be overdue when the later ones (and run()) come
RECURSIVE AlarmRegs(_, _)
AlarmRegs(sc, i) ==
  IF i > NA THEN <<>>
  ELSE <<[t |-> "reg_alarm", id |-> i, delay |-> sc.alarms[i].delay]>>
       \o (IF sc.busy = i THEN <<[t |-> "slow", d |-> BusyD]>> ELSE <<>>) \o AlarmRegs(sc, i + 1)
RegEvents(sc) ==
  AlarmRegs(sc, 1)
  \o <<[t |-> "reg_alarm", id |-> ExitAlarm, delay |-> ExitDelay]>>
  \o [f \in 1..NF |-> [t |-> "reg_watch", fd |-> f, gen |-> 1]]
  \o [i \in 1..NI |-> [t |-> "reg_idle", id |-> i]]

\* the idle registry: enter_idle() gives out a handle that no live callback has (a running counter); the wrong loop
\* "idleHandleReuse" derives it from the number of live callbacks, so after a removal a handle still in use is given out again
InitIh == [tab |-> [h \in 1..MaxI |-> 0], of |-> [i \in 1..MaxI |-> 0], ctr |-> 0, clean |-> TRUE]
IhApply(r, e) ==
  CASE e.t = "reg_idle" -> LET h == IF Bad = "idleHandleReuse" THEN Cardinality({x \in 1..MaxI : r.tab[x] # 0}) + 1 ELSE r.ctr + 1
                           IN [r EXCEPT !.tab[h] = e.id, !.of[e.id] = h, !.ctr = @ + 1]
    [] e.t = "remove_idle" -> LET h == r.of[e.id] IN IF h = 0 THEN r ELSE [r EXCEPT !.tab[h] = 0]      \* whatever is registered under that handle
    [] OTHER -> r
RECURSIVE IhFold(_, _, _)
IhFold(r, evs, i) == IF i > Len(evs) THEN r ELSE IhFold(IhApply(r, evs[i]), evs, i + 1)
SetClean(r, v) == IF Bad = "idleHandleReuse" THEN [r EXCEPT !.clean = v] ELSE r
NoSnap == [f \in 1..MaxF |-> 0]

Init == /\ scn \in Scenarios
        /\ LET r == Fold(InitState, RegEvents(scn), 1) IN s = r.s /\ why = r.why
        /\ nextid = NA + 2
        /\ zero = {i \in 1..NA : scn.alarms[i].delay = 0}
        /\ ih = IhFold(InitIh, RegEvents(scn), 1) /\ snap = NoSnap
        /\ todo = scn.pre
        /\ phase = IF scn.pre = <<>> THEN "run" ELSE "pre"
        /\ steps = 0

\* events produced by a scripted behaviour b run from callback (kind, me)
FreeIdle(st) == IF \E i \in 1..MaxI : st.idles[i] = "none" THEN CHOOSE i \in 1..MaxI : st.idles[i] = "none" /\ \A j \in 1..(i - 1) : st.idles[j] # "none" ELSE 0
AddsAlarm(b) == b \in {"addAlarm", "addAlarm0", "slowAddAlarm0"}
AddsZero(b) == b \in {"addAlarm0", "slowAddAlarm0"}
\* whom a behaviour run from callback (kind, me) aims at among N registered callbacks of kind `own`: a callback of that kind aims at
\* its successor, the k-th call before run() at the k-th, any other callback at the first
Tgt(kind, me, own, N) == IF N = 0 THEN 0 ELSE IF kind = own THEN (me % N) + 1 ELSE IF kind = "pre" THEN ((me - 1) % N) + 1 ELSE 1
RemoveIdleEv(tgt) == IF tgt = 0 THEN <<>> ELSE <<[t |-> "remove_idle", id |-> tgt, ret |-> s.idles[tgt] = "active"]>>
AddIdleEv == IF FreeIdle(s) = 0 THEN <<>> ELSE <<[t |-> "reg_idle", id |-> FreeIdle(s)]>>
BehEvents(b, kind, me) ==
  CASE b = "addAlarm" /\ nextid <= MaxA -> <<[t |-> "reg_alarm", id |-> nextid, delay |-> 10]>>
    [] b = "addAlarm0" /\ nextid <= MaxA -> <<[t |-> "reg_alarm", id |-> nextid, delay |-> 0]>>      \* the set_alarm_in(0, ...) idiom
    \* the callback is slow (alarms due meanwhile are overdue now) and then asks for a zero-delay alarm: due now, i.e. after them
    [] b = "slowAddAlarm0" -> <<[t |-> "slow", d |-> BusyD]>> \o (IF nextid <= MaxA THEN <<[t |-> "reg_alarm", id |-> nextid, delay |-> 0]>> ELSE <<>>)
    [] b = "addIdle" -> AddIdleEv     \* enter_idle() called from within a callback (or before run(), after removals)
    \* one idle callback is dropped and another one registered in its place (a view is replaced by another one)
    [] b = "replaceIdle" -> RemoveIdleEv(Tgt(kind, me, "idle", NI)) \o AddIdleEv
    \* a descriptor is watched AGAIN (a new watch, a callback of its own) after its watch, if any, was removed
    [] b = "rewatch" /\ NF > 0 -> LET tgt == Tgt(kind, me, "watch", NF)
                            IN (IF s.watches[tgt] = "watched" THEN <<[t |-> "remove_watch", fd |-> tgt, ret |-> TRUE]>> ELSE <<>>)
                               \o <<[t |-> "reg_watch", fd |-> tgt, gen |-> s.wgen[tgt] + 1]>>
    [] b = "removeAlarm" -> LET tgt == Tgt(kind, me, "alarm", NA)
                            IN <<[t |-> "remove_alarm", id |-> tgt, ret |-> s.alarms[tgt].st = "pending"]>>
    [] b = "removeAlarmTwice" -> LET tgt == Tgt(kind, me, "alarm", NA)
                            IN <<[t |-> "remove_alarm", id |-> tgt, ret |-> s.alarms[tgt].st = "pending"],
                                 [t |-> "remove_alarm", id |-> tgt, ret |-> FALSE]>>
    [] b = "removeWatch" /\ NF > 0 -> LET tgt == Tgt(kind, me, "watch", NF)
                            IN <<[t |-> "remove_watch", fd |-> tgt, ret |-> s.watches[tgt] = "watched"]>>
    [] b = "removeSelfWatch" /\ kind = "watch" -> <<[t |-> "remove_watch", fd |-> me, ret |-> TRUE]>>
    [] b = "removeIdle" -> RemoveIdleEv(Tgt(kind, me, "idle", NI))
    [] b = "slow" -> <<[t |-> "slow", d |-> BusyD]>>
    [] b = "exit" -> <<[t |-> "raise", kind |-> "exit"]>>
    [] b = "error" -> <<[t |-> "raise", kind |-> "error"]>>
    [] b = "base" -> <<[t |-> "raise", kind |-> "base"]>>       \* a BaseException that is not an Exception
    [] OTHER -> <<>>
NextIdAfter(b) == IF AddsAlarm(b) /\ nextid <= MaxA THEN nextid + 1 ELSE nextid
ZeroAfter(b) == IF AddsZero(b) /\ nextid <= MaxA THEN zero \cup {nextid} ELSE zero

Emit(evs) == LET r == Fold(s, evs, 1) IN s' = r.s /\ why' = r.why
\* the wrong loop "swallowBase" catches Exception only: anything else a callback raises is logged by the library underneath
Swallowed == IF Bad = "swallowBase" THEN {"base"} ELSE {}
RaisedIn(st) == st.raised \ Swallowed # {}
Raised == RaisedIn(s)

AlarmBeh(a) == IF a = ExitAlarm THEN "exit" ELSE IF a <= NA THEN scn.alarms[a].beh ELSE "noop"

ServeAlarm(a) ==
  /\ phase = "run" /\ ~Raised
  /\ s.alarms[a].st = "pending" /\ s.alarms[a].due <= s.now
  \* "zeroDelayFirst": zero-delay alarms go to a ready queue that is served before the overdue timers are looked at
  /\ (Bad = "alarmOrder" \/ (Bad = "zeroDelayFirst" /\ a \in zero) \/ \A b \in Pending(s) : s.alarms[b].due >= s.alarms[a].due)
  /\ LET evs == <<[t |-> "alarm_cb", id |-> a]>> \o BehEvents(AlarmBeh(a), "alarm", a)
     IN Emit(evs) /\ ih' = SetClean(IhFold(ih, evs, 1), FALSE)
  /\ nextid' = NextIdAfter(AlarmBeh(a)) /\ zero' = ZeroAfter(AlarmBeh(a))
  /\ UNCHANGED <<scn, phase, snap, todo>>

\* the callback of a later watch on a descriptor (registered by "rewatch") only reads the descriptor
WatchBeh(f, g) == IF g = 1 THEN scn.watches[f].beh ELSE "noop"
ServeWatch(f) ==
  /\ phase = "run" /\ ~Raised
  /\ (s.watches[f] = "watched" \/ (Bad = "removedWatch" /\ s.watches[f] = "removed")) /\ f \in s.readable
  \* "staleWatch": the descriptor is still (or again) watched, so the callback captured when it became ready is called
  /\ LET g == IF Bad = "staleWatch" /\ snap[f] # 0 THEN snap[f] ELSE s.wgen[f]
         evs == <<[t |-> "watch_cb", fd |-> f, gen |-> g], [t |-> "drain", fd |-> f]>> \o BehEvents(WatchBeh(f, g), "watch", f)
     IN /\ Emit(evs) /\ ih' = SetClean(IhFold(ih, evs, 1), FALSE)
        /\ nextid' = NextIdAfter(WatchBeh(f, g)) /\ zero' = ZeroAfter(WatchBeh(f, g))
  /\ snap' = [snap EXCEPT ![f] = 0]
  /\ UNCHANGED <<scn, phase, todo>>

\* all idle callbacks in the registry, one after the other; a callback removed by an earlier one is skipped
IdleBeh(b, i, st) ==
  CASE b = "removeIdle" -> <<[t |-> "remove_idle", id |-> (i % NI) + 1, ret |-> st.idles[(i % NI) + 1] = "active"]>>
    [] b = "exit" -> <<[t |-> "raise", kind |-> "exit"]>>
    [] b = "error" -> <<[t |-> "raise", kind |-> "error"]>>
    [] b = "base" -> <<[t |-> "raise", kind |-> "base"]>>
    [] b = "slow" -> <<[t |-> "slow", d |-> BusyD]>>
    [] OTHER -> <<>>
RECURSIVE IdleRun(_, _, _)
IdleRun(st, r, h) ==
  IF h > MaxI THEN [s |-> st, ih |-> r, why |-> "-"]
  ELSE LET i == r.tab[h]
       IN IF i = 0 \/ RaisedIn(st) THEN IdleRun(st, r, h + 1)
          ELSE LET b == IF i <= NI THEN scn.idles[i] ELSE "noop"     \* idle callbacks registered later do nothing
                   evs == <<[t |-> "idle_cb", id |-> i]>> \o IdleBeh(b, i, st)
                   res == Fold(st, evs, 1)
               IN IF res.why # "-" THEN [s |-> res.s, ih |-> r, why |-> res.why] ELSE IdleRun(res.s, IhFold(r, evs, 1), h + 1)

RunIdle ==
  /\ phase = "run" /\ ~Raised /\ s.dirty /\ (Bad = "idleHandleReuse" => ~ih.clean)
  /\ LET r == IdleRun(s, ih, 1)
     IN /\ s' = IF Bad = "idleHandleReuse" THEN r.s ELSE [r.s EXCEPT !.dirty = FALSE]
        /\ ih' = SetClean(r.ih, TRUE) /\ why' = r.why
  /\ UNCHANGED <<scn, nextid, phase, zero, snap, todo>>

DueNow == \E a \in Pending(s) : s.alarms[a].due <= s.now
ReadyNow == Watched(s) \cap s.readable
NextEnv == {scn.watches[f].at : f \in {f \in 1..NF : scn.watches[f].at > s.now}}
NextTimes == {s.alarms[a].due : a \in Pending(s)} \cup NextEnv
MinOf(S) == CHOOSE x \in S : \A y \in S : x <= y

\* the loop goes quiescent until the next alarm or descriptor event
Block ==
  /\ phase = "run" /\ ~Raised /\ ~DueNow /\ ReadyNow = {} /\ NextTimes # {}
  /\ (Bad = "blockDirty" \/ ~s.dirty \/ ActiveIdles(s) = {} \/ (Bad = "idleHandleReuse" /\ ih.clean))
  /\ LET to == MinOf(NextTimes)
         fds == {f \in 1..NF : scn.watches[f].at = to}
         evs == <<[t |-> "wait", timeout |-> IF Pending(s) = {} THEN Inf ELSE MinDue(s) - s.now, ready |-> <<>>, grace |-> 0],
                  [t |-> "advance", to |-> to]>>
                \o [k \in 1..Cardinality(fds) |-> [t |-> "env_readable", fd |-> CHOOSE f \in fds : Cardinality({g \in fds : g < f}) = k - 1]]
     IN Emit(evs) /\ snap' = IF Bad = "staleWatch" THEN [f \in 1..MaxF |-> IF f \in fds /\ s.watches[f] = "watched" THEN s.wgen[f] ELSE snap[f]] ELSE snap
  /\ UNCHANGED <<scn, nextid, phase, zero, ih, todo>>

\* descriptors that became readable before run() is entered (at time 0, or during a busy start-up) are readable from the start
AtStart == {f \in 1..NF : scn.watches[f].at <= s.now /\ f \notin s.readable}
EnvAtStart ==
  /\ phase = "run" /\ steps = 0
  /\ AtStart # {}
  /\ Emit([k \in 1..Cardinality(AtStart) |-> [t |-> "env_readable", fd |-> CHOOSE f \in AtStart : Cardinality({g \in AtStart : g < f}) = k - 1]])
  /\ snap' = IF Bad = "staleWatch" THEN [f \in 1..MaxF |-> IF f \in AtStart /\ s.watches[f] = "watched" THEN s.wgen[f] ELSE snap[f]] ELSE snap
  /\ UNCHANGED <<scn, nextid, phase, zero, ih, todo>>

\* the program calls the API after the registrations and before run(): the k-th behaviour of scn.pre
PreStep ==
  /\ phase = "pre" /\ todo # <<>>
  /\ LET b == Head(todo)
         evs == BehEvents(b, "pre", Len(scn.pre) - Len(todo) + 1)
     IN Emit(evs) /\ ih' = IhFold(ih, evs, 1) /\ nextid' = NextIdAfter(b) /\ zero' = ZeroAfter(b)
  /\ todo' = Tail(todo)
  /\ phase' = IF Tail(todo) = <<>> THEN "run" ELSE "pre"
  /\ UNCHANGED <<scn, snap, steps>>

Stop ==
  /\ phase = "run" /\ Raised
  /\ LET errs == (s.raised \ Swallowed) \ {"exit"}
     IN Emit(<<[t |-> "run_end", outcome |-> IF errs # {} THEN "raise" ELSE "return", exc |-> (IF errs # {} THEN ExcName(CHOOSE k \in errs : TRUE) ELSE "")]>>)
  /\ phase' = "done"
  /\ UNCHANGED <<scn, nextid, zero, ih, snap, todo>>

Next == /\ why = "-"
        /\ \/ PreStep
           \/ /\ steps' = steps + 1
              /\ \/ EnvAtStart
                 \/ (~ENABLED EnvAtStart /\ (\/ \E a \in 1..MaxA : ServeAlarm(a)
                                             \/ \E f \in 1..NF : ServeWatch(f)
                                             \/ RunIdle \/ Block \/ Stop))
Spec == Init /\ [][Next]_vars

\* behaviour export (tlc -simulate): the scenario is drawn at random in the first step, because the
\* simulator enumerates Init once and the full scenario space is far too large to enumerate there
\* (an operator with a parameter that the body uses: a constant-level definition without parameters is evaluated once per TLC run,
\* which made every behaviour of one run start from the same scenario)
RandomScn(k) ==
  [alarms |-> [i \in 1..NA |-> [delay |-> RandomElement({d \in Delays : k >= 0}), beh |-> RandomElement({b \in ABeh : k >= 0})]],
   watches |-> [f \in 1..NF |-> [at |-> RandomElement({a \in Ats : k >= 0}), beh |-> RandomElement({b \in WBeh : k >= 0})]],
   idles |-> [i \in 1..NI |-> RandomElement({b \in IBeh : k >= 0})],
   busy |-> RandomElement({b \in Busy : k >= 0}),
   pre |-> RandomElement({p \in UNION {[1..n -> Pre] : n \in 0..MaxPre} : k >= 0})]
SimInit == /\ scn = [alarms |-> <<>>, watches |-> <<>>, idles |-> <<>>, busy |-> 0, pre |-> <<>>]
           /\ s = InitState /\ why = "-" /\ nextid = NA + 2 /\ phase = "choose" /\ steps = 0 /\ zero = {}
           /\ ih = InitIh /\ snap = NoSnap /\ todo = <<>>
Choose == /\ phase = "choose"
          /\ scn' = RandomScn(steps)
          /\ LET r == Fold(InitState, RegEvents(scn'), 1) IN s' = r.s /\ why' = r.why
          /\ zero' = {i \in 1..NA : scn'.alarms[i].delay = 0}
          /\ ih' = IhFold(InitIh, RegEvents(scn'), 1) /\ todo' = scn'.pre
          /\ phase' = IF scn'.pre = <<>> THEN "run" ELSE "pre"
          /\ UNCHANGED <<nextid, steps, snap>>
SimSpec == SimInit /\ [][Choose \/ Next]_vars

ContractHolds == why = "-"
\* every scenario ends: the exit alarm guarantees a raise, after which the loop stops
Terminates == steps <= 40
==============================================================================
