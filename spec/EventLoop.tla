------------------------------ MODULE EventLoop ------------------------------
(* C13 generator model: a scenario (alarms with delays, watched descriptors with the time  *)
(* they become readable, idle callbacks, one scripted behaviour per callback) is chosen at *)
(* Init; an abstract event loop then serves it with every service order the contract       *)
(* allows.  Every event it produces is run through the contract monitor (EventLoopOps!     *)
(* Judge), so TLC checks that the contract is satisfiable by a correct loop for every      *)
(* scenario, and -- with Bad set -- that it refutes loops that block before running idle   *)
(* callbacks, run removed callbacks, fire alarms out of order, or let a zero-delay alarm   *)
(* overtake an alarm that is already overdue (busy start-up before run(), slow callback).  *)
(* The scenarios double as test scripts for the six real loops (spec -> code).             *)
EXTENDS EventLoopOps

CONSTANTS NA, NF, NI,      \* scripted alarms 1..NA (alarm NA+1 is the final exit alarm), descriptors, idle callbacks
          Delays, Ats,     \* alarm delays; times at which a descriptor becomes readable (9999 = never within a session)
          ABeh, WBeh, IBeh,\* behaviours for alarm / watch / idle callbacks
          Busy,            \* subset of 0..NA: the program is busy (BusyD) right after registering alarm k, before run() (0 = no busy start-up)
          Bad              \* "" for the correct loop, else the name of a deliberately wrong loop

VARIABLES scn, s, nextid, why, phase, steps,
          zero             \* ids of the alarms registered with delay 0 (what the wrong loop "zeroDelayFirst" serves from a ready queue)
vars == <<scn, s, nextid, why, phase, steps, zero>>

ExitAlarm == NA + 1
ExitDelay == 100
BusyD == 15                \* length of a busy period (start-up, or a slow callback)

Scenarios ==
  [alarms : [1..NA -> [delay : Delays, beh : ABeh]],
   watches : [1..NF -> [at : Ats, beh : WBeh]],
   idles : [1..NI -> IBeh],
   busy : Busy]

RECURSIVE Fold(_, _, _)
Fold(st, evs, i) ==    \* run events through the monitor; stop at the first broken clause
  IF i > Len(evs) THEN [s |-> st, why |-> "-"]
  ELSE LET r == Judge(st, evs[i]) IN IF r.why # "-" THEN r ELSE Fold(r.s, evs, i + 1)

\* alarms are registered one after the other before run(); after alarm sc.busy the program is busy for BusyD (slow start-up),
\* so the alarms registered before it may already be overdue when the later ones (and run()) come
RECURSIVE AlarmRegs(_, _)
AlarmRegs(sc, i) ==
  IF i > NA THEN <<>>
  ELSE <<[t |-> "reg_alarm", id |-> i, delay |-> sc.alarms[i].delay]>>
       \o (IF sc.busy = i THEN <<[t |-> "slow", d |-> BusyD]>> ELSE <<>>) \o AlarmRegs(sc, i + 1)
RegEvents(sc) ==
  AlarmRegs(sc, 1)
  \o <<[t |-> "reg_alarm", id |-> ExitAlarm, delay |-> ExitDelay]>>
  \o [f \in 1..NF |-> [t |-> "reg_watch", fd |-> f]]
  \o [i \in 1..NI |-> [t |-> "reg_idle", id |-> i]]

Init == /\ scn \in Scenarios
        /\ LET r == Fold(InitState, RegEvents(scn), 1) IN s = r.s /\ why = r.why
        /\ nextid = NA + 2
        /\ zero = {i \in 1..NA : scn.alarms[i].delay = 0}
        /\ phase = "run"
        /\ steps = 0

\* events produced by a scripted behaviour b run from callback (kind, me)
FreeIdle(st) == IF \E i \in 1..MaxI : st.idles[i] = "none" THEN CHOOSE i \in 1..MaxI : st.idles[i] = "none" /\ \A j \in 1..(i - 1) : st.idles[j] # "none" ELSE 0
AddsAlarm(b) == b \in {"addAlarm", "addAlarm0", "slowAddAlarm0"}
AddsZero(b) == b \in {"addAlarm0", "slowAddAlarm0"}
BehEvents(b, kind, me) ==
  CASE b = "addAlarm" /\ nextid <= MaxA -> <<[t |-> "reg_alarm", id |-> nextid, delay |-> 10]>>
    [] b = "addAlarm0" /\ nextid <= MaxA -> <<[t |-> "reg_alarm", id |-> nextid, delay |-> 0]>>      \* the set_alarm_in(0, ...) idiom
    \* the callback is slow (alarms due meanwhile are overdue now) and then asks for a zero-delay alarm: due now, i.e. after them
    [] b = "slowAddAlarm0" -> <<[t |-> "slow", d |-> BusyD]>> \o (IF nextid <= MaxA THEN <<[t |-> "reg_alarm", id |-> nextid, delay |-> 0]>> ELSE <<>>)
    [] b = "addIdle" /\ FreeIdle(s) # 0 -> <<[t |-> "reg_idle", id |-> FreeIdle(s)]>>     \* enter_idle() called from within a callback
    [] b = "removeAlarm" -> LET tgt == IF kind = "alarm" THEN (me % NA) + 1 ELSE 1
                            IN <<[t |-> "remove_alarm", id |-> tgt, ret |-> s.alarms[tgt].st = "pending"]>>
    [] b = "removeAlarmTwice" -> LET tgt == IF kind = "alarm" THEN (me % NA) + 1 ELSE 1
                            IN <<[t |-> "remove_alarm", id |-> tgt, ret |-> s.alarms[tgt].st = "pending"],
                                 [t |-> "remove_alarm", id |-> tgt, ret |-> FALSE]>>
    [] b = "removeWatch" -> LET tgt == IF kind = "watch" THEN (me % NF) + 1 ELSE 1
                            IN <<[t |-> "remove_watch", fd |-> tgt, ret |-> s.watches[tgt] = "watched"]>>
    [] b = "removeSelfWatch" /\ kind = "watch" -> <<[t |-> "remove_watch", fd |-> me, ret |-> TRUE]>>
    [] b = "removeIdle" -> LET tgt == IF kind = "idle" THEN (me % NI) + 1 ELSE 1
                            IN <<[t |-> "remove_idle", id |-> tgt, ret |-> s.idles[tgt] = "active"]>>
    [] b = "slow" -> <<[t |-> "slow", d |-> BusyD]>>
    [] b = "exit" -> <<[t |-> "raise", kind |-> "exit"]>>
    [] b = "error" -> <<[t |-> "raise", kind |-> "error"]>>
    [] OTHER -> <<>>
NextIdAfter(b) == IF AddsAlarm(b) /\ nextid <= MaxA THEN nextid + 1 ELSE nextid
ZeroAfter(b) == IF AddsZero(b) /\ nextid <= MaxA THEN zero \cup {nextid} ELSE zero

Emit(evs) == LET r == Fold(s, evs, 1) IN s' = r.s /\ why' = r.why
Raised == s.raised # {}

AlarmBeh(a) == IF a = ExitAlarm THEN "exit" ELSE IF a <= NA THEN scn.alarms[a].beh ELSE "noop"

ServeAlarm(a) ==
  /\ phase = "run" /\ ~Raised
  /\ s.alarms[a].st = "pending" /\ s.alarms[a].due <= s.now
  \* "zeroDelayFirst": zero-delay alarms go to a ready queue that is served before the overdue timers are looked at
  /\ (Bad = "alarmOrder" \/ (Bad = "zeroDelayFirst" /\ a \in zero) \/ \A b \in Pending(s) : s.alarms[b].due >= s.alarms[a].due)
  /\ Emit(<<[t |-> "alarm_cb", id |-> a]>> \o BehEvents(AlarmBeh(a), "alarm", a))
  /\ nextid' = NextIdAfter(AlarmBeh(a)) /\ zero' = ZeroAfter(AlarmBeh(a))
  /\ UNCHANGED <<scn, phase>>

ServeWatch(f) ==
  /\ phase = "run" /\ ~Raised
  /\ (s.watches[f] = "watched" \/ (Bad = "removedWatch" /\ s.watches[f] = "removed")) /\ f \in s.readable
  /\ Emit(<<[t |-> "watch_cb", fd |-> f], [t |-> "drain", fd |-> f]>> \o BehEvents(scn.watches[f].beh, "watch", f))
  /\ nextid' = NextIdAfter(scn.watches[f].beh) /\ zero' = ZeroAfter(scn.watches[f].beh)
  /\ UNCHANGED <<scn, phase>>

\* all idle callbacks, one after the other; a callback removed by an earlier one is skipped
RECURSIVE IdleRun(_, _)
IdleRun(st, i) ==
  IF i > MaxI THEN [s |-> st, why |-> "-"]
  ELSE IF st.idles[i] # "active" \/ st.raised # {} THEN IdleRun(st, i + 1)
  ELSE LET b == IF i <= NI THEN scn.idles[i] ELSE "noop"     \* idle callbacks registered from within callbacks do nothing
           evs == <<[t |-> "idle_cb", id |-> i]>> \o
                  (CASE b = "removeIdle" -> <<[t |-> "remove_idle", id |-> (i % NI) + 1, ret |-> st.idles[(i % NI) + 1] = "active"]>>
                     [] b = "exit" -> <<[t |-> "raise", kind |-> "exit"]>>
                     [] b = "error" -> <<[t |-> "raise", kind |-> "error"]>>
                     [] b = "slow" -> <<[t |-> "slow", d |-> BusyD]>>
                     [] OTHER -> <<>>)
           r == Fold(st, evs, 1)
       IN IF r.why # "-" THEN r ELSE IdleRun(r.s, i + 1)

RunIdle ==
  /\ phase = "run" /\ ~Raised /\ s.dirty
  /\ LET r == IdleRun(s, 1) IN s' = [r.s EXCEPT !.dirty = FALSE] /\ why' = r.why
  /\ UNCHANGED <<scn, nextid, phase, zero>>

DueNow == \E a \in Pending(s) : s.alarms[a].due <= s.now
ReadyNow == Watched(s) \cap s.readable
NextEnv == {scn.watches[f].at : f \in {f \in 1..NF : scn.watches[f].at > s.now}}
NextTimes == {s.alarms[a].due : a \in Pending(s)} \cup NextEnv
MinOf(S) == CHOOSE x \in S : \A y \in S : x <= y

\* the loop goes quiescent until the next alarm or descriptor event
Block ==
  /\ phase = "run" /\ ~Raised /\ ~DueNow /\ ReadyNow = {} /\ NextTimes # {}
  /\ (Bad = "blockDirty" \/ ~s.dirty \/ ActiveIdles(s) = {})
  /\ LET to == MinOf(NextTimes)
         fds == {f \in 1..NF : scn.watches[f].at = to}
         evs == <<[t |-> "wait", timeout |-> IF Pending(s) = {} THEN Inf ELSE MinDue(s) - s.now, ready |-> <<>>, grace |-> 0],
                  [t |-> "advance", to |-> to]>>
                \o [k \in 1..Cardinality(fds) |-> [t |-> "env_readable", fd |-> CHOOSE f \in fds : Cardinality({g \in fds : g < f}) = k - 1]]
     IN Emit(evs)
  /\ UNCHANGED <<scn, nextid, phase, zero>>

\* descriptors that became readable before run() is entered (at time 0, or during a busy start-up) are readable from the start
AtStart == {f \in 1..NF : scn.watches[f].at <= s.now /\ f \notin s.readable}
EnvAtStart ==
  /\ phase = "run" /\ steps = 0
  /\ AtStart # {}
  /\ Emit([k \in 1..Cardinality(AtStart) |-> [t |-> "env_readable", fd |-> CHOOSE f \in AtStart : Cardinality({g \in AtStart : g < f}) = k - 1]])
  /\ UNCHANGED <<scn, nextid, phase, zero>>

Stop ==
  /\ phase = "run" /\ Raised
  /\ Emit(<<[t |-> "run_end", outcome |-> IF "error" \in s.raised THEN "raise" ELSE "return", exc |-> "VfError"]>>)
  /\ phase' = "done"
  /\ UNCHANGED <<scn, nextid, zero>>

Next == /\ why = "-"
        /\ steps' = steps + 1
        /\ \/ EnvAtStart
           \/ (~ENABLED EnvAtStart /\ (\/ \E a \in 1..MaxA : ServeAlarm(a)
                                       \/ \E f \in 1..NF : ServeWatch(f)
                                       \/ RunIdle \/ Block \/ Stop))
Spec == Init /\ [][Next]_vars

\* behaviour export (tlc -simulate): the scenario is drawn at random in the first step, because the
\* simulator enumerates Init once and the full scenario space is far too large to enumerate there
\* (an operator with a parameter that the body uses: a constant-level definition without parameters is evaluated once per TLC run,
\* which made every behaviour of one run start from the same scenario)
RandomScn(k) ==
  [alarms |-> [i \in 1..NA |-> [delay |-> RandomElement({d \in Delays : k >= 0}), beh |-> RandomElement({b \in ABeh : k >= 0})]],
   watches |-> [f \in 1..NF |-> [at |-> RandomElement({a \in Ats : k >= 0}), beh |-> RandomElement({b \in WBeh : k >= 0})]],
   idles |-> [i \in 1..NI |-> RandomElement({b \in IBeh : k >= 0})],
   busy |-> RandomElement({b \in Busy : k >= 0})]
SimInit == /\ scn = [alarms |-> <<>>, watches |-> <<>>, idles |-> <<>>, busy |-> 0]
           /\ s = InitState /\ why = "-" /\ nextid = NA + 2 /\ phase = "choose" /\ steps = 0 /\ zero = {}
Choose == /\ phase = "choose"
          /\ scn' = RandomScn(steps)
          /\ LET r == Fold(InitState, RegEvents(scn'), 1) IN s' = r.s /\ why' = r.why
          /\ zero' = {i \in 1..NA : scn'.alarms[i].delay = 0}
          /\ phase' = "run"
          /\ UNCHANGED <<nextid, steps>>
SimSpec == SimInit /\ [][Choose \/ Next]_vars

ContractHolds == why = "-"
\* every scenario ends: the exit alarm guarantees a raise, after which the loop stops
Terminates == steps <= 40
==============================================================================
