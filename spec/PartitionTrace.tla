---------------------------- MODULE PartitionTrace ----------------------------
(* C19 trace validation.  Every event is one configuration driven through the real urwid      *)
(* code together with what the code assigned:                                                 *)
(*   "columns": Columns.column_widths (widths) and the widths the probe children were          *)
(*              rendered at (rw), all sizes handed to children (sizes)                         *)
(*   "pile":    Pile.get_item_rows of a box-sized Pile (rows), rendered rows (rr), sizes       *)
(*   "pad":     Padding.padding_values / Filler.filler_values: margins l, r and the extent     *)
(*              the child got; the configuration carries the NATURAL extent of a packed /     *)
(*              fixed child (nat) and whether it shrinks to what it is offered (flex)         *)
(*   "overlay": Overlay.calculate_padding_filler + top_w_size, one "pad" record per axis       *)
(*   "grid":    GridFlow: per cell the width handed (cols), painted (pw) and the painted       *)
(*              left top corner (xs, ys)                                                       *)
(* One clause name per sentence of the property.  IOEnv.C19_MODE = "weak" judges the           *)
(* property (weaker readings); "strong" evaluates the stronger readings, whose rejections      *)
(* are reported as DIVERGENCE only.                                                            *)
EXTENDS PartitionOps, Json, IOUtils

Traces == JsonDeserialize(IOEnv.TRACE_FILE)
StrongMode == IOEnv.C19_MODE = "strong"
VARIABLES tid, l, ok, why
vars == <<tid, l, ok, why>>

Init == tid \in 1..Len(Traces) /\ l = 0 /\ ok = TRUE /\ why = "-"

NoNegativeSizes(sizes) == \A i \in 1..Len(sizes) : \A k \in 1..Len(sizes[i]) : sizes[i][k] >= 0

\* the sentences about Columns, applied to one assignment of widths
ColClauses(e, w) ==
  IF ~ColNonNegInts(e.opts, w) THEN "nonneg_ints"
  ELSE IF ~ColOwnSizeOrNothing(e.opts, e.own, w) THEN "given_or_pack_own_size_or_nothing"
  ELSE IF ~ColFocusVisible(e.opts, e.own, e.mw, e.f, e.avail, w) THEN "focus_visible_if_fits_alone"
  ELSE IF ~ColNeverExceed(e.opts, e.d, e.avail, w) THEN "never_exceed_available_with_dividers"
  ELSE IF ~ColFillExactly(e.opts, e.own, e.d, e.avail, w) THEN "fill_exactly_when_weighted_shown"
  ELSE IF ~ColProportional(e.opts, e.mw, w) THEN "proportional_within_one_unless_min_width"
  ELSE "-"
ColStrong(e, w) ==
  IF ~StrongColFillExactly(e.opts, e.own, e.d, e.avail, w) THEN "fill_exactly_also_with_zero_sized_columns"
  ELSE IF ~StrongColProportional(e.opts, e.mw, w) THEN "proportional_whenever_shares_reach_min_width"
  ELSE "-"
ColumnsVerdict(e) ==
  IF e.exc # "" THEN (IF InStatement(e.opts, e.own) THEN "widths_assigned_for_every_combination" ELSE "-")
  ELSE LET a == ColClauses(e, e.widths) IN
       IF a # "-" THEN a
       ELSE IF ~NoNegativeSizes(e.sizes) THEN "no_negative_dimension"
       ELSE IF e.rendered = 1 THEN (LET b == ColClauses(e, e.rw) IN IF b # "-" THEN b \o "@render" ELSE "-")
       ELSE "-"
ColumnsStrong(e) ==
  IF e.exc # "" THEN "allocation_raises_outside_the_stated_domain"
  ELSE IF e.rexc # "" THEN "render_raises"
  ELSE LET a == ColStrong(e, e.widths) IN
       IF a # "-" THEN a ELSE IF e.rendered = 1 THEN ColStrong(e, e.rw) ELSE "-"

PileClauses(e, r) ==
  IF ~PileNonNegInts(e.opts, r) THEN "nonneg_ints"
  ELSE IF ~PileOwnSizeOrNothing(e.opts, e.own, r) THEN "given_or_pack_own_size_or_nothing"
  ELSE IF ~PileFillExactly(e.opts, e.avail, r) THEN "pile_rows_same.fill_exactly"
  ELSE IF ~PileProportional(e.opts, e.avail, r) THEN "pile_rows_same.proportional_within_one"
  ELSE "-"
PileVerdict(e) ==
  IF e.exc # "" THEN    \* documented: a box-sized Pile needs a weighted item
     (IF e.exc = "PileError" /\ ~HasPositiveWeight(e.opts) THEN "-"
      ELSE IF InStatement(e.opts, e.own) THEN "rows_assigned_for_every_combination" ELSE "-")
  ELSE LET a == PileClauses(e, e.rows) IN
       IF a # "-" THEN a
       ELSE IF ~NoNegativeSizes(e.sizes) THEN "no_negative_dimension"
       ELSE IF e.rendered = 1 THEN (LET b == PileClauses(e, e.rr) IN IF b # "-" THEN b \o "@render" ELSE "-")
       ELSE "-"
PileStrong(e) ==
  IF e.exc # "" THEN (IF e.exc = "PileError" /\ ~HasPositiveWeight(e.opts) THEN "-" ELSE "allocation_raises_outside_the_stated_domain")
  ELSE IF e.rexc # "" THEN "render_raises"
  ELSE IF ~StrongPileNeverExceed(e.opts, e.avail, e.rows) THEN "pile_rows_never_exceed_available"
  ELSE "-"

AxisClauses(x) ==
  IF ~PadNoNegative(x.c, x.l, x.r, x.child) THEN "no_negative_dimension"
  ELSE IF ~PadChildOK(x.c, x.child) THEN "pad_child_requested_if_fits_else_remaining"
  ELSE IF ~PadFill(x.c, x.l, x.r, x.child) THEN "margins_plus_child_fill"
  ELSE IF ~PadAlign(x.c, x.l, x.r, x.child) THEN "align_split_within_rounding"
  ELSE "-"
AxisStrong(x) ==
  IF ~StrongPadChildOK(x.c, x.child) THEN "child_gets_exactly_what_margins_leave_when_it_does_not_fit" ELSE "-"
PadVerdict(e) ==
  IF e.exc # "" THEN "margins_assigned_for_every_combination"
  ELSE IF ~NoNegativeSizes(e.sizes) THEN "no_negative_dimension"
  ELSE AxisClauses(e)
OverlayVerdict(e) ==
  IF e.exc # "" THEN "margins_assigned_for_every_combination"
  ELSE IF ~NoNegativeSizes(e.sizes) THEN "no_negative_dimension"
  ELSE LET a == AxisClauses(e.h) IN IF a # "-" THEN a \o "@h" ELSE
       LET b == AxisClauses(e.v) IN IF b # "-" THEN b \o "@v" ELSE "-"

GridVerdict(e) ==
  IF e.exc # "" THEN "gridflow_renders_for_every_combination"
  ELSE IF ~NoNegativeSizes(e.sizes) THEN "no_negative_dimension"
  ELSE IF ~GridShown(e.n, e.avail, e.pw, e.xs, e.ys) THEN "gridflow_every_cell_shown"
  ELSE IF ~(GridCellWidth(e.n, e.cw, e.avail, e.cols) /\ GridCellWidth(e.n, e.cw, e.avail, e.pw))
       THEN "gridflow_cell_width_reading_order.width"
  ELSE IF ~GridReadingOrder(e.n, e.pw, e.xs, e.ys) THEN "gridflow_cell_width_reading_order.order"
  ELSE "-"
GridStrong(e) ==
  IF e.exc # "" THEN "-"
  ELSE IF ~StrongGridCellWidth(e.n, e.cw, e.avail, e.pw) THEN "gridflow_cell_width_even_when_narrower_than_a_cell" ELSE "-"

Verdict(e) ==
  CASE e.t = "columns" -> IF StrongMode THEN ColumnsStrong(e) ELSE ColumnsVerdict(e)
    [] e.t = "pile" -> IF StrongMode THEN PileStrong(e) ELSE PileVerdict(e)
    [] e.t = "pad" -> IF StrongMode THEN (IF e.exc # "" THEN "-" ELSE IF e.rexc # "" THEN "render_raises" ELSE AxisStrong(e))
                      ELSE PadVerdict(e)
    [] e.t = "overlay" -> IF StrongMode
                          THEN (IF e.exc # "" THEN "-" ELSE IF e.rexc # "" THEN "render_raises"
                                ELSE LET a == AxisStrong(e.h) IN IF a # "-" THEN a ELSE AxisStrong(e.v))
                          ELSE OverlayVerdict(e)
    [] e.t = "grid" -> IF StrongMode THEN GridStrong(e) ELSE GridVerdict(e)
    [] OTHER -> "no_action"

Step == /\ ok /\ l < Len(Traces[tid].ev) /\ l' = l + 1 /\ tid' = tid
        /\ LET v == Verdict(Traces[tid].ev[l + 1]) IN why' = v /\ ok' = (v = "-")
Spec == Init /\ [][Step]_vars
Report == ok \/ PrintT(<<"REJECT", tid, l, why>>)
================================================================================
