--------------------------------- MODULE ListBox ---------------------------------
(* C07 model: an abstract list box (item heights, focus, flat scroll offset) under every       *)
(* history of focus moves, scrolling, resizes and list edits within bounds, with the           *)
(* simplest placement rule that satisfies the contract: after every action the offset is       *)
(* adjusted minimally so that the focus item (its cursor row) is visible and no gap is left.   *)
(* TLC checks that the contract predicates of ListBoxOps hold in every reachable state, i.e.   *)
(* that the contract is satisfiable under all histories, and refutes a placement that does     *)
(* not re-fill from the top after deletions (Bad = "noRefill").                                 *)
EXTENDS ListBoxOps

CONSTANTS MaxItems, Heights, MaxH, Depth, Bad

VARIABLES heights, focus, top, h, n, last
vars == <<heights, focus, top, h, n, last>>

Total(hs) == Len(Flat(hs))
Max2(a, b) == IF a > b THEN a ELSE b
Min2(a, b) == IF a < b THEN a ELSE b

\* minimal adjustment of the offset: keep the first row of the focus item inside the window, leave no gap below
Place(hs, f, t, hh) ==
  LET tot == Total(hs)
      maxtop == Max2(0, tot - hh)
      t1 == IF Bad = "noRefill" THEN t ELSE Min2(t, maxtop)
      fr == IF f >= 0 THEN FirstRowOf(hs, f) ELSE 0        \* 1-based or 0
      t2 == IF fr = 0 THEN t1
            ELSE IF fr - 1 < t1 THEN fr - 1
            ELSE IF fr - 1 >= t1 + hh THEN fr - hh
            ELSE t1
  IN IF Bad = "noRefill" THEN Max2(0, t2) ELSE Max2(0, Min2(t2, Max2(maxtop, 0)))

Seqs == UNION {[1..k -> Heights] : k \in 0..MaxItems}
Init == /\ heights \in Seqs /\ h \in 1..MaxH
        /\ focus = IF heights = <<>> THEN -1 ELSE 0
        /\ top = 0 /\ n = 0 /\ last = "init"

Act(name, hs, f, t, hh) ==
  /\ heights' = hs /\ focus' = f /\ h' = hh /\ top' = Place(hs, f, t, hh) /\ last' = name /\ n' = n + 1

Next ==
  /\ n < Depth
  /\ \/ (focus >= 0 /\ focus + 1 < Len(heights) /\ Act("down", heights, focus + 1, top, h))
     \/ (focus > 0 /\ Act("up", heights, focus - 1, top, h))
     \/ (\E f \in 0..(Len(heights) - 1) : Act("set_focus", heights, f, top, h))
     \/ (\E t \in 0..Total(heights) : Act("scroll", heights, focus, t, h))
     \/ (\E hh \in 1..MaxH : Act("resize", heights, focus, top, hh))
     \/ (Len(heights) > 0 /\ \E i \in 1..Len(heights) :
            LET hs == SubSeq(heights, 1, i - 1) \o SubSeq(heights, i + 1, Len(heights))
                f == IF hs = <<>> THEN -1 ELSE IF focus >= i THEN Max2(focus - 1, 0) ELSE Min2(focus, Len(hs) - 1)
            IN Act("delete", hs, f, top, h))
     \/ (Len(heights) < MaxItems /\ \E i \in 0..Len(heights), x \in Heights :
            LET hs == SubSeq(heights, 1, i) \o <<x>> \o SubSeq(heights, i + 1, Len(heights))
                f == IF focus < 0 THEN 0 ELSE IF i <= focus THEN focus + 1 ELSE focus
            IN Act("insert", hs, f, top, h))
Spec == Init /\ [][Next]_vars

ContractSatisfied == ViewVerdict(ViewAt(heights, top, h), heights, IF focus >= 0 /\ heights[focus + 1] > h THEN -1 ELSE focus, -1, h) = "-"
==================================================================================
