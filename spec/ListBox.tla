--------------------------------- MODULE ListBox ---------------------------------
(* C07 model: an abstract list box (item heights, focus, flat scroll offset) under every       *)
(* history of focus moves, scrolling, resizes and list edits within bounds, with the           *)
(* simplest placement rule that satisfies the contract: after every action the offset is       *)
(* adjusted minimally so that the focus item (its cursor row) is visible and no gap is left.   *)
(* TLC checks that the contract predicates of ListBoxOps hold in every reachable state, i.e.   *)
(* that the contract is satisfiable under all histories, and refutes a placement that does     *)
(* not re-fill from the top after deletions (Bad = "noRefill").                                 *)
(* The box may have zero rows (it then shows nothing, whatever is requested meanwhile, and      *)
(* recovers when rows come back).  Items are also removed through negative indices (pop(),      *)
(* del w[-k]): Bad = "negIndexSlice" is the bookkeeping that takes the removed range of index   *)
(* -1 for slice(-1, 0), i.e. empty, and leaves the focus past the end of the list -- refuted.   *)
(* Bad = "endAtEmpty" is the placement that takes an item of zero rows above the focus for the  *)
(* top of the list when it fills the box upwards -- refuted (blank rows while items are hidden). *)
EXTENDS ListBoxOps

CONSTANTS MaxItems, Heights, MaxH, Depth, Bad

VARIABLES heights, focus, top, h, n, last
vars == <<heights, focus, top, h, n, last>>

Total(hs) == Len(Flat(hs))
Max2(a, b) == IF a > b THEN a ELSE b
Min2(a, b) == IF a < b THEN a ELSE b

\* minimal adjustment of the offset: keep the first row of the focus item inside the window, leave no gap below
Place(hs, f, t, hh) ==
  LET tot == Total(hs)
      maxtop == Max2(0, tot - hh)
      t1 == IF Bad = "noRefill" THEN t ELSE Min2(t, maxtop)
      fr == IF f >= 0 THEN FirstRowOf(hs, f) ELSE 0        \* 1-based or 0
      t2 == IF fr = 0 THEN t1
            ELSE IF fr - 1 < t1 THEN fr - 1
            ELSE IF fr - 1 >= t1 + hh THEN fr - hh
            ELSE t1
      \* rows lying above the nearest zero-row item over the focus (0 when there is none)
      empties == {i \in 1..Len(hs) : i <= f /\ hs[i] = 0}
      above == IF Bad = "endAtEmpty" /\ f >= 0 /\ f < Len(hs) /\ empties # {}
               THEN Total(SubSeq(hs, 1, CHOOSE i \in empties : \A j \in empties : j <= i)) ELSE 0
  IN IF Bad = "noRefill" THEN Max2(0, t2) ELSE Max2(above, Max2(0, Min2(t2, Max2(maxtop, 0))))

Seqs == UNION {[1..k -> Heights] : k \in 0..MaxItems}
Init == /\ heights \in Seqs /\ h \in 0..MaxH
        /\ focus = IF heights = <<>> THEN -1 ELSE 0
        /\ top = 0 /\ n = 0 /\ last = "init"

Act(name, hs, f, t, hh) ==
  /\ heights' = hs /\ focus' = f /\ h' = hh /\ top' = Place(hs, f, t, hh) /\ last' = name /\ n' = n + 1

Next ==
  /\ n < Depth
  /\ \/ (focus >= 0 /\ focus + 1 < Len(heights) /\ Act("down", heights, focus + 1, top, h))
     \/ (focus > 0 /\ Act("up", heights, focus - 1, top, h))
     \/ (\E f \in 0..(Len(heights) - 1) : Act("set_focus", heights, f, top, h))
     \/ (\E t \in 0..Total(heights) : Act("scroll", heights, focus, t, h))
     \/ (\E hh \in 0..MaxH : Act("resize", heights, focus, top, hh))
     \/ (Len(heights) > 0 /\ \E i \in 1..Len(heights) :
            LET hs == SubSeq(heights, 1, i - 1) \o SubSeq(heights, i + 1, Len(heights))
                f == IF hs = <<>> THEN -1 ELSE IF focus >= i THEN Max2(focus - 1, 0) ELSE Min2(focus, Len(hs) - 1)
            IN Act("delete", hs, f, top, h))
     \* the same removal addressed from the end: pop() = pop(-1), del w[-k], k = 1..Len
     \/ (Len(heights) > 0 /\ \E k \in 1..Len(heights) :
            LET i == Len(heights) - k + 1
                hs == SubSeq(heights, 1, i - 1) \o SubSeq(heights, i + 1, Len(heights))
                f == IF hs = <<>> THEN -1
                     ELSE IF Bad = "negIndexSlice" /\ k = 1 THEN focus       \* "nothing removed": the focus index is kept
                     ELSE IF focus >= i THEN Max2(focus - 1, 0) ELSE Min2(focus, Len(hs) - 1)
            IN Act("delete_from_end", hs, f, top, h))
     \/ (Len(heights) < MaxItems /\ \E i \in 0..Len(heights), x \in Heights :
            LET hs == SubSeq(heights, 1, i) \o <<x>> \o SubSeq(heights, i + 1, Len(heights))
                f == IF focus < 0 THEN 0 ELSE IF i <= focus THEN focus + 1 ELSE focus
            IN Act("insert", hs, f, top, h))
Spec == Init /\ [][Next]_vars

ContractSatisfied == FocusIsItem(focus, heights) /\ ViewVerdict(ViewAt(heights, top, h), heights, IF focus >= 0 /\ heights[focus + 1] > h THEN -1 ELSE focus, -1, h) = "-"
==================================================================================
