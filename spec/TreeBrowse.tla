------------------------------- MODULE TreeBrowse -------------------------------
(* X04 state machine: a TreeListBox over a TreeWalker over a lazily loaded tree of TreeNode /    *)
(* ParentNode objects.  The tree shape (any ordered tree with NMin..NMax nodes; leaves may be     *)
(* plain TreeNodes or ParentNodes without children), the set of parents whose widget starts       *)
(* collapsed and nothing else is chosen in Init; afterwards one action per public operation /     *)
(* user event (keys and mouse on the TreeListBox, keys and mouse on a TreeWidget, TreeWalker       *)
(* set_focus / get_next / get_prev, TreeWidget.expanded = ..., first_child / last_child, the        *)
(* TreeNode / ParentNode navigation calls, change_child_key + get_child_keys(reload=True),          *)
(* get_child_node(reload=True)).  After every operation the view is rendered and the display order  *)
(* is walked (get_next from the root, get_prev back) -- the harness does the same -- which is what *)
(* loads nodes.  `last` carries the operation and its outcome; exhaustive runs identify states by   *)
(* View (without last) and every predicate over the outcome is an action property.                  *)
(* Variant # "ok" selects a deliberately broken operator of TreeBrowseOps that TLC must refute.     *)
(* SimSpec (tlc -simulate) draws a random tree in its first step and then random enabled            *)
(* operations: these behaviours are replayed on the real objects.  BrowseSpec (only 'down' and      *)
(* 'right', weakly fair) carries the liveness property.                                             *)
EXTENDS TreeBrowseOps

CONSTANTS NMin, NMax,   \* number of nodes of the tree
          H,            \* rows of the view
          LeafSels,     \* leaf widgets: 1 selectable (the examples' subclass), 0 stock; chosen in Init from this set
          EmptyParents, \* TRUE: a childless node may be a ParentNode
          ICMode,       \* "none": every widget starts expanded; "any": any set of parents starts collapsed
          Classes,      \* which operation classes are explored: subset of {"key","call","wkey","mouse","wmouse","set_focus","set_exp","api","walker","rename","reload"}
          Keys,         \* keys sent to the TreeListBox
          WKeys,        \* keys sent to a TreeWidget directly
          MouseEvs, Buttons, Cols,
          KeyVals,      \* new keys tried by change_child_key
          MaxReload,    \* bound on reload operations (keeps the load counters finite)
          Variant

VARIABLES tree, isp, ic, leafsel,  \* the tree (tree.par and the tables derived from it) and the kind of leaf widgets; fixed after Init
          exp, focus, off,         \* expanded flags, walker focus, ListBox row offset of the focus
          hk, hn, ldk, ldn,        \* what is cached, how often it was loaded
          key, stale,              \* node keys, parent with an out-of-date key list
          everopen,                \* everopen[p] = 1: p has been an expanded parent while its node object existed
          api,                     \* 1: get_first_child / get_last_child / has_children were called directly
          nrel,                    \* reload operations so far
          last
vars == <<tree, isp, ic, leafsel, exp, focus, off, hk, hn, ldk, ldn, key, stale, everopen, api, nrel, last>>
wv == <<exp, focus>>

par == tree.par
World == [t |-> tree, isp |-> isp, ic |-> ic, exp |-> exp, focus |-> focus, off |-> off, h |-> H, hk |-> hk, hn |-> hn,
          ldk |-> ldk, ldn |-> ldn, key |-> key, stale |-> stale, leafsel |-> leafsel, variant |-> Variant]
N == Len(par)
Nodes == 1..N

(* ---- initial states: every ordered tree (node ids increase from parent to child; siblings in id order) ---- *)
ShapesN(n) == {p \in [1..n -> 0..(n - 1)] : p[1] = 0 /\ \A k \in 2..n : p[k] \in 1..(k - 1)}
HasKids(p, x) == \E c \in 1..Len(p) : p[c] = x
IspOf(p) == {s \in [1..Len(p) -> {0, 1}] : s[1] = 1 /\ \A x \in 1..Len(p) : (HasKids(p, x) => s[x] = 1) /\ (~EmptyParents /\ ~HasKids(p, x) /\ x # 1 => s[x] = 0)}
IcOf(s) == IF ICMode = "none" THEN {[x \in 1..Len(s) |-> 0]} ELSE {c \in [1..Len(s) -> {0, 1}] : \A x \in 1..Len(s) : s[x] = 0 => c[x] = 0}
NoOp == MkOp("init", 0, 0, "", "", 0, 0, 0)
W0(p, s, c, ls) ==
  LET n == Len(p)  z == [x \in 1..n |-> 0] IN
  Settle([t |-> Tree(p), isp |-> s, ic |-> c, exp |-> [x \in 1..n |-> IF s[x] = 1 /\ c[x] = 1 THEN 0 ELSE 1], focus |-> 1, off |-> 0, h |-> H,
          hk |-> z, hn |-> [x \in 1..n |-> IF x = 1 THEN 1 ELSE 0], ldk |-> z, ldn |-> z, key |-> [x \in 1..n |-> x], stale |-> 0,
          leafsel |-> ls, variant |-> Variant], TRUE, TRUE)
EverOf(W, ev) == [x \in 1..NN(W) |-> IF ev[x] = 1 \/ (Open(W, x) /\ W.hn[x] = 1) THEN 1 ELSE 0]
Init == \E n \in NMin..NMax : \E p \in ShapesN(n) : \E s \in IspOf(p) : \E c \in IcOf(s) : \E ls \in LeafSels :
          LET w == W0(p, s, c, ls) IN
          /\ tree = w.t /\ isp = s /\ ic = c /\ leafsel = ls
          /\ exp = w.exp /\ focus = w.focus /\ off = w.off /\ hk = w.hk /\ hn = w.hn /\ ldk = w.ldk /\ ldn = w.ldn
          /\ key = w.key /\ stale = 0
          /\ everopen = EverOf(w, [x \in 1..n |-> 0])
          /\ api = 0 /\ nrel = 0
          /\ last = [op |-> NoOp, res |-> "", exc |-> "", ret |-> 0, info |-> <<>>]

LazyBreaking == {"first_child", "last_child", "has_children"}
\* operations that make the load counters grow (bounded by MaxReload); the get_child_keys(reload=True) that has to follow
\* a change_child_key is part of the rename
Bounded(op) == op.n \in {"rename", "reload_node"} \/ (op.n = "reload_keys" /\ stale = 0)
Do(op) ==
  LET r == Apply(World, op)
      w == IF r.w.stale = 0 THEN Settle(r.w, TRUE, TRUE) ELSE r.w
      ev0 == IF op.n = "reload_node" THEN [x \in Nodes |-> IF x \in Sub(World, op.a) THEN 0 ELSE everopen[x]] ELSE everopen
  IN /\ Enabled(World, op)
     /\ Bounded(op) => nrel < MaxReload
     /\ exp' = w.exp /\ focus' = w.focus /\ off' = w.off /\ hk' = w.hk /\ hn' = w.hn /\ ldk' = w.ldk /\ ldn' = w.ldn
     /\ key' = w.key /\ stale' = w.stale
     /\ everopen' = EverOf(w, ev0)
     /\ api' = IF op.n \in LazyBreaking THEN 1 ELSE api
     /\ nrel' = IF Bounded(op) THEN nrel + 1 ELSE nrel
     /\ last' = [op |-> op, res |-> r.res, exc |-> r.exc, ret |-> r.ret, info |-> r.info]
     /\ UNCHANGED <<tree, isp, ic, leafsel>>

(* ---- one action per public operation / user event ---- *)
KeyA(k)                 == Do(MkOp("key", 0, 0, k, "", 0, 0, 0))
CallA(m)                == Do(MkOp("call", 0, 0, m, "", 0, 0, 0))
UnhandledA(k)           == Do(MkOp("unhandled", 0, 0, k, "", 0, 0, 0))
WKeyA(a, k)             == Do(MkOp("wkey", a, 0, k, "", 0, 0, 0))
MouseA(ev, b, c, r)     == Do(MkOp("mouse", 0, 0, "", ev, b, c, r))
WMouseA(a, ev, b, c, r) == Do(MkOp("wmouse", a, 0, "", ev, b, c, r))
SetFocusA(a)            == a # focus /\ Do(MkOp("set_focus", a, 0, "", "", 0, 0, 0))
SetExpA(a, v)           == Do(MkOp("set_exp", a, v, "", "", 0, 0, 0))
NodeA(name, a)          == Do(MkOp(name, a, 0, "", "", 0, 0, 0))
RenameA(a, k)           == Do(MkOp("rename", a, k, "", "", 0, 0, 0))

Has(c) == c \in Classes
WalkerOps == {"wnext", "wprev", "wfirst", "wlast"}
Next ==
  \/ Has("key") /\ \E k \in Keys : KeyA(k)
  \/ Has("call") /\ ((\E m \in CallNames : CallA(m)) \/ (\E k \in {"left", "-", "x"} : UnhandledA(k)))
  \/ Has("wkey") /\ \E a \in Nodes, k \in WKeys : WKeyA(a, k)
  \/ Has("mouse") /\ \E ev \in MouseEvs, b \in Buttons, c \in Cols, r \in 0..H : MouseA(ev, b, c, r)
  \/ Has("wmouse") /\ \E a \in Nodes, ev \in MouseEvs, b \in Buttons, c \in Cols, r \in {0, 1} : WMouseA(a, ev, b, c, r)
  \/ Has("set_focus") /\ \E a \in Nodes : SetFocusA(a)
  \/ Has("set_exp") /\ \E a \in Nodes, v \in {0, 1} : SetExpA(a, v)
  \/ Has("api") /\ \E a \in Nodes, name \in ApiOps \cup {"info"} : NodeA(name, a)
  \/ Has("walker") /\ \E a \in Nodes, name \in WalkerOps : NodeA(name, a)
  \/ Has("rename") /\ \E a \in Nodes, k \in KeyVals : RenameA(a, k)
  \/ (Has("rename") \/ Has("reload")) /\ \E a \in Nodes : NodeA("reload_keys", a)
  \/ Has("reload") /\ \E a \in Nodes : NodeA("reload_node", a)
Spec == Init /\ [][Next]_vars

(* behaviour export (tlc -simulate).  The first step ("boot") draws a random tree, the following steps one randomly    *)
(* chosen enabled operation each (the class first, user events more often, then an operation of that class).          *)
(* Random draws are bound by \E over singleton sets so that each is made exactly once.                                *)
Z == 0 * nrel                                   \* mentions a variable: keeps TLC from folding the random draws into constants
Draw(S) == RandomElement(S)
RECURSIVE RandPar(_, _)
RandPar(n, acc) == IF Len(acc) >= n THEN acc ELSE RandPar(n, Append(acc, IF acc = <<>> THEN 0 ELSE Draw((1 + Z)..Len(acc))))
RECURSIVE RandIsp(_, _)
RandIsp(p, acc) ==
  IF Len(acc) >= Len(p) THEN acc
  ELSE LET x == Len(acc) + 1 IN RandIsp(p, Append(acc, IF x = 1 \/ HasKids(p, x) THEN 1 ELSE IF EmptyParents THEN (IF Draw((1 + Z)..3) = 1 THEN 1 ELSE 0) ELSE 0))
RECURSIVE RandIc(_, _)
RandIc(s, acc) ==
  IF Len(acc) >= Len(s) THEN acc
  ELSE LET x == Len(acc) + 1 IN RandIc(s, Append(acc, IF s[x] = 1 /\ ICMode = "any" /\ Draw((1 + Z)..4) = 1 THEN 1 ELSE 0))
BootOp == MkOp("boot", 0, 0, "", "", 0, 0, 0)
SimInit == /\ tree = Tree(<<0>>) /\ isp = <<1>> /\ ic = <<0>> /\ leafsel = 1 /\ exp = <<1>> /\ focus = 1 /\ off = 0
           /\ hk = <<0>> /\ hn = <<1>> /\ ldk = <<0>> /\ ldn = <<0>> /\ key = <<1>> /\ stale = 0 /\ everopen = <<0>> /\ api = 0 /\ nrel = 0
           /\ last = [op |-> BootOp, res |-> "", exc |-> "", ret |-> 0, info |-> <<>>]
SimBoot ==
  \E n \in {Draw((NMin + Z)..NMax)} : \E p \in {RandPar(n, <<>>)} : \E s \in {RandIsp(p, <<>>)} : \E c \in {RandIc(s, <<>>)} : \E ls \in {Draw({x \in LeafSels : x >= Z})} :
    LET w == W0(p, s, c, ls) IN
    /\ tree' = w.t /\ isp' = s /\ ic' = c /\ leafsel' = ls
    /\ exp' = w.exp /\ focus' = w.focus /\ off' = w.off /\ hk' = w.hk /\ hn' = w.hn /\ ldk' = w.ldk /\ ldn' = w.ldn
    /\ key' = w.key /\ stale' = 0
    /\ everopen' = EverOf(w, [x \in 1..n |-> 0])
    /\ api' = 0 /\ nrel' = 0
    /\ last' = [op |-> NoOp, res |-> "", exc |-> "", ret |-> 0, info |-> <<>>]
OpsIn(c) ==
  CASE c = "key" -> {MkOp("key", 0, 0, k, "", 0, 0, 0) : k \in Keys}
    [] c = "call" -> {MkOp("call", 0, 0, m, "", 0, 0, 0) : m \in CallNames} \cup {MkOp("unhandled", 0, 0, k, "", 0, 0, 0) : k \in {"left", "-", "x"}}
    [] c = "wkey" -> {MkOp("wkey", a, 0, k, "", 0, 0, 0) : a \in Nodes, k \in WKeys}
    [] c = "mouse" -> {MkOp("mouse", 0, 0, "", ev, b, cl, r) : ev \in MouseEvs, b \in Buttons, cl \in Cols, r \in 0..H}
    [] c = "wmouse" -> {MkOp("wmouse", a, 0, "", ev, b, cl, r) : a \in Nodes, ev \in MouseEvs, b \in Buttons, cl \in Cols, r \in {0, 1}}
    [] c = "set_focus" -> {MkOp("set_focus", a, 0, "", "", 0, 0, 0) : a \in Nodes \ {focus}}
    [] c = "set_exp" -> {MkOp("set_exp", a, v, "", "", 0, 0, 0) : a \in Nodes, v \in {0, 1}}
    [] c = "api" -> {MkOp(name, a, 0, "", "", 0, 0, 0) : name \in ApiOps \cup {"info"}, a \in Nodes}
    [] c = "walker" -> {MkOp(name, a, 0, "", "", 0, 0, 0) : name \in WalkerOps, a \in Nodes}
    [] c = "rename" -> {MkOp("rename", a, k, "", "", 0, 0, 0) : a \in Nodes, k \in KeyVals}
    [] c = "reload" -> {MkOp(name, a, 0, "", "", 0, 0, 0) : name \in {"reload_keys", "reload_node"}, a \in Nodes}
EnabledIn(c) == {o \in OpsIn(c) : Enabled(World, o) /\ (Bounded(o) => nrel < MaxReload)}
Weight(c) == CASE c = "key" -> 5 [] c = "mouse" -> 2 [] c = "set_exp" -> 2 [] OTHER -> 1
ClassesW == {<<c, i>> : c \in Classes, i \in 1..5}
SimStep ==
  IF stale # 0 THEN Do(MkOp("reload_keys", stale, 0, "", "", 0, 0, 0))
  ELSE \E cw \in {Draw({x \in ClassesW : x[2] <= Weight(x[1]) + Z})} :
         \E op \in {LET en == EnabledIn(cw[1]) IN Draw(IF en = {} THEN EnabledIn("key") ELSE en)} : Do(op)
SimNext == IF last.op.n = "boot" THEN SimBoot ELSE SimStep
SimSpec == SimInit /\ [][SimNext]_vars

(* the user who only presses 'down' and 'right': used for the liveness property *)
BrowseNext == KeyA("down") \/ KeyA("right")
BrowseSpec == Init /\ [][BrowseNext]_vars /\ WF_wv(KeyA("down")) /\ WF_wv(KeyA("right"))

(* ---------------------------------- invariants ---------------------------------- *)
Bits == {0, 1}
TypeOK ==
  /\ N \in NMin..NMax /\ Len(isp) = N /\ Len(ic) = N /\ Len(exp) = N /\ Len(hk) = N /\ Len(hn) = N /\ Len(ldk) = N /\ Len(ldn) = N /\ Len(key) = N
  /\ \A x \in Nodes : exp[x] \in Bits /\ hk[x] \in Bits /\ hn[x] \in Bits /\ ldk[x] \in 0..(1 + MaxReload) /\ ldn[x] \in 0..(1 + MaxReload)
  /\ \A x \in Nodes : isp[x] = 0 => exp[x] = 1 /\ hk[x] = 0 /\ ldk[x] = 0          \* a leaf has no flag to change and no keys to load
  /\ focus \in Nodes /\ off \in 0..(H - 1) /\ stale \in 0..N
\* the walker's display order IS the documented one: pre-order over the nodes all of whose ancestors are expanded
VisIsPreorder == Vis(World) = Pre(World)
\* get_next and get_prev are inverse on the display order; walking back from the end gives the reverse
NextPrevInverse ==
  LET v == Vis(World) IN
  /\ \A i \in 1..(Len(v) - 1) : PrevOf(World, v[i + 1]) = v[i]
  /\ PrevOf(World, v[1]) = 0 /\ NextOf(World, v[Len(v)]) = 0
  /\ <<v[Len(v)]>> \o ChainUp(World, v[Len(v)], N) = Rev(v)
FocusShown == Shown(World, focus)
FocusCached == hn[focus] = 1 /\ hn[1] = 1
\* the view: the focus is on display; with the focus in the display order the rows are a contiguous slice of it, and
\* rows are left blank only when everything is shown
WindowOK ==
  LET win == Window(World)  v == Vis(World) IN
  /\ Len(win) <= H /\ win[Eff(World) + 1] = focus
  /\ stale = 0 /\ FocusShown =>
       LET s == IndexOf(v, win[1]) IN
       /\ s # 0 /\ s + Len(win) - 1 <= Len(v) /\ win = SubSeq(v, s, s + Len(win) - 1)
       /\ Len(win) < H => win = v
\* everything on display / in the display order has been loaded (the operation was followed by render + walk)
ShownIsLoaded == stale = 0 => \A x \in Range(Vis(World)) \cup Range(Window(World)) : hn[x] = 1 /\ (Open(World, x) /\ x \in Range(Vis(World)) => hk[x] = 1)
\* LAZY: while nobody asks a ParentNode for its children directly, child keys are loaded only for parents that have been
\* expanded, and a node object exists only if its parent has been expanded: a subtree that was never opened is never loaded
Lazy ==
  api = 0 => /\ \A p \in Nodes : hk[p] = 1 => everopen[p] = 1
             /\ \A x \in Nodes : (x # 1 /\ hn[x] = 1) => (hk[par[x]] = 1 /\ everopen[par[x]] = 1)
\* AT MOST ONCE: without reloads every key list and every node is loaded at most once
CountBound == \A x \in Nodes : ldk[x] <= 1 + nrel /\ ldn[x] <= 1 + nrel /\ (hn[x] = 1 /\ x # 1 => ldn[x] >= 1) /\ (hk[x] = 1 => ldk[x] >= 1)
View == <<tree.par, isp, ic, leafsel, exp, focus, off, hk, hn, ldk, ldn, key, stale, everopen, api, nrel>>

(* ------------------------------- action properties ------------------------------- *)
O == last'.op
W1 == [World EXCEPT !.exp = exp', !.focus = focus', !.off = off', !.hk = hk', !.hn = hn', !.ldk = ldk', !.ldn = ldn', !.key = key', !.stale = stale']
IsKey(k) == O.n = "key" /\ O.key = k
Cmd == CmdOf(World, O)                            \* the TreeListBox command the operation amounts to (key, method call, unhandled_input)
Quiet == exp' = exp /\ focus' = focus
\* 'left' / move_focus_to_parent: "Move focus to parent of widget in focus" (nothing is collapsed); at the root nothing happens
LeftGoesToParent ==
  Cmd = "left" => last'.res = "" /\ exp' = exp /\ focus' = (IF par[focus] = 0 THEN focus ELSE par[focus])
\* a parent that is on display keeps its row: the view does not scroll (with the focus in the display order; a focus
\* hidden by a programmatic collapse may be shown with rows that the next view no longer has)
LeftKeepsRow ==
  (Cmd = "left" /\ par[focus] # 0 /\ IndexOf(Window(World), par[focus]) \in 1..Eff(World)) =>
     /\ off' = IndexOf(Window(World), par[focus]) - 1
     /\ FocusShown => Window(W1) = Window(World)
\* 'right' / '+' expand, '-' collapses the parent in focus; both idempotent; nothing else changes
ExpandCollapse ==
  (O.n = "key" /\ O.key \in {"+", "right", "-"} /\ isp[focus] = 1) =>
     /\ exp' = [exp EXCEPT ![focus] = IF O.key = "-" THEN 0 ELSE 1]
     /\ focus' = focus /\ last'.res = ""
\* '-' on a leaf / collapse_focus_parent: "Collapse parent directory" -- the focus moves to the parent, which is collapsed
MinusOnLeaf ==
  (Cmd = "-" /\ par[focus] # 0) => focus' = par[focus] /\ exp' = [exp EXCEPT ![par[focus]] = 0] /\ last'.res = ""
\* 'home' / 'end': first / last node of the display order, on the top / last used row of the view
HomeEnd ==
  /\ Cmd = "home" => focus' = 1 /\ Window(W1)[1] = 1 /\ exp' = exp /\ last'.res = ""
  /\ (Cmd = "end" /\ FocusShown) => focus' = LastVis(World) /\ Window(W1)[Len(Window(W1))] = focus' /\ exp' = exp /\ last'.res = ""
\* 'up' / 'down' (selectable one-line rows): the neighbour in the display order, or the key is returned at the ends
UpDown ==
  (O.n = "key" /\ O.key \in {"up", "down"} /\ FocusShown) =>
     LET v == Vis(World)  i == IndexOf(v, focus)  j == IF O.key = "down" THEN i + 1 ELSE i - 1 IN
     /\ exp' = exp
     /\ IF j \in 1..Len(v) THEN focus' = v[j] /\ last'.res = "" ELSE focus' = focus /\ last'.res = O.key
\* keys on a leaf widget are returned ('+' and '-' too), keys a parent does not use are returned; nothing changes
WidgetKeys ==
  O.n = "wkey" =>
    IF isp[O.a] = 1 /\ O.key \in {"+", "right", "-"}
    THEN last'.res = "" /\ exp' = [exp EXCEPT ![O.a] = IF O.key = "-" THEN 0 ELSE 1] /\ focus' = focus
    ELSE last'.res = O.key /\ Quiet
UsedKeys == MoveKeys \cup {"home", "end", "left", "-"}
UnusedKeysReturned ==
  /\ (O.n = "key" /\ O.key \notin UsedKeys /\ ~(isp[focus] = 1 /\ O.key \in {"+", "right"})) => last'.res = O.key /\ Quiet /\ off' = off
  /\ (O.n = "unhandled" /\ O.key \notin {"left", "-"}) => last'.res = O.key /\ Quiet /\ off' = off
\* the mouse: a button-1 press focuses the selectable row it hits; only a plain button-1 "mouse press" exactly on the
\* expand icon of a parent toggles it
MouseRule ==
  O.n = "mouse" =>
    LET m == RowNode(World, O.row)
        hit == m # 0 /\ isp[m] = 1 /\ O.ev = "mouse press" /\ O.btn = 1 /\ O.col = INDENT * Depth(World, m)
    IN /\ focus' = (IF m # 0 /\ IsPress(O.ev) /\ O.btn = 1 /\ Selectable(World, m) THEN m ELSE focus)
       /\ exp' = (IF hit THEN [exp EXCEPT ![m] = 1 - @] ELSE exp)
       /\ last'.res = (IF hit THEN "True" ELSE "False")
WidgetMouse ==
  O.n = "wmouse" =>
    LET hit == isp[O.a] = 1 /\ O.ev = "mouse press" /\ O.btn = 1 /\ O.row = 0 /\ O.col = INDENT * Depth(World, O.a)
    IN exp' = (IF hit THEN [exp EXCEPT ![O.a] = 1 - @] ELSE exp) /\ focus' = focus /\ last'.res = (IF hit THEN "True" ELSE "False")
\* user events never leave the focus on a node that is not on display
UserKeepsFocusShown == (O.n \in ListOps /\ FocusShown) => Shown(W1, focus')
\* collapsing a node on display hides exactly its descendants; expanding brings back exactly what its descendants' own
\* flags allow
ChangedFlags == {x \in Nodes : exp'[x] # exp[x]}
CollapseHidesSubtree ==
  (O.n # "reload_node" /\ stale = 0 /\ stale' = 0) =>
    /\ Cardinality(ChangedFlags) <= 1
    /\ \A p \in ChangedFlags :
         LET below == Sub(World, p) \ {p}
             small == IF exp'[p] = 0 THEN Vis(W1) ELSE Vis(World)
             big == IF exp'[p] = 0 THEN Vis(World) ELSE Vis(W1)
         IN small = SelectSeq(big, LAMBDA x : x \notin below) /\ (Shown(World, p) /\ KidSet(World, p) # {} => small # big)
\* loads: one call at a time, and only for what is not cached (or is explicitly reloaded)
LoadOnce ==
  \A x \in Nodes :
    /\ ldn'[x] \in {ldn[x], ldn[x] + 1} /\ ldk'[x] \in {ldk[x], ldk[x] + 1}
    /\ ldn'[x] = ldn[x] + 1 => (hn[x] = 0 \/ (O.n = "reload_node" /\ x \in Sub(World, O.a)))
    /\ ldk'[x] = ldk[x] + 1 => (hk[x] = 0 \/ (O.n = "reload_keys" /\ x = O.a) \/ (O.n = "reload_node" /\ x \in Sub(World, O.a)))
\* the TreeNode / ParentNode navigation calls, stated over the ordered child list
NodeApi ==
  LET a == O.a
      ks == Kids(World, par[a])
      i == IndexOf(ks, a)
  IN /\ O.n = "next_sibling" => last'.ret = (IF par[a] # 0 /\ i < Len(ks) THEN ks[i + 1] ELSE 0)
     /\ O.n = "prev_sibling" => last'.ret = (IF par[a] # 0 /\ i > 1 THEN ks[i - 1] ELSE 0)
     /\ O.n = "first_child" => last'.ret = Kids(World, a)[1]
     /\ O.n = "last_child" => last'.ret = Kids(World, a)[Len(Kids(World, a))]
     /\ O.n = "has_children" => last'.ret = (IF Kids(World, a) = <<>> THEN 0 ELSE 1)
     /\ O.n = "info" => last'.info = <<Cardinality(Anc(World, a)), IF par[a] = 0 THEN 0 ELSE i, par[a], 1, IF a = 1 THEN 1 ELSE 0>>
     /\ O.n \in ApiOps \cup {"info"} => Quiet
\* get_next / get_prev of a node on display: its neighbours in the documented order
WalkerApi ==
  LET a == O.a  v == Pre(World)  i == IndexOf(v, a) IN
  /\ (O.n = "wnext" /\ i # 0) => last'.ret = (IF i < Len(v) THEN v[i + 1] ELSE 0)
  /\ (O.n = "wprev" /\ i # 0) => last'.ret = (IF i > 1 THEN v[i - 1] ELSE 0)
  /\ O.n = "wfirst" => last'.ret = (IF Open(World, a) /\ Kids(World, a) # <<>> THEN Kids(World, a)[1] ELSE 0)
  /\ O.n \in WalkerOps => Quiet
\* change_child_key: a key in use raises and changes nothing; otherwise only that node's key changes
RenameRule ==
  O.n = "rename" =>
    IF \E s \in KidSet(World, par[O.a]) : hn[s] = 1 /\ key[s] = O.v
    THEN last'.exc = "TreeWidgetError" /\ key' = key /\ Quiet
    ELSE last'.exc = "" /\ key' = [key EXCEPT ![O.a] = O.v] /\ Quiet

P_LeftGoesToParent == [][LeftGoesToParent]_vars
P_LeftKeepsRow == [][LeftKeepsRow]_vars
P_ExpandCollapse == [][ExpandCollapse]_vars
P_MinusOnLeaf == [][MinusOnLeaf]_vars
P_HomeEnd == [][HomeEnd]_vars
P_UpDown == [][UpDown]_vars
P_WidgetKeys == [][WidgetKeys]_vars
P_UnusedKeysReturned == [][UnusedKeysReturned]_vars
P_MouseRule == [][MouseRule]_vars
P_WidgetMouse == [][WidgetMouse]_vars
P_UserKeepsFocusShown == [][UserKeepsFocusShown]_vars
P_CollapseHidesSubtree == [][CollapseHidesSubtree]_vars
P_LoadOnce == [][LoadOnce]_vars
P_NodeApi == [][NodeApi]_vars
P_WalkerApi == [][WalkerApi]_vars
P_RenameRule == [][RenameRule]_vars

(* ---------------------------------- liveness ---------------------------------- *)
\* a user who keeps pressing 'down' and 'right' ends up, for good, on the last row of the display with nothing left to expand
AtEnd == focus = LastVis(World) /\ (isp[focus] = 1 => exp[focus] = 1)
BrowseTerminates == <>[]AtEnd

(* constant-level laws, checked once *)
ASSUME IndentIsDepth ==
  LET W == [t |-> Tree(<<0, 1, 2, 2>>), isp |-> <<1, 1, 1, 0>>, exp |-> <<1, 0, 1, 1>>] IN
  /\ RowOf(W, 4, <<120>>, 10) = <<32, 32, 32, 32, 32, 32, 120, 32, 32, 32>>
  /\ RowOf(W, 2, <<120>>, 8) = <<32, 32, 32, 43, 32, 120, 32, 32>>
  /\ RowOf(W, 3, <<120>>, 9) = <<32, 32, 32, 32, 32, 32, 45, 32, 120>>
=============================================================================
