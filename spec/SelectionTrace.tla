--------------------------- MODULE SelectionTrace ---------------------------
(* X01 trace validation: one event per public call on the real CheckBox / RadioButton /   *)
(* Button / SelectableIcon objects or on the Pile / ListBox that contains them, recorded    *)
(* at its return (arguments, result / exception, get_state() of every widget, container     *)
(* focus, group lists, labels, rendered rows, cursor, and the signals emitted in order,     *)
(* each with what get_state() of every widget returned inside the callback).  The abstract  *)
(* world of SelectionOps is carried in `world`; every clause is evaluated at every event and    *)
(* the first broken one is named in `why`.                                                  *)
(*                                                                                         *)
(* Only what urwid documents is demanded.  Not demanded: the order in which the buttons of  *)
(* a group change, what other buttons show inside a callback, and -- for traces with a      *)
(* re-entrant callback (tr.hook) -- the resulting states (only the group invariant, the     *)
(* signal discipline, results, focus, labels and rendering are checked there, and the       *)
(* recorded state is carried forward).                                                      *)
EXTENDS SelectionOps, Json, IOUtils

Traces == JsonDeserialize(IOEnv.TRACE_FILE)

VARIABLES tid, l, world, ok, why
vars == <<tid, l, world, ok, why>>

World0(tr) == [kind |-> tr.kind, home |-> tr.home, grp |-> tr.init.grp, st |-> tr.init.st, focus |-> tr.init.focus,
               lab |-> tr.init.lab, hook |-> NoHook, variant |-> "ok"]

Init == /\ tid \in 1..Len(Traces)
        /\ l = 0
        /\ world = World0(Traces[tid])
        /\ ok = TRUE
        /\ why = "-"

\* SelectableIcon(text without blanks of length op.w, cursor_position op.s).render((op.row,), focus = op.cb).cursor:
\* no cursor without focus; inside the text the cursor is where character op.s is displayed (doctests: "((*))", 2 at
\* width 8 -> (2, 0), at width 2 -> (0, 1)); beyond the text there is none; exactly at the end is left open.
IconCursorOK(op, cur) ==
  IF op.cb = 0 THEN cur = <<>>
  ELSE IF op.s < op.w THEN cur = <<op.s % op.row, op.s \div op.row>>
  ELSE IF op.s > op.w THEN cur = <<>>
  ELSE TRUE

\* the widgets as constructed: with explicit states (tr.given) get_state() returns them; with the default "first True"
\* the first radio of each group is selected, later ones are not; check boxes start unchecked
DefaultSt(kind, home) ==
  [x \in 1..Len(kind) |-> IF kind[x] = "radio" /\ \A j \in 1..(x - 1) : ~(kind[j] = "radio" /\ home[j] = home[x]) THEN T ELSE F]
InitVerdict(tr) ==
  IF tr.given # <<>> THEN (IF tr.init.st = tr.given THEN "-" ELSE "constructor_state_is_initial_state")
  ELSE IF tr.init.st # DefaultSt(tr.kind, tr.home) THEN "first_radio_of_group_selected_later_ones_not"
  ELSE "-"
FocusVerdict(tr) ==
  IF tr.given_focus # 0 THEN (IF tr.init.focus = tr.given_focus THEN "-" ELSE "focus_position_assignment")
  ELSE IF tr.init.focus # SetMin({x \in 1..Len(tr.kind) : tr.kind[x] # "text"}) THEN "container_focus_starts_on_first_selectable"
  ELSE "-"

AtMostOneSel(st, members) == Cardinality(SelectedIn(st, members)) <= 1

Judge(tr, W, e) ==
  LET op == e.op
      R == Apply(W, op)
      n == Len(R.kind)
      nohook == tr.hook.on = ""
      isNew == op.n = "new_radio"
      pre == IF isNew /\ Len(e.st) = n THEN Append(W.st, R.st[n]) ELSE W.st      \* state vector before the call, padded
      silent(x) == op.n = "set_state" /\ op.cb = 0 /\ op.w = x
      want(x) == IF R.st[x] # pre[x] /\ ~silent(x) THEN 1 ELSE 0
      badSig == {x \in 1..n : Changes(e.log, x) # want(x) \/ Posts(e.log, x) # want(x)}
      badSt == {x \in 1..n : e.st[x] # R.st[x]}
      width == tr.width
  IN
  IF op.n = "icon_render" THEN (IF IconCursorOK(op, e.cur) THEN "-" ELSE "icon_cursor_at_cursor_position_when_focused")
  ELSE IF Len(e.st) # n THEN "widget_count"
  (* ---- exceptions ---- *)
  ELSE IF R.exc # "" /\ e.exc # R.exc THEN "invalid_state_raises_CheckBoxError"
  ELSE IF R.exc = "" /\ e.exc # "" THEN "valid_call_does_not_raise"
  ELSE IF R.exc # "" /\ (e.st # W.st \/ e.log # <<>> \/ e.focus # W.focus) THEN "rejected_call_changes_nothing"
  (* ---- results ---- *)
  ELSE IF op.n \in {"key", "wkey"} /\ e.res # R.res THEN (IF R.res = "" THEN "used_key_returns_None" ELSE "unused_key_is_returned")
  ELSE IF op.n \in {"mouse", "wmouse"} /\ e.res # R.res THEN "mouse_handled_iff_button1_press_on_active_widget"
  (* ---- signal discipline (every trace) ---- *)
  ELSE IF \E j \in 1..Len(e.log) : Len(e.log[j].snap) # n \/ e.log[j].w \notin 1..n THEN "log_shape"
  ELSE IF ~ChangeBeforeVisible(e.log) THEN "change_emitted_before_state_visible"
  ELSE IF ~PostchangeAfter(e.log) THEN "postchange_emitted_after_state_changed"
  ELSE IF ~Paired(e.log) THEN "change_and_postchange_paired"
  ELSE IF \E j \in 1..Len(e.log) : e.log[j].sig = "click" /\ R.kind[e.log[j].w] # "button" THEN "click_only_from_buttons"
  ELSE IF \E j \in 1..Len(e.log) : e.log[j].sig \in {"change", "click"} /\ e.log[j].ud # tr.ud[e.log[j].w] THEN "user_data_passed_to_callback"
  (* ---- the group invariant at return ---- *)
  ELSE IF \E g \in 1..Len(e.grp) : ~AtMostOneSel(e.st, e.grp[g]) THEN "radio_group_at_most_one_selected"
  (* ---- without re-entrant callback the outcome is determined ---- *)
  ELSE IF nohook /\ op.n = "set_state" /\ op.w \in badSt THEN "set_state_sets_the_state"
  ELSE IF nohook /\ R.tog # 0 /\ R.tog \in badSt THEN "toggle_follows_documented_cycle"
  ELSE IF nohook /\ isNew /\ n \in badSt THEN "first_radio_of_group_selected_later_ones_not"
  ELSE IF nohook /\ \E x \in badSt : R.st[x] = F /\ pre[x] # F /\ R.kind[x] = "radio" THEN "selecting_a_radio_clears_the_others"
  ELSE IF nohook /\ badSt # {} THEN "other_widgets_untouched"
  ELSE IF nohook /\ \E x \in badSig : silent(x) THEN "do_callback_false_suppresses_signals"
  ELSE IF nohook /\ \E x \in badSig : want(x) = 1 /\ Changes(e.log, x) = 0 THEN "change_emitted_when_state_changes"
  ELSE IF nohook /\ \E x \in badSig : want(x) = 0 THEN "no_change_signal_without_state_change"
  ELSE IF nohook /\ badSig # {} THEN "change_and_postchange_emitted_once"
  ELSE IF nohook /\ \E j \in 1..Len(e.log) : e.log[j].sig = "change" /\ e.log[j].arg # R.st[e.log[j].w] THEN "change_carries_new_state"
  ELSE IF nohook /\ \E j \in 1..Len(e.log) : e.log[j].sig = "postchange" /\ e.log[j].arg # pre[e.log[j].w] THEN "postchange_carries_old_state"
  ELSE IF \E x \in 1..n : Clicks(e.log, x) # Clicks(R.log, x) THEN "click_emitted_once_on_activate"
  (* ---- focus, group lists, labels ---- *)
  ELSE IF e.focus # R.focus THEN (IF op.n = "key" THEN "up_down_move_focus_between_selectable_rows"
                                  ELSE IF op.n = "mouse" THEN "focus_follows_button1_press_only" ELSE "focus_untouched")
  ELSE IF e.grp # R.grp THEN "radio_joins_its_group_list"
  ELSE IF e.lab # R.lab THEN "label_roundtrip_through_get_label"
  (* ---- rendering of the recorded state (e.rows = <<>>: the harness did not render after this call) ---- *)
  ELSE IF e.rows = <<>> THEN "-"
  ELSE IF Len(e.rows) < n THEN "canvas_has_a_row_per_widget"
  ELSE IF \E x \in 1..n : tr.rowtab[e.rows[x]] # RowOf(R.kind[x], e.st[x], tr.labels[e.lab[x]], width) THEN "canvas_shows_state_marker_and_label"
  ELSE IF \E x \in (n + 1)..Len(e.rows) : tr.rowtab[e.rows[x]] # Spaces(width) THEN "canvas_rows_beyond_widgets_blank"
  ELSE IF e.cur # <<CursorX(R.kind[e.focus], tr.iconpos), e.focus - 1>> THEN "cursor_on_marker_of_focus_widget"
  ELSE "-"

Step == /\ ok
        /\ l < Len(Traces[tid].ev)
        /\ l' = l + 1
        /\ tid' = tid
        /\ LET tr == Traces[tid]
               e == tr.ev[l + 1]
               j0 == IF l # 0 THEN "-" ELSE IF InitVerdict(tr) # "-" THEN InitVerdict(tr) ELSE FocusVerdict(tr)
               j == IF j0 # "-" THEN j0 ELSE Judge(tr, world, e)
               R == Apply(world, e.op)
           IN /\ why' = j
              /\ ok' = (j = "-")
              /\ world' = IF e.op.n = "icon_render" \/ j # "-" THEN world
                      ELSE [kind |-> R.kind, home |-> R.home, grp |-> R.grp, lab |-> R.lab, focus |-> R.focus,
                            st |-> IF tr.hook.on = "" THEN R.st ELSE e.st, hook |-> NoHook, variant |-> "ok"]
Spec == Init /\ [][Step]_vars

Report == ok \/ PrintT(<<"REJECT", tid, l, why>>)
=============================================================================
