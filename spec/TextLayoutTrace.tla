--------------------------- MODULE TextLayoutTrace ---------------------------
(* C03 trace validation.  One trace = one Text widget in one encoding mode, its text (sequence of  *)
(* character class ids) given to urwid as str or as encoded bytes; mm = width of the narrowest     *)
(* ellipsis mark of the encoding.  One event = one mutator (op: "align", "wrap", "layout", "text" *)
(* or "none") followed by the queries at one width: the layout structure returned by the real     *)
(* StandardTextLayout.layout with byte offsets converted to character indices (split = 1 when an  *)
(* offset fell inside a character), the rows rendered by Text.render as id sequences, Text.rows   *)
(* and the row count of Text.pack, and the exception if any call raised.  The specification keeps  *)
(* the widget's state ws (alignment, wrap mode, text in force) through the mutators               *)
(* (TextLayoutOps.WidgetApply) and judges every event against THAT state: a canvas or a row count  *)
(* that still belongs to an earlier mode or text is rejected by the clause it breaks.  Every      *)
(* verdict is one named clause of the property, evaluated on the implementation's own layout - the *)
(* reference layout of TextLayoutOps is never consulted here.                                      *)
EXTENDS TextLayoutOps, Json, IOUtils, TLC

Traces == JsonDeserialize(IOEnv.TRACE_FILE)
VARIABLES tid, l, ok, why, ws
vars == <<tid, l, ok, why, ws>>

InitWs(tr) == [align |-> tr.align0, wrap |-> tr.wrap0, text |-> tr.text]
Init == tid \in 1..Len(Traces) /\ l = 0 /\ ok = TRUE /\ why = "-" /\ ws = InitWs(Traces[tid])

RowsKnown(rend) == \A k \in 1..Len(rend) : KnownIds(rend[k])

\* the arguments an event's mutator was called with (only the fields its op uses are read)
After(s, e) == WidgetApply(s, e.op, e.align, e.wrap, IF e.op = "text" THEN e.text ELSE <<>>)

Verdict(tr, e, s) ==
  LET t == s.text  w == e.w  lay == e.lay  wrap == s.wrap  align == s.align IN
  IF e.exc # "" THEN (IF Undisplayable(t, w) THEN "undisplayable_gives_empty_line_not_error" ELSE "lines_are_laid_out_without_error")
  ELSE IF "got" \in DOMAIN e /\ ~ModesReported(s, e.got) THEN "modes_in_force_are_the_modes_set_last"
  ELSE IF e.split = 1 THEN "offsets_on_character_boundaries"
  ELSE IF lay = EmptyLayout
       THEN (IF ~UndisplayableIsEmptyLine(t, w, lay) THEN "empty_line_only_for_undisplayable_text"
             ELSE IF e.rend # << Rep(SP, w) >> THEN "undisplayable_gives_empty_line_not_error"
             ELSE IF ~RowsEqualLines(e.rows, e.prows, e.rend) THEN "row_count_equals_rendered_lines"
             ELSE "-")
  ELSE IF ~ShapeOK(t, lay) \/ ~RowsKnown(e.rend) THEN "layout_structure_as_documented"
  ELSE IF ~OrderOnce(t, lay) THEN "characters_in_order_none_twice"
  ELSE IF ~OmittedOnlyAllowed(t, w, wrap, tr.mm, lay) THEN "only_allowed_characters_left_out"
  ELSE IF ~FitsLayout(t, w, wrap, lay) \/ ~FitsRows(w, e.rend) THEN "every_line_fits_in_width"
  ELSE IF wrap = "any" /\ ~AnyIsGreedy(t, w, lay) THEN "any_fills_line_as_far_as_next_character_allows"
  ELSE IF wrap = "space" /\ ~SpaceBreaksAtSpaces(t, w, lay) THEN "space_breaks_only_at_spaces_when_words_fit"
  ELSE IF ~AlignPad(t, w, align, lay) THEN "alignment_pads_zero_half_or_all_spare_columns"
  ELSE IF ~RenderShowsLayout(t, w, lay, e.rend) THEN "rendered_rows_present_the_laid_out_lines"
  ELSE IF ~RowsEqualLines(e.rows, e.prows, e.rend) THEN "row_count_equals_rendered_lines"
  ELSE "-"

Step == /\ ok /\ l < Len(Traces[tid].ev) /\ l' = l + 1 /\ tid' = tid
        /\ \E s \in {After(ws, Traces[tid].ev[l + 1])} :
             /\ ws' = s
             /\ LET v == Verdict(Traces[tid], Traces[tid].ev[l + 1], s) IN why' = v /\ ok' = (v = "-")
Spec == Init /\ [][Step]_vars
Report == ok \/ PrintT(<<"REJECT", tid, l, why>>)
=============================================================================
