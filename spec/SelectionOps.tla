----------------------------- MODULE SelectionOps -----------------------------
(* X01 "selection widgets": urwid/widget/wimp.py -- CheckBox (two- / three-state),        *)
(* RadioButton groups, Button, SelectableIcon -- inside a container (Pile / ListBox)       *)
(* that routes keys and mouse clicks.  Pure operators shared by the state machine          *)
(* (Selection.tla) and the trace specification (SelectionTrace.tla).                       *)
(*                                                                                         *)
(* Written from the docstrings/doctests of wimp.py:                                        *)
(*   CheckBox: "state: False, True or 'mixed'", "has_mixed: True if 'mixed' is a state to   *)
(*     cycle through", toggle_state "Cycle to the next valid state" False->True->mixed->    *)
(*     False (doctest), set_state "do_callback -- False to suppress signal from this        *)
(*     change", callback(check_box, new_state [,user_data]), signals 'change','postchange', *)
(*     keypress "Toggle state on 'activate' command" (' ' and 'enter'), mouse_event "Toggle *)
(*     state on button 1 press".                                                            *)
(*   RadioButton: "This function will append the new radio button to group.  'first True'   *)
(*     will set to True if group is empty", set_state "If state is True all other radio     *)
(*     buttons in the same button group will be set to False", toggle_state "Set state to   *)
(*     True".                                                                               *)
(*   Button: "Send 'click' signal on 'activate' command" / "on button 1 press".             *)
(*   SelectableIcon: "No keys are handled by this widget", cursor at cursor_position.       *)
(*   Pile / ListBox.mouse_event: "May change focus on button 1 press".                      *)
(*                                                                                         *)
(* What the documentation leaves open (and the trace specification therefore does NOT      *)
(* demand): the order in which the buttons of a group change when one is selected, what     *)
(* other buttons show inside a callback, and the outcome of a callback that itself changes  *)
(* a widget (re-entrancy).  The reference below fixes these the way the code does (select   *)
(* the new button, then clear the others in group order, 'change' before / 'postchange'     *)
(* after each single change); the state machine explores the consequences.                  *)
(*                                                                                         *)
(* World W: [kind, home, grp, st, focus, lab, hook, variant]                                *)
(*   kind[w]  "check" | "check3" | "radio" | "button" | "icon" | "text"   (row w of the     *)
(*            container is widget w)                                                        *)
(*   home[w]  the group list a radio refers to (0 for other kinds)                          *)
(*   grp[g]   the group list: sequence of widget ids (a radio removed from the list keeps   *)
(*            its home but is no longer a member)                                           *)
(*   st[w]    0 False, 1 True, 2 "mixed" (0 for kinds without state)                        *)
(*   focus    row of the container's focus widget                                           *)
(*   lab[w]   label id                                                                      *)
(*   hook     [on, src, tgt, val]: a user callback connected to signal `on` of widget `src`  *)
(*            that calls set_state(val) on widget `tgt` (only when not already inside the    *)
(*            hook); on = "" for none                                                       *)
(*   variant  "ok" or the name of a deliberately wrong variant                              *)
EXTENDS Integers, Sequences, FiniteSets, TLC

F == 0
T == 1
M == 2
Valid == {F, T, M}
NoHook == [on |-> "", src |-> 0, tgt |-> 0, val |-> 0]

StateKinds == {"check", "check3", "radio"}
Activate == {" ", "enter"}                       \* keys of the 'activate' command
PressEvents == {"mouse press", "meta mouse press", "ctrl mouse press"}
IsPress(ev) == ev \in PressEvents

SetMin(S) == CHOOSE x \in S : \A y \in S : x <= y
SetMax(S) == CHOOSE x \in S : \A y \in S : x >= y
InSeq(x, s) == \E j \in 1..Len(s) : s[j] = x
Without(s, x) == SelectSeq(s, LAMBDA y : y # x)
Count(s, P(_)) == Cardinality({j \in 1..Len(s) : P(s[j])})

Members(W, w) == W.grp[W.home[w]]
SelectedIn(st, members) == {j \in 1..Len(members) : st[members[j]] = T}

(* ---- documented toggle order ---- *)
NextState(kind, s, variant) ==
  CASE kind = "radio" -> T
    [] kind = "check3" ->
         (IF variant = "mixed_first" THEN (CASE s = F -> M [] s = M -> T [] OTHER -> F)
          ELSE IF variant = "mixed_sticky" THEN (CASE s = F -> T [] s = T -> M [] OTHER -> M)
          ELSE (CASE s = F -> T [] s = T -> M [] OTHER -> F))
    [] OTHER -> IF s = F THEN T ELSE F          \* two-state box: True -> False, a "mixed" set by program -> False

(* ---- one run of an operation: widget states + ordered log of signals ---- *)
(* log entry: [sig, w, arg, snap]: signal name, emitting widget, argument (new state for    *)
(* 'change', old state for 'postchange', 0 for 'click'), snap = what get_state() of every    *)
(* widget returns inside the callback                                                       *)
Run0(W) == [st |-> W.st, log |-> <<>>]
Entry(sig, w, arg, S) == [sig |-> sig, w |-> w, arg |-> arg, snap |-> S.st]

RECURSIVE SetState(_, _, _, _, _, _)
RECURSIVE ClearFrom(_, _, _, _, _)

Emit(W, S, sig, w, arg, inHook) ==
  LET S1 == [S EXCEPT !.log = Append(@, Entry(sig, w, arg, S))]
      h == W.hook
  IN IF ~inHook /\ h.on = sig /\ h.src = w THEN SetState(W, S1, h.tgt, h.val, 1, TRUE) ELSE S1

\* CheckBox.set_state / RadioButton.set_state with a valid state
SetState(W, S, w, s, cb, inHook) ==
  IF S.st[w] = s THEN S
  ELSE
  LET old == S.st[w]
      sig == IF W.variant = "cb_ignored" THEN 1 ELSE cb
      late == W.variant = "late_change"
      S1 == IF sig = 1 /\ ~late THEN Emit(W, S, "change", w, s, inHook) ELSE S
      S2 == [S1 EXCEPT !.st[w] = s]
      S3 == IF sig = 1 /\ late THEN Emit(W, S2, "change", w, s, inHook) ELSE S2
      S4 == IF sig = 1 THEN Emit(W, S3, "postchange", w, old, inHook) ELSE S3
  IN IF W.kind[w] = "radio" /\ s = T /\ W.variant # "noclear" THEN ClearFrom(W, S4, w, 1, inHook) ELSE S4

\* the other members of w's group list, in list order: whatever is not False becomes False (with its own signals)
ClearFrom(W, S, w, j, inHook) ==
  LET g == Members(W, w) IN
  IF j > Len(g) THEN S
  ELSE LET c == g[j]
           S1 == IF c # w /\ S.st[c] # F
                 THEN SetState(W, S, c, F, IF W.variant = "clear_silent" THEN 0 ELSE 1, inHook)
                 ELSE S
       IN ClearFrom(W, S1, w, j + 1, inHook)

(* ---- results of top-level operations ---- *)
\* res: returned key ("" for None) / "True" | "False" for mouse_event / "" otherwise; exc: exception class name or "";
\* tog: the widget a user gesture toggled (0 if none)
Done(W, S, res, exc, tog) ==
  [kind |-> W.kind, home |-> W.home, grp |-> W.grp, lab |-> W.lab, focus |-> W.focus,
   st |-> S.st, log |-> S.log, res |-> res, exc |-> exc, tog |-> tog]

OpSetState(W, w, s, cb) ==
  IF s \in Valid THEN Done(W, SetState(W, Run0(W), w, s, cb, FALSE), "", "", 0)
  ELSE IF W.variant = "invalid_as_false" THEN Done(W, SetState(W, Run0(W), w, F, cb, FALSE), "", "", 0)
  ELSE Done(W, Run0(W), "", "CheckBoxError", 0)       \* rejected: nothing changes, nothing is signalled

Toggle(W, S, w) == SetState(W, S, w, NextState(W.kind[w], S.st[w], W.variant), 1, FALSE)
OpToggle(W, w) == Done(W, Toggle(W, Run0(W), w), "", "", w)

\* widget.keypress(size, key)
KeyWidget(W, w, key) ==
  LET k == W.kind[w] IN
  IF k \in StateKinds
  THEN (IF key \in Activate THEN Done(W, Toggle(W, Run0(W), w), "", "", w)
        ELSE Done(W, Run0(W), IF W.variant = "key_swallow" THEN "" ELSE key, "", 0))
  ELSE IF k = "button"
  THEN (IF key \in Activate THEN Done(W, Emit(W, Run0(W), "click", w, 0, FALSE), "", "", 0)
        ELSE Done(W, Run0(W), key, "", 0))
  ELSE Done(W, Run0(W), key, "", 0)                   \* SelectableIcon: no keys are handled

\* next selectable row below (d = 1) / above (d = -1) row i; 0 if there is none
NextSel(kind, i, d) ==
  LET cand == {j \in 1..Len(kind) : kind[j] # "text" /\ (IF d = 1 THEN j > i ELSE j < i)}
  IN IF cand = {} THEN 0 ELSE IF d = 1 THEN SetMin(cand) ELSE SetMax(cand)

\* container.keypress(size, key): the focus widget first; an unhandled 'up'/'down' moves the focus
OpKey(W, key) ==
  LET r == KeyWidget(W, W.focus, key) IN
  IF r.res \in {"up", "down"}
  THEN LET n == NextSel(W.kind, W.focus, IF r.res = "down" THEN 1 ELSE -1)
       IN IF n = 0 THEN r ELSE [r EXCEPT !.focus = n, !.res = ""]
  ELSE r

\* widget.mouse_event(size, ev, btn, col, 0, focus)
MouseWidget(W, w, ev, btn) ==
  LET k == W.kind[w]
      hit == IsPress(ev) /\ btn = 1
  IN IF k \in StateKinds /\ hit THEN Done(W, Toggle(W, Run0(W), w), "True", "", w)
     ELSE IF k = "button" /\ hit THEN Done(W, Emit(W, Run0(W), "click", w, 0, FALSE), "True", "", 0)
     ELSE Done(W, Run0(W), "False", "", 0)

\* container.mouse_event(size, ev, btn, col, row - 1, True): "may change focus on button 1 press"
OpMouse(W, ev, btn, row) ==
  IF row > Len(W.kind) THEN Done(W, Run0(W), "False", "", 0)
  ELSE LET mv == IsPress(ev) /\ (btn = 1 \/ W.variant = "focus_any_button") /\ W.kind[row] # "text"
           W1 == IF mv THEN [W EXCEPT !.focus = row] ELSE W
       IN MouseWidget(W1, row, ev, btn)

\* RadioButton(group g, label L, state): appended to the group list (and, in the harness, to the container)
\* mode "first" = the default "first True"; "true" / "false" = explicit state.
\* An explicit True while the group has a selected member: the group stays exclusive (reference: the selected member is
\* de-selected with its signals, nothing else is touched; the trace specification only demands exclusiveness).
RECURSIVE ClearSelectedFrom(_, _, _, _)
ClearSelectedFrom(W, S, w, j) ==
  LET g == Members(W, w) IN
  IF j > Len(g) THEN S
  ELSE ClearSelectedFrom(W, IF g[j] # w /\ S.st[g[j]] = T THEN SetState(W, S, g[j], F, 1, FALSE) ELSE S, w, j + 1)
OpNewRadio(W, g, mode, L) ==
  LET id == Len(W.kind) + 1
      s0 == IF mode = "first" THEN (IF W.grp[g] = <<>> THEN T ELSE F) ELSE IF mode = "true" THEN T ELSE F
      W1 == [W EXCEPT !.kind = Append(@, "radio"), !.home = Append(@, g), !.st = Append(@, s0),
                      !.lab = Append(@, L), !.grp[g] = Append(@, id)]
      S == IF s0 = T /\ W.variant # "noclear" THEN ClearSelectedFrom(W1, Run0(W1), id, 1) ELSE Run0(W1)
  IN Done(W1, S, "", "", 0)

\* group_list.remove(radio): the radio is no longer a member; it keeps referring to the list
OpRemove(W, w) == Done([W EXCEPT !.grp[W.home[w]] = Without(@, w)], Run0(W), "", "", 0)

OpSetLabel(W, w, L) == Done([W EXCEPT !.lab[w] = L], Run0(W), "", "", 0)

\* op: [n, w, s, cb, key, ev, btn, row, g, mode, L]
Apply(W, op) ==
  CASE op.n = "set_state" -> OpSetState(W, op.w, op.s, op.cb)
    [] op.n = "toggle"    -> OpToggle(W, op.w)
    [] op.n = "wkey"      -> KeyWidget(W, op.w, op.key)
    [] op.n = "key"       -> OpKey(W, op.key)
    [] op.n = "wmouse"    -> MouseWidget(W, op.w, op.ev, op.btn)
    [] op.n = "mouse"     -> OpMouse(W, op.ev, op.btn, op.row)
    [] op.n = "new_radio" -> OpNewRadio(W, op.g, op.mode, op.L)
    [] op.n = "remove"    -> OpRemove(W, op.w)
    [] op.n = "set_label" -> OpSetLabel(W, op.w, op.L)

MkOp(n, w, s, cb, key, ev, btn, row, g, mode, L) ==
  [n |-> n, w |-> w, s |-> s, cb |-> cb, key |-> key, ev |-> ev, btn |-> btn, row |-> row, g |-> g, mode |-> mode, L |-> L]

(* ---- predicates over a log (used as invariants of the model and as clauses of the trace specification) ---- *)
Changes(log, w) == Count(log, LAMBDA e : e.sig = "change" /\ e.w = w)
Posts(log, w) == Count(log, LAMBDA e : e.sig = "postchange" /\ e.w = w)
Clicks(log, w) == Count(log, LAMBDA e : e.sig = "click" /\ e.w = w)
\* 'change' is emitted before the new state is visible, 'postchange' after the old one is gone
ChangeBeforeVisible(log) == \A j \in 1..Len(log) : log[j].sig = "change" => log[j].snap[log[j].w] # log[j].arg
PostchangeAfter(log) == \A j \in 1..Len(log) : log[j].sig = "postchange" => log[j].snap[log[j].w] # log[j].arg
\* every 'postchange' of a widget answers an earlier 'change' of it, and every 'change' is answered
Paired(log) ==
  /\ \A j \in 1..Len(log) : log[j].sig = "postchange" =>
        Posts(SubSeq(log, 1, j), log[j].w) <= Changes(SubSeq(log, 1, j), log[j].w)
  /\ \A j \in 1..Len(log) : log[j].sig = "change" => Posts(log, log[j].w) = Changes(log, log[j].w)
\* largest number of selected members of one group list that any callback of the log could observe
MaxSelectedSeen(log, grp) ==
  SetMax({0} \cup {Cardinality(SelectedIn(log[j].snap, grp[g])) : j \in 1..Len(log), g \in 1..Len(grp)})

(* ---- rendering: the documented state markers, as sequences of code points ---- *)
Marker(kind, s) ==
  IF kind = "radio" THEN (CASE s = T -> <<40, 88, 41>> [] s = F -> <<40, 32, 41>> [] OTHER -> <<40, 35, 41>>)   \* (X) ( ) (#)
  ELSE (CASE s = T -> <<91, 88, 93>> [] s = F -> <<91, 32, 93>> [] OTHER -> <<91, 35, 93>>)                     \* [X] [ ] [#]
Spaces(n) == [j \in 1..n |-> 32]
PadTo(s, n) == IF Len(s) >= n THEN SubSeq(s, 1, n) ELSE s \o Spaces(n - Len(s))
\* one row of width `width` for a widget whose label text (code points) fits on one line
RowOf(kind, s, text, width) ==
  CASE kind \in StateKinds -> Marker(kind, s) \o <<32>> \o PadTo(text, width - 4)
    [] kind = "button"     -> <<60, 32>> \o PadTo(text, width - 4) \o <<32, 62>>                                 \* "< label >"
    [] OTHER               -> PadTo(text, width)
\* column of the cursor in the row of the focus widget: inside the brackets of the marker, at the label of a Button,
\* at cursor_position of a SelectableIcon
CursorX(kind, iconpos) == CASE kind \in StateKinds -> 1 [] kind = "button" -> 2 [] OTHER -> iconpos
=============================================================================
