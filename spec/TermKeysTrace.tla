---------------------------- MODULE TermKeysTrace ----------------------------
(* X02 trace validation: events recorded from the real urwid.Terminal widget are consumed    *)
(* one by one; the model state of TermKeys (modes, grab protocol, alive, pending replies,    *)
(* plus the tty signal keys of the focus protocol) is carried in variables; the first        *)
(* broken sentence is named in `why`.                                                        *)
(*                                                                                          *)
(* trace  = [kind, enc, dec, esc, tty, ev]                                                   *)
(*   kind : "modes" (bytes judged against the mode table) | "roundtrip" (bytes judged by      *)
(*          decoding them with urwid's reference input decoder) | "domain"                    *)
(*   enc  : widget encoding "utf8" | "latin1" | "ascii";  dec : decoder mode "utf8" | "other" *)
(*   esc  : escape_sequence;  tty : 1 when the application's stdin is a tty                   *)
(* events                                                                                    *)
(*   key    : key, cps, exc, handled (1: keypress returned None), ret, wrote, ckm, lnm, bp,   *)
(*            grab, size = <<cols, rows>>, ws = <<rows, cols>> window size of the child's tty  *)
(*   feed   : toks, bytes, nobytes, ckm, lnm, bp, pend, cur   (child output processed)         *)
(*   flush  : wrote                                            (flush_responses)              *)
(*   exit   : closed, unwatch, alive, sig                      (EOF from the child)           *)
(*   render : focus, exc, sig, watch, alive                    (render(size, focus))          *)
(*   domain : names                                            (all names pressed in the run) *)
(* sig: 1 = the tty's signal keys are all undefined, 0 = all as at start, 2 = anything else    *)
EXTENDS TermKeysOps, Json, IOUtils

Traces == JsonDeserialize(IOEnv.TRACE_FILE)

VARIABLES tid, l, ok, why, m, grab, lastesc, alive, pend, focus, sig
vars == <<tid, l, ok, why, m, grab, lastesc, alive, pend, focus, sig>>

Init == /\ tid \in 1..Len(Traces) /\ l = 0 /\ ok = TRUE /\ why = "-"
        /\ m = Modes0 /\ grab = FALSE /\ lastesc = FALSE /\ alive = TRUE /\ pend = <<>> /\ focus = FALSE /\ sig = 0

B(x) == x = 1
EvModes(e) == [ckm |-> B(e.ckm), lnm |-> B(e.lnm), bp |-> B(e.bp)]

RtClause(key, cps) ==
  IF Plain(key, cps) THEN "roundtrip_plain_key_decodes_to_itself"
  ELSE IF key \in DOMAIN ModBase THEN "roundtrip_modified_named_key_not_lost"
  ELSE IF IsMetaChar(cps) \/ key \in DOMAIN MetaBase THEN "roundtrip_meta_key_not_lost"
  ELSE IF key \in F1320 THEN "roundtrip_f13_f20_not_lost"
  ELSE IF key = "shift tab" THEN "roundtrip_shift_tab_not_lost"
  ELSE "roundtrip_other_decoder_key_not_lost"

KeyVerdict(tr, e) ==
  LET r == Route([alive |-> alive, grab |-> grab, lastesc |-> lastesc, bp |-> m.bp], e.key, tr.esc)
      ref == RefBytes(e.key, e.cps, m.ckm, m.lnm, tr.enc)
      ret == e.handled = 0 /\ e.ret = e.key
  IN IF e.exc # "" THEN "keypress_never_raises"
     ELSE IF ~alive /\ e.wrote # <<>> THEN "dead_child_gets_no_bytes"
     ELSE IF ~alive /\ ~ret THEN "dead_terminal_returns_every_key"
     ELSE IF EvModes(e) # m THEN "modes_change_only_by_child_output"
     ELSE IF r.r # "child" /\ e.wrote # <<>>
          THEN (IF e.key = tr.esc THEN "escape_sequence_reaches_child_only_when_pressed_twice"
                ELSE IF ~grab THEN "released_keyboard_reaches_no_child"
                ELSE "consumed_key_not_written")
     ELSE IF r.r = "handdown" /\ ~ret
          THEN (IF lastesc THEN "key_after_release_handed_down" ELSE "navigation_keys_handed_down_while_not_grabbed")
     ELSE IF r.r \in Consumed /\ e.handled # 1
          THEN (IF r.r \in {"release", "take"} THEN "escape_sequence_consumed"
                ELSE IF r.r = "swallow" THEN "paste_markers_swallowed_outside_bracketed_paste_mode"
                ELSE IF r.r = "scroll" THEN "page_keys_scroll_back_while_not_grabbed"
                ELSE "window_resize_consumed")
     ELSE IF r.r = "child" /\ e.handled # 1 THEN "written_key_not_also_returned"
     ELSE IF r.r = "child" /\ e.key = tr.esc /\ lastesc /\ e.wrote = <<>> THEN "escape_sequence_pressed_twice_is_passed_to_child"
     ELSE IF r.r = "child" /\ tr.kind = "modes" /\ ref # {} /\ e.wrote \notin ref THEN BytesClause(e.key, e.cps)
     ELSE IF r.r = "child" /\ tr.kind = "roundtrip" /\ l >= 1 /\ RoundTrip(e.key, e.cps, e.wrote, tr.dec) = "lost"
          THEN RtClause(e.key, e.cps)
     ELSE IF r.r = "child" /\ tr.kind = "roundtrip" /\ l >= 1 /\ Plain(e.key, e.cps) /\ RoundTrip(e.key, e.cps, e.wrote, tr.dec) # "exact"
          THEN RtClause(e.key, e.cps)
     ELSE IF B(e.grab) # r.grab THEN "keygrab_follows_escape_protocol"
     ELSE IF r.r = "resize" /\ e.ws # <<e.size[2], e.size[1]>> THEN "window_resize_sets_child_window_size"
     ELSE "-"

FeedVerdict(tr, e) ==
  LET want == ApplyToks(m, e.toks)
      hasRis == \E i \in 1..Len(e.toks) : e.toks[i].t = "ris"
  IN IF ~alive THEN "HARNESS_feed_after_exit"
     ELSE IF e.nobytes = 0 /\ e.bytes # ChunkBytes(e.toks) THEN "HARNESS_bytes_differ_from_tokens"
     ELSE IF EvModes(e) # want THEN (IF hasRis THEN "full_reset_resets_key_modes" ELSE "child_mode_sequences_set_key_modes")
     ELSE IF e.pend # pend \o ChunkReplies(e.toks, e.cur) THEN "replies_queued_in_question_order"
     ELSE "-"

FlushVerdict(tr, e) ==
  IF e.wrote # Flat(pend) THEN "replies_written_in_question_order" ELSE "-"

ExitVerdict(tr, e) ==
  IF e.alive # 0 THEN "child_exit_terminates_widget"
  ELSE IF e.closed # 1 THEN "closed_signal_exactly_once"
  ELSE IF e.unwatch # 1 THEN "master_fd_watch_removed_once"
  ELSE IF tr.tty = 1 /\ e.sig # 0 THEN "signal_keys_restored_when_child_exits"
  ELSE "-"

RenderVerdict(tr, e) ==
  IF e.exc # "" THEN "render_never_raises"
  ELSE IF B(e.alive) # alive THEN "render_keeps_lifecycle_state"
  ELSE IF tr.tty = 1 /\ alive /\ e.sig # (IF B(e.focus) THEN 1 ELSE 0) THEN "signal_keys_undefined_exactly_while_focused"
  ELSE IF tr.tty = 1 /\ ~alive /\ e.sig # sig THEN "dead_terminal_leaves_signal_keys_alone"
  ELSE "-"

DomainVerdict(tr, e) ==
  LET missing == DecoderDomain \ {e.names[i] : i \in 1..Len(e.names)} IN
  IF missing # {} /\ PrintT(<<"MISSING", missing>>) THEN "HARNESS_roundtrip_domain_incomplete" ELSE "-"

Verdict(tr, e) ==
  CASE e.t = "key" -> KeyVerdict(tr, e)
    [] e.t = "feed" -> FeedVerdict(tr, e)
    [] e.t = "flush" -> FlushVerdict(tr, e)
    [] e.t = "exit" -> ExitVerdict(tr, e)
    [] e.t = "render" -> RenderVerdict(tr, e)
    [] e.t = "domain" -> DomainVerdict(tr, e)
    [] OTHER -> "HARNESS_unknown_event"

Step ==
  /\ ok /\ l < Len(Traces[tid].ev) /\ l' = l + 1 /\ tid' = tid
  /\ LET tr == Traces[tid]
         e == tr.ev[l + 1]
         v == Verdict(tr, e)
         r == IF e.t = "key" THEN Route([alive |-> alive, grab |-> grab, lastesc |-> lastesc, bp |-> m.bp], e.key, tr.esc)
              ELSE R("-", grab, lastesc)
     IN /\ why' = v /\ ok' = (v = "-")
        /\ grab' = r.grab /\ lastesc' = r.lastesc
        /\ m' = IF e.t = "feed" THEN ApplyToks(m, e.toks) ELSE m
        /\ pend' = IF e.t = "feed" THEN pend \o ChunkReplies(e.toks, e.cur) ELSE IF e.t \in {"flush", "exit"} THEN <<>> ELSE pend
        /\ alive' = IF e.t = "exit" THEN FALSE ELSE alive
        /\ focus' = IF e.t = "render" /\ alive THEN B(e.focus) ELSE focus
        /\ sig' = IF e.t \in {"render", "exit"} THEN e.sig ELSE sig
Spec == Init /\ [][Step]_vars

Report == ok \/ PrintT(<<"REJECT", tid, l, why>>)
===============================================================================
