------------------------------ MODULE SessionOps ------------------------------
(* End-to-end reference model of one small urwid application (whole-application conformance):  *)
(*                                                                                              *)
(*   Frame(header = Text(title, clip),                                                          *)
(*         body   = ListBox([Edit(caption, text) | CheckBox(label) | Text(static), ...]),       *)
(*         footer = Text(status, clip))                                                         *)
(*   unhandled_input: 'esc' ends the session, any other key's name is shown in the footer.      *)
(*                                                                                              *)
(* The application is described by `app` = [title, status, items], items a sequence of          *)
(* [kind, caption, text, state] (kind "edit" | "check" | "text"; for "check" caption = label,   *)
(* for "text" caption = the static text); all texts are sequences of code points.               *)
(*                                                                                              *)
(* Abstract state `st`:                                                                         *)
(*   items[i] = [text, pos, pref, pcols, state]   Edit text / cursor offset, the column the     *)
(*              item remembers for vertical cursor movement (None, Left, Right or a column;     *)
(*              an Edit's memory is valid only at the width pcols it was made at), CheckBox     *)
(*              state                                                                           *)
(*   focus      index of the ListBox focus item                                                 *)
(*   lbpref     the ListBox's own remembered column                                             *)
(*   footer     text shown in the footer; cols, rows screen size; done = session ended          *)
(*                                                                                              *)
(* A key is [name, cp, sp]: name = urwid's key name, cp = code point when the key is a          *)
(* printable character (0 otherwise), sp = the name spelled as code points (footer text).       *)
(*                                                                                              *)
(* The Edit is the reference editor of C10 (EditOps!Ref) on a one-row display: the model        *)
(* assumes no Edit wraps (caption + text + cursor fit in cols) and the whole list is visible    *)
(* (rows >= items + 2), so no scrolling semantics is needed.                                    *)
EXTENDS Integers, Sequences, FiniteSets, TLC

E == INSTANCE EditOps

None == -9          \* "no remembered column" (the same encoding as EditOps: -1 = left edge, -2 = right edge)
Left == -1
Right == -2

(* ---- characters ---- *)
Wide(c) == \/ c >= 4352 /\ c <= 4447        \* Hangul Jamo
           \/ c >= 11904 /\ c <= 42191      \* CJK radicals .. Yi
           \/ c >= 44032 /\ c <= 55203      \* Hangul syllables
           \/ c >= 63744 /\ c <= 64255      \* CJK compatibility ideographs
           \/ c >= 65280 /\ c <= 65376      \* fullwidth forms
CW(c) == IF Wide(c) THEN 2 ELSE 1
RECURSIVE WidthOf(_)
WidthOf(s) == IF s = <<>> THEN 0 ELSE CW(Head(s)) + WidthOf(Tail(s))
Printable(c) == c >= 32 /\ c # 127

(* ---- the application ---- *)
NItems(app) == Len(app.items)
Kind(app, i) == app.items[i].kind
Selectable(app, i) == Kind(app, i) \in {"edit", "check"}
SelIdx(app) == {i \in 1..NItems(app) : Selectable(app, i)}
SetMin(S) == CHOOSE x \in S : \A y \in S : x <= y
SetMax(S) == CHOOSE x \in S : \A y \in S : x >= y

\* assumptions under which the model is the specification of the application
Fits(app, st) ==
  /\ st.rows >= NItems(app) + 2
  /\ \A i \in 1..NItems(app) :
       CASE Kind(app, i) = "edit"  -> WidthOf(app.items[i].caption) + WidthOf(st.items[i].text) + 1 <= st.cols
         [] Kind(app, i) = "check" -> 4 + WidthOf(app.items[i].caption) <= st.cols
         [] OTHER                  -> WidthOf(app.items[i].caption) <= st.cols

InitState(app, cols, rows) ==
  [items  |-> [i \in 1..NItems(app) |->
                 [text |-> app.items[i].text, pos |-> Len(app.items[i].text), pref |-> None, pcols |-> 0,
                  state |-> app.items[i].state]],
   \* a ListBox starts on its first item, or on the first selectable item below it when that one is not selectable
   focus  |-> IF SelIdx(app) = {} THEN 1 ELSE SetMin(SelIdx(app)),
   lbpref |-> Left,
   footer |-> app.status,
   cols   |-> cols, rows |-> rows, done |-> FALSE]

(* ---- Edit: one display row of cursor stops <<offset, column, width>> (EditOps) ---- *)
Stops1(full) ==
  <<[j \in 1..(Len(full) + 1) |->
       IF j <= Len(full) THEN <<j - 1, WidthOf(SubSeq(full, 1, j - 1)), CW(full[j])>>
       ELSE <<Len(full), WidthOf(full), 0>>]>>
EditCol(app, st, i) == WidthOf(app.items[i].caption) + WidthOf(SubSeq(st.items[i].text, 1, st.items[i].pos))
EditKey(k) == [k |-> IF k.cp > 0 THEN "char" ELSE k.name, c |-> k.cp, x |-> 0, y |-> 0]
EditOpt == [multiline |-> FALSE, allow_tab |-> FALSE]

R(st, handled) == [st |-> st, handled |-> handled]

EditStep(app, st, i, k) ==
  LET it == st.items[i]
      cap == app.items[i].caption
      r == E!Ref([text |-> it.text, pos |-> it.pos, pref |-> it.pref], EditKey(k), <<EditCol(app, st, i), 0>>,
                 Stops1(cap \o it.text), Len(cap), EditOpt)
      it2 == [it EXCEPT !.text = r.text, !.pos = r.pos, !.pref = r.pref,
                        !.pcols = IF r.handled /\ k.name \in {"home", "end"} THEN st.cols ELSE @]
  IN R([st EXCEPT !.items[i] = it2], r.handled)

\* activating the CheckBox toggles it; the toggled box has forgotten the column it remembered
CheckStep(st, i, k) ==
  IF k.name \in {" ", "enter"} THEN R([st EXCEPT !.items[i].state = ~@, !.items[i].pref = None], TRUE) ELSE R(st, FALSE)

(* ---- ListBox: moving the focus carries the cursor column along ---- *)
\* the column the focus item asks to keep (None: the item has no opinion, the ListBox keeps its own)
PrefOfFocus(app, st) ==
  LET i == st.focus  it == st.items[i] IN
  CASE Kind(app, i) = "edit"  -> IF it.pref # None /\ it.pcols = st.cols THEN it.pref ELSE EditCol(app, st, i)
    [] Kind(app, i) = "check" -> IF it.pref # None THEN it.pref ELSE 2      \* middle of the 4 columns of "[ ] "
    [] OTHER                  -> None

MoveFocus(app, st, tgt) ==
  LET pc == PrefOfFocus(app, st)
      lb == IF pc # None THEN pc ELSE st.lbpref
      it == st.items[tgt]
      cap == app.items[tgt].caption
      p == E!StopFor(Stops1(cap \o it.text)[1], lb)[1]
      it2 == CASE Kind(app, tgt) = "edit"  -> [it EXCEPT !.pos = E!Min2(E!Max2(p - Len(cap), 0), Len(it.text)),
                                                         !.pref = lb, !.pcols = st.cols]
               [] Kind(app, tgt) = "check" -> [it EXCEPT !.pref = lb]
               [] OTHER                    -> it
  IN [st EXCEPT !.items[tgt] = it2, !.focus = tgt, !.lbpref = lb]

ListStep(app, st, k) ==
  LET f == st.focus
      above == {i \in SelIdx(app) : i < f}
      below == {i \in SelIdx(app) : i > f}
      upto == {i \in SelIdx(app) : i <= f}
      from == {i \in SelIdx(app) : i >= f}
  IN CASE k.name = "up"        -> IF above = {} THEN R(st, FALSE) ELSE R(MoveFocus(app, st, SetMax(above)), TRUE)
       [] k.name = "down"      -> IF below = {} THEN R(st, FALSE) ELSE R(MoveFocus(app, st, SetMin(below)), TRUE)
       \* a page = the whole (fully visible) list: the topmost / bottommost selectable item, possibly the focus itself
       [] k.name = "page up"   -> IF upto = {} THEN R(st, TRUE) ELSE R(MoveFocus(app, st, SetMin(upto)), TRUE)
       [] k.name = "page down" -> IF from = {} THEN R(st, TRUE) ELSE R(MoveFocus(app, st, SetMax(from)), TRUE)
       \* home / end not used by the focus item: the list jumps to its first / last item (selectable or not);
       \* no cursor column is carried
       [] k.name = "home"      -> R([st EXCEPT !.focus = 1], TRUE)
       [] k.name = "end"       -> R([st EXCEPT !.focus = NItems(app)], TRUE)
       [] OTHER                -> R(st, FALSE)

Unhandled(st, k) ==
  IF k.name = "esc" THEN [st EXCEPT !.done = TRUE]
  ELSE IF k.name = "ctrl l" THEN st            \* MainLoop's "redraw screen" command: repaint, nothing changes
  ELSE [st EXCEPT !.footer = k.sp]

KeyStep(app, st, k) ==
  IF st.done THEN st
  ELSE LET i == st.focus
           a == CASE Kind(app, i) = "edit"  -> EditStep(app, st, i, k)
                  [] Kind(app, i) = "check" -> CheckStep(st, i, k)
                  [] OTHER                  -> R(st, FALSE)
       IN IF a.handled THEN a.st
          ELSE LET b == ListStep(app, a.st, k) IN
               IF b.handled THEN b.st ELSE Unhandled(b.st, k)

RECURSIVE KeysFrom(_, _, _, _)
KeysFrom(app, st, ks, i) == IF i > Len(ks) THEN st ELSE KeysFrom(app, KeyStep(app, st, ks[i]), ks, i + 1)
Keys(app, st, ks) == KeysFrom(app, st, ks, 1)

ResizeStep(st, cols, rows) == IF st.done THEN st ELSE [st EXCEPT !.cols = cols, !.rows = rows]

(* ---- what the screen must show ---- *)
\* a cell is <<code point, part>>, part 0 = ordinary, 1 / 2 = left / right half of a double-width character
RECURSIVE Cells(_)
Cells(s) == IF s = <<>> THEN <<>>
            ELSE (IF CW(Head(s)) = 2 THEN <<<<Head(s), 1>>, <<Head(s), 2>>>> ELSE <<<<Head(s), 0>>>>) \o Cells(Tail(s))
BlankCell == <<32, 0>>
RowOf(s, cols) ==
  LET cs == Cells(s) IN
  [x \in 1..cols |-> IF x > Len(cs) THEN BlankCell
                     ELSE IF x = cols /\ cs[x][2] = 1 THEN BlankCell       \* half a character does not fit
                     ELSE cs[x]]

ItemText(app, st, i) ==
  CASE Kind(app, i) = "edit"  -> app.items[i].caption \o st.items[i].text
    [] Kind(app, i) = "check" -> <<91, IF st.items[i].state THEN 88 ELSE 32, 93, 32>> \o app.items[i].caption
    [] OTHER                  -> app.items[i].caption

ExpectedScreen(app, st) ==
  LET n == NItems(app)
      f == st.focus
  IN [cells |-> [y \in 1..st.rows |->
                   IF y = 1 THEN RowOf(app.title, st.cols)
                   ELSE IF y = st.rows THEN RowOf(st.footer, st.cols)
                   ELSE IF y - 1 <= n THEN RowOf(ItemText(app, st, y - 1), st.cols)
                   ELSE RowOf(<<>>, st.cols)],
      \* 0-based <<x, y>>, or <<>> when no cursor is shown (the focus item is not selectable)
      cur |-> CASE Kind(app, f) = "edit"  -> <<EditCol(app, st, f), f>>
                [] Kind(app, f) = "check" -> <<1, f>>
                [] OTHER                  -> <<>>]
===============================================================================
