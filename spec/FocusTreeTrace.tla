------------------------------ MODULE FocusTreeTrace ------------------------------
(* C08 trace validation: histories executed on real nested containers with probe leaves.       *)
EXTENDS FocusTreeOps, Json, IOUtils

Traces == JsonDeserialize(IOEnv.TRACE_FILE)
VARIABLES tid, l, ok, why
vars == <<tid, l, ok, why>>
Init == tid \in 1..Len(Traces) /\ l = 0 /\ ok = TRUE /\ why = "-"

Arrows == {"up", "down", "left", "right"}

Verdict(e) ==
  IF e.expect = "IndexError" /\ e.exc # "IndexError" THEN "invalid_position_raises_IndexError"
  ELSE IF e.expect = "" /\ e.exc # "" THEN "never_raises"
  ELSE IF ~FocusValid(e.post) THEN "focus_is_a_valid_child_or_none_when_empty"
  ELSE IF e.t = "key" /\ ~(SeqSet(e.recv) \subseteq FocusPath(e.pre)) THEN "key_offered_only_on_focus_path"
  ELSE IF e.t = "key" /\ e.handled = 0 /\ e.ret_same = 0 THEN "unhandled_key_returned_unchanged"
  ELSE IF e.t = "key" /\ e.key \in Arrows /\ e.samestruct = 1 /\ ~ArrowOnlyToSelectable(e.pre, e.post, e.short = 1) THEN "arrow_moves_focus_only_to_selectable"
  ELSE IF e.t = "setcontents" /\ ~SelectableIffChild(e.post, e.target) THEN "selectable_iff_a_child_is_after_contents_set"
  ELSE IF ~(SeqSet(e.rfocus) \subseteq FocusPath(e.post)) THEN "only_focus_path_rendered_with_focus"
  ELSE IF e.t = "roundtrip" /\ e.same = 0 THEN "focus_path_round_trip"
  ELSE "-"

Step == /\ ok /\ l < Len(Traces[tid].ev) /\ l' = l + 1 /\ tid' = tid
        /\ LET v == Verdict(Traces[tid].ev[l + 1]) IN why' = v /\ ok' = (v = "-")
Spec == Init /\ [][Step]_vars
Report == ok \/ PrintT(<<"REJECT", tid, l, why>>)
===================================================================================
