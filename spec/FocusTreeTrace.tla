------------------------------ MODULE FocusTreeTrace ------------------------------
(* C08 trace validation: histories executed on real nested containers with probe leaves.       *)
(* An event is one operation: e.pre (key events: the node table before the key), e.foc (focus   *)
(* indices of the containers read right after the operation), then - when e.laid = 1 - a        *)
(* rendering, then e.post (the node table).  e.pendpre / e.pend: the ListBoxes with a focus     *)
(* change pending before the key / at the instant of e.foc; e.firstpre / e.pendfirst: those     *)
(* never laid out at these two instants.  e.moves: every Columns.move_cursor_to_coords call    *)
(* made by the operation and the layout after it (FocusTreeOps!MoveOk).                         *)
(* The predicates are those of FocusTreeOps, the same the model FocusTree.tla is checked        *)
(* against.  e.soft # "": the rendering (or the key / press itself) raised - recorded as a      *)
(* divergence (rendering is C01's business); what a completed layout or call would have left    *)
(* behind is then not judged.                                                                   *)
EXTENDS FocusTreeOps, Json, IOUtils

Traces == JsonDeserialize(IOEnv.TRACE_FILE)
VARIABLES tid, l, ok, why
vars == <<tid, l, ok, why>>
Init == tid \in 1..Len(Traces) /\ l = 0 /\ ok = TRUE /\ why = "-"

Arrows == {"up", "down", "left", "right"}

Verdict(e) ==
  IF e.expect = "IndexError" /\ e.exc # "IndexError" THEN "invalid_position_raises_IndexError"
  ELSE IF e.expect = "" /\ e.exc # "" THEN "never_raises"
  ELSE IF ~FocusValid(e.post) THEN "focus_is_a_valid_child_or_none_when_empty"
  ELSE IF e.t = "key" /\ ~(SeqSet(e.recv) \subseteq Reach(e.pre, e.pendpre)) THEN "key_offered_only_on_focus_path"
  ELSE IF e.t = "key" /\ e.soft = "" /\ ~UnhandledComesBack(e.pre, e.pendpre, e.key, e.ate, e.ret) THEN "unhandled_key_returned_unchanged"
  ELSE IF e.t = "key" /\ e.soft = "" /\ ~KeyMovesOnlyNavigators(e.pre, e.post, e.pendpre \o e.pend, e.firstpre \o e.pendfirst, e.key) THEN "key_moves_focus_only_where_it_navigates"
  ELSE IF e.t = "key" /\ e.key \in Arrows /\ e.samestruct = 1 /\ ~ArrowOnlyToSelectable(e.pre, e.post, e.short = 1) THEN "arrow_moves_focus_only_to_selectable"
  ELSE IF e.soft = "" /\ ~MovesOk(e.moves) THEN "cursor_sent_into_columns_lands_on_the_column_at_the_coords"
  ELSE IF e.t = "setcontents" /\ ~SelectableIffChild(e.post, e.target) THEN "selectable_iff_a_child_is_after_contents_set"
  ELSE IF ~(SeqSet(e.rfocus) \subseteq FocusPath(e.post)) THEN "only_focus_path_rendered_with_focus"
  ELSE IF e.t = "setfocus" /\ e.want >= 0 /\ e.exc = "" /\ e.soft = "" /\ ~AssignmentTakesEffect(e.foc, e.post, e.pend, e.target, e.want) THEN "focus_assignment_takes_effect"
  ELSE IF e.t \in {"roundtrip", "setpath"} /\ e.exc = "" /\ e.soft = "" /\ (e.p_back # e.p_saved \/ (e.p_later # e.p_saved /\ ~LayoutKeepsFocus(e.foc, e.post, e.pend, e.pendfirst))) THEN "focus_path_round_trip"
  ELSE IF e.t # "init" /\ e.laid = 1 /\ ~LayoutKeepsFocus(e.foc, e.post, e.pend, e.pendfirst) THEN "layout_keeps_focus"
  ELSE "-"

Step == /\ ok /\ l < Len(Traces[tid].ev) /\ l' = l + 1 /\ tid' = tid
        /\ LET v == Verdict(Traces[tid].ev[l + 1]) IN why' = v /\ ok' = (v = "-")
Spec == Init /\ [][Step]_vars
Report == ok \/ PrintT(<<"REJECT", tid, l, why>>)
===================================================================================
