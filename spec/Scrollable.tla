------------------------------- MODULE Scrollable -------------------------------
(* C20 state machine: stored scroll position (any integer, set raw by set_scrollpos),         *)
(* pending key action, content height, view height; Render resolves the position as           *)
(* documented.  TLC explores every history of keys / set_scrollpos / wheel / resize /         *)
(* content change / input delivery / render within bounds and checks the after-render         *)
(* invariants, "a resize or content change only clamps", the bar state the wrapped widget's   *)
(* width depends on, and the scrollbar geometry contract on the reference geometry.           *)
(*                                                                                            *)
(* Sticky = TRUE is a deliberately wrong variant (a key pressed while the content fits stays  *)
(* pending): TLC must refute ClampOnly for it (the invariant is not vacuous).                 *)
EXTENDS ScrollableOps

CONSTANTS MaxTotal, MaxH, Depth, W, Sticky

VARIABLES stored, pend, total, h, rendered, view, n, last,
          pr,        \* position shown by the last rendering (-1: none yet)
          quiet,     \* no key / set_scrollpos / wheel since the last rendering
          clampok,   \* the last rendering, if it followed resizes / content changes only, showed Clamp(pr)
          barw,      \* columns of the ScrollBar around the Scrollable (0: no ScrollBar)
          bar,       \* the bar was drawn by the last rendering
          given      \* width handed to the wrapped widget by the last render / key / mouse delivery
vars == <<stored, pend, total, h, rendered, view, n, last, pr, quiet, clampok, barw, bar, given>>

Init == /\ stored = 0 /\ pend = "" /\ total \in 0..MaxTotal /\ h \in 1..MaxH
        /\ rendered = FALSE /\ view = <<>> /\ n = 0 /\ last = "init"
        /\ pr = -1 /\ quiet = TRUE /\ clampok = TRUE /\ barw \in 0..1 /\ bar = FALSE /\ given = W

\* input reaches the wrapped widget with the width of the rendering the user looks at
Deliver == given' = ChildWidth(bar, W, barw)

Key(k) == /\ pend' = k /\ rendered' = FALSE /\ last' = k /\ quiet' = FALSE /\ Deliver
          /\ UNCHANGED <<stored, total, h, view, pr, clampok, barw, bar>>
SetPos(v) == /\ stored' = v /\ rendered' = FALSE /\ last' = "setpos" /\ quiet' = FALSE
             /\ UNCHANGED <<pend, total, h, view, pr, clampok, barw, bar, given>>
\* a wheel event is an event on the rendered screen; the ScrollBar turns it into a position one row away
Wheel(d) == /\ rendered /\ barw > 0 /\ stored' = WheelPos(stored, d) /\ rendered' = FALSE /\ last' = "wheel" /\ quiet' = FALSE
            /\ Deliver /\ UNCHANGED <<pend, total, h, view, pr, clampok, barw, bar>>
Resize(h2) == /\ h' = h2 /\ rendered' = FALSE /\ last' = "resize"
              /\ UNCHANGED <<stored, pend, total, view, pr, quiet, clampok, barw, bar, given>>
Content(t2) == /\ total' = t2 /\ rendered' = FALSE /\ last' = "content"
               /\ UNCHANGED <<stored, pend, h, view, pr, quiet, clampok, barw, bar, given>>
Render ==
  /\ LET fits == total <= h
         p == IF Sticky /\ fits THEN 0 ELSE Shown(stored, pend, total, h)
     IN /\ stored' = p /\ view' = View(p, total, h) /\ pr' = p
        /\ clampok' = ((quiet /\ pr >= 0) => p = Clamp(pr, total, h))
        /\ pend' = IF Sticky /\ fits THEN pend ELSE ""
        /\ bar' = (barw > 0 /\ total > h)
        /\ given' = ChildWidth(barw > 0 /\ total > h, W, barw)
  /\ rendered' = TRUE /\ last' = "render" /\ quiet' = TRUE /\ UNCHANGED <<total, h, barw>>

Next == /\ n < Depth /\ n' = n + 1
        /\ \/ \E k \in ScrollKeys : Key(k)
           \/ \E v \in (0 - MaxTotal - 2)..(MaxTotal + 2) : SetPos(v)
           \/ \E d \in {"up", "down"} : Wheel(d)
           \/ \E h2 \in 1..MaxH : Resize(h2)
           \/ \E t2 \in 0..MaxTotal : Content(t2)
           \/ Render
Spec == Init /\ [][Next]_vars

AfterRender == rendered =>
  /\ stored >= 0 /\ stored <= MaxPos(total, h)
  /\ view = View(stored, total, h)
  /\ (total >= h => \A i \in 1..h : view[i] # -1)            \* blanks only when the content is shorter
  /\ (total <= h => stored = 0)
  /\ (~Sticky => pend = "")                                    \* a rendering uses up the key
\* a resize / content change (no key, set_scrollpos or wheel since the last rendering) may only clamp the position
ClampOnly == clampok
\* the bar is drawn exactly when the content has more rows than the view; the wrapped widget has the full width otherwise
BarState == rendered => /\ bar = (barw > 0 /\ total > h)
                        /\ given = (IF barw > 0 /\ total > h THEN W - barw ELSE W)
\* between renderings input is delivered with the width of the rendering on screen, even when the content has changed since
DeliveredWidth == given \in {W, W - barw} /\ (barw = 0 => given = W) /\ (~bar /\ pr >= 0 => given = W)
\* the two readings of "adjusted during rendering" differ only for a stored position that is out of range
OrdersAgreeInRange == (Raw(stored, total, h) = Resolve(stored, total, h)) => Shown(stored, pend, total, h) = ShownLate(stored, pend, total, h)
GeometrySatisfiable == rendered /\ total > h =>
  LET th == RefThumb(total, h)  tp == RefTop(total, h, stored)
  IN /\ PartsOK(tp, th, h - th - tp, h)
     /\ ThumbTopOK(tp, th, stored, h)
     /\ (stored < MaxPos(total, h) => RefTop(total, h, stored + 1) >= tp)     \* never moves up
=================================================================================
