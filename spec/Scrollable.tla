------------------------------- MODULE Scrollable -------------------------------
(* C20 state machine: stored scroll position (any integer, set raw by set_scrollpos),         *)
(* pending key action, content height, view height; Render resolves the position as           *)
(* documented.  TLC explores every history of keys / set_scrollpos / wheel / resize /         *)
(* content change / input delivery / render within bounds and checks the after-render         *)
(* invariants, "a resize or content change only clamps", the bar state the wrapped widget's   *)
(* width depends on, and the scrollbar geometry contract on the reference geometry.           *)
(*                                                                                            *)
(* Sticky = TRUE is a deliberately wrong variant (a key pressed while the content fits stays  *)
(* pending): TLC must refute ClampOnly for it (the invariant is not vacuous).                 *)
(*                                                                                            *)
(* Frames: the renderings handed out stay referenced (a screen, a parent canvas), one per     *)
(* view height, and a rendering asked for a height whose frame is still held is answered with  *)
(* that frame - no position is resolved then.  "held": keys, set_scrollpos, wheel events and   *)
(* content changes drop the frames, and so does a rendering that had to move the position      *)
(* (clamping after a resize): HeldFramesFresh / AfterRender hold.  "lazy" is the deliberately  *)
(* wrong variant in which only keys / positions / content changes drop them: TLC must refute   *)
(* AfterRender (size A, taller size B clamps, size A again shows the old rows).  "none": no    *)
(* frame is ever held.                                                                         *)
(* The ASSUMEs at the end check the position function of list views (ScrollableListOps).      *)
EXTENDS ScrollableListOps

CONSTANTS MaxTotal, MaxH, Depth, W, Sticky, Frames

VARIABLES stored, pend, total, h, rendered, view, n, last,
          pr,        \* position shown by the last rendering (-1: none yet)
          quiet,     \* no key / set_scrollpos / wheel since the last rendering
          clampok,   \* the last rendering, if it followed resizes / content changes only, showed Clamp(pr)
          barw,      \* columns of the ScrollBar around the Scrollable (0: no ScrollBar)
          bar,       \* the bar was drawn by the last rendering
          given,     \* width handed to the wrapped widget by the last render / key / mouse delivery
          held       \* view height -> the frame rendered for it that is still referenced and valid (<<>>: none)
vars == <<stored, pend, total, h, rendered, view, n, last, pr, quiet, clampok, barw, bar, given, held>>

NoFrames == [i \in 1..MaxH |-> <<>>]

Init == /\ stored = 0 /\ pend = "" /\ total \in 0..MaxTotal /\ h \in 1..MaxH
        /\ rendered = FALSE /\ view = <<>> /\ n = 0 /\ last = "init"
        /\ pr = -1 /\ quiet = TRUE /\ clampok = TRUE /\ barw \in 0..1 /\ bar = FALSE /\ given = W
        /\ held = NoFrames

\* input reaches the wrapped widget with the width of the rendering the user looks at
Deliver == given' = ChildWidth(bar, W, barw)

\* a scrolling key, an explicit position, a wheel event and a content change make every frame handed out so far invalid
Key(k) == /\ pend' = k /\ rendered' = FALSE /\ last' = k /\ quiet' = FALSE /\ Deliver /\ held' = NoFrames
          /\ UNCHANGED <<stored, total, h, view, pr, clampok, barw, bar>>
SetPos(v) == /\ stored' = v /\ rendered' = FALSE /\ last' = "setpos" /\ quiet' = FALSE /\ held' = NoFrames
             /\ UNCHANGED <<pend, total, h, view, pr, clampok, barw, bar, given>>
\* a wheel event is an event on the rendered screen; the ScrollBar turns it into a position one row away
Wheel(d) == /\ rendered /\ barw > 0 /\ stored' = WheelPos(stored, d) /\ rendered' = FALSE /\ last' = "wheel" /\ quiet' = FALSE
            /\ Deliver /\ held' = NoFrames /\ UNCHANGED <<pend, total, h, view, pr, clampok, barw, bar>>
\* a resize alone drops nothing: the frames of the other sizes stay good until the position moves
Resize(h2) == /\ h' = h2 /\ rendered' = FALSE /\ last' = "resize"
              /\ UNCHANGED <<stored, pend, total, view, pr, quiet, clampok, barw, bar, given, held>>
Content(t2) == /\ total' = t2 /\ rendered' = FALSE /\ last' = "content" /\ held' = NoFrames
               /\ UNCHANGED <<stored, pend, h, view, pr, quiet, clampok, barw, bar, given>>
Render ==
  /\ LET fits == total <= h
         hit == Frames # "none" /\ held[h] # <<>>            \* answered with the held frame: nothing is resolved
         p == IF hit THEN stored ELSE IF Sticky /\ fits THEN 0 ELSE Shown(stored, pend, total, h)
         v == IF hit THEN held[h] ELSE View(p, total, h)
     IN /\ stored' = p /\ view' = v /\ pr' = p
        /\ clampok' = ((quiet /\ pr >= 0) => p = Clamp(pr, total, h))
        /\ pend' = IF hit \/ (Sticky /\ fits) THEN pend ELSE ""
        /\ bar' = (barw > 0 /\ total > h)
        /\ given' = ChildWidth(barw > 0 /\ total > h, W, barw)
        /\ held' = IF Frames = "none" \/ hit THEN held
                   ELSE IF p # stored /\ Frames = "held" THEN [NoFrames EXCEPT ![h] = v]      \* the position moved while rendering
                   ELSE [held EXCEPT ![h] = v]
  /\ rendered' = TRUE /\ last' = "render" /\ quiet' = TRUE /\ UNCHANGED <<total, h, barw>>

Next == /\ n < Depth /\ n' = n + 1
        /\ \/ \E k \in ScrollKeys : Key(k)
           \/ \E v \in (0 - MaxTotal - 2)..(MaxTotal + 2) : SetPos(v)
           \/ \E d \in {"up", "down"} : Wheel(d)
           \/ \E h2 \in 1..MaxH : Resize(h2)
           \/ \E t2 \in 0..MaxTotal : Content(t2)
           \/ Render
Spec == Init /\ [][Next]_vars

AfterRender == rendered =>
  /\ stored >= 0 /\ stored <= MaxPos(total, h)
  /\ view = View(stored, total, h)
  /\ (total >= h => \A i \in 1..h : view[i] # -1)            \* blanks only when the content is shorter
  /\ (total <= h => stored = 0)
  /\ (~Sticky => pend = "")                                    \* a rendering uses up the key
\* a resize / content change (no key, set_scrollpos or wheel since the last rendering) may only clamp the position
ClampOnly == clampok
\* a frame is kept only while a fresh rendering for its height would show the same rows
HeldFramesFresh == \A i \in 1..MaxH : held[i] # <<>> => held[i] = View(Shown(stored, pend, total, i), total, i)
\* the bar is drawn exactly when the content has more rows than the view; the wrapped widget has the full width otherwise
BarState == rendered => /\ bar = (barw > 0 /\ total > h)
                        /\ given = (IF barw > 0 /\ total > h THEN W - barw ELSE W)
\* between renderings input is delivered with the width of the rendering on screen, even when the content has changed since
DeliveredWidth == given \in {W, W - barw} /\ (barw = 0 => given = W) /\ (~bar /\ pr >= 0 => given = W)
\* the two readings of "adjusted during rendering" differ only for a stored position that is out of range
OrdersAgreeInRange == (Raw(stored, total, h) = Resolve(stored, total, h)) => Shown(stored, pend, total, h) = ShownLate(stored, pend, total, h)
GeometrySatisfiable == rendered /\ total > h =>
  LET th == RefThumb(total, h)  tp == RefTop(total, h, stored)
  IN /\ PartsOK(tp, th, h - th - tp, h)
     /\ ThumbTopOK(tp, th, stored, h)
     /\ (stored < MaxPos(total, h) => RefTop(total, h, stored + 1) >= tp)     \* never moves up

(* ---- list views: the position function (checked once, over every small list) ---- *)
SmallItems == ({0} \X (1..3)) \cup ({1} \X (0..5))
SmallLists == UNION {[1..k -> SmallItems] : k \in 0..3}
ASSUME ListPositionIsRowsAbove ==
  \A items \in SmallLists : \A cols \in 1..3 :
    /\ ListPositionLaw(RowsAbove, items, cols)
    /\ \A g \in 0..(SumRows(items, cols) - 1) : FirstOK(items, cols, FirstOf(items, cols, g))
    /\ \A i \in 1..Len(items) : \A off \in 0..(ItemRows(items[i], cols) - 1) :
         /\ FirstOf(items, cols, RowsAbove(items, cols, <<i, off>>)) = <<i, off>>
         /\ (RowsAbove(items, cols, <<i, off>>) = 0) = (i = 1 /\ off = 0)          \* only the top of the list is position 0
         /\ RowsAbove(items, cols, <<i, off>>) < SumRows(items, cols)
\* the wrong reading (rows cut off the first visible item not counted) breaks the law as soon as an item has two rows
ASSUME NoInsetReadingRefuted ==
  \A items \in SmallLists : \A cols \in 1..3 :
    (\E i \in 1..Len(items) : ItemRows(items[i], cols) > 1) => ~ListPositionLaw(RowsAboveNoInset, items, cols)
=================================================================================
