------------------------------- MODULE Scrollable -------------------------------
(* C20 state machine: stored scroll position (any integer, set raw by set_scrollpos),         *)
(* pending key action, content height, view height; Render resolves the position as           *)
(* documented.  TLC explores every history of keys / set_scrollpos / resize / content         *)
(* change / render within bounds and checks the after-render invariants and the scrollbar     *)
(* geometry contract on the reference geometry.                                                *)
EXTENDS ScrollableOps

CONSTANTS MaxTotal, MaxH, Depth

VARIABLES stored, pend, total, h, rendered, view, n, last
vars == <<stored, pend, total, h, rendered, view, n, last>>

Init == /\ stored = 0 /\ pend = "" /\ total \in 0..MaxTotal /\ h \in 1..MaxH
        /\ rendered = FALSE /\ view = <<>> /\ n = 0 /\ last = "init"

Key(k) == /\ pend' = k /\ rendered' = FALSE /\ last' = k /\ UNCHANGED <<stored, total, h, view>>
SetPos(v) == /\ stored' = v /\ rendered' = FALSE /\ last' = "setpos" /\ UNCHANGED <<pend, total, h, view>>
Resize(h2) == /\ h' = h2 /\ rendered' = FALSE /\ last' = "resize" /\ UNCHANGED <<stored, pend, total, view>>
Content(t2) == /\ total' = t2 /\ rendered' = FALSE /\ last' = "content" /\ UNCHANGED <<stored, pend, h, view>>
Render ==
  /\ LET p0 == Resolve(stored, total, h)
         p == IF pend = "" THEN p0 ELSE Nav(p0, pend, total, h)
     IN stored' = p /\ view' = View(p, total, h)
  /\ pend' = "" /\ rendered' = TRUE /\ last' = "render" /\ UNCHANGED <<total, h>>

Next == /\ n < Depth /\ n' = n + 1
        /\ \/ \E k \in ScrollKeys : Key(k)
           \/ \E v \in (0 - MaxTotal - 2)..(MaxTotal + 2) : SetPos(v)
           \/ \E h2 \in 1..MaxH : Resize(h2)
           \/ \E t2 \in 0..MaxTotal : Content(t2)
           \/ Render
Spec == Init /\ [][Next]_vars

AfterRender == rendered =>
  /\ stored >= 0 /\ stored <= MaxPos(total, h)
  /\ view = View(stored, total, h)
  /\ (total >= h => \A i \in 1..h : view[i] # -1)            \* blanks only when the content is shorter
GeometrySatisfiable == rendered /\ total > h =>
  LET th == RefThumb(total, h)  tp == RefTop(total, h, stored)
  IN /\ PartsOK(tp, th, h - th - tp, h)
     /\ ThumbTopOK(tp, th, stored, h)
     /\ (stored < MaxPos(total, h) => RefTop(total, h, stored + 1) >= tp)     \* never moves up
=================================================================================
