------------------------------- MODULE ListBoxOps -------------------------------
(* C07: what a ListBox may show.  The list is given by the row count of every item           *)
(* (heights[i], i = 1..n); a view is a sequence of box-height entries, each either <<i, r>>   *)
(* (row r, 0-based, of item i, 0-based) or <<-1, -1>> (a blank row).                           *)
EXTENDS Integers, Sequences, FiniteSets, TLC

Blank == <<-1, -1>>

\* the vertical concatenation of all item renderings, as (item, row) pairs
RECURSIVE FlatFrom(_, _, _)
FlatFrom(heights, i, acc) ==
  IF i > Len(heights) THEN acc
  ELSE FlatFrom(heights, i + 1, acc \o [r \in 1..heights[i] |-> <<i - 1, r - 1>>])
Flat(heights) == FlatFrom(heights, 1, <<>>)

IndexIn(seq, x) == IF \E k \in 1..Len(seq) : seq[k] = x THEN CHOOSE k \in 1..Len(seq) : seq[k] = x ELSE 0

NonBlank(view) == SelectSeq(view, LAMBDA e : e # Blank)
\* blank rows only below the content
BlanksOnlyBelow(view) == \A k \in 1..(Len(view) - 1) : view[k] = Blank => view[k + 1] = Blank
\* the rows shown are a contiguous slice of the concatenation
Contiguous(view, heights) ==
  LET nb == NonBlank(view)  fl == Flat(heights) IN
  nb = <<>> \/ (LET s == IndexIn(fl, nb[1]) IN s > 0 /\ s + Len(nb) - 1 <= Len(fl) /\ nb = SubSeq(fl, s, s + Len(nb) - 1))
\* blank rows below the last item only when everything above it is already shown
GapOnlyWhenAllShown(view, heights) ==
  (\E k \in 1..Len(view) : view[k] = Blank) => NonBlank(view) = Flat(heights)
\* the focus names an item of the list exactly when the list has items (a walker left pointing past the end of its list --
\* e.g. after removing the last item through a negative index -- shows nothing although items remain)
FocusIsItem(focus, heights) == IF Len(heights) = 0 THEN focus = -1 ELSE focus \in 0..(Len(heights) - 1)
\* a list box given zero rows shows nothing: the visibility clauses speak of boxes with at least one row
FocusVisible(view, focus, heights) ==
  (Len(view) > 0 /\ focus >= 0 /\ heights[focus + 1] > 0) => \E k \in 1..Len(view) : view[k] # Blank /\ view[k][1] = focus
CursorVisible(view, focus, crow) ==
  (Len(view) > 0 /\ focus >= 0 /\ crow >= 0) => \E k \in 1..Len(view) : view[k] = <<focus, crow>>
\* get_cursor_coords (asked by the parent widget to place the terminal cursor) against the rendering of the same state:
\* cc = <<>> not asked, <<-1, -1>> answered None, <<col, row>> otherwise
CursorCoordsAgree(view, focus, crow, cc) ==
  cc # <<>> =>
    IF Len(view) > 0 /\ focus >= 0 /\ crow >= 0
    THEN cc[2] \in 0..(Len(view) - 1) /\ view[cc[2] + 1] = <<focus, crow>>
    ELSE cc = <<-1, -1>>

\* (callers establish FocusIsItem first: the clauses below index heights by the focus)
ViewVerdict(view, heights, focus, crow, h) ==
  IF Len(view) # h THEN "view_height"
  ELSE IF ~BlanksOnlyBelow(view) THEN "no_blank_rows_above_items"
  ELSE IF ~Contiguous(view, heights) THEN "rows_are_contiguous_slice_of_items"
  ELSE IF ~FocusVisible(view, focus, heights) THEN "focus_item_visible"
  ELSE IF ~CursorVisible(view, focus, crow) THEN "cursor_row_visible"
  ELSE IF ~GapOnlyWhenAllShown(view, heights) THEN "blank_rows_below_only_when_everything_shown"
  ELSE "-"

\* reference placement used by the model: show the slice of height h starting at flat offset `top`
ViewAt(heights, top, h) ==
  LET fl == Flat(heights) IN [k \in 1..h |-> IF top + k <= Len(fl) THEN fl[top + k] ELSE Blank]
FirstRowOf(heights, item) == IndexIn(Flat(heights), <<item, 0>>)     \* 1-based flat index, 0 if the item has no rows
=================================================================================
