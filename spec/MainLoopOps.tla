----------------------------- MODULE MainLoopOps -----------------------------
(* C12: MainLoop input ordering, redraw-before-wait, exception outcome and terminal         *)
(* restoration, as a monitor over the events of one run() session.                          *)
(*   arrived   input events that have come into being at the terminal and have not yet been  *)
(*             given to the input filter.  An input whose bytes reach the screen in two      *)
(*             reads (event "partial" at the first chunk) arrives with its last byte         *)
(*   held      a lone ESC that has been typed: it begins every escape sequence, so the       *)
(*             screen may keep it back, but for no longer than holdmax (its complete_wait):  *)
(*             while it is held the loop never sleeps longer than that                       *)
(*   resize    a window resize is pending delivery                                           *)
(*   todo      inputs the filter returned that the topmost widget has not been offered yet   *)
(*   owe       the input the widget just declined: must go to the unhandled-input handler    *)
(*   gen       generation of the widget state (bumped by every handled input / alarm / pipe) *)
(*   drawn     generation shown by the last completed draw_screen                            *)
(*   raised    exception kinds raised by callbacks                                           *)
(*   term      the terminal (Terminal.tla) interpreting every byte written, in the order in  *)
(*             which the bytes were written between the other events.  Its cells become      *)
(*             unknown (Junk) whenever a full repaint is asked for (screen.clear(), a resize) *)
(*             and blank when the screen buffer is switched, so a "draw" that leaves cells    *)
(*             differing from the canvas drawn has not redrawn the screen                     *)
EXTENDS Terminal, Sequences

InitM(w, h) == [arrived |-> <<>>, held |-> <<>>, holdmax |-> 0, resize |-> FALSE, todo |-> <<>>, owe |-> <<>>, gen |-> 0, drawn |-> -1,
                raised |-> {}, term |-> NewTerm(w, h), started |-> FALSE, top |-> 1]      \* top: the widget the application last made topmost

RM(m, w) == [m |-> m, why |-> w]
NoResize(keys) == SelectSeq(keys, LAMBDA k : k # "window resize")
IsRedrawCommand(k) == k = "ctrl l"

\* what the terminal shows is no longer known: every cell becomes junk that no canvas contains, so only a complete repaint makes
\* the screen show the canvas (as in RawDisplayTrace.tla)
Junk == [c |-> 65533, fg |-> 5, bg |-> 3, fl |-> {4}, p |-> 0]
Garble(t) == [t EXCEPT !.grid = [y \in 1..t.h |-> [x \in 1..t.w |-> Junk]]]
Wipe(t) == [t EXCEPT !.grid = [y \in 1..t.h |-> BlankRow(t.w, -1)]]
ApplyTok(t, e) ==
  CASE e.t = "put"    -> Put(t, e.c, e.w)
    [] e.t = "zw"     -> PutZero(t, e.c)
    [] e.t = "cup"    -> CUP(t, e.x, e.y)
    [] e.t = "bs"     -> BS(t)
    [] e.t = "cr"     -> CR(t)
    [] e.t = "lf"     -> Index(t)
    [] e.t = "cuu"    -> CUU(t, e.n)
    [] e.t = "cud"    -> CUD(t, e.n)
    [] e.t = "cuf"    -> CUF(t, e.n)
    [] e.t = "cub"    -> CUB(t, e.n)
    [] e.t = "sgr"    -> SGR(t, e.ps)
    [] e.t = "el"     -> EL(t, e.n)
    [] e.t = "ed"     -> ED(t, e.n)
    [] e.t = "ich"    -> ICH(t, e.n)
    [] e.t = "irm"    -> SetIRM(t, e.on)
    [] e.t = "so"     -> ShiftOut(t)
    [] e.t = "si"     -> ShiftIn(t)
    [] e.t = "desig"  -> Designate(t, e.g, e.set)
    \* switching to the alternate screen buffer shows a fresh, blank screen; what comes back with the normal buffer is not the program's
    [] e.t = "decset" -> IF e.n = 1049 THEN Wipe(DecSet(t, e.n, e.on)) ELSE DecSet(t, e.n, e.on)
    \* model only: the bytes that paint these rows (code points) from the top left corner, whatever they are
    [] e.t = "paint"  -> [t EXCEPT !.grid = [y \in 1..t.h |-> [x \in 1..t.w |->
                              IF y <= Len(e.rows) /\ x <= Len(e.rows[y]) THEN [Blank(-1) EXCEPT !.c = e.rows[y][x]] ELSE @[y][x]]]]
    [] OTHER          -> t
TokenKinds == {"put", "zw", "cup", "bs", "cr", "lf", "sgr", "el", "ed", "ich", "irm", "so", "si", "desig", "decset", "keypad", "cuu", "cud", "cuf", "cub",
               "paint"}
\* the canvas handed to draw_screen (rows of code points) against the cells the terminal shows once the draw has written its bytes;
\* a draw for a size the terminal no longer has (a resize is on its way) is not judged
FitsTerm(t, rows) == Len(rows) = t.h /\ \A y \in 1..Len(rows) : Len(rows[y]) = t.w
Shows(t, rows) == \A y \in 1..Len(rows) : \A x \in 1..Len(rows[y]) : t.grid[y][x].c = rows[y][x]

Restored(m, e) ==
  IF m.term.modes \cap {1049} # {} THEN "normal_screen_buffer_restored"
  ELSE IF ~m.term.curs THEN "cursor_visible_again"
  ELSE IF m.term.modes \cap {1000, 1002, 1003, 1006} # {} THEN "mouse_reporting_off"
  ELSE IF 2004 \in m.term.modes THEN "bracketed_paste_off"
  ELSE IF 1004 \in m.term.modes THEN "focus_reporting_off"
  ELSE IF ~e.termios_same THEN "tty_settings_restored"
  ELSE IF e.sigs_after # e.sigs_before THEN "signal_handlers_restored"      \* dispositions of SIGWINCH, SIGTSTP, SIGCONT: "ign" | "dfl" | "py" (| "other")
  ELSE IF e.started THEN "display_stopped"
  ELSE "-"

JudgeM(m, e) ==
  CASE e.t = "arrive" -> RM([m EXCEPT !.arrived = @ \o e.keys], "-")
    [] e.t = "arrive_resize" -> RM([m EXCEPT !.resize = TRUE, !.term = Garble(Resize(@, e.w, e.h))], "-")
    [] e.t = "clear" -> RM([m EXCEPT !.term = Garble(@)], "-")      \* screen.clear(): a full repaint is asked for (ctrl-L, stop)
    [] e.t = "partial" -> RM(m, "-")      \* the first bytes of an input were written to the terminal: no input event yet
    [] e.t = "arrive_held" -> RM([m EXCEPT !.held = e.keys, !.holdmax = e.wait], "-")
    [] e.t = "filter" ->     \* input_filter(keys): everything that arrived, in arrival order, exactly once
         LET keys == NoResize(e.keys)
             releases == m.held # <<>> /\ keys = m.arrived \o m.held       \* the screen stops waiting: the held ESC is passed on too
             m2 == [m EXCEPT !.arrived = <<>>, !.resize = FALSE, !.todo = NoResize(e.out), !.held = IF releases THEN <<>> ELSE @]
         IN IF m.todo # <<>> \/ m.owe # <<>> THEN RM(m2, "previous_input_fully_dispatched_first")
            ELSE IF keys # m.arrived /\ ~releases THEN RM(m2, "inputs_to_filter_in_arrival_order")
            ELSE IF Len(keys) # Len(e.keys) /\ ~m.resize THEN RM(m2, "spurious_window_resize")
            ELSE RM(m2, "-")
    [] e.t \in {"keypress", "mouse_event"} ->    \* the topmost widget is offered the next filtered input
         LET m2 == [m EXCEPT !.todo = IF @ = <<>> THEN @ ELSE Tail(@),
                             !.owe = IF e.handled \/ IsRedrawCommand(e.key) THEN <<>> ELSE <<e.key>>,
                             !.gen = IF e.handled THEN @ + 1 ELSE @]
         IN IF m.owe # <<>> THEN RM(m2, "unhandled_input_gets_declined_input")
            ELSE IF m.todo = <<>> \/ Head(m.todo) # e.key THEN RM(m2, "widget_gets_filtered_input_in_order")
            ELSE IF e.w # m.top THEN RM(m2, "input_goes_to_the_topmost_widget")
            ELSE RM(m2, "-")
    [] e.t = "unhandled" ->
         LET m2 == [m EXCEPT !.owe = <<>>]
         IN IF m.owe # <<e.key>> THEN RM(m2, "unhandled_exactly_when_widget_declined")
            ELSE RM(m2, "-")
    [] e.t \in {"alarm", "pipe"} -> RM([m EXCEPT !.gen = IF e.changes THEN @ + 1 ELSE @], "-")      \* changes: the callback got to change the state (did not raise first)
    [] e.t = "swap" -> RM([m EXCEPT !.gen = @ + 1, !.top = e.w], "-")     \* the application replaced the topmost widget
    [] e.t = "draw" -> RM([m EXCEPT !.drawn = e.gen],
                          IF e.gen # m.gen /\ m.raised = {} THEN "draw_shows_current_state"
                          ELSE IF m.raised = {} /\ FitsTerm(m.term, e.rows) /\ ~Shows(m.term, e.rows) THEN "screen_redrawn_from_widget_state"
                          ELSE "-")
    [] e.t = "raise" -> RM([m EXCEPT !.raised = @ \cup {e.kind}, !.owe = <<>>, !.todo = <<>>], "-")
    [] e.t = "wait" ->
         LET blocks == e.ready = <<>> /\ e.timeout # 0 /\ (e.timeout = -1 \/ e.timeout > e.grace)
         IN IF blocks /\ m.raised = {} /\ m.arrived # <<>> THEN RM(m, "each_input_event_is_passed")     \* the loop sleeps on input it never delivered
            ELSE IF blocks /\ m.raised = {} /\ m.held # <<>> /\ (e.timeout = -1 \/ e.timeout > m.holdmax) THEN RM(m, "each_input_event_is_passed")
            ELSE IF blocks /\ m.raised = {} /\ m.owe # <<>> THEN RM(m, "unhandled_exactly_when_widget_declined")
            ELSE IF blocks /\ m.raised = {} /\ m.todo # <<>> THEN RM(m, "widget_gets_filtered_input_in_order")
            ELSE IF blocks /\ m.raised = {} /\ m.drawn # m.gen THEN RM(m, "redrawn_before_next_wait")
            ELSE RM(m, "-")
    [] e.t = "advance" -> RM(m, IF m.raised # {} THEN "exception_ends_run" ELSE "-")
    [] e.t \in {"woke", "env_readable", "slow"} -> RM(m, "-")
    \* run() is called again on the same MainLoop: what the first run raised is over; input that has not been read yet is still there;
    \* the screen has to be drawn anew
    [] e.t = "rerun" -> RM([m EXCEPT !.raised = {}, !.todo = <<>>, !.owe = <<>>, !.drawn = -1], "-")
    [] e.t = "run_end" ->
         IF e.outcome = "stuck" THEN RM(m, "run_never_ends")
         ELSE IF m.raised = {} THEN RM(m, "run_ended_without_exit")
         ELSE IF e.outcome = "raise" /\ e.exc # "VfError" THEN RM(m, "exception_propagates_unchanged")      \* "VfError": the very object raised
         ELSE IF "error" \in m.raised /\ "exit" \notin m.raised /\ e.outcome # "raise" THEN RM(m, "exception_propagates_unchanged")
         ELSE IF m.raised = {"exit"} /\ e.outcome # "return" THEN RM(m, "exit_ends_run_normally")
         ELSE RM(m, "-")
    [] e.t \in TokenKinds -> RM([m EXCEPT !.term = ApplyTok(@, e)], "-")
    [] e.t = "final" -> RM(m, Restored(m, e))
    [] OTHER -> RM(m, "no_action")
==============================================================================
