------------------------------ MODULE VTermOps ------------------------------
(* C15 - contract of the embedded terminal emulator (urwid.vterm.TermCanvas), written over  *)
(* the shared reference terminal Terminal.tla (xterm / VT100 semantics, DESIGN.md App. E).   *)
(*                                                                                            *)
(* Part (a) faithfulness.  A command is a record [t, a, b, ps] (kind, two integer            *)
(* parameters, SGR parameter list).  Ref(t, c) is what the reference VT100 does.             *)
(* Cands(t, c, strict) is the sequence of terminal states the trace specification accepts    *)
(* after c: always Ref first; when not strict also the "console dialect" results, the points *)
(* where the Linux console (TERM=linux is what urwid.vterm.Terminal announces to the hosted  *)
(* program) differs from xterm: CUU/CUD do not stop at the margins, IL/DL keep the cursor    *)
(* column and act from the cursor row down to the bottom margin even above the top margin,   *)
(* DECSTBM with a bottom beyond the screen is ignored.  A difference that only the strict    *)
(* run rejects is reported as DIVERGENCE, never as a violation.                               *)
(* An observation is what the driver reads off the real emulator after a command:            *)
(* g = rows of cells <<code point, fg, bg, flag mask>>, cur = <<x, y>>, sb = scrollback rows, *)
(* pen = <<fg, bg, mask>> of the cell the emulator would paint next (empty_char()),          *)
(* reg = <<top, bottom>> of the scrolling region.                                            *)
(*                                                                                            *)
(* Part (b) robustness: predicates over what is recorded per feed of arbitrary bytes.         *)
EXTENDS Terminal

N1(n) == IF n < 1 THEN 1 ELSE n

Cmd(tt, a, b, ps) == [t |-> tt, a |-> a, b |-> b, ps |-> ps]

(* ---------------- reference ---------------- *)
Ref(t, c) ==
  CASE c.t = "put"  -> Put(t, c.a, 1)
    [] c.t = "cr"   -> CR(t)
    [] c.t = "lf"   -> Index(t)
    [] c.t = "ri"   -> RevIndex(t)
    [] c.t = "bs"   -> BS(t)
    [] c.t = "cup"  -> CUP(t, c.a, c.b)          \* a = column, b = row (0-based, may lie outside: clamped)
    [] c.t = "cuu"  -> CUU(t, N1(c.a))
    [] c.t = "cud"  -> CUD(t, N1(c.a))
    [] c.t = "cuf"  -> CUF(t, N1(c.a))
    [] c.t = "cub"  -> CUB(t, N1(c.a))
    [] c.t = "el"   -> EL(t, c.a)
    [] c.t = "ed"   -> ED(t, c.a)
    [] c.t = "ich"  -> ICH(t, c.a)
    [] c.t = "dch"  -> DCH(t, c.a)
    [] c.t = "il"   -> IL(t, c.a)
    [] c.t = "dl"   -> DL(t, c.a)
    [] c.t = "stbm" -> DECSTBM(t, c.a, c.b)      \* 1-based, 0 = default
    [] c.t = "sgr"  -> SGR(t, c.ps)
    [] OTHER        -> t

Listed == {"put", "cr", "lf", "ri", "bs", "cup", "cuu", "cud", "cuf", "cub", "el", "ed", "ich", "dch", "il", "dl", "stbm", "sgr"}

(* ---------------- console dialect (tolerated, DIVERGENCE only) ---------------- *)
ConsoleIL(t, n0) ==
  IF t.cy > t.bot THEN [t EXCEPT !.pend = FALSE] ELSE
  LET n == Min2(N1(n0), t.bot - t.cy + 1)  g == t.grid
  IN [t EXCEPT !.grid = [y \in 1..t.h |-> IF y - 1 < t.cy \/ y - 1 > t.bot THEN g[y]
                                          ELSE IF y - 1 < t.cy + n THEN BlankRow(t.w, t.pen.bg) ELSE g[y - n]],
               !.pend = FALSE]
ConsoleDL(t, n0) ==
  IF t.cy > t.bot THEN [t EXCEPT !.pend = FALSE] ELSE
  LET n == Min2(N1(n0), t.bot - t.cy + 1)  g == t.grid
  IN [t EXCEPT !.grid = [y \in 1..t.h |-> IF y - 1 < t.cy \/ y - 1 > t.bot THEN g[y]
                                          ELSE IF y - 1 + n <= t.bot THEN g[y + n] ELSE BlankRow(t.w, t.pen.bg)],
               !.pend = FALSE]
Dialect(t, c) ==
  CASE c.t = "cuu"  -> <<[t EXCEPT !.cy = Max2(t.cy - N1(c.a), 0), !.pend = FALSE]>>
    [] c.t = "cud"  -> <<[t EXCEPT !.cy = Min2(t.cy + N1(c.a), t.h - 1), !.pend = FALSE]>>
    [] c.t = "il"   -> <<ConsoleIL(t, c.a)>>
    [] c.t = "dl"   -> <<ConsoleDL(t, c.a)>>
    [] c.t = "stbm" -> IF c.b > t.h THEN <<t>> ELSE <<>>
    [] OTHER        -> <<>>
Cands(t, c, strict) == IF strict THEN <<Ref(t, c)>> ELSE <<Ref(t, c)>> \o Dialect(t, c)

(* ---------------- as-coded transcriptions of three known defects (findings/C15.json) ---------------- *)
(* Never part of a verdict: when an observation is rejected, the trace specification appends ".as_coded" to the   *)
(* reason if it is exactly what the defective code computes, so that the finding's signature matches this defect  *)
(* and nothing else (a different wrong insert-lines is still a violation).                                        *)
ED1Exclusive(tt) == IF tt.cx = 0 THEN ED(tt, 1) ELSE [ED([tt EXCEPT !.cx = tt.cx - 1], 1) EXCEPT !.cx = tt.cx]
RECURSIVE AsCodedILRows(_, _, _, _, _)
AsCodedILRows(g, cy, bot, blank, n) ==       \* insert at the cursor row first, then pop index `bot`
  IF n = 0 THEN g ELSE
  LET h == Len(g)
      ins == SubSeq(g, 1, cy) \o <<blank>> \o SubSeq(g, cy + 1, h)
      del == SubSeq(ins, 1, bot) \o SubSeq(ins, bot + 2, h + 1)
  IN AsCodedILRows(del, cy, bot, blank, n - 1)
AsCodedIL(t, n0) == [t EXCEPT !.grid = AsCodedILRows(t.grid, t.cy, t.bot, BlankRow(t.w, t.pen.bg), Min2(N1(n0), 2 * t.h))]
AsCoded(t, c, rot) ==
  CASE c.t = "il" -> <<AsCodedIL(t, c.a)>>
    [] c.t = "ed" /\ c.a = 1 -> <<ED1Exclusive(t)>>
    [] c.t = "put" -> <<Put([t EXCEPT !.pend = (rot /\ t.cx = t.w - 1)], c.a, 1)>>   \* the emulator's own pending flag decides
    [] OTHER -> <<>>

(* ---------------- observations and comparison ---------------- *)
FlMask(s) == (IF 1 \in s THEN 1 ELSE 0) + (IF 3 \in s THEN 2 ELSE 0) + (IF 4 \in s THEN 4 ELSE 0)
           + (IF 5 \in s THEN 8 ELSE 0) + (IF 7 \in s THEN 16 ELSE 0) + (IF 9 \in s THEN 32 ELSE 0)
Bit(m, b) == (m \div b) % 2 = 1
UnMask(m) == {f \in FlagCodes : Bit(m, CASE f = 1 -> 1 [] f = 3 -> 2 [] f = 4 -> 4 [] f = 5 -> 8 [] f = 7 -> 16 [] OTHER -> 32)}

\* colours by meaning: palette entries 0..15 are the sixteen basic colours; a bold basic colour 0..7 is shown
\* bright (the emulator stores "bold + red" as "light red, bold"), as in C04's bright-is-bold normalisation
Pal(col) == IF col >= 1000 /\ col < 1016 THEN col - 1000 ELSE col
NormFg(fg, bold) == LET p == Pal(fg) IN IF bold /\ p >= 0 /\ p <= 7 THEN p + 8 ELSE p

TextEq(m, o) == m.c = o[1] /\ m.p = 0
ColourEq(m, o) == /\ Pal(m.bg) = Pal(o[3])
                  /\ (m.c # 32 => NormFg(m.fg, 1 \in m.fl) = NormFg(o[2], Bit(o[4], 1)))
FlagsEq(m, o) == IF m.c = 32 THEN (m.fl \cap {4, 7, 9}) = (UnMask(o[4]) \cap {4, 7, 9}) ELSE m.fl = UnMask(o[4])
CellEq(m, o, strict) == TextEq(m, o) /\ ColourEq(m, o) /\ (strict => FlagsEq(m, o))

RowEq(mr, orow, strict) == Len(mr) = Len(orow) /\ \A x \in 1..Len(mr) : CellEq(mr[x], orow[x], strict)
ShapeOK(g, w, h) == Len(g) = h /\ \A y \in 1..Len(g) : Len(g[y]) = w
GridTextEq(t, g) == \A y \in 1..t.h : \A x \in 1..t.w : TextEq(t.grid[y][x], g[y][x])
GridEq(t, g, strict) == \A y \in 1..t.h : RowEq(t.grid[y], g[y], strict)
CursorEq(t, cur) == t.cx = cur[1] /\ t.cy = cur[2]
PenEq(t, pen, strict) == /\ Pal(t.pen.bg) = Pal(pen[2])
                         /\ NormFg(t.pen.fg, 1 \in t.pen.fl) = NormFg(pen[1], Bit(pen[3], 1))
                         /\ (strict => t.pen.fl = UnMask(pen[3]))

\* the scrolling region is only visible through later scrolling; comparing it at once also tells the xterm and the
\* console reading of DECSTBM apart when the screen does not
RegionEq(t, reg) == t.top = reg[1] /\ t.bot = reg[2]

\* "kept, in order": every line the reference scrolled off the top is in the emulator's scrollback, in the same
\* order (the emulator may keep more: it also stores lines leaving a region that does not start at the top)
RECURSIVE SubseqFrom(_, _, _, _, _)
SubseqFrom(ms, os, i, j, strict) ==
  IF i > Len(ms) THEN TRUE ELSE IF j > Len(os) THEN FALSE
  ELSE IF RowEq(ms[i], os[j], strict) THEN SubseqFrom(ms, os, i + 1, j + 1, strict)
  ELSE SubseqFrom(ms, os, i, j + 1, strict)
SbEq(t, sb, strict) ==
  IF strict THEN Len(t.sb) = Len(sb) /\ \A i \in 1..Len(sb) : RowEq(t.sb[i], sb[i], TRUE)
  ELSE SubseqFrom(t.sb, sb, 1, 1, FALSE)

Matches(t, o, strict) ==
  /\ ShapeOK(o.g, t.w, t.h) /\ GridEq(t, o.g, strict) /\ CursorEq(t, o.cur)
  /\ SbEq(t, o.sb, strict) /\ PenEq(t, o.pen, strict) /\ RegionEq(t, o.reg)

\* first clause (sentence of the property) on which observation o differs from reference state t
Why(t, o, strict) ==
  IF ~ShapeOK(o.g, t.w, t.h) THEN "grid_is_height_by_width"
  ELSE IF ~GridTextEq(t, o.g) THEN "screen_equals_reference.text"
  ELSE IF ~GridEq(t, o.g, strict) THEN "screen_equals_reference.colour"
  ELSE IF ~CursorEq(t, o.cur) THEN "cursor_equals_reference"
  ELSE IF ~SbEq(t, o.sb, strict) THEN "scrollback_keeps_lines_in_order"
  ELSE IF ~PenEq(t, o.pen, strict) THEN "screen_equals_reference.pen"
  ELSE IF ~RegionEq(t, o.reg) THEN "screen_equals_reference.region"
  ELSE "-"

\* the observation a faithful emulator in state t would give
ObsCell(m) == <<m.c, m.fg, m.bg, FlMask(m.fl)>>
ObsRow(r) == [x \in 1..Len(r) |-> ObsCell(r[x])]
ObsOf(t) == [g |-> [y \in 1..t.h |-> ObsRow(t.grid[y])], cur |-> <<t.cx, t.cy>>,
             sb |-> [i \in 1..Len(t.sb) |-> ObsRow(t.sb[i])], pen |-> <<t.pen.fg, t.pen.bg, FlMask(t.pen.fl)>>,
             reg |-> <<t.top, t.bot>>]

\* after a resize (not part of the listed subset: a VT100 has no resize) the reference adopts what the emulator shows
CellOf(o) == [c |-> o[1], fg |-> o[2], bg |-> o[3], fl |-> UnMask(o[4]), p |-> 0]
RowOf(orow) == [x \in 1..Len(orow) |-> CellOf(orow[x])]
Adopt(t, o, w, h, pend) ==
  [t EXCEPT !.w = w, !.h = h, !.grid = [y \in 1..h |-> RowOf(o.g[y])],
            !.cx = o.cur[1], !.cy = o.cur[2], !.pend = (pend /\ o.cur[1] = w - 1),
            !.top = 0, !.bot = h - 1, !.sb = [i \in 1..Len(o.sb) |-> RowOf(o.sb[i])]]

\* the view scrolled back by k lines shows the last h rows of (scrollback ++ screen) that end k lines above the bottom
ViewOf(sb, g, k0) ==
  LET all == sb \o g  k == Min2(k0, Len(sb))  n == Len(all)  h == Len(g)
  IN SubSeq(all, n - h - k + 1, n - k)

(* ---------------- shape invariants (both parts) ---------------- *)
CursorInside(cur, w, h) == Len(cur) = 2 /\ cur[1] >= 0 /\ cur[1] < w /\ cur[2] >= 0 /\ cur[2] < h
RegionInside(reg, h) == reg[1] >= 0 /\ reg[1] <= reg[2] /\ reg[2] < h
LensOK(lens, w, h) == Len(lens) = h /\ \A y \in 1..Len(lens) : lens[y] = w

(* ---------------- replies to the hosted program ---------------- *)
RECURSIVE Digits(_)
Digits(n) == IF n < 10 THEN <<48 + n>> ELSE Digits(n \div 10) \o <<48 + (n % 10)>>
DSROK == <<27, 91, 48, 110>>                    \* ESC [ 0 n
DA    == <<27, 91, 63, 54, 99>>                 \* ESC [ ? 6 c   (VT102)
CPR(x, y) == <<27, 91>> \o Digits(y + 1) \o <<59>> \o Digits(x + 1) \o <<82>>   \* ESC [ row ; col R
ReplyOK(r, w, h) == \/ r.s = DSROK
                    \/ r.s = DA
                    \/ (r.x >= 0 /\ r.x < w /\ r.y >= 0 /\ r.y < h /\ r.s = CPR(r.x, r.y))

WellFormedShape(t) ==
  /\ DOMAIN t.grid = 1..t.h /\ \A y \in 1..t.h : DOMAIN t.grid[y] = 1..t.w
  /\ CursorInside(<<t.cx, t.cy>>, t.w, t.h) /\ RegionInside(<<t.top, t.bot>>, t.h)
=============================================================================
