------------------------------ MODULE VTermOps ------------------------------
(* C15 - contract of the embedded terminal emulator (urwid.vterm.TermCanvas), written over  *)
(* the shared reference terminal Terminal.tla (xterm / VT100 semantics, DESIGN.md App. E).   *)
(*                                                                                            *)
(* Part (a) faithfulness.  A command is a record [t, a, b, ps] (kind, two integer            *)
(* parameters, SGR parameter list / code points of a text run).  Ref(t, c) is what the       *)
(* reference VT100 does.  Besides the subset the property lists (Listed) the contract covers  *)
(* what a VT100 documents next to it (Ext): text runs, IND / NEL, CHA / VPA / CNL / CPL, ECH, *)
(* tab stops (HT / HTS / TBC), origin / insert / autowrap / new-line mode, save and restore   *)
(* cursor (ESC 7 / ESC 8, CSI s / CSI u), charsets (SO / SI / SCS), the main character set   *)
(* (ESC % G: the bytes that follow are UTF-8, ESC % @: single 8-bit characters; "mcs") with    *)
(* runs of raw bytes at or above 0x80 decoded by the reference itself ("raw"), and the queries *)
(* DSR, CPR and DA (Query, Replies).                                                           *)
(* "any chunking of the stream across feeds": the reference is a function of the stream alone, *)
(* so whatever the stream is cut into, the terminal must show Ref folded over its commands;    *)
(* the trace specification judges every re-feeding of a stream under another chunking against  *)
(* the same reference state (VTermTrace: RefeedStep, RechunkVerdict).                          *)
(* Cands(t, c, strict) is the sequence of terminal states the trace specification accepts    *)
(* after c: always Ref first; when not strict also the "console dialect" results, the points *)
(* where the Linux console (TERM=linux is what urwid.vterm.Terminal announces to the hosted  *)
(* program) differs from xterm: CUU/CUD/CNL/CPL do not stop at the margins, IL/DL keep the   *)
(* cursor column and act from the cursor row down to the bottom margin even above the top    *)
(* margin, DECSTBM with a bottom beyond the screen is ignored, HT clears the last-column     *)
(* flag, ESC 8 with nothing saved does nothing, CPR in origin mode reports the screen row.   *)
(* A difference that only the strict run rejects is reported as DIVERGENCE, never as a        *)
(* violation.                                                                                 *)
(* An observation is what the driver reads off the real emulator after a command:            *)
(* g = rows of cells <<code point, fg, bg, flag mask>>, cur = <<x, y>>, sb = scrollback rows, *)
(* pen = <<fg, bg, mask>> of the cell the emulator would paint next (empty_char()),          *)
(* reg = <<top, bottom>> of the scrolling region, tabs = tab stops inside the screen,        *)
(* md = <<origin, insert, autowrap, new-line>> modes as 0 / 1, reps = replies sent,          *)
(* cs = 1 when the character set in use (G0 / G1 as shifted) is the graphics set, else 0.     *)
(*                                                                                            *)
(* Part (b) robustness: predicates over what is recorded per feed of arbitrary bytes.         *)
EXTENDS Terminal

N1(n) == IF n < 1 THEN 1 ELSE n

Cmd(tt, a, b, ps) == [t |-> tt, a |-> a, b |-> b, ps |-> ps]

(* ---------------- extended terminal state ---------------- *)
(* The reference terminal record of Terminal.tla carries autowrap (wrap), insert mode (irm), the charsets         *)
(* (g0, g1, shift) and a set of DEC private modes (6 = origin mode).  The emulator contract needs three more      *)
(* pieces of state: the tab stops, the saved cursor (position and rendition/charsets separately: CSI s saves the  *)
(* position only, ESC 7 both) and new-line mode.  All Terminal operators are written with EXCEPT, so they carry   *)
(* the extra fields along.                                                                                        *)
DefaultTabs(w) == {x \in 0..(w - 1) : x % 8 = 0}
NoSave == [pos |-> <<>>, at |-> <<>>]
NewVT(w, h) ==
  LET b == NewTerm(w, h) IN
  [w |-> b.w, h |-> b.h, grid |-> b.grid, cx |-> b.cx, cy |-> b.cy, pend |-> b.pend, pen |-> b.pen,
   irm |-> b.irm, wrap |-> b.wrap, g0 |-> b.g0, g1 |-> b.g1, shift |-> b.shift, curs |-> b.curs, modes |-> b.modes,
   top |-> b.top, bot |-> b.bot, scrolled |-> b.scrolled, sb |-> b.sb,
   tabs |-> DefaultTabs(w), sc |-> NoSave, lnm |-> FALSE, mcs |-> FALSE, u8lock |-> TRUE]
\* mcs: the main character set selected by the program is UTF-8 (ESC % G) / the default 8-bit set (ESC % @, the initial state);
\* u8lock: the terminal is configured for UTF-8 (urwid's encoding is "utf8"): input is UTF-8 whatever the program selects
NewVTL(w, h, lock) == [NewVT(w, h) EXCEPT !.u8lock = lock]
OM(t) == 6 \in t.modes                       \* origin mode (DECOM)
ClampX(t, x) == Min2(Max2(x, 0), t.w - 1)
ClampRow(t, y) == IF OM(t) THEN Min2(Max2(y, t.top), t.bot) ELSE Min2(Max2(y, 0), t.h - 1)

(* ---------------- reference ---------------- *)
\* one glyph of width 1.  Autowrap off (DECAWM reset): the glyph is placed under the cursor, the cursor stops at the
\* right margin and the last-column flag is never set
PutX(t, c) ==
  IF t.wrap THEN Put(t, c, 1)
  ELSE [t EXCEPT !.grid[t.cy + 1] = PlaceRow(t, t.grid[t.cy + 1], GlyphCells(t, c, 1)),
                 !.cx = Min2(t.cx + 1, t.w - 1), !.pend = FALSE]
\* a run of glyphs.  (TLC builds [x \in S |-> e] lazily and re-evaluates e at every application: without TLCEval the
\* rows of a long run would be a chain of unevaluated functions, exponential in the length of the run.)
Evaluated(t) == [t EXCEPT !.grid = TLCEval([y \in 1..t.h |-> TLCEval(t.grid[y])])]
RECURSIVE PutAll(_, _, _)
PutAll(t, ps, i) == IF i > Len(ps) THEN t ELSE PutAll(Evaluated(PutX(t, ps[i])), ps, i + 1)

\* cursor addressing; in origin mode rows count from the top margin and the cursor cannot leave the region
CUPo(t, x, y) == [t EXCEPT !.cx = ClampX(t, x), !.cy = ClampRow(t, (IF OM(t) THEN t.top ELSE 0) + Max2(y, 0)), !.pend = FALSE]
CHA(t, n) == [t EXCEPT !.cx = ClampX(t, N1(n) - 1), !.pend = FALSE]
VPA(t, n) == CUPo(t, t.cx, N1(n) - 1)
CNL(t, n) == CR(CUD(t, N1(n)))
CPL(t, n) == CR(CUU(t, N1(n)))
DECSTBMo(t, a, b) ==       \* in origin mode the home position is the top margin
  LET r == DECSTBM(t, a, b)
      top == (IF a = 0 THEN 1 ELSE a) - 1
      bot == (IF b = 0 \/ b > t.h THEN t.h ELSE b) - 1
  IN IF OM(t) /\ top < bot THEN [r EXCEPT !.cy = r.top] ELSE r
DECOM(t, on) == LET r == DecSet(t, 6, on) IN [r EXCEPT !.cx = 0, !.cy = IF on THEN r.top ELSE 0, !.pend = FALSE]

\* tab stops
NextStop(t) == LET s == {x \in t.tabs : x > t.cx /\ x < t.w} IN IF s = {} THEN t.w - 1 ELSE CHOOSE x \in s : \A y \in s : x <= y
HT(t) == [t EXCEPT !.cx = NextStop(t)]                \* moves only: nothing is erased; the last-column flag is left alone
HTS(t) == [t EXCEPT !.tabs = @ \cup {t.cx}]
TBC(t, n) == IF n = 0 THEN [t EXCEPT !.tabs = @ \ {t.cx}] ELSE IF n = 3 THEN [t EXCEPT !.tabs = {}] ELSE t

\* main character set.  ESC % G: what follows is UTF-8 (RFC 3629), one glyph per well-formed sequence; ESC % @: what follows
\* is single 8-bit characters, one glyph per byte.  The switch takes effect at its position in the stream.
Utf8On(t) == t.u8lock \/ t.mcs
MCS(t, on) == [t EXCEPT !.mcs = on]
Utf8Encode(cp) ==
  IF cp < 128 THEN <<cp>>
  ELSE IF cp < 2048 THEN <<192 + (cp \div 64), 128 + (cp % 64)>>
  ELSE IF cp < 65536 THEN <<224 + (cp \div 4096), 128 + ((cp \div 64) % 64), 128 + (cp % 64)>>
  ELSE <<240 + (cp \div 262144), 128 + ((cp \div 4096) % 64), 128 + ((cp \div 64) % 64), 128 + (cp % 64)>>
RECURSIVE Utf8EncodeAll(_)
Utf8EncodeAll(cps) == IF cps = <<>> THEN <<>> ELSE Utf8Encode(Head(cps)) \o Utf8EncodeAll(Tail(cps))
IsCont(b) == b >= 128 /\ b < 192
SeqLen(b) == IF b < 128 THEN 1 ELSE IF b >= 194 /\ b < 224 THEN 2 ELSE IF b >= 224 /\ b < 240 THEN 3
             ELSE IF b >= 240 /\ b < 245 THEN 4 ELSE 0                    \* 0: not the first byte of a sequence
Replacement == 65533     \* what xterm shows for a byte that is part of no well-formed sequence (never generated in part (a))
RECURSIVE Utf8DecodeFrom(_, _)
Utf8DecodeFrom(bs, i) ==
  IF i > Len(bs) THEN <<>> ELSE
  LET n == SeqLen(bs[i]) IN
  IF n = 0 \/ i + n - 1 > Len(bs) \/ (\E j \in 1..(n - 1) : ~IsCont(bs[i + j]))
  THEN <<Replacement>> \o Utf8DecodeFrom(bs, i + 1)
  ELSE LET cp == CASE n = 1 -> bs[i]
                   [] n = 2 -> (bs[i] - 192) * 64 + (bs[i + 1] - 128)
                   [] n = 3 -> (bs[i] - 224) * 4096 + (bs[i + 1] - 128) * 64 + (bs[i + 2] - 128)
                   [] OTHER -> (bs[i] - 240) * 262144 + (bs[i + 1] - 128) * 4096 + (bs[i + 2] - 128) * 64 + (bs[i + 3] - 128)
       IN <<cp>> \o Utf8DecodeFrom(bs, i + n)
\* the glyphs a run of bytes (none of them a control character) stands for
DecodeBytes(utf8, bs) == IF utf8 THEN Utf8DecodeFrom(bs, 1) ELSE bs
WellFormedFor(utf8, bs) == /\ \A i \in 1..Len(bs) : bs[i] >= 32 /\ bs[i] # 127 /\ (utf8 \/ bs[i] < 128 \/ bs[i] >= 160)
                           /\ LET d == DecodeBytes(utf8, bs) IN \A j \in 1..Len(d) : d[j] # Replacement

\* Malformed UTF-8 ("mal": a run of bytes at or above 0x80 that is not well-formed on its own - a sequence that is cut short by
\* whatever follows it in the stream, a continuation byte that continues nothing).  The reference (xterm) shows U+FFFD per byte
\* that is part of no well-formed sequence (DecodeBytes).  The lenient reading the contract also accepts (console dialect, Cands):
\* the bytes of a sequence that is never completed show nothing, a continuation byte that continues nothing is shown as the 8-bit
\* character it is.  Under neither reading is a character ever assembled from bytes that other bytes (ASCII, a control, an escape
\* sequence: they are commands of their own here) separate: every command is decoded on its own.
LeadLen(b) == IF b >= 192 /\ b < 224 THEN 2 ELSE IF b >= 224 /\ b < 240 THEN 3 ELSE IF b >= 240 /\ b < 248 THEN 4 ELSE 2
RECURSIVE ContRun(_, _, _)
ContRun(bs, i, max) == IF max = 0 \/ i > Len(bs) \/ ~IsCont(bs[i]) THEN 0 ELSE 1 + ContRun(bs, i + 1, max - 1)
RECURSIVE LenientFrom(_, _)
LenientFrom(bs, i) ==
  IF i > Len(bs) THEN <<>> ELSE
  LET b == bs[i] IN
  IF b < 192 THEN <<b>> \o LenientFrom(bs, i + 1)
  ELSE LET n == LeadLen(b)
           m == ContRun(bs, i + 1, n - 1)
           d == Utf8DecodeFrom(SubSeq(bs, i, i + m), 1)
       IN (IF m = n - 1 /\ Len(d) = 1 /\ d[1] # Replacement THEN d ELSE <<>>) \o LenientFrom(bs, i + m + 1)
LenientBytes(utf8, bs) == IF utf8 THEN LenientFrom(bs, 1) ELSE bs

\* save / restore cursor: ESC 7 / ESC 8 (position, rendition, charsets), CSI s / CSI u (position)
SavedAt(t) == <<[pen |-> t.pen, g0 |-> t.g0, g1 |-> t.g1, shift |-> t.shift]>>
DECSC(t) == [t EXCEPT !.sc = [pos |-> <<t.cx, t.cy>>, at |-> SavedAt(t)]]
SCOSC(t) == [t EXCEPT !.sc.pos = <<t.cx, t.cy>>]
RestorePos(t) == [t EXCEPT !.cx = ClampX(t, t.sc.pos[1]), !.cy = ClampRow(t, t.sc.pos[2]), !.pend = FALSE]
RestoreAt(t) == LET a == t.sc.at[1] IN [t EXCEPT !.pen = a.pen, !.g0 = a.g0, !.g1 = a.g1, !.shift = a.shift]
DECRC(t) ==
  IF t.sc.pos = <<>> THEN [t EXCEPT !.cx = 0, !.cy = IF OM(t) THEN t.top ELSE 0, !.pend = FALSE, !.pen = DefaultPen]   \* nothing saved: home
  ELSE IF t.sc.at = <<>> THEN RestorePos(t) ELSE RestoreAt(RestorePos(t))
SCORC(t) == IF t.sc.pos = <<>> THEN t ELSE RestorePos(t)

Ref(t, c) ==
  CASE c.t = "put"  -> PutX(t, c.a)
    [] c.t = "txt"  -> PutAll(t, c.ps, 1)          \* a run of printable characters
    [] c.t = "cr"   -> CR(t)
    [] c.t = "lf"   -> IF t.lnm THEN CR(Index(t)) ELSE Index(t)      \* LF / VT / FF
    [] c.t = "ind"  -> Index(t)
    [] c.t = "nel"  -> CR(Index(t))
    [] c.t = "ri"   -> RevIndex(t)
    [] c.t = "bs"   -> BS(t)
    [] c.t = "cup"  -> CUPo(t, c.a, c.b)         \* a = column, b = row (0-based, may lie outside: clamped)
    [] c.t = "cha"  -> CHA(t, c.a)               \* 1-based, 0 = default
    [] c.t = "vpa"  -> VPA(t, c.a)
    [] c.t = "cuu"  -> CUU(t, N1(c.a))
    [] c.t = "cud"  -> CUD(t, N1(c.a))
    [] c.t = "cuf"  -> CUF(t, N1(c.a))
    [] c.t = "cub"  -> CUB(t, N1(c.a))
    [] c.t = "cnl"  -> CNL(t, c.a)
    [] c.t = "cpl"  -> CPL(t, c.a)
    [] c.t = "el"   -> EL(t, c.a)
    [] c.t = "ed"   -> ED(t, c.a)
    [] c.t = "ech"  -> ECH(t, c.a)
    [] c.t = "ich"  -> ICH(t, c.a)
    [] c.t = "dch"  -> DCH(t, c.a)
    [] c.t = "il"   -> IL(t, c.a)
    [] c.t = "dl"   -> DL(t, c.a)
    [] c.t = "stbm" -> DECSTBMo(t, c.a, c.b)     \* 1-based, 0 = default
    [] c.t = "sgr"  -> SGR(t, c.ps)
    [] c.t = "ht"   -> HT(t)
    [] c.t = "hts"  -> HTS(t)
    [] c.t = "tbc"  -> TBC(t, c.a)
    [] c.t = "decom"  -> DECOM(t, c.a = 1)
    [] c.t = "irm"    -> SetIRM(t, c.a = 1)
    [] c.t = "decawm" -> DecSet(t, 7, c.a = 1)
    [] c.t = "lnm"    -> [t EXCEPT !.lnm = (c.a = 1)]
    [] c.t = "decsc"  -> DECSC(t)
    [] c.t = "decrc"  -> DECRC(t)
    [] c.t = "scosc"  -> SCOSC(t)
    [] c.t = "scorc"  -> SCORC(t)
    [] c.t = "so"   -> ShiftOut(t)
    [] c.t = "si"   -> ShiftIn(t)
    [] c.t = "scs"  -> Designate(t, c.a, IF c.b = 48 THEN "0" ELSE "B")     \* a = 0 / 1 (G0 / G1), b = final byte
    [] c.t = "mcs"  -> MCS(t, c.a = 1)            \* a = 1: ESC % G, a = 0: ESC % @
    [] c.t = "raw"  -> PutAll(t, DecodeBytes(Utf8On(t), c.ps), 1)     \* ps = the bytes as they are on the wire
    [] c.t = "mal"  -> PutAll(t, DecodeBytes(Utf8On(t), c.ps), 1)     \* the same, ps not well-formed: U+FFFD per stray byte
    [] OTHER        -> t                          \* queries (cpr, dsr, da) change nothing

\* the subset the property lists (Listed) and what a VT100 documents next to it: text runs, IND / NEL, CHA / VPA / CNL / CPL,
\* ECH, tab stops, origin / insert / autowrap / new-line mode, save and restore cursor, charsets (Ext); queries (Query)
Listed == {"put", "cr", "lf", "ri", "bs", "cup", "cuu", "cud", "cuf", "cub", "el", "ed", "ich", "dch", "il", "dl", "stbm", "sgr"}
Ext    == {"txt", "ind", "nel", "cha", "vpa", "cnl", "cpl", "ech", "ht", "hts", "tbc", "decom", "irm", "decawm", "lnm",
           "decsc", "decrc", "scosc", "scorc", "so", "si", "scs", "mcs", "raw", "mal"}
Query  == {"cpr", "dsr", "da"}

(* ---------------- console dialect (tolerated, DIVERGENCE only) ---------------- *)
ConsoleIL(t, n0) ==
  IF t.cy > t.bot THEN [t EXCEPT !.pend = FALSE] ELSE
  LET n == Min2(N1(n0), t.bot - t.cy + 1)  g == t.grid
  IN [t EXCEPT !.grid = [y \in 1..t.h |-> IF y - 1 < t.cy \/ y - 1 > t.bot THEN g[y]
                                          ELSE IF y - 1 < t.cy + n THEN BlankRow(t.w, t.pen.bg) ELSE g[y - n]],
               !.pend = FALSE]
ConsoleDL(t, n0) ==
  IF t.cy > t.bot THEN [t EXCEPT !.pend = FALSE] ELSE
  LET n == Min2(N1(n0), t.bot - t.cy + 1)  g == t.grid
  IN [t EXCEPT !.grid = [y \in 1..t.h |-> IF y - 1 < t.cy \/ y - 1 > t.bot THEN g[y]
                                          ELSE IF y - 1 + n <= t.bot THEN g[y + n] ELSE BlankRow(t.w, t.pen.bg)],
               !.pend = FALSE]
Dialect(t, c) ==
  CASE c.t = "cuu"  -> <<[t EXCEPT !.cy = Max2(t.cy - N1(c.a), IF OM(t) THEN t.top ELSE 0), !.pend = FALSE]>>
    [] c.t = "cud"  -> <<[t EXCEPT !.cy = Min2(t.cy + N1(c.a), IF OM(t) THEN t.bot ELSE t.h - 1), !.pend = FALSE]>>
    [] c.t = "cpl"  -> <<[t EXCEPT !.cx = 0, !.cy = Max2(t.cy - N1(c.a), IF OM(t) THEN t.top ELSE 0), !.pend = FALSE]>>
    [] c.t = "cnl"  -> <<[t EXCEPT !.cx = 0, !.cy = Min2(t.cy + N1(c.a), IF OM(t) THEN t.bot ELSE t.h - 1), !.pend = FALSE]>>
    [] c.t = "il"   -> <<ConsoleIL(t, c.a)>>
    [] c.t = "dl"   -> <<ConsoleDL(t, c.a)>>
    [] c.t = "stbm" -> IF c.b > t.h THEN <<t>> ELSE <<>>
    [] c.t = "ht"   -> <<[HT(t) EXCEPT !.pend = FALSE]>>            \* a tab clears the last-column flag
    [] c.t = "decrc" -> IF t.sc.pos = <<>> THEN <<t>> ELSE <<>>     \* nothing saved: nothing restored
    [] c.t = "scs"  -> IF t.mcs THEN <<t>> ELSE <<>>                \* G0 / G1 are not designated while UTF-8 is selected
    [] c.t = "mal"  -> IF Utf8On(t) THEN <<PutAll(t, LenientBytes(TRUE, c.ps), 1)>> ELSE <<>>   \* the lenient reading of malformed UTF-8
    [] OTHER        -> <<>>
Cands(t, c, strict) == IF strict THEN <<Ref(t, c)>> ELSE <<Ref(t, c)>> \o Dialect(t, c)

(* ---------------- as-coded transcriptions of known defects (findings/C15.json, fixed and open) ---------------- *)
(* Never part of a verdict: when an observation is rejected, the trace specification appends ".as_coded" to the   *)
(* reason if it is exactly what the defective code computes, so that the finding's signature matches this defect  *)
(* and nothing else (a different wrong insert-lines is still a violation).                                        *)
ED1Exclusive(tt) == IF tt.cx = 0 THEN ED(tt, 1) ELSE [ED([tt EXCEPT !.cx = tt.cx - 1], 1) EXCEPT !.cx = tt.cx]
RECURSIVE AsCodedILRows(_, _, _, _, _)
AsCodedILRows(g, cy, bot, blank, n) ==       \* insert at the cursor row first, then pop index `bot`
  IF n = 0 THEN g ELSE
  LET h == Len(g)
      ins == SubSeq(g, 1, cy) \o <<blank>> \o SubSeq(g, cy + 1, h)
      del == SubSeq(ins, 1, bot) \o SubSeq(ins, bot + 2, h + 1)
  IN AsCodedILRows(del, cy, bot, blank, n - 1)
AsCodedIL(t, n0) == [t EXCEPT !.grid = AsCodedILRows(t.grid, t.cy, t.bot, BlankRow(t.w, t.pen.bg), Min2(N1(n0), 2 * t.h))]
\* ED in origin mode: both ends of the erased area are clamped into the scrolling region
EDInRegion(t, n) == CASE n = 0 -> EraseRows(EL(t, 0), t.cy + 1, t.bot)
                      [] n = 1 -> EraseRows(EL(t, 1), t.top, t.cy - 1)
                      [] OTHER -> ED(t, n)
\* HT that blanks the cell it starts from
HTBlanking(t) ==
  IF t.cx >= t.w - 1 THEN [t EXCEPT !.pend = FALSE]
  ELSE [t EXCEPT !.grid[t.cy + 1][t.cx + 1] = [c |-> 32, fg |-> t.pen.fg, bg |-> t.pen.bg, fl |-> t.pen.fl, p |-> 0],
                 !.cx = NextStop(t), !.pend = FALSE]
AsCoded(t, c, rot) ==
  LET stale == [t EXCEPT !.pend = (rot /\ t.cx = t.w - 1)] IN      \* the emulator's own pending flag decides
  CASE c.t = "il" -> <<AsCodedIL(t, c.a)>>
    [] c.t = "ed" /\ OM(t) -> <<EDInRegion(t, c.a)>>
    [] c.t = "ed" /\ c.a = 1 -> <<ED1Exclusive(t)>>
    [] c.t = "put" -> <<PutX(stale, c.a)>>
    [] c.t = "txt" -> <<PutAll(stale, c.ps, 1)>>
    [] c.t = "raw" -> <<PutAll(stale, DecodeBytes(Utf8On(t), c.ps), 1)>>
    [] c.t = "ht" -> <<HTBlanking(t)>>
    [] OTHER -> <<>>

\* deliberately wrong (refuted by TLC in VTerm.tla; the defect class "the decoder in force is looked up once per feed"): a switch of
\* the main character set followed in the same feed by a run of bytes, decoded with the character set in force before the switch
FrozenDecoderFeed(t, on, bs) == PutAll(MCS(t, on), DecodeBytes(Utf8On(t), bs), 1)
ProperFeed(t, on, bs) == PutAll(MCS(t, on), DecodeBytes(Utf8On(MCS(t, on)), bs), 1)

(* ---------------- observations and comparison ---------------- *)
FlMask(s) == (IF 1 \in s THEN 1 ELSE 0) + (IF 3 \in s THEN 2 ELSE 0) + (IF 4 \in s THEN 4 ELSE 0)
           + (IF 5 \in s THEN 8 ELSE 0) + (IF 7 \in s THEN 16 ELSE 0) + (IF 9 \in s THEN 32 ELSE 0)
Bit(m, b) == (m \div b) % 2 = 1
UnMask(m) == {f \in FlagCodes : Bit(m, CASE f = 1 -> 1 [] f = 3 -> 2 [] f = 4 -> 4 [] f = 5 -> 8 [] f = 7 -> 16 [] OTHER -> 32)}

\* colours by meaning: palette entries 0..15 are the sixteen basic colours; a bold basic colour 0..7 is shown
\* bright (the emulator stores "bold + red" as "light red, bold"), as in C04's bright-is-bold normalisation
Pal(col) == IF col >= 1000 /\ col < 1016 THEN col - 1000 ELSE col
NormFg(fg, bold) == LET p == Pal(fg) IN IF bold /\ p >= 0 /\ p <= 7 THEN p + 8 ELSE p

\* the bold => bright reading belongs to the eight colours selected by SGR 30-37: a palette index selected by SGR 38;5;n that the
\* emulator also keeps as a palette index is that index and no other, bold or not (index 12 in bold is not index 4 in bold)
Indexed(col) == col >= 1000 /\ col < 1256
FgEq(mfg, mbold, ofg, obold) == IF Indexed(mfg) /\ Indexed(ofg) THEN mfg = ofg ELSE NormFg(mfg, mbold) = NormFg(ofg, obold)

TextEq(m, o) == m.c = o[1] /\ m.p = 0
ColourEq(m, o) == /\ Pal(m.bg) = Pal(o[3])
                  /\ (m.c # 32 => FgEq(m.fg, 1 \in m.fl, o[2], Bit(o[4], 1)))
FlagsEq(m, o) == IF m.c = 32 THEN (m.fl \cap {4, 7, 9}) = (UnMask(o[4]) \cap {4, 7, 9}) ELSE m.fl = UnMask(o[4])
CellEq(m, o, strict) == TextEq(m, o) /\ ColourEq(m, o) /\ (strict => FlagsEq(m, o))

RowEq(mr, orow, strict) == Len(mr) = Len(orow) /\ \A x \in 1..Len(mr) : CellEq(mr[x], orow[x], strict)
ShapeOK(g, w, h) == Len(g) = h /\ \A y \in 1..Len(g) : Len(g[y]) = w
GridTextEq(t, g) == \A y \in 1..t.h : \A x \in 1..t.w : TextEq(t.grid[y][x], g[y][x])
GridEq(t, g, strict) == \A y \in 1..t.h : RowEq(t.grid[y], g[y], strict)
CursorEq(t, cur) == t.cx = cur[1] /\ t.cy = cur[2]
PenEq(t, pen, strict) == /\ Pal(t.pen.bg) = Pal(pen[2])
                         /\ FgEq(t.pen.fg, 1 \in t.pen.fl, pen[1], Bit(pen[3], 1))
                         /\ (strict => t.pen.fl = UnMask(pen[3]))

\* the scrolling region is only visible through later scrolling; comparing it at once also tells the xterm and the
\* console reading of DECSTBM apart when the screen does not
RegionEq(t, reg) == t.top = reg[1] /\ t.bot = reg[2]

\* "kept, in order": every line the reference scrolled off the top is in the emulator's scrollback, in the same
\* order (the emulator may keep more: it also stores lines leaving a region that does not start at the top)
RECURSIVE SubseqFrom(_, _, _, _, _)
SubseqFrom(ms, os, i, j, strict) ==
  IF i > Len(ms) THEN TRUE ELSE IF j > Len(os) THEN FALSE
  ELSE IF RowEq(ms[i], os[j], strict) THEN SubseqFrom(ms, os, i + 1, j + 1, strict)
  ELSE SubseqFrom(ms, os, i, j + 1, strict)
SbEq(t, sb, strict) ==
  IF strict THEN Len(t.sb) = Len(sb) /\ \A i \in 1..Len(sb) : RowEq(t.sb[i], sb[i], TRUE)
  ELSE SubseqFrom(t.sb, sb, 1, 1, FALSE)

\* tab stops and modes, like the region, only show in later behaviour; they are compared at once
\* (tabs = the stops inside the screen, md = <<origin, insert, autowrap, new-line>> as 0 / 1)
B01(b) == IF b THEN 1 ELSE 0
TabsEq(t, tabs) == {x \in t.tabs : x < t.w} = {tabs[i] : i \in 1..Len(tabs)}
ModesOf(t) == <<B01(OM(t)), B01(t.irm), B01(t.wrap), B01(t.lnm)>>
ModesEq(t, md) == ModesOf(t) = md
\* the character set in use shows with the next glyph only (and tells a designation that was carried out from one that was
\* ignored); it is compared at once
CsOf(t) == IF ActiveSet(t) = "0" THEN 1 ELSE 0
CharsetEq(t, cs) == CsOf(t) = cs

Matches(t, o, strict) ==
  /\ ShapeOK(o.g, t.w, t.h) /\ GridEq(t, o.g, strict) /\ CursorEq(t, o.cur)
  /\ SbEq(t, o.sb, strict) /\ PenEq(t, o.pen, strict) /\ RegionEq(t, o.reg)
  /\ TabsEq(t, o.tabs) /\ ModesEq(t, o.md) /\ CharsetEq(t, o.cs)

\* first clause (sentence of the property) on which observation o differs from reference state t
Why(t, o, strict) ==
  IF ~ShapeOK(o.g, t.w, t.h) THEN "grid_is_height_by_width"
  ELSE IF ~GridTextEq(t, o.g) THEN "screen_equals_reference.text"
  ELSE IF ~GridEq(t, o.g, strict) THEN "screen_equals_reference.colour"
  ELSE IF ~CursorEq(t, o.cur) THEN "cursor_equals_reference"
  ELSE IF ~SbEq(t, o.sb, strict) THEN "scrollback_keeps_lines_in_order"
  ELSE IF ~PenEq(t, o.pen, strict) THEN "screen_equals_reference.pen"
  ELSE IF ~RegionEq(t, o.reg) THEN "screen_equals_reference.region"
  ELSE IF ~TabsEq(t, o.tabs) THEN "screen_equals_reference.tabstops"
  ELSE IF ~ModesEq(t, o.md) THEN "screen_equals_reference.modes"
  ELSE IF ~CharsetEq(t, o.cs) THEN "screen_equals_reference.charset"
  ELSE "-"

\* the observation a faithful emulator in state t would give
RECURSIVE SetToSeq(_)
SetToSeq(S) == IF S = {} THEN <<>> ELSE LET m == CHOOSE x \in S : \A y \in S : x <= y IN <<m>> \o SetToSeq(S \ {m})
ObsCell(m) == <<m.c, m.fg, m.bg, FlMask(m.fl)>>
ObsRow(r) == [x \in 1..Len(r) |-> ObsCell(r[x])]
ObsOf(t) == [g |-> [y \in 1..t.h |-> ObsRow(t.grid[y])], cur |-> <<t.cx, t.cy>>,
             sb |-> [i \in 1..Len(t.sb) |-> ObsRow(t.sb[i])], pen |-> <<t.pen.fg, t.pen.bg, FlMask(t.pen.fl)>>,
             reg |-> <<t.top, t.bot>>, tabs |-> SetToSeq({x \in t.tabs : x < t.w}), md |-> ModesOf(t), cs |-> CsOf(t)]

\* after a resize (not part of the listed subset: a VT100 has no resize) the reference adopts what the emulator shows
CellOf(o) == [c |-> o[1], fg |-> o[2], bg |-> o[3], fl |-> UnMask(o[4]), p |-> 0]
RowOf(orow) == [x \in 1..Len(orow) |-> CellOf(orow[x])]
Adopt(t, o, w, h, pend) ==
  [t EXCEPT !.w = w, !.h = h, !.grid = [y \in 1..h |-> RowOf(o.g[y])],
            !.cx = o.cur[1], !.cy = o.cur[2], !.pend = (pend /\ o.cur[1] = w - 1),
            !.top = 0, !.bot = h - 1, !.sb = [i \in 1..Len(o.sb) |-> RowOf(o.sb[i])],
            !.tabs = {o.tabs[i] : i \in 1..Len(o.tabs)}]

\* "Lines scrolled off the top are kept, in order" x "any interleaving of resizes": scrollback and screen read from top to bottom
\* are the same lines before and after a resize - a row is cut or padded with blanks to the new width, blank rows may be added
\* below the last one, nothing else moves.  In particular the rows a taller screen shows above the old ones are the most recent
\* lines of the scrollback in their original order.  (psb, pg: scrollback and screen before the resize, sb, g: after it.)
BlankCell(o) == o[1] = 32
RowKept(old, new) == LET n == Min2(Len(old), Len(new))
                     IN (\A x \in 1..n : new[x] = old[x]) /\ (\A x \in (n + 1)..Len(new) : BlankCell(new[x]))
ResizeKeepsLines(psb, pg, sb, g) ==
  LET pre == psb \o pg   post == sb \o g
  IN /\ Len(post) >= Len(pre)
     /\ \A i \in 1..Len(pre) : RowKept(pre[i], post[i])
     /\ \A i \in (Len(pre) + 1)..Len(post) : \A x \in 1..Len(post[i]) : BlankCell(post[i][x])

\* the view scrolled back by k lines shows the last h rows of (scrollback ++ screen) that end k lines above the bottom
ViewOf(sb, g, k0) ==
  LET all == sb \o g  k == Min2(k0, Len(sb))  n == Len(all)  h == Len(g)
  IN SubSeq(all, n - h - k + 1, n - k)

(* ---------------- shape invariants (both parts) ---------------- *)
CursorInside(cur, w, h) == Len(cur) = 2 /\ cur[1] >= 0 /\ cur[1] < w /\ cur[2] >= 0 /\ cur[2] < h
RegionInside(reg, h) == reg[1] >= 0 /\ reg[1] <= reg[2] /\ reg[2] < h
LensOK(lens, w, h) == Len(lens) = h /\ \A y \in 1..Len(lens) : lens[y] = w

(* ---------------- replies to the hosted program ---------------- *)
RECURSIVE Digits(_)
Digits(n) == IF n < 10 THEN <<48 + n>> ELSE Digits(n \div 10) \o <<48 + (n % 10)>>
DSROK == <<27, 91, 48, 110>>                    \* ESC [ 0 n
DA    == <<27, 91, 63, 54, 99>>                 \* ESC [ ? 6 c   (VT102)
CPR(x, y) == <<27, 91>> \o Digits(y + 1) \o <<59>> \o Digits(x + 1) \o <<82>>   \* ESC [ row ; col R
ReplyOK(r, w, h) == \/ r.s = DSROK
                    \/ r.s = DA
                    \/ (r.x >= 0 /\ r.x < w /\ r.y >= 0 /\ r.y < h /\ r.s = CPR(r.x, r.y))

\* what a query must be answered with in terminal state t.  In origin mode a VT100 reports the row relative to the
\* top margin; the console dialect reports the screen row
Replies(t, c, strict) ==
  CASE c.t = "dsr" -> {DSROK}
    [] c.t = "da"  -> {DA}
    [] c.t = "cpr" -> {CPR(t.cx, t.cy - (IF OM(t) THEN t.top ELSE 0))} \cup (IF strict THEN {} ELSE {CPR(t.cx, t.cy)})
    [] OTHER       -> {}

WellFormedShape(t) ==
  /\ DOMAIN t.grid = 1..t.h /\ \A y \in 1..t.h : DOMAIN t.grid[y] = 1..t.w
  /\ CursorInside(<<t.cx, t.cy>>, t.w, t.h) /\ RegionInside(<<t.top, t.bot>>, t.h)
=============================================================================
